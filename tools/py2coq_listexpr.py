"""Fail-closed translator for the printing of a cover as a formula (tie T
for C08).

Reads the CURRENT source text with `ast` (never imports omega) and turns

  omega/symbolic/_type_hints.py  _clip_subrange, _check_type_hint,
                                 _format_range, _list_type_hints, _list_limits
  omega/logic/syntax.py          vertical_op
  omega/symbolic/orthotopes.py   list_expr
  omega/symbolic/cover.py        dumps_cover

into Gallina (coq/gen/ListExprGen.v; the fixed prelude is HEADER below).
coq/GenProofs/ListExprBridge.v proves the generated terms equal to the
hand-written model coq/theories/L5Cover/ListExpr.v on every run.

Data abstraction (shared with the model)
  a variable name        a number (`var` = nat: its position in the naturally
                         sorted list of names, as in the model)
  an integer             Z;  len(...), widths, indices: nat (subtraction is
                         guarded: None where Python would go negative)
  int or None            option Z
  fol.vars / table       a function var -> hint (record L0Bits.Bits.hint:
                         the entries 'dom', 'width', 'signed');
                         _bitfield_limits is the translated function of
                         gen/BitsGen.v (C18)
  the BDD `cover`        the pair (naturally sorted variables of its support,
                         list of the products fol.pick_iter yields); a product
                         is a function var -> (a, b) (`product[px[x]['a']]`)
  BDD-level values       (f, care, prm, fol.support(..), fol.add_expr(..)) are
                         erased; what the printing reads of them is an extra
                         argument: prm.x_vars, the Boolean
                         _care_implies_type_hints(f, care, fol), `care ==
                         fol.true`
  natsort.natsorted      of names / of formula strings: the Section variables
                         natsorted_names / natsorted_forms
  a formula STRING       a formula TREE (ListExpr.expr), through the fixed
                         template grammar below; every template met is listed
                         in the generated file with the tree it became
  white space            erased (kinds ws / nl / indent / nlindent are
                         tracked so that the junction-list idiom of
                         vertical_op is recognised only when the continuation
                         lines are indented by the width of the bullet)
  comments `(* .. *)`    erased
  `latex`                only latex=False is translated (the branch is
                         resolved statically, with a note)

Template grammar (literal text of f-strings, str.format templates, `+`):
    or    := and ( '\\/' and )*          EOr, left associated
    and   := cmp ( '/\\' cmp )*          EAnd, left associated
    cmp   := term '=' term               ECmp CEq
           | term '<=' term              ECmp CLe
           | term '\\in' term '..' term  EIn
           | prim
    prim  := '(' or ')' | 'TRUE' | 'FALSE' | {hole: formula}
    term  := {hole: variable}  TVar | {hole: int}  TNum
             ({hole: int-or-None}: None is not a number -> the result is None)
  `care expression` (the marker line) is read as TRUE (DESIGN C08).
  ' /\\ '.join(l)  is conj l (None for the empty list: '' is no formula);
  the junction list  nl.join([bullet + first line, indented rest ...])  is
  conj / disj of the items according to the bullet (as TLA+ reads it).

Every function body is a term of type option: None is ANY exception (failed
assert, raise, IndexError, negative nat) or a text outside the formula
fragment.  Statements are compiled in continuation style; an `if` whose
branches fall through and agree on kinds is joined through a tuple, otherwise
the rest of the block is duplicated into the branches.  Nothing is dropped
silently: every skipped statement is a note in the generated file.
"""
import ast
import os
import re
import string
import sys

sys.path.insert(0, os.path.dirname(os.path.abspath(__file__)))
from py2coq import Refuse, _src, _dotted  # noqa: E402

TYH_SRC = 'omega/symbolic/_type_hints.py'
STX_SRC = 'omega/logic/syntax.py'
LAT_SRC = 'omega/symbolic/orthotopes.py'
COV_SRC = 'omega/symbolic/cover.py'
SOURCES = dict(tyh=TYH_SRC, stx=STX_SRC, lat=LAT_SRC, cov=COV_SRC)
MODULES = {'omega.symbolic._type_hints': 'tyh', 'omega.logic.syntax': 'stx',
           'omega.symbolic.orthotopes': 'lat', 'omega.symbolic.cover': 'cov'}


def L(k):
    return ('list', k)


def T(*ks):
    return ('tuple',) + ks


ZZ = T('Z', 'Z')
# function -> (module, [(parameter, kind, default source or None)], result)
SIGS = {
    '_clip_subrange': ('tyh', [('ab', ZZ, None), ('dom', ZZ, None),
                               ('x', 'var', None)], T('oZ', 'oZ')),
    '_check_type_hint': ('tyh', [('a', 'Z', None), ('b', 'Z', None),
                                 ('hint', 'hint', None),
                                 ('var', 'var', None)], 'unit'),
    '_format_range': ('tyh', [('var', 'var', None), ('a', 'Z', None),
                              ('b', 'Z', None)], 'aform'),
    '_list_type_hints': ('tyh', [('variables', L('var'), None),
                                 ('table', 'table', None)], L('form')),
    '_list_limits': ('tyh', [('vrs', L('var'), None),
                             ('table', 'table', None)], L('form')),
    'vertical_op': ('stx', [('c', L('form'), None), ('latex', 'off', 'False'),
                            ('op', 'jop', "'and'"), ('spacing', 'nat', '1')],
                    'form'),
    'list_expr': ('lat', [('cover', 'cover', None), ('prm', 'prm', None),
                          ('fol', 'ctx', None), ('simple', 'bool', 'False'),
                          ('use_dom', 'bool', 'False'),
                          ('latex', 'off', 'False')], L('form')),
    'dumps_cover': ('cov', [('cover', 'cover', None), ('f', 'bdd', None),
                            ('care', 'bdd', None), ('fol', 'ctx', None),
                            ('latex', 'off', 'False'),
                            ('show_dom', 'bool', 'False'),
                            ('show_limits', 'bool', 'False'),
                            ('comment', 'bool', 'True')], 'form'),
}
ORDER = ['_clip_subrange', '_check_type_hint', '_format_range',
         '_list_type_hints', '_list_limits', 'vertical_op', 'list_expr',
         'dumps_cover']
PREFIX = dict(tyh='tyh', stx='stx', lat='lat', cov='cov')
# functions translated elsewhere: name -> (module, Gallina name, parameter
# kinds, result kind); all return option
EXTERNAL = {'_bitfield_limits': ('tyh', 'bitfield_limits', ['hint'], ZZ)}
# extra arguments standing for what the printing reads of BDD-level values
EXTRAS = {'x_vars': ('v_x_vars', 'list var',
                     'prm.x_vars: the variables f or care depend on'),
          'cith': ('v_care_implies_type_hints', 'bool',
                   '_care_implies_type_hints(f, care, fol)'),
          'care_true': ('v_care_is_true', 'bool', 'care == fol.true')}
SKIP_CALLS = ('log.debug', 'log.info', 'log.warning', 'logger.debug',
              'logger.info', 'logger.warning')
FORMS = ('cform', 'aform', 'form')
# kinds without a Gallina value
STATIC = ('ws', 'nl', 'indent', 'nlindent', 'comment', 'names', 'erased',
          'off', 'bdd', 'prm', 'pxmap', 'xpmap', 'cover_support',
          'cover_varset', 'envname', 'none_t')


def comment(s):
    return (s.replace('"', "'").replace('(*', '( *').replace('*)', '* )')
            .replace('\n', ' '))


def is_static(k):
    return k in STATIC or (isinstance(k, tuple) and k[0] in ('fmt', 'int'))


def coq_type(k):
    simple = {'Z': 'Z', 'nat': 'nat', 'bool': 'bool', 'var': 'var',
              'oZ': 'option Z', 'unit': 'unit', 'hint': 'hint',
              'table': 'table', 'product': 'product', 'cover': 'cover',
              'jop': 'jop', 'bullet': 'bullet', 'item': 'item',
              'flines': 'flines', 'blines': 'blines', 'ctx': 'table'}
    if k in FORMS:
        return 'expr'
    if k in simple:
        return simple[k]
    if isinstance(k, tuple):
        if k[0] == 'list':
            if k[1] is None:
                raise Refuse('a list whose element kind is unknown')
            return f'list ({coq_type(k[1])})'
        if k[0] == 'tuple':
            return '(' + ' * '.join(f'({coq_type(x)})' for x in k[1:]) + ')'
        if k[0] == 'int':
            return 'nat'
    raise Refuse(f'no Gallina type for kind {k}')


def join(a, b):
    """Least kind above both."""
    if a is None:
        return b
    if b is None or a == b:
        return a
    if a in FORMS and b in FORMS:
        return FORMS[max(FORMS.index(a), FORMS.index(b))]
    if {a, b} <= {'Z', 'oZ', 'none'}:
        return 'oZ'
    for x, y in ((a, b), (b, a)):
        if isinstance(x, tuple) and x[0] == 'int' and y in ('nat', 'Z'):
            return y
    if isinstance(a, tuple) and isinstance(b, tuple) and a[0] == b[0] \
            and a[0] in ('list', 'tuple') and len(a) == len(b):
        return (a[0],) + tuple(join(x, y) for x, y in zip(a[1:], b[1:]))
    raise Refuse(f'kinds {a} and {b} do not agree')


class V:
    """A translated value: kind, Gallina term (None for static kinds)."""

    def __init__(self, kind, term=None, tag=None):
        self.kind = kind
        self.term = term
        self.tag = tag

    def __repr__(self):
        return f'V({self.kind}, {self.term})'


def coerce(v, want, what='value'):
    """Gallina term of v at kind `want`."""
    k = v.kind
    if k == want or (k in FORMS and want in FORMS
                     and FORMS.index(k) <= FORMS.index(want)):
        return v.term
    if isinstance(k, tuple) and k[0] == 'int':
        if want == 'nat' and k[1] >= 0:
            return f'{k[1]}%nat'
        if want == 'Z':
            return f'({k[1]})%Z'
        if want == 'oZ':
            return f'(Some ({k[1]})%Z)'
    if want == 'oZ':
        if k == 'Z':
            return f'(Some {v.term})'
        if k == 'none':
            return 'None'
    if isinstance(k, tuple) and isinstance(want, tuple) and k[0] == want[0] \
            and len(k) == len(want):
        if k[0] == 'list':
            if k[1] is None:
                return v.term
            if k[1] in FORMS and want[1] in FORMS and \
                    FORMS.index(k[1]) <= FORMS.index(want[1]):
                return v.term
        if k[0] == 'tuple' and isinstance(v.tag, list):
            return '(' + ', '.join(coerce(x, w, what)
                                   for x, w in zip(v.tag, want[1:])) + ')'
    raise Refuse(f'{what}: a value of kind {k} where {want} is expected')


# ---- template grammar ------------------------------------------------------
TOKEN = re.compile(r'\s+|\(|\)|<=|=|\\in|\.\.|/\\|\\/|TRUE|FALSE')
MARKER = 'care expression'
COMMENT_LINE = re.compile(r'^\(\*([^*]|\*(?!\)))*\*\)$')


class Template:
    """Parser of a list of pieces ('lit', text) / ('hole', V)."""

    def __init__(self, pieces, tr):
        self.tr = tr
        self.toks = []
        self.text = ''
        for kind, x in pieces:
            if kind == 'lit':
                self.text += x
                pos = 0
                while pos < len(x):
                    m = TOKEN.match(x, pos)
                    if not m:
                        raise Refuse('text outside the template grammar: '
                                     + repr(x[pos:pos + 20]))
                    if not m.group().isspace():
                        self.toks.append(('t', m.group()))
                    pos = m.end()
            else:
                self.text += '{%s}' % x.kind if isinstance(x.kind, str) \
                    else '{int}'
                self.toks.append(('h', x))
        self.i = 0
        self.binds = []     # [(pattern, option term)]

    def peek(self):
        return self.toks[self.i] if self.i < len(self.toks) else (None, None)

    def eat(self, t):
        if self.peek() != ('t', t):
            raise Refuse(f'template {self.text!r}: {t!r} expected')
        self.i += 1

    def parse(self):
        term, kind = self.p_or()
        if self.i != len(self.toks):
            raise Refuse(f'template {self.text!r}: trailing text')
        return term, kind

    def p_or(self):
        t, k = self.p_and()
        while self.peek() == ('t', '\\/'):
            self.i += 1
            u, _ = self.p_and()
            t, k = f'(EOr {t} {u})', 'form'
        return t, k

    def p_and(self):
        t, k = self.p_cmp()
        while self.peek() == ('t', '/\\'):
            self.i += 1
            u, ku = self.p_cmp()
            k = 'aform' if k != 'form' and ku != 'form' else 'form'
            t = f'(EAnd {t} {u})'
        return t, k

    def is_term(self):
        kind, x = self.peek()
        return kind == 'h' and (x.kind in ('var', 'Z', 'oZ') or
                                (isinstance(x.kind, tuple)
                                 and x.kind[0] == 'int'))

    def p_term(self):
        kind, x = self.peek()
        if not self.is_term():
            raise Refuse(f'template {self.text!r}: a variable or number '
                         'expected')
        self.i += 1
        if x.kind == 'var':
            return f'(TVar {x.term})'
        if x.kind == 'oZ':
            n = self.tr.tmp()
            self.binds.append((n, f'(num_of {x.term})'))
            return f'(TNum {n})'
        return f'(TNum {coerce(x, "Z")})'

    def p_cmp(self):
        if self.is_term():
            s = self.p_term()
            kind, x = self.peek()
            if (kind, x) == ('t', '='):
                self.i += 1
                return f'(ECmp CEq {s} {self.p_term()})', 'aform'
            if (kind, x) == ('t', '<='):
                self.i += 1
                return f'(ECmp CLe {s} {self.p_term()})', 'aform'
            if (kind, x) == ('t', '\\in'):
                self.i += 1
                lo = self.p_term()
                self.eat('..')
                return f'(EIn {s} {lo} {self.p_term()})', 'aform'
            raise Refuse(f'template {self.text!r}: a comparison expected')
        return self.p_prim()

    def p_prim(self):
        kind, x = self.peek()
        if (kind, x) == ('t', '('):
            self.i += 1
            t, _ = self.p_or()
            self.eat(')')
            return t, 'cform'
        if (kind, x) == ('t', 'TRUE'):
            self.i += 1
            return 'ETrue', 'cform'
        if (kind, x) == ('t', 'FALSE'):
            self.i += 1
            return 'EFalse', 'cform'
        if kind == 'h' and x.kind in FORMS:
            self.i += 1
            return x.term, x.kind
        raise Refuse(f'template {self.text!r}: a formula expected')


# ---- the translator --------------------------------------------------------
class Func:
    def __init__(self, name, node, mod):
        self.name = name
        self.node = node
        self.mod = mod
        self.extras = []        # keys of EXTRAS, in order of first use
        self.coq = PREFIX[mod] + '_' + name.lstrip('_')
        self.text = None


class Ctx:
    def __init__(self, ret_kind, loop_end=None):
        self.ret_kind = ret_kind
        self.loop_end = loop_end     # env -> text, inside a loop body


def has_exit(stmts):
    for s in stmts:
        for n in ast.walk(s):
            if isinstance(n, (ast.Return, ast.Raise, ast.Continue,
                              ast.Break)):
                return True
    return False


def assigned_names(stmts):
    """Names (re)bound or changed in place by the statements, in order."""
    out = []

    def add(n):
        if n not in out:
            out.append(n)
    for s in stmts:
        for n in ast.walk(s):
            if isinstance(n, ast.Name) and isinstance(n.ctx, ast.Store):
                add(n.id)
            elif isinstance(n, ast.Call) and \
                    isinstance(n.func, ast.Attribute) and \
                    n.func.attr in ('append', 'extend', 'add', 'update') \
                    and isinstance(n.func.value, ast.Name):
                add(n.func.value.id)
            elif isinstance(n, ast.Subscript) and \
                    isinstance(n.ctx, ast.Store) and \
                    isinstance(n.value, ast.Name):
                add(n.value.id)
    return out


class Tr:
    def __init__(self, repo):
        self.trees, self.aliases, self.found = {}, {}, {}
        for mod, rel in SOURCES.items():
            with open(os.path.join(repo, rel)) as f:
                tree = ast.parse(f.read())
            self.trees[mod] = tree
            al = {}
            for n in tree.body:
                if isinstance(n, ast.Import):
                    for a in n.names:
                        if a.name in MODULES and a.asname:
                            al[a.asname] = MODULES[a.name]
                        elif a.name == 'natsort':
                            al[a.asname or 'natsort'] = 'natsort'
            self.aliases[mod] = al
            self.found[mod] = {n.name: n for n in tree.body
                               if isinstance(n, ast.FunctionDef)}
        self.funcs = {}
        self.notes = []
        self.templates = []
        self.n = 0
        self.cur = None

    # -- bookkeeping
    def note(self, s):
        s = f'{self.cur.name}: {s}' if self.cur else s
        if s not in self.notes:
            self.notes.append(s)

    def template(self, text, term):
        e = (text.replace('\n', '\\n'), re.sub(r't\d+_', 'n', term))
        if e not in self.templates:
            self.templates.append(e)

    def tmp(self):
        self.n += 1
        return f't{self.n}_'

    def extra(self, key):
        if key not in self.cur.extras:
            self.cur.extras.append(key)
        return EXTRAS[key][0]

    @staticmethod
    def wrap(pre, text):
        for pat, opt in reversed(pre):
            text = (f'match {opt} with\n| Some {pat} =>\n{text}\n'
                    '| None => None\nend')
        return text

    # -- functions
    def translate_function(self, name):
        mod, params, ret = SIGS[name]
        node = self.found[mod].get(name)
        if node is None:
            raise Refuse(f'{SOURCES[mod]}: function {name} not found')
        a = node.args
        if a.vararg or a.kwarg or a.kwonlyargs or a.posonlyargs:
            raise Refuse(f'{name}: unsupported parameter list')
        names = [x.arg for x in a.args]
        if names != [p for p, _, _ in params]:
            raise Refuse(f'{name}: parameters {names}, expected '
                         f'{[p for p, _, _ in params]}')
        defaults = [None] * (len(names) - len(a.defaults)) + \
            [_src(d) for d in a.defaults]
        if defaults != [d for _, _, d in params]:
            raise Refuse(f'{name}: default values {defaults} changed')
        fi = Func(name, node, mod)
        self.cur = fi
        env, gparams = {}, []
        for p, k, _ in params:
            v = V(k, None, tag=p)
            if not is_static(k):
                v.term = 'v_' + p + ('_vars' if k == 'ctx' else '')
                gparams.append(f'({v.term} : {coq_type(k)})')
            v.frozen = True
            env[p] = v
        body = list(node.body)
        if body and isinstance(body[0], ast.Expr) and \
                isinstance(body[0].value, ast.Constant) and \
                isinstance(body[0].value.value, str):
            body = body[1:]
        ctx = Ctx(ret)

        def end(e):
            if ret != 'unit':
                raise Refuse(f'{name}: control reaches the end of the '
                             'function without `return`')
            return 'Some tt'
        text = self.block(body, env, ctx, end)
        for key in fi.extras:
            gparams.append(f'({EXTRAS[key][0]} : {EXTRAS[key][1]})')
        fi.text = (f'(* {SOURCES[mod]} : {name}, line {node.lineno} *)\n'
                   f'Definition {fi.coq} {" ".join(gparams)}\n'
                   f'    : option ({coq_type(ret)}) :=\n{text}.\n')
        self.funcs[name] = fi
        self.cur = None
        return fi

    # -- statements
    def block(self, stmts, env, ctx, k):
        if not stmts:
            return k(env)
        s, rest = stmts[0], stmts[1:]

        def kk(e):
            return self.block(rest, e, ctx, k)
        if isinstance(s, ast.Return):
            if s.value is None:
                raise Refuse('bare return')
            pre = []
            v = self.expr(s.value, env, pre)
            if v.kind == ('fmt',) or (isinstance(v.kind, tuple)
                                      and v.kind[0] == 'fmt'):
                v = self.use_str(v, pre)
            return self.wrap(pre, f'Some {coerce(v, ctx.ret_kind, "return")}')
        if isinstance(s, ast.Raise):
            return 'None'
        if isinstance(s, ast.Continue):
            if ctx.loop_end is None:
                raise Refuse('continue outside a loop')
            return ctx.loop_end(env)
        if isinstance(s, ast.Pass):
            return kk(env)
        if isinstance(s, ast.Assert):
            pre = []
            c = self.cond(s.test, env, pre)
            if c is None:
                self.note('assertion not translated (BDD-level): '
                          + comment(_src(s.test)))
                return kk(env)
            return self.wrap(pre, f'if {c} then\n{kk(env)}\nelse None')
        if isinstance(s, ast.Expr):
            return self.expr_stmt(s, env, kk)
        if isinstance(s, ast.Assign):
            return self.assign(s, env, kk)
        if isinstance(s, ast.If):
            return self.if_stmt(s, env, ctx, kk)
        if isinstance(s, ast.For):
            return self.for_stmt(s, env, ctx, kk)
        raise Refuse(f'line {s.lineno}: unsupported statement '
                     f'{type(s).__name__}')

    def only_skips(self, stmts):
        for s in stmts:
            if not (isinstance(s, ast.Expr) and isinstance(s.value, ast.Call)
                    and _dotted(s.value.func) in SKIP_CALLS):
                return False
        return True

    def bind(self, env, name, v):
        env = dict(env)
        env[name] = v
        return env

    def let(self, env, name, v, kk):
        """Bind a Python name to v and continue."""
        if is_static(v.kind) or v.kind in ('param', 'pxentry', 'fline0',
                                           'bulletlen', 'iter', 'pack',
                                           'zipped', 'none'):
            return kk(self.bind(env, name, v))
        nv = V(v.kind, 'v_' + name,
               tag=v.tag if v.kind in ('blines', 'bullet') else None)
        if isinstance(v.kind, tuple) and v.kind[0] == 'list':
            nv.frozen = getattr(v, 'alias', False)
        return (f'let v_{name} := {v.term} in\n'
                + kk(self.bind(env, name, nv)))

    def expr_stmt(self, s, env, kk):
        e = s.value
        if isinstance(e, ast.Constant):
            return kk(env)
        if not isinstance(e, ast.Call):
            raise Refuse(f'line {s.lineno}: expression statement')
        d = _dotted(e.func)
        if d in SKIP_CALLS:
            self.note('logging skipped')
            return kk(env)
        if isinstance(e.func, ast.Attribute) and \
                e.func.attr in ('append', 'extend') and \
                isinstance(e.func.value, ast.Name):
            name = e.func.value.id
            lv = self.lookup(env, name)
            if not (isinstance(lv.kind, tuple) and lv.kind[0] == 'list'):
                raise Refuse(f'line {s.lineno}: {e.func.attr} on a '
                             f'{lv.kind}')
            if getattr(lv, 'frozen', False):
                raise Refuse(f'line {s.lineno}: in-place change of `{name}`, '
                             'which is a parameter or has an alias')
            if len(e.args) != 1 or e.keywords:
                raise Refuse(f'line {s.lineno}: arguments of {e.func.attr}')
            pre = []
            x = self.expr(e.args[0], env, pre)
            x = self.use_str(x, pre)
            if isinstance(e.args[0], ast.Name) and \
                    isinstance(x.kind, tuple) and x.kind[0] == 'list':
                # the appended / extended list is now shared
                x.frozen = True
                env = self.bind(env, e.args[0].id, x)
            if e.func.attr == 'append':
                k = ('list', join(lv.kind[1], x.kind))
                t = f'({lv.term} ++ [{x.term}])'
            else:
                k = join(lv.kind, x.kind)
                t = f'({lv.term} ++ {x.term})'
            nv = V(k, t)
            return self.wrap(pre, self.let(env, name, nv, kk))
        # a call for its exceptions only
        pre = []
        v = self.expr(e, env, pre)
        if v.kind not in ('unit',):
            raise Refuse(f'line {s.lineno}: the value of the call is dropped')
        return self.wrap(pre, kk(env))

    def assign(self, s, env, kk):
        if len(s.targets) != 1:
            raise Refuse(f'line {s.lineno}: chained assignment')
        t = s.targets[0]
        pre = []
        if isinstance(t, ast.Subscript):
            # t[0] = f'{pref}{t[0]}'
            if not (isinstance(t.value, ast.Name)
                    and isinstance(t.slice, ast.Constant)
                    and t.slice.value == 0):
                raise Refuse(f'line {s.lineno}: store into a subscript')
            lv = self.lookup(env, t.value.id)
            v = self.expr(s.value, env, pre)
            if lv.kind != 'flines' or v.kind != 'bline0' or \
                    v.tag[1] != lv.term:
                raise Refuse(f'line {s.lineno}: only the first line of a '
                             'split formula may be replaced, by '
                             'bullet + itself')
            nv = V('blines', f'(bullet_first {v.tag[0]} {lv.term})',
                   tag=v.tag[0])
            return self.wrap(pre, self.let(env, t.value.id, nv, kk))
        v = self.expr(s.value, env, pre)
        if isinstance(v.kind, tuple) and v.kind[0] == 'fmt' and \
                '{' not in v.kind[1]:
            # operator texts / white space are classified at once; a text
            # that may be a str.format template stays a constant
            c = self.classify_lit(v.kind[1]) if v.kind[1] else None
            if c is not None and c.kind in ('bullet', 'jop', 'infix', 'ws',
                                            'nl', 'envname'):
                v = c
        if isinstance(t, ast.Name):
            if isinstance(s.value, ast.Name) and isinstance(v.kind, tuple) \
                    and v.kind[0] == 'list':
                # alias: neither name may be changed in place afterwards
                v.frozen = True
                env = self.bind(env, s.value.id, v)
                v = V(v.kind, v.term)
                v.alias = True
            return self.wrap(pre, self.let(env, t.id, v, kk))
        if isinstance(t, ast.Tuple) and all(isinstance(x, ast.Name)
                                            for x in t.elts):
            parts = self.untuple(v, len(t.elts))
            names = [x.id for x in t.elts]
            if all(is_static(p.kind) or p.kind == 'none' for p in parts):
                for n, p in zip(names, parts):
                    env = self.bind(env, n, p)
                return self.wrap(pre, kk(env))
            pat = ', '.join('v_' + n for n in names)
            for n, p in zip(names, parts):
                env = self.bind(env, n, V(p.kind, 'v_' + n))
            val = v.term if v.term is not None else \
                '(' + ', '.join(p.term for p in parts) + ')'
            return self.wrap(pre, f"let '({pat}) := {val} in\n" + kk(env))
        raise Refuse(f'line {s.lineno}: assignment target')

    def untuple(self, v, n=None):
        if not (isinstance(v.kind, tuple) and v.kind[0] == 'tuple'):
            raise Refuse(f'a tuple expected, got {v.kind}')
        if n is not None and len(v.kind) - 1 != n:
            raise Refuse('tuple length')
        if isinstance(v.tag, list):
            return list(v.tag)
        if len(v.kind) == 3:
            return [V(v.kind[1], f'(fst {v.term})'),
                    V(v.kind[2], f'(snd {v.term})')]
        raise Refuse('tuple of unknown components')

    def lookup(self, env, name):
        if name not in env:
            raise Refuse(f'name `{name}` is not bound here')
        return env[name]

    def if_stmt(self, s, env, ctx, kk):
        # `if latex:` is resolved statically
        if isinstance(s.test, ast.Name) and s.test.id in env and \
                env[s.test.id].kind == 'off':
            self.note(f'`if {s.test.id}:` (line {s.lineno}) resolved to '
                      f'False: only {s.test.id}=False is translated')
            return self.block(s.orelse, env, ctx, kk)
        if self.only_skips(s.body) and self.only_skips(s.orelse):
            self.note(f'`if {comment(_src(s.test))}` only logs: skipped')
            return kk(env)
        pre = []
        c = self.cond(s.test, env, pre)
        if c is None:
            raise Refuse(f'line {s.lineno}: condition on a BDD-level value')
        body = [] if self.only_skips(s.body) else s.body
        orelse = [] if self.only_skips(s.orelse) else s.orelse
        if (s.body and not body) or (s.orelse and not orelse):
            self.note('logging skipped')
        if not has_exit(body) and not has_exit(orelse):
            r = self.if_join(c, body, orelse, env, ctx, kk)
            if r is not None:
                return self.wrap(pre, r)
        tb = self.block(body, env, ctx, kk)
        to = self.block(orelse, env, ctx, kk)
        return self.wrap(pre, f'if {c} then\n{tb}\nelse\n{to}')

    def if_join(self, c, body, orelse, env, ctx, kk):
        cap = []

        def probe(e):
            cap.append(e)
            return 'PROBE'
        self.block(body, env, ctx, probe)
        self.block(orelse, env, ctx, probe)
        if len(cap) != 2:
            return None
        eb, eo = cap
        names, kinds, out = [], [], dict(env)
        for n in assigned_names(body + orelse):
            if n not in eb or n not in eo:
                out.pop(n, None)
                continue
            a, b = eb[n], eo[n]
            if a.kind == b.kind and a.term == b.term and \
                    (is_static(a.kind) or a is b):
                out[n] = a
                continue
            try:
                k = join(a.kind, b.kind)
                if is_static(k) or a.term is None or b.term is None:
                    return None
                coq_type(k)
            except Refuse:
                return None
            names.append(n)
            kinds.append(k)
        if not names:
            return None

        def leaf(e):
            ts = [coerce(e[n], k) for n, k in zip(names, kinds)]
            return 'Some ' + (ts[0] if len(ts) == 1
                              else '(' + ', '.join(ts) + ')')
        tb = self.block(body, env, ctx, leaf)
        to = self.block(orelse, env, ctx, leaf)
        for n, k in zip(names, kinds):
            out[n] = V(k, 'v_' + n)
        pat = 'v_' + names[0] if len(names) == 1 else \
            "(" + ', '.join('v_' + n for n in names) + ')'
        return (f'match (if {c} then\n{tb}\nelse\n{to}) with\n'
                f'| Some {pat} =>\n{kk(out)}\n| None => None\nend')

    def for_stmt(self, s, env, ctx, kk):
        if s.orelse:
            raise Refuse(f'line {s.lineno}: for/else')
        pre = []
        it = self.expr(s.iter, env, pre)
        if not (isinstance(it.kind, tuple) and it.kind[0] == 'list'
                and it.kind[1] is not None):
            raise Refuse(f'line {s.lineno}: iteration over a {it.kind}')
        if not isinstance(s.target, ast.Name):
            raise Refuse(f'line {s.lineno}: loop target')
        x = s.target.id
        state = [n for n in assigned_names(s.body) if n in env and n != x]
        for n in state:
            if is_static(env[n].kind):
                raise Refuse(f'line {s.lineno}: `{n}` ({env[n].kind}) is '
                             'changed in a loop')
        kinds = [env[n].kind for n in state]
        for _ in range(4):
            cap = []
            inner = dict(env)
            inner[x] = V(it.kind[1], 'v_' + x)
            for n, k in zip(state, kinds):
                inner[n] = V(k, 'v_' + n)

            def end(e):
                cap.append([e[n].kind for n in state])
                ts = [coerce(e[n], k) for n, k in zip(state, kinds)]
                return 'Some ' + ('tt' if not ts else ts[0] if len(ts) == 1
                                  else '(' + ', '.join(ts) + ')')
            try:
                body = self.block(s.body, inner, Ctx(ctx.ret_kind, end), end)
                new = kinds
            except Refuse:
                if not cap:
                    raise
                body = None
            new = list(kinds)
            for ks in cap:
                new = [join(a, b) for a, b in zip(new, ks)]
            if body is not None and new == kinds:
                break
            kinds = new
        else:
            raise Refuse(f'line {s.lineno}: kinds of the loop state do not '
                         'stabilise')
        if has_exit([n for st in s.body for n in ast.walk(st)
                     if isinstance(n, (ast.Return, ast.Break))]):
            raise Refuse(f'line {s.lineno}: return/break inside a loop')
        if not state:
            spat, init, opat = '_', 'tt', '_'
        elif len(state) == 1:
            spat = opat = 'v_' + state[0]
            init = coerce(env[state[0]], kinds[0])
        else:
            tup = ', '.join('v_' + n for n in state)
            spat, opat = f"'({tup})", f"({tup})"
            init = '(' + ', '.join(coerce(env[n], k)
                                   for n, k in zip(state, kinds)) + ')'
        out = dict(env)
        for n, k in zip(state, kinds):
            out[n] = V(k, 'v_' + n)
        text = (f'match for_ {it.term} (fun {spat} v_{x} =>\n{body})\n'
                f'  {init} with\n| Some {opat} =>\n{kk(out)}\n'
                '| None => None\nend')
        return self.wrap(pre, text)

    # -- expressions
    def cond(self, e, env, pre):
        """Gallina bool of a condition; None if it is BDD-level."""
        v = self.expr(e, env, pre)
        return self.truth(v)

    def truth(self, v):
        if v.kind == 'bool':
            return v.term
        if isinstance(v.kind, tuple) and v.kind[0] == 'list':
            return f'(negb (is_nil {v.term}))'
        if v.kind in ('erased', 'bdd', 'names'):
            return None
        raise Refuse(f'truth value of a {v.kind}')

    def num_kind(self, v):
        if v.kind in ('Z', 'nat'):
            return v.kind
        if isinstance(v.kind, tuple) and v.kind[0] == 'int':
            return 'int'
        return None

    def is_strish(self, v):
        return v.kind in FORMS or v.kind in (
            'ws', 'nl', 'indent', 'nlindent', 'comment', 'bullet', 'fline0',
            'names') or (isinstance(v.kind, tuple) and v.kind[0] == 'fmt')

    def use_str(self, v, pre):
        """A string constant that is consumed as it stands."""
        if isinstance(v.kind, tuple) and v.kind[0] == 'fmt':
            return self.finish([('lit', v.kind[1])], pre)
        return v

    def classify_lit(self, text):
        if text == '':
            raise Refuse('the empty string')
        if text.isspace():
            return V('nl' if '\n' in text else 'ws')
        if text in ('and', 'or'):
            return V('jop', 'JAnd' if text == 'and' else 'JOr')
        if text in ('conj', 'disj'):
            self.note(f'the string {text!r} (name of a LaTeX environment) '
                      'is used only when latex=True: erased')
            return V('envname')
        core = text.strip(' ')
        if core in ('/\\', '\\/'):
            op = 'And' if core == '/\\' else 'Or'
            if text == core + ' ':
                return V('bullet', 'Bul' + op, tag=len(text))
            if text == ' ' + core + ' ':
                return V('infix', 'J' + op)
            raise Refuse(f'operator text {text!r}')
        if text == MARKER:
            self.template(text, 'ETrue   (the marker line, DESIGN C08)')
            return V('cform', 'ETrue')
        lines = text.split('\n')
        if all(COMMENT_LINE.match(x) for x in lines):
            return V('comment')
        return None

    def finish(self, pieces, pre):
        """Classify a string built from literal text and holes."""
        ps = []
        for kind, x in pieces:
            if kind == 'hole' and isinstance(x.kind, tuple) \
                    and x.kind[0] == 'fmt':
                kind, x = 'lit', x.kind[1]
            if kind == 'lit' and ps and ps[-1][0] == 'lit':
                ps[-1] = ('lit', ps[-1][1] + x)
            elif kind == 'lit' and x == '':
                continue
            else:
                ps.append((kind, x))
        if not ps:
            raise Refuse('the empty string')
        if len(ps) == 1 and ps[0][0] == 'lit':
            v = self.classify_lit(ps[0][1])
            if v is not None:
                return v
        holes = [x for k, x in ps if k == 'hole']
        WS = ('ws', 'nl', 'indent', 'nlindent')
        if all((k == 'lit' and x.isspace()) or (k == 'hole' and x.kind in WS)
               for k, x in ps):
            if len(ps) == 2 and ps[0][0] == 'lit' and ps[0][1] \
                    and set(ps[0][1]) == {'\n'} and ps[1][0] == 'hole' \
                    and ps[1][1].kind == 'indent':
                return V('nlindent', tag=ps[1][1].tag)
            nl = any(('\n' in x) if k == 'lit' else
                     x.kind in ('nl', 'nlindent') for k, x in ps)
            return V('nl' if nl else 'ws')
        if len(ps) == 2 and all(k == 'hole' for k, _ in ps) and \
                ps[0][1].kind == 'bullet' and ps[1][1].kind == 'fline0':
            return V('bline0', tag=(ps[0][1].term, ps[1][1].term))
        if len(ps) == 3 and ps[0][0] == 'hole' and \
                ps[0][1].kind == 'comment' and ps[1][0] == 'lit' and \
                ps[1][1].isspace() and '\n' in ps[1][1] and \
                ps[2][0] == 'hole' and ps[2][1].kind in FORMS:
            self.template('{comment}\\n{formula}', 'with_comment {formula}')
            return V(ps[2][1].kind, f'(with_comment {ps[2][1].term})')
        if all(k == 'lit' or x.kind == 'names' for k, x in ps):
            text = ''.join(x if k == 'lit' else 'NAMES' for k, x in ps)
            if all(COMMENT_LINE.match(x) for x in text.split('\n')):
                return V('comment')
        t = Template(ps, self)
        term, kind = t.parse()
        pre.extend(t.binds)
        self.template(t.text, term)
        return V(kind, term)

    def pieces(self, e, env, pre):
        """Pieces of a string-valued expression, or None."""
        if isinstance(e, ast.Constant) and isinstance(e.value, str):
            return [('lit', e.value)]
        if isinstance(e, ast.JoinedStr):
            out = []
            for x in e.values:
                if isinstance(x, ast.Constant):
                    out.append(('lit', x.value))
                elif isinstance(x, ast.FormattedValue) and \
                        x.conversion == -1 and x.format_spec is None:
                    out.append(('hole', self.expr(x.value, env, pre)))
                else:
                    raise Refuse('f-string with conversion / format spec')
            return out
        if isinstance(e, ast.BinOp) and isinstance(e.op, ast.Add):
            a = self.pieces(e.left, env, pre)
            if a is None:
                return None
            b = self.pieces(e.right, env, pre)
            if b is None:
                v = self.expr(e.right, env, pre)
                if not self.is_strish(v):
                    raise Refuse('`+` of a string and something else')
                b = [('hole', v)]
            return a + b
        if isinstance(e, ast.Call) and isinstance(e.func, ast.Attribute) \
                and e.func.attr == 'format':
            r = self.expr(e.func.value, env, pre)
            if not (isinstance(r.kind, tuple) and r.kind[0] == 'fmt'):
                raise Refuse('.format on a string that is not a constant')
            if e.args:
                raise Refuse('.format with positional arguments')
            kw = {}
            for k in e.keywords:
                if k.arg is None:
                    raise Refuse('.format(**kw)')
                kw[k.arg] = self.expr(k.value, env, pre)
            out = []
            for lit, field, spec, conv in string.Formatter().parse(r.kind[1]):
                if lit:
                    out.append(('lit', lit))
                if field is None:
                    continue
                if spec or conv or field not in kw:
                    raise Refuse(f'format field {{{field}}}')
                out.append(('hole', kw[field]))
            return out
        if isinstance(e, ast.Name) and e.id in env and \
                self.is_strish(env[e.id]):
            return [('hole', env[e.id])]
        return None

    def expr(self, e, env, pre):
        if isinstance(e, ast.Constant):
            c = e.value
            if c is None:
                return V('none', 'None')
            if isinstance(c, bool):
                return V('bool', 'true' if c else 'false')
            if isinstance(c, int):
                return V(('int', c))
            if isinstance(c, str):
                return V(('fmt', c))
            raise Refuse(f'constant {c!r}')
        if isinstance(e, ast.Name):
            return self.lookup(env, e.id)
        if isinstance(e, (ast.JoinedStr,)) or (
                isinstance(e, ast.Call) and isinstance(e.func, ast.Attribute)
                and e.func.attr == 'format'):
            return self.finish(self.pieces(e, env, pre), pre)
        if isinstance(e, ast.Tuple):
            vs = [self.expr(x, env, pre) for x in e.elts]
            ks = tuple(v.kind for v in vs)
            term = None
            if all(v.term is not None for v in vs):
                term = '(' + ', '.join(v.term for v in vs) + ')'
            return V(('tuple',) + ks, term, tag=vs)
        if isinstance(e, ast.List) and not e.elts:
            return V(('list', None), '[]')
        if isinstance(e, ast.Attribute):
            return self.attribute(e, env, pre)
        if isinstance(e, ast.Subscript):
            return self.subscript(e, env, pre)
        if isinstance(e, ast.Call):
            return self.call(e, env, pre)
        if isinstance(e, ast.Compare):
            return self.compare(e, env, pre)
        if isinstance(e, ast.BoolOp):
            return self.boolop(e, env, pre)
        if isinstance(e, ast.UnaryOp):
            v = self.expr(e.operand, env, pre)
            if isinstance(e.op, ast.Not):
                t = self.truth(v)
                return V('erased') if t is None else V('bool', f'(negb {t})')
            if isinstance(e.op, ast.USub):
                nk = self.num_kind(v)
                if nk == 'int':
                    return V(('int', -v.kind[1]))
                if nk == 'Z':
                    return V('Z', f'(- {v.term})')
            if isinstance(e.op, ast.Invert) and v.kind in ('bdd', 'erased'):
                return V('erased')
            raise Refuse(f'unary operator on a {v.kind}')
        if isinstance(e, ast.BinOp):
            return self.binop(e, env, pre)
        if isinstance(e, ast.IfExp):
            c = self.cond(e.test, env, pre)
            if c is None:
                raise Refuse('conditional expression on a BDD-level value')
            p1, p2 = [], []
            a = self.use_str(self.expr(e.body, env, p1), p1)
            b = self.use_str(self.expr(e.orelse, env, p2), p2)
            if p1 or p2:
                raise Refuse('a conditional expression whose branch may '
                             'raise')
            if is_static(a.kind) and a.kind == b.kind and \
                    not isinstance(a.kind, tuple):
                return V(a.kind, tag=a.tag)
            k = join(a.kind, b.kind)
            v = V(k, f'(if {c} then {coerce(a, k)} else {coerce(b, k)})')
            if k == 'bullet':
                if a.tag != b.tag:
                    raise Refuse('bullets of different widths')
                v.tag = a.tag
            return v
        if isinstance(e, ast.ListComp):
            return self.listcomp(e, env, pre)
        if isinstance(e, ast.SetComp):
            if len(e.generators) == 1 and not e.generators[0].ifs:
                it = self.expr(e.generators[0].iter, env, pre)
                g = e.generators[0]
                if it.kind == 'cover_support' and \
                        isinstance(e.elt, ast.Subscript) and \
                        isinstance(e.elt.value, ast.Name) and \
                        isinstance(g.target, ast.Name) and \
                        isinstance(e.elt.slice, ast.Name) and \
                        e.elt.slice.id == g.target.id and \
                        self.lookup(env, e.elt.value.id).kind == 'xpmap':
                    return V('cover_varset', tag=it.tag)
            raise Refuse('set comprehension')
        raise Refuse(f'unsupported expression {type(e).__name__}: '
                     + _src(e)[:60])

    def attribute(self, e, env, pre):
        if isinstance(e.value, ast.Name) and e.value.id in env:
            b = env[e.value.id]
            if b.kind == 'ctx' and e.attr == 'vars':
                return V('table', b.term)
            if b.kind == 'ctx' and e.attr in ('true', 'false'):
                return V('bdd', tag='fol.' + e.attr)
            if b.kind == 'prm' and e.attr == 'x_vars':
                return V(L('var'), self.extra('x_vars'))
            if b.kind == 'prm' and e.attr == '_px':
                return V('pxmap')
        raise Refuse('attribute ' + _src(e))

    def subscript(self, e, env, pre):
        b = self.expr(e.value, env, pre)
        sl = e.slice
        if isinstance(sl, ast.Slice):
            if not (isinstance(b.kind, tuple) and b.kind[0] == 'list') \
                    or sl.step is not None:
                raise Refuse('slice of a ' + str(b.kind))
            lo = self.expr(sl.lower, env, pre) if sl.lower else None
            hi = self.expr(sl.upper, env, pre) if sl.upper else None
            for x in (lo, hi):
                if x is not None and (self.num_kind(x) not in ('nat', 'int')
                                      or (self.num_kind(x) == 'int'
                                          and x.kind[1] < 0)):
                    raise Refuse('slice bound that is not a natural number')
            if lo is None and hi is None:
                raise Refuse('copy slice')
            if lo is None:
                t = f'(firstn {coerce(hi, "nat")} {b.term})'
            elif hi is None:
                t = f'(skipn {coerce(lo, "nat")} {b.term})'
            else:
                t = (f'(slice {b.term} {coerce(lo, "nat")} '
                     f'{coerce(hi, "nat")})')
            return V(b.kind, t)
        if b.kind == 'table':
            x = self.expr(sl, env, pre)
            return V('hint', f'({b.term} {coerce(x, "var")})')
        if b.kind == 'hint' and isinstance(sl, ast.Constant):
            f = {'dom': ('h_dom', ZZ), 'width': ('h_width', 'Z'),
                 'signed': ('h_signed', 'bool')}.get(sl.value)
            if f is None:
                raise Refuse(f'entry {sl.value!r} of a type hint')
            return V(f[1], f'({f[0]} {b.term})')
        if isinstance(b.kind, tuple) and b.kind[0] == 'tuple' and \
                isinstance(sl, ast.Constant) and isinstance(sl.value, int) \
                and 0 <= sl.value < len(b.kind) - 1:
            return self.untuple(b)[sl.value]
        if b.kind == 'pxmap':
            x = self.expr(sl, env, pre)
            return V('pxentry', tag=coerce(x, 'var'))
        if b.kind == 'pxentry' and isinstance(sl, ast.Constant) and \
                sl.value in ('a', 'b'):
            return V('param', tag=(b.tag, sl.value))
        if b.kind == 'product':
            x = self.expr(sl, env, pre)
            if x.kind != 'param':
                raise Refuse('a product is indexed by px[x][..] only')
            return V('Z', f'(prod_{x.tag[1]} {b.term} {x.tag[0]})')
        if b.kind == 'flines' and isinstance(sl, ast.Constant) and \
                sl.value == 0:
            return V('fline0', b.term)
        if isinstance(b.kind, tuple) and b.kind[0] == 'list' and \
                isinstance(sl, ast.Constant) and isinstance(sl.value, int) \
                and sl.value >= 0:
            n = self.tmp()
            pre.append((n, f'(nth_error {b.term} {sl.value}%nat)'))
            return V(b.kind[1], n)
        raise Refuse('subscript ' + _src(e))

    def boolop(self, e, env, pre):
        vs = []
        for i, x in enumerate(e.values):
            p = [] if i else pre
            v = self.expr(x, env, p)
            if i and p:
                raise Refuse('an operand of and/or that may raise')
            vs.append(self.truth(v))
        if any(t is None for t in vs):
            return V('erased')
        f = 'andb' if isinstance(e.op, ast.And) else 'orb'
        t = vs[-1]
        for x in reversed(vs[:-1]):
            t = f'({f} {x} {t})'
        return V('bool', t)

    def compare(self, e, env, pre):
        if len(e.ops) != 1:
            raise Refuse('chained comparison')
        op = e.ops[0]
        a = self.expr(e.left, env, pre)
        # membership in a set of constants
        if isinstance(op, (ast.In, ast.NotIn)):
            r = e.comparators[0]
            if a.kind == 'jop' and isinstance(r, (ast.Set, ast.Tuple,
                                                  ast.List)):
                xs = [self.use_str(self.expr(x, env, pre), pre)
                      for x in r.elts]
                if not all(x.kind == 'jop' for x in xs):
                    raise Refuse('membership among ' + _src(r))
                t = f'(jop_in {a.term} [{"; ".join(x.term for x in xs)}])'
                if isinstance(op, ast.NotIn):
                    t = f'(negb {t})'
                return V('bool', t)
            raise Refuse('membership test ' + _src(e))
        b = self.use_str(self.expr(e.comparators[0], env, pre), pre)
        a = self.use_str(a, pre)
        if isinstance(op, (ast.Is, ast.IsNot)):
            if b.kind != 'none':
                raise Refuse('`is` with something other than None')
            if a.kind == 'oZ':
                t = f'(is_none {a.term})'
            elif a.kind == 'none':
                t = 'true'
            elif a.kind == 'Z':
                t = 'false'
            else:
                raise Refuse(f'`is None` on a {a.kind}')
            return V('bool', f'(negb {t})' if isinstance(op, ast.IsNot)
                     else t)
        neg = isinstance(op, ast.NotEq)
        if a.kind in ('bdd', 'erased') or b.kind in ('bdd', 'erased'):
            if isinstance(op, (ast.Eq, ast.NotEq)) and a.kind == 'bdd' and \
                    a.tag == 'care' and b.tag == 'fol.true':
                t = self.extra('care_true')
                return V('bool', f'(negb {t})' if neg else t)
            return V('erased')
        if a.kind == 'jop' and b.kind == 'jop' and \
                isinstance(op, (ast.Eq, ast.NotEq)):
            t = f'(jop_eqb {a.term} {b.term})'
            return V('bool', f'(negb {t})' if neg else t)
        if {a.kind, b.kind} & {'oZ', 'none'} and \
                isinstance(op, (ast.Eq, ast.NotEq)):
            t = f'(oZ_eqb {coerce(a, "oZ")} {coerce(b, "oZ")})'
            return V('bool', f'(negb {t})' if neg else t)
        ka, kb = self.num_kind(a), self.num_kind(b)
        if ka is None or kb is None:
            raise Refuse(f'comparison of {a.kind} and {b.kind}')
        if 'Z' in (ka, kb):
            x, y = coerce(a, 'Z'), coerce(b, 'Z')
            eq, lt, le = 'Z.eqb', 'Z.ltb', 'Z.leb'
        else:
            x, y = coerce(a, 'nat'), coerce(b, 'nat')
            eq, lt, le = 'Nat.eqb', 'Nat.ltb', 'Nat.leb'
        t = {ast.Eq: f'({eq} {x} {y})', ast.NotEq: f'(negb ({eq} {x} {y}))',
             ast.Lt: f'({lt} {x} {y})', ast.LtE: f'({le} {x} {y})',
             ast.Gt: f'({lt} {y} {x})', ast.GtE: f'({le} {y} {x})'
             }.get(type(op))
        if t is None:
            raise Refuse('comparison operator')
        return V('bool', t)

    def binop(self, e, env, pre):
        if isinstance(e.op, ast.Add):
            ps = self.pieces(e, env, pre)
            if ps is not None:
                return self.finish(ps, pre)
        a = self.expr(e.left, env, pre)
        if isinstance(e.op, ast.Mult) and isinstance(e.right, ast.List) \
                and len(e.right.elts) == 1 and \
                self.num_kind(a) in ('nat', 'int'):
            # width * [i]  with  i = iter(l)
            i = self.expr(e.right.elts[0], env, pre)
            if i.kind != 'iter':
                raise Refuse('n * [x] where x is not an iterator')
            return V('pack', tag=(coerce(a, 'nat'), i.tag))
        b = self.expr(e.right, env, pre)
        if a.kind in ('bdd', 'erased') or b.kind in ('bdd', 'erased'):
            return V('erased')
        if isinstance(e.op, ast.Mult):
            # '\n' * spacing, len(pref) * ' ', width * [i]
            for x, y in ((a, b), (b, a)):
                y = self.use_str(y, pre) if isinstance(y.kind, tuple) \
                    and y.kind[0] == 'fmt' else y
                if y.kind in ('ws', 'nl') and (self.num_kind(x)
                                               or x.kind == 'bulletlen'):
                    if x.kind == 'bulletlen' and y.kind == 'ws':
                        return V('indent', tag=x.tag)
                    return V(y.kind)
        ka, kb = self.num_kind(a), self.num_kind(b)
        if ka is None or kb is None:
            raise Refuse(f'arithmetic on {a.kind} and {b.kind}')
        if ka == 'int' and kb == 'int':
            x, y = a.kind[1], b.kind[1]
            if isinstance(e.op, ast.Add):
                return V(('int', x + y))
            if isinstance(e.op, ast.Sub):
                return V(('int', x - y))
            if isinstance(e.op, ast.Mult):
                return V(('int', x * y))
            raise Refuse('arithmetic on constants')
        if 'Z' in (ka, kb):
            x, y = coerce(a, 'Z'), coerce(b, 'Z')
            o = {ast.Add: '+', ast.Sub: '-', ast.Mult: '*'}.get(type(e.op))
            if o is None:
                raise Refuse('operator on integers')
            return V('Z', f'({x} {o} {y})%Z')
        x, y = coerce(a, 'nat'), coerce(b, 'nat')
        if isinstance(e.op, ast.Add):
            return V('nat', f'({x} + {y})%nat')
        if isinstance(e.op, ast.Mult):
            return V('nat', f'({x} * {y})%nat')
        if isinstance(e.op, ast.Sub):
            n = self.tmp()
            pre.append((n, f'(sub_nat {x} {y})'))
            return V('nat', n)
        if isinstance(e.op, ast.Mod):
            if kb == 'int' and b.kind[1] > 0:
                return V('nat', f'(Nat.modulo {x} {y})')
            raise Refuse('modulo by something that is not a positive '
                         'constant')
        raise Refuse('operator on natural numbers')

    def listcomp(self, e, env, pre):
        if len(e.generators) != 1 or e.generators[0].ifs or \
                not isinstance(e.generators[0].target, ast.Name):
            raise Refuse('list comprehension')
        g = e.generators[0]
        it = self.expr(g.iter, env, pre)
        if not (isinstance(it.kind, tuple) and it.kind[0] == 'list'
                and it.kind[1] is not None):
            raise Refuse('comprehension over a ' + str(it.kind))
        x = g.target.id
        inner = dict(env)
        inner[x] = V(it.kind[1], 'v_' + x)
        p = []
        v = self.use_str(self.expr(e.elt, inner, p), p)
        body = self.wrap(p, f'Some {v.term}')
        n = self.tmp()
        pre.append((n, f'(mapM (fun v_{x} =>\n{body}) {it.term})'))
        return V(('list', v.kind), n)

    # -- calls
    def resolve(self, func):
        """(module, name) of a called module-level function, or None."""
        if isinstance(func, ast.Name):
            return self.cur.mod, func.id
        if isinstance(func, ast.Attribute) and \
                isinstance(func.value, ast.Name):
            m = self.aliases[self.cur.mod].get(func.value.id)
            if m is not None:
                return m, func.attr
        return None

    def call(self, e, env, pre):
        f = e.func
        # methods of strings / lists
        if isinstance(f, ast.Attribute) and f.attr in ('split', 'join'):
            r = self.use_str(self.expr(f.value, env, pre), pre)
            if f.attr == 'split':
                if r.kind not in FORMS or len(e.args) != 1 or not (
                        isinstance(e.args[0], ast.Constant)
                        and e.args[0].value == '\n'):
                    raise Refuse('split: ' + _src(e))
                return V('flines', f'(split_lines {r.term})')
            if len(e.args) != 1 or e.keywords:
                raise Refuse('join: ' + _src(e))
            a = self.expr(e.args[0], env, pre)
            if r.kind == 'infix':
                if not (isinstance(a.kind, tuple) and a.kind[0] == 'list'
                        and a.kind[1] in ('cform', 'aform')):
                    raise Refuse(f'join of {a.kind} with an infix operator: '
                                 'the operands must be parenthesised / '
                                 'comparisons')
                n = self.tmp()
                pre.append((n, f'(join_infix {r.term} {a.term})'))
                self.template(f"' {'/' + chr(92) if r.term == 'JAnd' else chr(92) + '/'} '.join(l)",
                              ('conj' if r.term == 'JAnd' else 'disj')
                              + " l   (None for l = [])")
                return V('aform' if r.term == 'JAnd' else 'form', n)
            if r.kind == 'nlindent' and a.kind == 'blines':
                if r.tag != a.tag:
                    raise Refuse('continuation lines are not indented by '
                                 'the width of the bullet')
                return V('item', f'(join_indented {a.term})')
            if r.kind == 'nl' and a.kind == L('item'):
                n = self.tmp()
                pre.append((n, f'(junction {a.term})'))
                self.template('nl.join([bullet + item, ...])',
                              'conj / disj (by the bullet) of the items')
                return V('form', n)
            raise Refuse(f'join of {a.kind} with a {r.kind}')
        d = _dotted(f)
        if d == 'list' and not e.args and not e.keywords:
            return V(('list', None), '[]')
        args = [self.expr(x, env, pre) for x in e.args
                if not isinstance(x, ast.Starred)] \
            if d in ('len', 'max', 'min', 'iter', 'list', 'zip') and \
            not any(isinstance(x, ast.Starred) for x in e.args) else None
        if d == 'len' and args and len(args) == 1:
            a = args[0]
            if isinstance(a.kind, tuple) and a.kind[0] == 'list':
                return V('nat', f'(length {a.term})')
            if a.kind == 'bullet':
                return V('bulletlen', tag=a.term)
            raise Refuse('len of a ' + str(a.kind))
        if d in ('max', 'min') and args and len(args) == 2:
            return V('Z', f'(Z.{d} {coerce(args[0], "Z")} '
                          f'{coerce(args[1], "Z")})')
        if d == 'iter' and args and len(args) == 1 and \
                isinstance(args[0].kind, tuple) and args[0].kind[0] == 'list':
            return V('iter', tag=args[0])
        if d == 'zip' and len(e.args) == 1 and \
                isinstance(e.args[0], ast.Starred):
            p = self.expr(e.args[0].value, env, pre)
            if p.kind != 'pack':
                raise Refuse('zip(*x) where x is not n * [iter(l)]')
            return V('zipped', tag=p.tag)
        if d == 'list' and args and len(args) == 1 and \
                args[0].kind == 'zipped':
            n, l = args[0].tag
            self.note('list(zip(*(n * [iter(l)]))) read as `chunks n l` '
                      '(consecutive n-tuples, an incomplete last one '
                      'dropped)')
            return V(L(l.kind), f'(chunks {n} {l.term})')
        r = self.resolve(f)
        if r is None:
            # methods of the context
            if isinstance(f, ast.Attribute) and \
                    isinstance(f.value, ast.Name) and \
                    f.value.id in env and env[f.value.id].kind == 'ctx':
                args = [self.expr(x, env, pre) for x in e.args]
                if f.attr == 'support' and len(args) == 1:
                    if args[0].kind == 'cover':
                        return V('cover_support', tag=args[0].term)
                    if args[0].kind == 'bdd':
                        return V('names')
                if f.attr == 'add_expr' and len(args) == 1:
                    self.note('fol.add_expr(..) (BDD-level) not translated')
                    return V('erased')
            raise Refuse('call ' + _src(e)[:80])
        mod, name = r
        if mod == 'natsort' and name == 'natsorted' and len(e.args) == 1:
            a = self.expr(e.args[0], env, pre)
            if a.kind == 'cover_varset':
                return V(L('var'), f'(cover_keys {a.tag})')
            if a.kind == L('var'):
                return V(a.kind, f'(natsorted_names {a.term})')
            if isinstance(a.kind, tuple) and a.kind[0] == 'list' and \
                    a.kind[1] in FORMS:
                return V(a.kind, f'(natsorted_forms {a.term})')
            if a.kind == 'names':
                return V('names')
            raise Refuse('natsorted of a ' + str(a.kind))
        # BDD-level functions read as extra arguments / erased
        if (mod, name) == ('lat', '_map_parameters_to_vars'):
            a = self.expr(e.args[0], env, pre)
            if a.kind != 'pxmap':
                raise Refuse(_src(e))
            return V('xpmap')
        if (mod, name) == ('lat', '_orthotopes_iter'):
            a = self.expr(e.args[0], env, pre)
            if a.kind != 'cover':
                raise Refuse(_src(e))
            return V(L('product'), f'(cover_boxes {a.term})')
        if (mod, name) == ('lat', 'setup_aux_vars'):
            ks = [self.expr(x, env, pre) for x in e.args]
            if [k.tag for k in ks] != ['f', 'care', 'fol']:
                raise Refuse(_src(e))
            return V('prm')
        if (mod, name) == ('cov', '_care_implies_type_hints'):
            ks = [self.expr(x, env, pre) for x in e.args]
            if [k.tag for k in ks] != ['f', 'care', 'fol']:
                raise Refuse(_src(e))
            return V('bool', self.extra('cith'))
        if (mod, name) == ('cov', '_comma_sorted'):
            a = self.expr(e.args[0], env, pre)
            if a.kind != 'names':
                raise Refuse(_src(e))
            return V('names')
        if (mod, name) == ('stx', 'disj'):
            self.note('stx.disj(..) occurs only in the BDD-level '
                      'postcondition: not translated')
            return V('erased')
        if name in EXTERNAL and EXTERNAL[name][0] == mod:
            _, g, kinds, ret = EXTERNAL[name]
            args = [self.expr(x, env, pre) for x in e.args]
            if len(args) != len(kinds) or e.keywords:
                raise Refuse('arguments of ' + name)
            n = self.tmp()
            ts = ' '.join(coerce(a, k, name) for a, k in zip(args, kinds))
            pre.append((n, f'({g} {ts})'))
            return V(ret, n)
        if name not in SIGS or SIGS[name][0] != mod:
            raise Refuse(f'call of {SOURCES.get(mod, mod)}:{name}, which is '
                         'not translated')
        if name not in self.funcs:
            raise Refuse(f'{name} is called before it is translated')
        callee = self.funcs[name]
        params = SIGS[name][1]
        given = {}
        pos = []
        for x in e.args:
            if isinstance(x, ast.Starred):
                pos += self.untuple(self.expr(x.value, env, pre))
            else:
                pos.append(self.expr(x, env, pre))
        if len(pos) > len(params):
            raise Refuse('too many arguments for ' + name)
        for (p, _, _), v in zip(params, pos):
            given[p] = v
        for kw in e.keywords:
            if kw.arg is None or kw.arg in given or \
                    kw.arg not in [p for p, _, _ in params]:
                raise Refuse(f'keyword argument of {name}')
            given[kw.arg] = self.expr(kw.value, env, pre)
        ts = []
        for p, k, dflt in params:
            if p in given:
                v = given[p]
            elif dflt is not None:
                v = self.expr(ast.parse(dflt, mode='eval').body, {}, pre)
            else:
                raise Refuse(f'{name}: argument {p} missing')
            v = self.use_str(v, pre)
            if k == 'off':
                if not (v.kind == 'off' or (v.kind == 'bool'
                                            and v.term == 'false')):
                    raise Refuse(f'{name}({p}=...): only {p}=False is '
                                 'translated')
                continue
            if is_static(k):
                if v.kind != k:
                    raise Refuse(f'{name}: argument {p} of kind {v.kind}')
                continue
            if k == 'ctx':
                if v.kind != 'ctx':
                    raise Refuse(f'{name}: argument {p}')
                ts.append(v.term)
                continue
            ts.append(coerce(v, k, f'{name}({p}=...)'))
        for key in callee.extras:
            ts.append(self.extra(key))
        n = self.tmp()
        pre.append((n if SIGS[name][2] != 'unit' else '_',
                    f'({callee.coq} {" ".join(ts)})'))
        return V(SIGS[name][2], n if SIGS[name][2] != 'unit' else 'tt')


# ---- the generated file ----------------------------------------------------
HEADER = r'''(* GENERATED by tools/py2coq_listexpr.py from
     %(tyh)s : %(f_tyh)s
     %(stx)s : %(f_stx)s
     %(lat)s : %(f_lat)s
     %(cov)s : %(f_cov)s
   in the working tree of the omega repository.
   Do not edit; regenerated on every check run.

   Python locals are prefixed with v_, functions with the alias of their
   module (tyh_, stx_, lat_, cov_).  Strings that are formulas are TREES
   (ListExpr.expr); the templates met are listed at the end with the tree each
   was read as.  Every function returns an option: None is any exception or a
   text outside the formula fragment.  See tools/py2coq_listexpr.py for the
   subset and the notes at the end for everything that was skipped. *)
From Coq Require Import List Bool ZArith Arith.
Import ListNotations.
From Omega Require Import L0Bits.Bits L5Cover.Boxes L5Cover.ListExpr.
From OmegaGen Require Import BitsGen.

(* ---- fixed prelude: the meaning of the Python constructs used ---------- *)
Definition var := nat.
(* fol.vars / table: name -> type hint *)
Definition table := var -> hint.
(* a product of fol.pick_iter(cover): name -> (a, b) *)
Definition product := var -> ival.
Definition prod_a (p : product) (x : var) : Z := fst (p x).
Definition prod_b (p : product) (x : var) : Z := snd (p x).
(* the BDD `cover` as the printing reads it: the naturally sorted variables
   its support maps to, and the products fol.pick_iter yields *)
Definition cover := (list var * list product)%%type.
Definition cover_keys (c : cover) : list var := fst c.
Definition cover_boxes (c : cover) : list product := snd c.

Definition is_nil {A} (l : list A) : bool :=
  match l with [] => true | _ => false end.
Definition is_none {A} (o : option A) : bool :=
  match o with None => true | Some _ => false end.
Definition oZ_eqb (a b : option Z) : bool :=
  match a, b with
  | Some x, Some y => Z.eqb x y
  | None, None => true
  | _, _ => false
  end.
(* a number pasted into a formula: None prints as the identifier `None` *)
Definition num_of (a : option Z) : option Z := a.
(* Python's int subtraction on lengths / indices: guarded *)
Definition sub_nat (a b : nat) : option nat :=
  if Nat.leb b a then Some (a - b)%%nat else None.
(* l[a:b] for 0 <= a, b *)
Definition slice {A} (l : list A) (a b : nat) : list A :=
  firstn (b - a)%%nat (skipn a l).
(* `for x in l: body` in the exception monad *)
Fixpoint for_ {A S} (l : list A) (body : S -> A -> option S) (s : S)
  : option S :=
  match l with
  | [] => Some s
  | x :: r => match body s x with Some s' => for_ r body s' | None => None end
  end.
(* a list comprehension whose element expression may raise *)
Fixpoint mapM {A B} (f : A -> option B) (l : list A) : option (list B) :=
  match l with
  | [] => Some []
  | x :: r => match f x with
              | Some y => match mapM f r with
                          | Some ys => Some (y :: ys)
                          | None => None
                          end
              | None => None
              end
  end.
(* list(zip( *(n * [iter(l)]))): consecutive n-tuples; an incomplete last
   one is dropped; zip() of no iterables is empty *)
Fixpoint chunks_fuel {A} (fuel n : nat) (l : list A) : list (list A) :=
  match fuel with
  | O => []
  | S fuel' => if Nat.ltb (length l) n then []
               else firstn n l :: chunks_fuel fuel' n (skipn n l)
  end.
Definition chunks {A} (n : nat) (l : list A) : list (list A) :=
  match n with O => [] | _ => chunks_fuel (length l) n l end.

(* the operator names 'and' / 'or', the infix texts ' /\ ' / ' \/ ' *)
Inductive jop : Type := JAnd | JOr.
Definition jop_eqb (a b : jop) : bool :=
  match a, b with JAnd, JAnd | JOr, JOr => true | _, _ => false end.
Definition jop_in (a : jop) (l : list jop) : bool := existsb (jop_eqb a) l.
(* op.join(l) for an infix operator text: '' (l = []) is not a formula *)
Definition join_infix (o : jop) (l : list expr) : option expr :=
  match l with
  | [] => None
  | _ => Some (match o with JAnd => conj l | JOr => disj l end)
  end.
(* the bullets '/\ ' and '\/ ' of a junction list (3 characters each) *)
Inductive bullet : Type := BulAnd | BulOr.
Definition bullet_eqb (a b : bullet) : bool :=
  match a, b with BulAnd, BulAnd | BulOr, BulOr => true | _, _ => false end.
(* s.split('\n'): the lines of the text of a formula *)
Definition flines : Type := expr.
Definition split_lines (e : expr) : flines := e.
(* t[0] = bullet + t[0] *)
Record blines : Type := { bl_bullet : bullet; bl_form : expr }.
Definition bullet_first (b : bullet) (t : flines) : blines :=
  {| bl_bullet := b; bl_form := t |}.
(* ('\n' + len(bullet) * ' ').join(t): one item of a junction list *)
Definition item : Type := (bullet * expr)%%type.
Definition join_indented (t : blines) : item := (bl_bullet t, bl_form t).
(* newlines.join(items): the junction list, as TLA+ reads it; '' and a list
   with different bullets are not junction lists *)
Definition junction (l : list item) : option expr :=
  match l with
  | [] => None
  | (b, _) :: _ =>
      if forallb (fun i => bullet_eqb (fst i) b) l then
        Some (match b with
              | BulAnd => conj (map snd l)
              | BulOr => disj (map snd l)
              end)
      else None
  end.
(* comment lines `(* .. *)` before a formula *)
Definition with_comment (e : expr) : expr := e.

Section Gen.
(* natsort.natsorted on variable names and on formula strings *)
Variable natsorted_names : list var -> list var.
Variable natsorted_forms : list expr -> list expr.

'''

FOOTER = '''
End Gen.
'''


def generate(repo):
    """(text of gen/ListExprGen.v, notes, template uses)."""
    tr = Tr(repo)
    for name in ORDER:
        tr.translate_function(name)
    by_mod = {m: ', '.join(n for n in ORDER if SIGS[n][0] == m)
              for m in SOURCES}
    d = dict(SOURCES)
    d.update({'f_' + m: v for m, v in by_mod.items()})
    body = HEADER % d
    body += '\n'.join(tr.funcs[n].text for n in ORDER)
    body += FOOTER
    body += '\n(* ---- string templates met (template: tree) ----\n'
    for text, term in tr.templates:
        body += f'   {comment(text)}   :   {comment(term)}\n'
    body += '*)\n'
    body += ''.join(f'(* note: {comment(n)} *)\n' for n in tr.notes)
    for fi in tr.funcs.values():
        for key in fi.extras:
            body += (f'(* {fi.name}: extra argument {EXTRAS[key][0]} = '
                     f'{comment(EXTRAS[key][2])} *)\n')
    return body, tr.notes, tr.templates


if __name__ == '__main__':
    print(generate(os.environ.get('OMEGA_REPO', '/repo'))[0])
