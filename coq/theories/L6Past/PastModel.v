(* L6Past / PastModel: executable model of omega/logic/past.py
   (Nodes.*.flatten, _flatten_previous, _make_tester_for_previous,
   _flatten_since, _flatten_until, translate), following the code's structure.
   The strings the code builds are modelled by the trees they parse to.

   The flag `fx` selects the code after fixes/F5_F10.patch (fx = true, what the
   theorems are about) or the code before it (fx = false, kept for the
   regression Examples C15_refuted_F5, _F10).
   Model file: definitions only, no proofs. *)
From Coq Require Import String List Bool NArith.
Import ListNotations.
From Omega Require Import L6Past.PastSyntax.
Open Scope string_scope.

(* one entry of the `testers` dict.  t_tracks is a ghost field (not in the
   code): the past formula whose truth value the auxiliary variable records;
   the theorems prove that it does, the correspondence check uses it to
   compute the model's solution. *)
Record tester : Type := mkT {
  t_name : string;
  t_init : tform;
  t_trans : tform;
  t_win : option tform;
  t_tracks : form }.

(* Python dict with insertion order: lookup, and `d[k] = v` (overwrite in
   place if k is present, else append) *)
Fixpoint find (k : string) (T : list tester) : option tester :=
  match T with
  | [] => None
  | u :: T' => if String.eqb (t_name u) k then Some u else find k T'
  end.

Fixpoint upd (t : tester) (T : list tester) : list tester :=
  match T with
  | [] => [t]
  | u :: T' =>
      if String.eqb (t_name u) (t_name t) then t :: T' else u :: upd t T'
  end.

Definition len (T : list tester) : N := N.of_nat (length T).

(* _make_tester_for_previous(var, expr, 'bool', strong) *)
Definition prev_init (strong : bool) (name : string) : tform :=
  if strong then TNot (TVar name) else TVar name.
Definition prev_trans (name : string) (expr : tform) : tform :=
  TBin OIff (TNext (TVar name)) expr.
Definition prev_tester (strong : bool) (name : string) (expr : tform)
    (tracks : form) : tester :=
  mkT name (prev_init strong name) (prev_trans name expr) None tracks.

(* the test added by the fix: may the history variable of v be shared? *)
Definition can_share (strong : bool) (v : string) (T : list tester) : bool :=
  match find (prev_name v) T with
  | None => true
  | Some t => tform_eqb (t_init t) (prev_init strong (prev_name v))
  end.

(* _flatten_previous(op, x, testers, 'bool'); `eT1` is x.flatten(testers) (only
   used on the path that creates an `_aux` tester; flattening a terminal does
   not touch `testers`), `whole` is the formula `op x` itself *)
Definition prev_case (fx strong : bool) (x whole : form)
    (eT1 : tform * list tester) (T : list tester) : tform * list tester :=
  let aux_path :=
    let (e, T1) := eT1 in
    let name := aux_name (len T1) in
    (TVar name, upd (prev_tester strong name e whole) T1) in
  let var_path (v : string) :=
    let name := prev_name v in
    (TVar name, upd (prev_tester strong name (TVar v) whole) T) in
  match x with
  | FVar v =>
      if fx then (if can_share strong v T then var_path v else aux_path)
      else var_path v
  | FConst b =>
      (* before the fix: Terminal.flatten returns the constant itself *)
      if fx then aux_path else (TConst b, T)
  | _ => aux_path
  end.

(* _flatten_since((x, y), testers, 'bool') after p = x.flatten, q = y.flatten *)
Definition since_tester (name : string) (p q : tform) (tracks : form) : tester :=
  mkT name
      (TBin OIff (TVar name) q)
      (TBin OIff (TNext (TVar name))
            (TBin OOr (TNext q) (TBin OAnd (TNext p) (TVar name))))
      None tracks.
Definition since_case (p q : tform) (tracks : form) (T : list tester)
    : tform * list tester :=
  let name := aux_name (len T) in
  (TVar name, upd (since_tester name p q tracks) T).

(* _flatten_until *)
Definition until_tester (name : string) (p q : tform) (tracks : form) : tester :=
  mkT name
      (TConst true)
      (TBin OIff (TVar name)
            (TBin OOr q (TBin OAnd p (TNext (TVar name)))))
      (Some (TBin OOr q (TNot (TVar name)))) tracks.
Definition until_case (p q : tform) (tracks : form) (T : list tester)
    : tform * list tester :=
  let name := aux_name (len T) in
  (TVar name, upd (until_tester name p q tracks) T).

(* tree.flatten(testers=testers, context='bool', until=until) *)
Fixpoint tr (fx until : bool) (f : form) (T : list tester) {struct f}
    : tform * list tester :=
  match f with
  | FVar v => (TVar v, T)
  | FAtom a => (TAtom a, T)   (* Comparator/Arithmetic.flatten reproduce the text *)
  | FConst b => (TConst b, T)
  | FNot x => let (a, T1) := tr fx until x T in (TNot a, T1)
  | FBin o x y =>
      let (a, T1) := tr fx until x T in
      let (b, T2) := tr fx until y T1 in
      (TBin o a b, T2)
  | FIte c x y =>
      let (a, T1) := tr fx until c T in
      let (b, T2) := tr fx until x T1 in
      let (d, T3) := tr fx until y T2 in
      (TIte a b d, T3)
  | FPrevW x => prev_case fx false x f (tr fx until x T) T
  | FPrevS x => prev_case fx true x f (tr fx until x T) T
  | FHist x =>
      (* x = TRUE, y = ~ operand; result (~ r) *)
      let (a, T1) := tr fx until x T in
      let (r, T2) :=
        since_case (TConst true) (TNot a) (FSince (FConst true) (FNot x)) T1 in
      (TNot r, T2)
  | FOnce x =>
      let (a, T1) := tr fx until x T in
      since_case (TConst true) a (FSince (FConst true) x) T1
  | FSince x y =>
      let (p, T1) := tr fx until x T in
      let (q, T2) := tr fx until y T1 in
      since_case p q f T2
  | FAlways x =>
      let (a, T1) := tr fx until x T in
      if until then
        let (r, T2) :=
          until_case (TConst true) (TNot a) (FUntil (FConst true) (FNot x)) T1 in
        (TNot r, T2)
      else (TAlways a, T1)
  | FEvent x =>
      let (a, T1) := tr fx until x T in
      if until then until_case (TConst true) a (FUntil (FConst true) x) T1
      else (TEvent a, T1)
  | FUntil x y =>
      let (p, T1) := tr fx until x T in
      let (q, T2) := tr fx until y T1 in
      if until then until_case p q f T2 else (TUntil p q, T2)
  end.

(* syntax.conj, by meaning *)
Fixpoint conj (l : list tform) : tform :=
  match l with
  | [] => TConst true
  | [x] => x
  | x :: l' => TBin OAnd x (conj l')
  end.

Fixpoint wins (T : list tester) : list tform :=
  match T with
  | [] => []
  | t :: T' => match t_win t with Some w => w :: wins T' | None => wins T' end
  end.

Record translation : Type := mkTr {
  x_names : list string;     (* keys of dvars, in insertion order *)
  x_formula : tform;         (* translated formula *)
  x_init : tform;            (* conjunction of tester initial conditions *)
  x_trans : tform;           (* conjunction of tester transition relations *)
  x_win : list tform;        (* recurrence goals *)
  x_testers : list tester }.

Definition translate (fx until : bool) (f : form) : translation :=
  let (r, T) := tr fx until f [] in
  mkTr (map t_name T) r (conj (map t_init T)) (conj (map t_trans T))
       (wins T) T.

(* ------------------------------------------------------------------------
   Solutions along a sequence.  sigma gives the user variables, alpha the
   auxiliary ones; names not in `names` are read from sigma. *)
Definition mem (v : string) (l : list string) : bool :=
  existsb (String.eqb v) l.

Definition comb (names : list string) (sigma alpha : nat -> env) : nat -> env :=
  fun i v => if mem v names then alpha i v else sigma i v.

(* the model's solution: every auxiliary variable takes the truth value of
   the formula it tracks *)
Definition canon (T : list tester) (sigma : nat -> env) : nat -> env :=
  fun i v => match find v T with
             | Some t => sem (t_tracks t) sigma i
             | None => false
             end.
