(* C12 — the enumerated state machine is an input-complete sub-machine of the
   symbolic one.  Statements only; model and proofs in theories/L4Enum
   (hand-written model of games/enumeration._action_to_steps and
   _init_search; tie H: the verified checker check_graph is evaluated inside
   Coq on the graphs the REAL enumeration returns).

   Domain (as in DESIGN §6 C12): the environment's action does not read the
   component's next values, so it is a predicate E x y x'.  dd's `pick` is a
   parameter of which only "returns a member of the given set" is assumed.
   The model returns None where the code asserts (the component has no
   successor for an allowed next environment value).

   Termination: C12_fuel_never_exhausted.
   That every path of the graph is a behaviour of the implementation, and so
   inherits whatever the implementation guarantees of all its behaviours
   (the liveness of C02/C05): C12_paths_are_behaviours, C12_paths_inherit. *)
From Coq Require Import List Bool Arith Lia.
Import ListNotations.
From Omega Require Import L4Enum.EnumModel L4Enum.EnumProofs.

Section C12.
Variables nx ny : nat.
Variable E : nat -> nat -> nat -> bool.
Variable S : nat -> nat -> nat -> nat -> bool.
Variable pick : (nat -> bool) -> option nat.
Hypothesis pick_sound : forall p y, pick p = Some y -> y < ny /\ p y = true.

(* the worklist: from any distinct in-range initial nodes, any pick, any
   number of steps *)
Theorem C12_enumeration_sound : forall fuel l q g,
  NoDup l -> (forall s, In s l -> in_range nx ny s) ->
  NoDup q -> (forall u, In u q <-> u < length l) ->
  run nx ny E S pick fuel (mkG l q []) = Some g ->
  check_graph nx ny E S g = true /\ (exists extra, nodes g = l ++ extra).
Proof. exact (enum_sound nx ny E S pick pick_sound). Qed.

(* termination: with fuel >= number of valuations, fuel is never what stops
   the enumeration (more fuel gives the same result); a None result is the
   model of the code's own assertion "the component has no successor" *)
Theorem C12_fuel_never_exhausted : forall l q fuel k,
  NoDup l -> (forall s, In s l -> in_range nx ny s) ->
  NoDup q -> (forall u, In u q <-> u < length l) ->
  nx * ny <= fuel ->
  run nx ny E S pick (fuel + k) (mkG l q []) = run nx ny E S pick fuel (mkG l q []).
Proof. exact (run_enough_fuel nx ny E S pick pick_sound). Qed.

(* what the checker means *)
Theorem C12_checker_nodes_distinct : forall g,
  check_graph nx ny E S g = true -> NoDup (nodes g).
Proof.
  intros g H. unfold check_graph in H. repeat rewrite andb_true_iff in H.
  apply nodup_b_iff. tauto.
Qed.

Theorem C12_checker_edges_allowed : forall g e,
  check_graph nx ny E S g = true -> In e (edges g) ->
  exists s t, nth_error (nodes g) (fst e) = Some s /\ nth_error (nodes g) (snd e) = Some t /\
    E (fst s) (snd s) (fst t) = true /\ S (fst s) (snd s) (fst t) (snd t) = true.
Proof.
  intros g e H He. unfold check_graph in H. repeat rewrite andb_true_iff in H.
  destruct H as [[[_ _] Hed] _]. rewrite forallb_forall in Hed. specialize (Hed e He).
  unfold edge_ok in Hed.
  destruct (nth_error (nodes g) (fst e)) as [s|]; [|discriminate].
  destruct (nth_error (nodes g) (snd e)) as [t|]; [|discriminate].
  apply andb_true_iff in Hed. exists s, t. tauto.
Qed.

Theorem C12_checker_input_complete : forall g u s x',
  check_graph nx ny E S g = true -> nth_error (nodes g) u = Some s -> x' < nx ->
  out_count (nodes g) (edges g) u x' = if E (fst s) (snd s) x' then 1 else 0.
Proof.
  intros g u s x' H Hu Hx. unfold check_graph in H. repeat rewrite andb_true_iff in H.
  destruct H as [_ Hc]. rewrite all_complete_iff in Hc. specialize (Hc u s Hu).
  cbn [Nat.add] in Hc. unfold node_complete in Hc. rewrite forallb_forall in Hc.
  apply Nat.eqb_eq, Hc, in_seq. lia.
Qed.
(* "Consequently every path of the graph is a behaviour of the implementation
   and satisfies the liveness condition the implementation guarantees": the
   states along any infinite path of a checked graph form a sequence of steps
   allowed by both actions, so every property of all such sequences (the
   liveness of C02/C05, C02_liveness for Streett implementations) holds of
   it. *)
Theorem C12_paths_are_behaviours : forall g (path : nat -> nat),
  check_graph nx ny E S g = true ->
  (forall i, In (path i, path (Datatypes.S i)) (edges g)) ->
  let sigma := fun i => nth (path i) (nodes g) (0, 0) in
  (forall i, nth_error (nodes g) (path i) = Some (sigma i)) /\
  (forall i, E (fst (sigma i)) (snd (sigma i)) (fst (sigma (Datatypes.S i))) = true /\
             S (fst (sigma i)) (snd (sigma i)) (fst (sigma (Datatypes.S i)))
               (snd (sigma (Datatypes.S i))) = true).
Proof. exact (paths_are_behaviours nx ny E S). Qed.

Theorem C12_paths_inherit : forall (Guaranteed : (nat -> nat * nat) -> Prop) g path,
  (forall sigma : nat -> nat * nat,
     (forall i, E (fst (sigma i)) (snd (sigma i)) (fst (sigma (Datatypes.S i))) = true /\
                S (fst (sigma i)) (snd (sigma i)) (fst (sigma (Datatypes.S i)))
                  (snd (sigma (Datatypes.S i))) = true) -> Guaranteed sigma) ->
  check_graph nx ny E S g = true ->
  (forall i, In (path i, path (Datatypes.S i)) (edges g)) ->
  Guaranteed (fun i => nth (path i) (nodes g) (0, 0)).
Proof.
  intros G g path HG Hc Hp. apply HG.
  exact (proj2 (paths_are_behaviours nx ny E S g path Hc Hp)).
Qed.
End C12.

(* initial nodes per qinit form *)
Section C12init.
Variables nx ny : nat.
Variable EI : nat -> bool.
Variable SI : nat -> nat -> bool.
Variable pick pickx : (nat -> bool) -> option nat.
Hypothesis pick_sound : forall p y, pick p = Some y -> y < ny /\ p y = true.
Hypothesis pickx_sound : forall p x, pickx p = Some x -> x < nx /\ p x = true.

Theorem C12_init_forall_forall : forall l,
  init_AA nx ny EI SI = Some l ->
  NoDup l /\ forall s, In s l <->
    (fst s < nx /\ snd s < ny) /\ EI (fst s) = true /\ SI (fst s) (snd s) = true.
Proof. exact (init_AA_spec nx ny EI SI). Qed.

Theorem C12_init_exists_exists : forall l,
  init_EE ny SI pick pickx = Some l ->
  exists x y, l = [(x, y)] /\ x < nx /\ y < ny /\ SI x y = true.
Proof. exact (init_EE_spec nx ny EI SI pick pickx pick_sound pickx_sound). Qed.

Theorem C12_init_forall_exists : forall l,
  init_AE nx EI SI pick = Some l ->
  NoDup l /\ map fst l = filter EI (seq 0 nx) /\
  forall s, In s l -> snd s < ny /\ EI (fst s) = true /\ SI (fst s) (snd s) = true.
Proof. exact (init_AE_spec nx ny EI SI pick pick_sound). Qed.

Theorem C12_init_exists_forall : forall l,
  init_EA nx EI SI pick = Some l ->
  exists y, y < ny /\ (forall x, x < nx -> SI x y = true) /\
            l = map (fun x => (x, y)) (filter EI (seq 0 nx)) /\ NoDup l.
Proof. exact (init_EA_spec nx ny EI SI pick pick_sound). Qed.
End C12init.

(* non-vacuity: a concrete run (least-element pick) produces a graph and the
   checker accepts it; a graph with a missing edge is rejected *)
Definition pick_least (n : nat) (p : nat -> bool) : option nat := find p (seq 0 n).
Example C12_example :
  let E := fun x y x' => negb (Nat.eqb x x') || Nat.eqb y 0 in
  let S := fun x y x' y' => Nat.eqb y' ((y + x') mod 3) || Nat.eqb y' 0 in
  match run 2 3 E S (pick_least 3) 20 (mkG [(0, 1)] [0] []) with
  | Some g => check_graph 2 3 E S g && (2 <=? length (nodes g))
              && negb (check_graph 2 3 E S (mkG (nodes g) [] (tl (edges g))))
  | None => false
  end = true.
Proof. vm_compute. reflexivity. Qed.

Print Assumptions C12_paths_are_behaviours.
Print Assumptions C12_paths_inherit.
Print Assumptions C12_enumeration_sound.
Print Assumptions C12_fuel_never_exhausted.
Print Assumptions C12_checker_input_complete.
Print Assumptions C12_init_forall_exists.
Print Assumptions C12_init_exists_forall.
