(* L3 / PrimeFacts: facts about the model of prime.py / temporal.py (Prime.v). *)
From Coq Require Import ZArith List Bool String Ascii Lia.
From Omega Require Import L0Bits.Bits L0Bits.BitsFacts L3Context.Ctx L3Context.CtxFacts
  L3Context.Prime.
Import ListNotations.
Open Scope Z_scope.

(* ---- identifiers ------------------------------------------------------------------- *)
Definition tick : string := String PRIME EmptyString.

Lemma str_last_app x c : str_last (x ++ String c EmptyString) = Some c.
Proof.
  induction x as [|a x IH]; [reflexivity|].
  cbn [append str_last]. destruct (x ++ String c EmptyString)%string eqn:E.
  - destruct x; discriminate.
  - exact IH.
Qed.

Lemma str_removelast_app x c : str_removelast (x ++ String c EmptyString) = x.
Proof.
  induction x as [|a x IH]; [reflexivity|].
  cbn [append str_removelast]. destruct (x ++ String c EmptyString)%string eqn:E.
  - destruct x; discriminate.
  - rewrite IH. reflexivity.
Qed.

Lemma isprimed_tick x : isprimed (x ++ tick)%string = true.
Proof. unfold isprimed, tick. rewrite str_last_app. apply Ascii.eqb_refl. Qed.

Lemma sprime_some x xp : sprime x = Some xp <-> isprimed x = false /\ xp = (x ++ tick)%string.
Proof.
  unfold sprime. destruct (isprimed x); split.
  - discriminate.
  - intros [? _]; discriminate.
  - intro E; inversion E; auto.
  - intros [_ ->]; reflexivity.
Qed.

Lemma sunprime_sprime x xp : sprime x = Some xp -> sunprime xp = Some x.
Proof.
  intro H. apply sprime_some in H. destruct H as [Hx ->].
  unfold sunprime. rewrite isprimed_tick. unfold tick. rewrite str_removelast_app, Hx.
  reflexivity.
Qed.

Lemma sprime_isprimed x xp : sprime x = Some xp -> isprimed xp = true.
Proof. intro H. apply sprime_some in H. destruct H as [_ ->]. apply isprimed_tick. Qed.

Lemma sprime_inj x y xp : sprime x = Some xp -> sprime y = Some xp -> x = y.
Proof.
  intros H1 H2. apply sunprime_sprime in H1. apply sunprime_sprime in H2. congruence.
Qed.

Lemma sprime_neq x xp : sprime x = Some xp -> x <> xp.
Proof.
  intros H E. pose proof (sprime_isprimed _ _ H). apply sprime_some in H.
  destruct H as [Hx _]. congruence.
Qed.

(* identifier-level: prime then unprime is the identity (stx.prime / stx.unprime) *)
Theorem unprime_prime_ident x : isprimed x = false ->
  exists xp, sprime x = Some xp /\ isprimed xp = true /\ sunprime xp = Some x.
Proof.
  intro H. exists (x ++ tick)%string.
  assert (E : sprime x = Some (x ++ tick)%string) by (apply sprime_some; auto).
  split; auto. split; [eapply sprime_isprimed; eauto|apply sunprime_sprime; auto].
Qed.

(* ---- automaton tables ------------------------------------------------------------------ *)
(* every primed identifier of the table is the primed twin of an unprimed
   identifier with the same declaration (declare_variables / add_primed_too) *)
Definition wf_aut (t : tbl) : Prop :=
  wf_tbl t /\
  forall xp d, In (xp, d) t -> isprimed xp = true ->
    exists x, sprime x = Some xp /\ In (x, d) t.

Definition flexible (t : tbl) (x : ident) : bool :=
  match sprime x with Some xp => declared t xp | None => false end.

Lemma declared_iff t x : declared t x = true <-> exists d, tlookup x t = Some d.
Proof.
  unfold declared. destruct (tlookup x t); split; eauto; try discriminate.
  intros (d & E). discriminate.
Qed.

Lemma flexible_twin t x : wf_aut t -> flexible t x = true ->
  exists xp d, sprime x = Some xp /\ tlookup x t = Some d /\ tlookup xp t = Some d.
Proof.
  intros [[ND Hwfh] Htw] Hf. unfold flexible in Hf.
  destruct (sprime x) as [xp|] eqn:E; [|discriminate].
  apply declared_iff in Hf. destruct Hf as (d & Hl).
  destruct (Htw xp d (tlookup_in _ _ _ Hl) (sprime_isprimed _ _ E)) as (x' & E' & Hin).
  assert (x' = x) by (eapply sprime_inj; eauto). subst x'.
  exists xp, d. split; auto. split; auto. apply in_tlookup; auto.
Qed.

(* ---- helper: option-valued filters and maps ------------------------------------------------ *)
Lemma filter_opt_some {A} (f : A -> option bool) (g : A -> bool) l :
  (forall x, In x l -> f x = Some (g x)) -> filter_opt f l = Some (filter g l).
Proof.
  induction l as [|a l IH]; intro H; cbn [filter_opt filter]; auto.
  rewrite H by (left; auto). rewrite IH by (intros; apply H; right; auto).
  destruct (g a); reflexivity.
Qed.

Lemma dict_get_map_pair (g : ident -> ident) l x :
  dict_get String.eqb x (map (fun v => (v, g v)) l) =
  if mem String.eqb x l then Some (g x) else None.
Proof.
  induction l as [|a l IH]; cbn [map dict_get mem]; auto.
  destruct (String.eqb_spec x a); cbn [orb]; [subst; reflexivity|auto].
Qed.

Lemma nodup_map_fst_pair {B} (g : ident -> B) l :
  NoDup l -> NoDup (map fst (map (fun v => (v, g v)) l)).
Proof. intro H. rewrite map_map. cbn [fst]. rewrite map_id. auto. Qed.

Lemma negb_existsb {A} (f : A -> bool) l :
  negb (existsb f l) = forallb (fun x => negb (f x)) l.
Proof. induction l; cbn; auto. rewrite negb_orb. f_equal. auto. Qed.

(* ---- support classification ------------------------------------------------------------------ *)
Section Classification.
Variables (t : tbl) (u : pred) (s : list ident).
Hypothesis Hs : ctx_support t u = Some s.

Lemma unprimed_support_eq :
  unprimed_support t u = Some (filter (fun k => negb (isprimed k)) s).
Proof. unfold unprimed_support. rewrite Hs. reflexivity. Qed.

Lemma primed_support_eq : primed_support t u = Some (filter isprimed s).
Proof. unfold primed_support. rewrite Hs. reflexivity. Qed.

Lemma is_variable_unprimed x : isprimed x = false ->
  is_variable t x = Some (flexible t x) /\ is_constant t x = Some (negb (flexible t x)).
Proof.
  intro H. unfold is_constant, is_variable, flexible.
  assert (E : sprime x = Some (x ++ tick)%string) by (apply sprime_some; auto).
  rewrite E. auto.
Qed.

(* the classification of the support into rigid / flexible / primed / unprimed
   identifiers is exactly the semantic support filtered by the declarations *)
Theorem support_classification :
  (exists l, unprimed_support t u = Some l /\
     forall x, In x l <-> In x s /\ isprimed x = false) /\
  (exists l, primed_support t u = Some l /\
     forall x, In x l <-> In x s /\ isprimed x = true) /\
  (exists l1 l2, split_support t u = Some (l1, l2) /\
     (forall x, In x l1 <-> In x s /\ isprimed x = false) /\
     (forall x, In x l2 <-> In x s /\ isprimed x = true)) /\
  (exists l, rigid_support t u = Some l /\
     forall x, In x l <-> In x s /\ isprimed x = false /\ flexible t x = false) /\
  (exists l, flexible_support t u = Some l /\
     forall x, In x l <-> In x s /\ isprimed x = false /\ flexible t x = true) /\
  is_state_predicate t u = Some (forallb (fun x => negb (isprimed x)) s) /\
  is_proper_action t u =
    Some (existsb isprimed s && existsb (fun x => negb (isprimed x)) s).
Proof.
  split; [|split; [|split; [|split; [|split; [|split]]]]].
  - rewrite unprimed_support_eq. eexists; split; [reflexivity|].
    intro x. rewrite filter_In, negb_true_iff. tauto.
  - rewrite primed_support_eq. eexists; split; [reflexivity|].
    intro x. rewrite filter_In. tauto.
  - unfold split_support. rewrite Hs. eexists _, _. split; [reflexivity|]. split.
    + intro x. rewrite filter_In, negb_true_iff. split.
      * intros [Hx Hm]. split; auto. destruct (isprimed x) eqn:E; auto.
        assert (mem String.eqb x (filter isprimed s) = true); [|congruence].
        apply (mem_spec String.eqb string_eqb_spec'). apply filter_In. auto.
      * intros [Hx Hp]. split; auto. apply not_true_is_false. intro Hm.
        apply (mem_spec String.eqb string_eqb_spec') in Hm. apply filter_In in Hm.
        destruct Hm. congruence.
    + intro x. rewrite filter_In. tauto.
  - unfold rigid_support. rewrite unprimed_support_eq.
    rewrite (filter_opt_some _ (fun x => negb (flexible t x))).
    + eexists; split; [reflexivity|]. intro x.
      rewrite !filter_In, !negb_true_iff. tauto.
    + intros x Hx. apply filter_In in Hx. destruct Hx as [_ Hx].
      apply negb_true_iff in Hx. apply is_variable_unprimed; auto.
  - unfold flexible_support. rewrite unprimed_support_eq.
    rewrite (filter_opt_some _ (flexible t)).
    + eexists; split; [reflexivity|]. intro x.
      rewrite !filter_In, !negb_true_iff. tauto.
    + intros x Hx. apply filter_In in Hx. destruct Hx as [_ Hx].
      apply negb_true_iff in Hx. apply is_variable_unprimed; auto.
  - unfold is_state_predicate. rewrite Hs. f_equal. apply negb_existsb.
  - unfold is_proper_action. rewrite Hs. reflexivity.
Qed.
End Classification.

(* ---- prime --------------------------------------------------------------------------------------- *)
(* the assignment at which the primed predicate reads its operand: a flexible
   variable's bit is read from the primed twin; rigid constants and everything
   else are untouched *)
Definition prime_asg (t : tbl) (a : bitasg) : bitasg :=
  fun b => match sprime (fst b) with
           | Some xp => if declared t xp then a (xp, snd b) else a b
           | None => a b
           end.

Lemma state_pred_unprimed t u s : ctx_support t u = Some s ->
  is_state_predicate t u = Some true -> forall x, In x s -> isprimed x = false.
Proof.
  intros Hs H x Hx. unfold is_state_predicate in H. rewrite Hs in H.
  inversion H as [H']. rewrite negb_existsb, forallb_forall in H'.
  apply negb_true_iff. auto.
Qed.

Lemma prime_let_ok t vrs : wf_aut t -> NoDup vrs ->
  (forall x, In x vrs -> isprimed x = false /\ flexible t x = true) ->
  ren_ok t (map (fun v => (v, (v ++ tick)%string)) vrs).
Proof.
  intros Hwf ND Hv. split; [apply nodup_map_fst_pair; auto|].
  intros x y Hin. apply in_map_iff in Hin. destruct Hin as (v & E & Hin).
  injection E as Ex Ey. subst x y. destruct (Hv v Hin) as [Hp Hf].
  destruct (flexible_twin t v Hwf Hf) as (xp & d & E1 & E2 & E3).
  apply sprime_some in E1. destruct E1 as [_ ->].
  exists d. split; auto. split; auto. destruct d; auto.
  apply sprime_neq. apply sprime_some. auto.
Qed.

Lemma map_opt_sprime vrs : (forall x, In x vrs -> isprimed x = false) ->
  map_opt (fun v => match sprime v with Some vp => Some (v, vp) | None => None end) vrs
  = Some (map (fun v => (v, (v ++ tick)%string)) vrs).
Proof.
  intro H. apply map_opt_some. intros x Hx.
  assert (E : sprime x = Some (x ++ tick)%string) by (apply sprime_some; auto).
  rewrite E. reflexivity.
Qed.

Lemma ren_bits_prime t vrs b d : In b (bitnames (fst b) d) ->
  tlookup (fst b) t = Some d ->
  ren_bits t (map (fun v => (v, (v ++ tick)%string)) vrs) b =
  if mem String.eqb (fst b) vrs then Some ((fst b ++ tick)%string, snd b) else None.
Proof.
  intros Hb Hl. unfold ren_bits. rewrite (dict_get_map_pair (fun v => (v ++ tick)%string)), Hl.
  destruct (mem String.eqb (fst b) vrs); auto.
  destruct b as [x i]. cbn [fst snd] in *.
  rewrite (proj2 (declared_idx_spec x d i) Hb). reflexivity.
Qed.

(* priming a state predicate: the result at a equals the operand at the primed
   reading of a; rigid constants are left untouched *)
Theorem prime_sem t u : wf_aut t -> uses_only (all_bits t) u ->
  is_state_predicate t u = Some true ->
  exists r, prime_pred t u = Some r /\ uses_only (all_bits t) r /\
    forall a, r a = u (prime_asg t a).
Proof.
  intros Hwf Hu Hst. pose proof Hwf as [Hwt _].
  destruct (ctx_support_bits t u) as (s & Es & NDs & Hs).
  pose proof (state_pred_unprimed t u s Es Hst) as Hunp.
  set (vrs := filter (flexible t) s).
  assert (Hv : forall x, In x vrs -> isprimed x = false /\ flexible t x = true).
  { intros x Hx. apply filter_In in Hx. destruct Hx. auto. }
  destruct (let_vars_bits t _ u Hwt Hu
              (prime_let_ok t vrs Hwf (NoDup_filter _ NDs) Hv)) as (r & Er & Hur & Hr).
  exists r. split; [|split; auto].
  - unfold prime_pred. rewrite Es.
    assert (Hex : existsb isprimed s = false).
    { apply not_true_is_false. intro H. apply existsb_exists in H.
      destruct H as (x & Hx & Hp). rewrite (Hunp x Hx) in Hp. discriminate. }
    rewrite Hex.
    rewrite (filter_opt_some _ (flexible t)).
    2:{ intros x Hx. apply is_variable_unprimed; auto. }
    fold vrs. rewrite map_opt_sprime by (intros; apply Hv; auto). exact Er.
  - intro a. rewrite Hr. apply (uses_only_support (all_bits t)); auto.
    intros b Hb.
    assert (Hx : In (fst b) s) by (apply Hs; eauto).
    pose proof (Hunp _ Hx) as Hp.
    destruct (declared_bit_lookup t b Hwt (bsupport_incl _ _ _ Hb)) as (d & Hl & Hbn).
    rewrite (ren_bits_prime t vrs b d Hbn Hl).
    unfold prime_asg.
    assert (E : sprime (fst b) = Some (fst b ++ tick)%string) by (apply sprime_some; auto).
    rewrite E.
    assert (Hm : mem String.eqb (fst b) vrs = declared t (fst b ++ tick)%string).
    { unfold vrs. destruct (declared t (fst b ++ tick)%string) eqn:Ed.
      - apply (mem_spec String.eqb string_eqb_spec'). apply filter_In. split; auto.
        unfold flexible. rewrite E. auto.
      - apply not_true_is_false. intro Hm.
        apply (mem_spec String.eqb string_eqb_spec') in Hm. apply filter_In in Hm.
        destruct Hm as [_ Hf]. unfold flexible in Hf. rewrite E in Hf. congruence. }
    rewrite Hm. destruct (declared t (fst b ++ tick)%string); reflexivity.
Qed.

(* ---- replace_with_primed / replace_with_unprimed -------------------------------------------------- *)
Theorem replace_with_primed_sem t vrs u : wf_aut t -> uses_only (all_bits t) u ->
  NoDup vrs -> (forall x, In x vrs -> isprimed x = false /\ flexible t x = true) ->
  exists r, replace_with_primed t vrs u = Some r /\ uses_only (all_bits t) r /\
    forall f, sem t r f =
      sem t u (fun x => if mem String.eqb x vrs then f (x ++ tick)%string else f x).
Proof.
  intros Hwf Hu ND Hv. pose proof Hwf as [Hwt _].
  destruct (rename_spec t _ u Hwt Hu (prime_let_ok t vrs Hwf ND Hv)) as (r & Er & Hur & Hr).
  exists r. split; [|split; auto].
  - unfold replace_with_primed. rewrite map_opt_sprime by (intros; apply Hv; auto). exact Er.
  - intro f. rewrite Hr. apply sem_ext; auto. intro x. unfold frename.
    rewrite (dict_get_map_pair (fun v => (v ++ tick)%string)).
    destruct (mem String.eqb x vrs); reflexivity.
Qed.

Theorem replace_with_unprimed_sem t vrs u : wf_aut t -> uses_only (all_bits t) u ->
  NoDup vrs -> (forall x, In x vrs -> isprimed x = false /\ flexible t x = true) ->
  exists r, replace_with_unprimed t vrs u = Some r /\ uses_only (all_bits t) r /\
    forall f, sem t r f =
      sem t u (frename f (map (fun v => ((v ++ tick)%string, v)) vrs)).
Proof.
  intros Hwf Hu ND Hv. pose proof Hwf as [Hwt _].
  assert (Hok : ren_ok t (map (fun v => ((v ++ tick)%string, v)) vrs)).
  { split.
    - rewrite map_map. cbn [fst].
      assert (G : forall l, NoDup l -> (forall x, In x l -> isprimed x = false) ->
                  NoDup (map (fun v => (v ++ tick)%string) l)).
      { induction l as [|a l IH]; intros N H; cbn [map]; [constructor|].
        inversion N; subst. constructor.
        - rewrite in_map_iff. intros (y & E & Hy). apply H2.
          assert (y = a); [|subst; auto].
          apply (sprime_inj y a (a ++ tick)%string); apply sprime_some; split; auto.
          + apply H; right; auto.
          + apply H; left; auto.
        - apply IH; auto. intros; apply H; right; auto. }
      apply G; auto. intros; apply Hv; auto.
    - intros x y Hin. apply in_map_iff in Hin. destruct Hin as (v & E & Hin).
      injection E as Ex Ey. subst x y. rename v into y. destruct (Hv y Hin) as [Hp Hf].
      destruct (flexible_twin t y Hwf Hf) as (xp & d & E1 & E2 & E3).
      apply sprime_some in E1. destruct E1 as [_ ->].
      exists d. split; auto. split; auto. destruct d; auto.
      intro E'. symmetry in E'. revert E'. apply sprime_neq. apply sprime_some. auto. }
  destruct (rename_spec t _ u Hwt Hu Hok) as (r & Er & Hur & Hr).
  exists r. split; [|split; auto].
  unfold replace_with_unprimed.
  rewrite (map_opt_some _ (fun v => ((v ++ tick)%string, v))); auto.
  intros x Hx. destruct (Hv x Hx) as [Hp _].
  assert (E : sprime x = Some (x ++ tick)%string) by (apply sprime_some; auto).
  rewrite E. reflexivity.
Qed.

(* ---- unprime (prime u) = u ------------------------------------------------------------------------- *)
Definition un (s : ident) : ident :=
  match sunprime s with Some x => x | None => s end.

Lemma primed_declared_twin t xp d : wf_aut t -> In (xp, d) t -> isprimed xp = true ->
  exists x, sprime x = Some xp /\ sunprime xp = Some x /\ un xp = x /\
            tlookup x t = Some d /\ tlookup xp t = Some d.
Proof.
  intros [[ND Hwfh] Htw] Hin Hp. destruct (Htw xp d Hin Hp) as (x & E & Hx).
  exists x. split; auto. pose proof (sunprime_sprime _ _ E) as Eu.
  split; auto. split; [unfold un; rewrite Eu; reflexivity|].
  split; apply in_tlookup; auto.
Qed.

Lemma ren_bits_pairs t (g : ident -> ident) (l : list ident) (b : bit) d :
  In b (bitnames (fst b) d) -> tlookup (fst b) t = Some d ->
  ren_bits t (map (fun v => (v, g v)) l) b =
  if mem String.eqb (fst b) l then Some (g (fst b), snd b) else None.
Proof.
  intros Hb Hl. unfold ren_bits. rewrite (dict_get_map_pair g), Hl.
  destruct (mem String.eqb (fst b) l); auto.
  destruct b as [x i]. cbn [fst snd] in *.
  rewrite (proj2 (declared_idx_spec x d i) Hb). reflexivity.
Qed.

Lemma ren_bits_none_notin t (g : ident -> ident) (l : list ident) (b : bit) :
  mem String.eqb (fst b) l = false -> ren_bits t (map (fun v => (v, g v)) l) b = None.
Proof.
  intro H. unfold ren_bits. rewrite (dict_get_map_pair g), H. reflexivity.
Qed.

Theorem unprime_prime t u : wf_aut t -> uses_only (all_bits t) u ->
  is_state_predicate t u = Some true ->
  exists v w, prime_pred t u = Some v /\ unprime_pred t v = Some w /\
    uses_only (all_bits t) w /\ forall a, w a = u a.
Proof.
  intros Hwf Hu Hst. pose proof Hwf as [Hwt Htw]. pose proof Hwt as [ND Hwfh].
  destruct (prime_sem t u Hwf Hu Hst) as (v & Ev & Huv & Hv).
  destruct (ctx_support_bits t u) as (s & Es & NDs & Hs).
  pose proof (state_pred_unprimed t u s Es Hst) as Hunp.
  destruct (ctx_support_bits t v) as (sv & Esv & NDsv & Hsv).
  set (pv := filter isprimed sv).
  (* every primed identifier in the support of v is a declared primed twin *)
  assert (Hpv : forall xp, In xp pv -> exists d, In (xp, d) t /\ isprimed xp = true).
  { intros xp Hx. apply filter_In in Hx. destruct Hx as [Hx Hp].
    apply Hsv in Hx. destruct Hx as (b & Hb & Eb).
    destruct (declared_bit_lookup t b Hwt (bsupport_incl _ _ _ Hb)) as (d & Hl & _).
    rewrite Eb in Hl. exists d. split; auto. apply tlookup_in; auto. }
  assert (Hok : ren_ok t (map (fun s => (s, un s)) pv)).
  { split; [apply nodup_map_fst_pair; apply NoDup_filter; auto|].
    intros x y Hin. apply in_map_iff in Hin. destruct Hin as (xp & E & Hin).
    injection E as Ex Ey. subst x y.
    destruct (Hpv xp Hin) as (d & Hd & Hp).
    destruct (primed_declared_twin t xp d Hwf Hd Hp) as (x & E1 & E2 & E3 & E4 & E5).
    exists d. rewrite E3. split; auto. split; auto. destruct d; auto.
    intro E'. symmetry in E'. revert E'. apply sprime_neq; auto. }
  destruct (let_vars_bits t _ v Hwt Huv Hok) as (w & Ew & Huw & Hw).
  exists v, w. split; auto. split; [|split; auto].
  - unfold unprime_pred, primed_support. rewrite Esv. fold pv.
    rewrite (map_opt_some _ (fun s => (s, un s))); auto.
    intros xp Hx. destruct (Hpv xp Hx) as (d & Hd & Hp).
    destruct (primed_declared_twin t xp d Hwf Hd Hp) as (x & _ & E2 & E3 & _).
    rewrite E2, E3. reflexivity.
  - intro a. rewrite Hw, Hv.
    apply (uses_only_support (all_bits t)); auto. intros b Hb.
    assert (Hx : In (fst b) s) by (apply Hs; eauto).
    pose proof (Hunp _ Hx) as Hp.
    pose proof (bsupport_incl _ _ _ Hb) as Hdecl.
    destruct (declared_bit_lookup t b Hwt Hdecl) as (d & Hl & Hbn).
    assert (E : sprime (fst b) = Some (fst b ++ tick)%string) by (apply sprime_some; auto).
    unfold prime_asg at 1. rewrite E.
    destruct (declared t (fst b ++ tick)%string) eqn:Ed.
    + (* flexible: the primed twin is in the support of v and is renamed back *)
      assert (Hf : flexible t (fst b) = true) by (unfold flexible; rewrite E; auto).
      destruct (flexible_twin t (fst b) Hwf Hf) as (xp & d' & E1 & E2 & E3).
      assert (xp = (fst b ++ tick)%string) by congruence. subst xp.
      assert (d' = d) by congruence. subst d'.
      set (bp := (((fst b ++ tick)%string : ident), snd b) : bit).
      assert (Hbpn : In bp (bitnames (fst bp) d)).
      { unfold bp. cbn [fst]. apply in_bitnames in Hbn. apply in_bitnames. cbn [fst snd]. tauto. }
      assert (Hbpd : In bp (all_bits t)).
      { apply in_all_bits. exists (fst b ++ tick)%string, d.
        split; [apply tlookup_in; auto|exact Hbpn]. }
      assert (Hdep : depends_on v bp).
      { apply bsupport_spec in Hb; auto. destruct Hb as [_ [a0 Ha0]].
        set (a1 := fun b' : bit => match sunprime (fst b') with
                                   | Some y => a0 (y, snd b')
                                   | None => a0 b'
                                   end).
        exists a1. rewrite !Hv.
        assert (G : forall c, u (prime_asg t (upd a1 bp c)) = u (upd a0 b c)).
        { intro c. apply (uses_only_support (all_bits t)); auto. intros b2 Hb2.
          assert (Hx2 : In (fst b2) s) by (apply Hs; eauto).
          pose proof (Hunp _ Hx2) as Hp2.
          assert (E2' : sprime (fst b2) = Some (fst b2 ++ tick)%string)
            by (apply sprime_some; auto).
          unfold prime_asg. rewrite E2'.
          destruct (declared t (fst b2 ++ tick)%string) eqn:Ed2.
          - unfold upd.
            match goal with |- context [bit_eqb ?x bp] =>
              destruct (bit_eqb_spec x bp) as [Eq|Nq] end.
            + unfold bp in Eq. injection Eq as Eq1 Eq2.
              assert (fst b2 = fst b).
              { apply (sprime_inj _ _ (fst b ++ tick)%string); auto. rewrite <- Eq1. auto. }
              assert (b2 = b) by (destruct b2, b; cbn in *; congruence). subst b2.
              destruct (bit_eqb_spec b b); [reflexivity|congruence].
            + destruct (bit_eqb_spec b2 b) as [->|Nq2]; [exfalso; apply Nq; reflexivity|].
              unfold a1. cbn [fst snd]. rewrite (sunprime_sprime _ _ E2').
              destruct b2; reflexivity.
          - unfold upd.
            destruct (bit_eqb_spec b2 bp) as [Eq|Nq].
            + exfalso. subst b2. unfold bp in Hp2. cbn [fst] in Hp2.
              rewrite isprimed_tick in Hp2. discriminate.
            + destruct (bit_eqb_spec b2 b) as [->|Nq2].
              * rewrite Ed in Ed2. discriminate.
              * unfold a1.
                assert (sunprime (fst b2) = None).
                { unfold sunprime. rewrite Hp2. reflexivity. }
                rewrite H. reflexivity. }
        rewrite !G. exact Ha0. }
      assert (Hinpv : In (fst b ++ tick)%string pv).
      { apply filter_In. split; [|apply isprimed_tick].
        apply Hsv. exists bp. split; auto. apply bsupport_spec; auto. }
      pose proof (ren_bits_pairs t un pv bp d Hbpn E3) as Hrb.
      unfold bp in Hrb. cbn [fst snd] in Hrb.
      rewrite (proj2 (mem_spec String.eqb string_eqb_spec' _ _) Hinpv) in Hrb.
      unfold un in Hrb. rewrite (sunprime_sprime _ _ E) in Hrb.
      match goal with |- context [ren_bits ?T ?L ?B] =>
        replace (ren_bits T L B) with (Some (fst b, snd b)) by (symmetry; exact Hrb) end.
      destruct b; reflexivity.
    + (* rigid: untouched by both renamings *)
      rewrite ren_bits_none_notin; auto.
      apply not_true_is_false. intro Hm.
      apply (mem_spec String.eqb string_eqb_spec') in Hm. apply filter_In in Hm.
      destruct Hm as [_ Hm]. congruence.
Qed.

(* ---- type hints ---------------------------------------------------------------------------------------- *)
Definition in_dom (dom : Z * Z) (v : val) : bool :=
  match v with VZ z => (fst dom <=? z) && (z <=? snd dom) | VB _ => false end.

(* the type hints of vrs hold at f: every integer among vrs lies in its "dom" *)
Definition hint_holds (t : tbl) (vrs : list ident) (f : fasg) : bool :=
  forallb (fun x => match tlookup x t with
                    | Some (DInt h) => in_dom (h_dom h) (f x)
                    | _ => true
                    end) vrs.

Lemma range_pred_sem t x h dom f : wf_tbl t -> in_range t f ->
  tlookup x t = Some (DInt h) ->
  range_pred x h dom (encode t f) = in_dom dom (f x).
Proof.
  intros Hwf Hf Hl. pose proof (Hf x _ (tlookup_in _ _ _ Hl)) as Hr.
  destruct (f x) as [|z] eqn:Efx; cbn in Hr; [discriminate|].
  unfold range_pred. rewrite (encode_bitnames t f x h z) by auto.
  rewrite decode_encode; auto.
  destruct Hwf as [_ Hwfh]. eapply Hwfh. apply tlookup_in; eauto.
Qed.

Lemma range_pred_uses_only t x h dom : tlookup x t = Some (DInt h) ->
  uses_only (all_bits t) (range_pred x h dom).
Proof.
  intros Hl a a' Ha. unfold range_pred.
  replace (map a' (bitnames x (DInt h))) with (map a (bitnames x (DInt h))); auto.
  apply map_ext_in. intros b Hb. apply Ha. apply in_all_bits.
  exists x, (DInt h). split; auto. apply tlookup_in; auto.
Qed.

Theorem type_hint_sem t vrs : wf_tbl t ->
  (forall x, In x vrs -> exists d, tlookup x t = Some d) ->
  exists r, type_hint_for t vrs = Some r /\ uses_only (all_bits t) r /\
    forall f, in_range t f -> sem t r f = hint_holds t vrs f.
Proof.
  intros Hwf. unfold type_hint_for. induction vrs as [|x r IH]; intro Hd.
  - exists btrue. split; [reflexivity|]. split; [intros ? ? ?; reflexivity|]. reflexivity.
  - destruct IH as (rest & E & Hur & Hr); [intros; apply Hd; right; auto|].
    destruct (Hd x (or_introl eq_refl)) as (d & Hl).
    cbn [type_hints_pred]. rewrite Hl, E. destruct d as [|h].
    + exists rest. split; auto. split; auto. intros f Hf.
      cbn [hint_holds forallb]. rewrite Hl. cbn [andb]. apply Hr; auto.
    + exists (band (range_pred x h (h_dom h)) rest). split; auto. split.
      * apply uses_only_bin; auto. apply (range_pred_uses_only t); auto.
      * intros f Hf. cbn [hint_holds forallb]. rewrite Hl.
        unfold sem, band. fold (sem t rest f). rewrite Hr by auto.
        rewrite (range_pred_sem t x h _ f) by auto. reflexivity.
Qed.

(* the type action Inv /\ Inv' for flexible integers: both the variable and its
   primed twin lie in the (unprimed) dom *)
Definition action_holds (t : tbl) (vrs : list ident) (f : fasg) : bool :=
  forallb (fun x => match tlookup x t with
                    | Some (DInt h) =>
                      in_dom (h_dom h) (f x) && in_dom (h_dom h) (f (x ++ tick)%string)
                    | _ => true
                    end) vrs.

Theorem type_action_sem t vrs : wf_tbl t ->
  (forall x, In x vrs -> exists d, tlookup x t = Some d /\
     match d with
     | DInt _ => isprimed x = false /\
                 exists hp, tlookup (x ++ tick)%string t = Some (DInt hp)
     | DBool => True
     end) ->
  exists r, type_action_for t vrs = Some r /\ uses_only (all_bits t) r /\
    forall f, in_range t f -> sem t r f = action_holds t vrs f.
Proof.
  intros Hwf. unfold type_action_for. induction vrs as [|x r IH]; intro Hd.
  - exists btrue. split; [reflexivity|]. split; [intros ? ? ?; reflexivity|]. reflexivity.
  - destruct IH as (rest & E & Hur & Hr); [intros; apply Hd; right; auto|].
    destruct (Hd x (or_introl eq_refl)) as (d & Hl & Hx).
    cbn [type_hints_pred]. rewrite Hl, E. destruct d as [|h].
    + exists rest. split; auto. split; auto. intros f Hf.
      cbn [action_holds forallb]. rewrite Hl. cbn [andb]. apply Hr; auto.
    + destruct Hx as (Hp & hp & Hlp).
      assert (Es : sprime x = Some (x ++ tick)%string) by (apply sprime_some; auto).
      rewrite Es, Hlp.
      eexists. split; [reflexivity|]. split.
      * apply uses_only_bin; [apply (range_pred_uses_only t); auto|].
        apply uses_only_bin; auto. apply (range_pred_uses_only t); auto.
      * intros f Hf. cbn [action_holds forallb]. rewrite Hl.
        unfold sem, band. fold (sem t rest f). rewrite Hr by auto.
        rewrite (range_pred_sem t x h _ f) by auto.
        rewrite (range_pred_sem t (x ++ tick)%string hp _ f) by auto.
        rewrite andb_assoc. reflexivity.
Qed.

(* Automaton.implies_type_hints: exact test of  u => TypeHints  on the set of
   assignments of representable values *)
Theorem implies_type_hints_spec t u vrs : wf_tbl t -> uses_only (all_bits t) u ->
  let vs := match vrs with
            | Some v => v
            | None => filter (fun x => negb (isprimed x)) (map fst t)
            end in
  (forall x, In x vs -> exists d, tlookup x t = Some d) ->
  exists b, implies_type_hints t u vrs = Some b /\
    (b = true <->
     forall f, in_range t f -> sem t u f = true -> hint_holds t vs f = true).
Proof.
  intros Hwf Hu vs Hd.
  destruct (type_hint_sem t vs Hwf Hd) as (th & E & Huth & Hth).
  unfold implies_type_hints, conjoin_type_hints. fold vs.
  unfold type_hint_for in E. rewrite E.
  eexists. split; [reflexivity|].
  unfold beq. rewrite forallb_all_asgs.
  2:{ intros a a' Ha. unfold bor, bnot, btrue. rewrite (Huth a a' Ha), (Hu a a' Ha). reflexivity. }
  unfold bor, bnot, btrue. split.
  - intros H f Hf Hs. specialize (H (encode t f)). apply eqb_prop in H.
    rewrite <- Hth by auto. unfold sem in *. rewrite Hs in H. cbn in H.
    rewrite orb_false_r in H. exact H.
  - intros H a. apply eqb_true_iff.
    destruct (u a) eqn:Eu; cbn; [|apply orb_true_r]. rewrite orb_false_r.
    rewrite <- (Huth _ _ (encode_decode_agree t a Hwf)).
    fold (sem t th (decode t a)). rewrite Hth by (apply decode_in_range; auto).
    apply H; [apply decode_in_range; auto|]. rewrite sem_decode; auto.
Qed.

Lemma all_unprimed_declared t : NoDup (map fst t) ->
  forall x, In x (filter (fun x => negb (isprimed x)) (map fst t)) ->
            exists d, tlookup x t = Some d.
Proof.
  intros ND x Hx. apply filter_In in Hx. destruct Hx as [Hx _].
  apply in_map_iff in Hx. destruct Hx as ([y d] & <- & Hin).
  exists d. apply in_tlookup; auto.
Qed.

(* non-vacuity: an automaton table with a flexible and a rigid variable *)
Example wf_aut_example :
  wf_aut [("x"%string, DInt (mkHint 2 false (0, 2)));
          ("x'"%string, DInt (mkHint 2 false (0, 2)));
          ("k"%string, DBool)].
Proof.
  split; [split|].
  - repeat constructor; cbn; intuition; discriminate.
  - intros x h [E|[E|[E|[]]]]; inversion E; subst; repeat split; cbn; try lia; auto.
  - intros xp d [E|[E|[E|[]]]] Hp; inversion E; subst; try (cbn in Hp; discriminate).
    exists "x"%string. split; [reflexivity|]. left. reflexivity.
Qed.

(* ---- prime.rename_variables --------------------------------------------------------------------------- *)
(* when the function returns, the result is the simultaneous renaming of the
   unprimed AND the primed occurrences *)
Theorem rename_variables_sem t lt u r : wf_tbl t -> uses_only (all_bits t) u ->
  rename_variables t lt u = Some r ->
  exists lp, map_opt (fun kv => match sprime (fst kv), sprime (snd kv) with
                                | Some k, Some v => Some (k, v)
                                | _, _ => None
                                end) lt = Some lp /\
    let lt' := dict_update String.eqb lt lp in
    (ren_ok t lt' -> forall f, sem t r f = sem t u (frename f lt')) /\
    (forall s, ctx_support t r = Some s -> forall k, In k s -> ~ In k (map fst lt')).
Proof.
  intros Hwf Hu H. unfold rename_variables in H.
  destruct (map_opt _ lt) as [lp|] eqn:Ep; [|discriminate].
  exists lp. split; auto. cbv zeta.
  set (lt' := dict_update String.eqb lt lp) in *.
  destruct (ctx_let_vars t lt' u) as [r'|] eqn:El; [|discriminate].
  destruct (ctx_support t r') as [s|] eqn:Es; [|discriminate].
  destruct (existsb (fun k => mem String.eqb k (map fst lt')) s) eqn:Ex; [discriminate|].
  inversion H; subst r'. split.
  - intros Hok f. destruct (rename_spec t lt' u Hwf Hu Hok) as (r2 & E2 & _ & Hr2).
    rewrite El in E2. inversion E2; subst r2. apply Hr2.
  - intros s' Es' k Hk Hin. rewrite Es in Es'. inversion Es'; subst s'.
    assert (existsb (fun k => mem String.eqb k (map fst lt')) s = true); [|congruence].
    apply existsb_exists. exists k. split; auto.
    apply (mem_spec String.eqb string_eqb_spec'). auto.
Qed.
