(* C19 — steppers take only the steps their actions allow; assembled
   components are isolated.  Statements only; the proofs are in
   theories/L4Steps/*Proofs.v.  The model (Mangle.v, Stepper.v, Assembly.v)
   follows omega/steps.py with the repaired `_omit_prefix` (fixes/F9.patch);
   it is tied to the real code
   (T) by translation: tools/py2coq_steps.py regenerates gen/StepsGen.v from
       the current omega/steps.py on every check and GenProofs/StepsBridge.v
       proves the generated functions equal to the model
       (C19_model_is_translated_code below; the C19_translated_* theorems
       restate the results about the generated definitions), and
   (H) by the correspondence run of tools/props/c19.py on every check.
   `pick` is an arbitrary choice function. *)
From Coq Require Import List Bool String ZArith.
From Omega Require Import L4Steps.Mangle L4Steps.MangleProofs L4Steps.Stepper
  L4Steps.StepperProofs L4Steps.Assembly L4Steps.AssemblyProofs
  L4Steps.IsolationExact.
From OmegaGen Require StepsGen.
From OmegaGP Require Import StepsBridge.
Import ListNotations.
Open Scope string_scope.

Section Stepper.
Variable pick : list dict -> option dict.
Hypothesis pick_in : forall l a, pick l = Some a -> In a l.
Hypothesis pick_none : forall l, pick l = None -> l = [].
Variable A : automaton.
Let ds := a_decls A.
(* declared identifiers are distinct, every range is non-empty, primed
   identifiers carry exactly one quote, the predicates read declared
   identifiers only *)
Hypothesis WF : wf_decls ds.
Hypothesis PR : forall x, In x (names ds) -> is_primed x = true -> unprime x <> None.
Hypothesis RO : reads_only ds (a_action A).
Hypothesis ROI : reads_only ds (a_init A).

(* stepper_step_sound.  For every state (a dictionary of declared identifiers
   with values of their ranges; it may also assign primed identifiers):
   1. if `step` returns r then r assigns every implementation variable and
      every in-range valuation that gives the primed identifiers the values
      of r, overridden by the state, satisfies the action;
   2. if the unprimed support of the action is assigned and the action is
      enabled at the state, values are returned;
   3. if it is assigned and the action is disabled, the error value
      (`ValueError`) is returned, never values;
   4. if it is not assigned, the error value (`AssertionError`). *)
Theorem C19_stepper_step_sound : forall state,
  state_ok ds state ->
  (forall r, step pick A state = Ok r ->
     (forall x, In x (a_impl A) -> In (prime x) (names ds) -> In x (keys r)) /\
     (forall v, in_dom ds v ->
        (forall s z, lookup s r = Some z -> v (prime s) = z) ->
        a_action A (override v state) = true)) /\
  (support_assigned A state ->
     (exists v, in_dom ds v /\ a_action A (override v state) = true) ->
     exists r, step pick A state = Ok r) /\
  (support_assigned A state ->
     (forall v, in_dom ds v -> a_action A (override v state) = false) ->
     step pick A state = Err Disabled) /\
  (~ support_assigned A state -> step pick A state = Err Missing).
Proof.
  intros state SO. split; [|split; [|split]].
  - exact (step_ok_sound pick pick_in A WF RO state).
  - exact (step_enabled pick pick_in pick_none A WF PR RO state SO).
  - exact (step_disabled pick pick_in A WF state SO).
  - exact (step_unassigned pick A state).
Qed.

(* stepper_init_sound.  The initial values are values of implementation
   variables, and they are the restriction of an assignment p to
   `support(init)` such that every in-range valuation agreeing with p
   satisfies the initial condition; an unsatisfiable initial condition makes
   `init` signal an error, a satisfiable one never does. *)
Theorem C19_stepper_init_sound :
  (forall r, init pick A = Ok r ->
     (forall k, In k (keys r) -> In k (a_impl A)) /\
     exists p, r = filter (fun kv => mem (fst kv) (a_impl A)) p /\
       forall v, in_dom ds v -> (forall x z, lookup x p = Some z -> v x = z) ->
         a_init A v = true) /\
  ((exists v, in_dom ds v /\ a_init A v = true) -> exists r, init pick A = Ok r) /\
  ((forall v, in_dom ds v -> a_init A v = false) -> init pick A = Err Disabled).
Proof.
  split; [|split].
  - exact (init_ok_sound pick pick_in A WF ROI).
  - exact (init_satisfiable pick pick_none A WF ROI).
  - exact (init_unsatisfiable pick pick_in A WF).
Qed.
(* --- the same two theorems about the code translated from steps.py ------
   [gen_step] / [gen_init] are the generated `AutomatonStepper.step` /
   `.init` run on the model's dd-level operations (cofactor, support,
   `pick` over the candidates); see GenProofs/StepsBridge.v *)
Theorem C19_translated_stepper_step_sound : forall state,
  state_ok ds state ->
  (forall r, gen_step A pick state = Ok r ->
     (forall x, In x (a_impl A) -> In (prime x) (names ds) -> In x (keys r)) /\
     (forall v, in_dom ds v ->
        (forall s z, lookup s r = Some z -> v (prime s) = z) ->
        a_action A (override v state) = true)) /\
  (support_assigned A state ->
     (exists v, in_dom ds v /\ a_action A (override v state) = true) ->
     exists r, gen_step A pick state = Ok r) /\
  (support_assigned A state ->
     (forall v, in_dom ds v -> a_action A (override v state) = false) ->
     gen_step A pick state = Err Disabled) /\
  (~ support_assigned A state -> gen_step A pick state = Err Missing).
Proof.
  intros state. rewrite gen_step_is_model. exact (C19_stepper_step_sound state).
Qed.

Theorem C19_translated_stepper_init_sound :
  (forall r, gen_init A pick = Ok r ->
     (forall k, In k (keys r) -> In k (a_impl A)) /\
     exists p, r = filter (fun kv => mem (fst kv) (a_impl A)) p /\
       forall v, in_dom ds v -> (forall x z, lookup x p = Some z -> v x = z) ->
         a_init A v = true) /\
  ((exists v, in_dom ds v /\ a_init A v = true) -> exists r, gen_init A pick = Ok r) /\
  ((forall v, in_dom ds v -> a_init A v = false) -> gen_init A pick = Err Disabled).
Proof.
  rewrite (gen_init_is_model A pick WF pick_in). exact C19_stepper_init_sound.
Qed.
End Stepper.

(* mangle_roundtrip: what a component (name n, declaring mvars) hands to the
   assembly it reads back unchanged, provided none of its visible variables
   is named like one of its own mangled names "n_..." *)
Theorem C19_mangle_roundtrip : forall s n mvars,
  NoDup (keys s) ->
  (forall k, In k (keys s) -> In k mvars) ->
  own_names_clean n (keys s) ->
  exists g, to_global s n = Ok g /\
    to_local g n mvars = Ok (visible_vars s ++ hidden_vars s)%list.
Proof. exact mangle_roundtrip. Qed.

Example C19_mangle_roundtrip_example :
  NoDup (keys [("u", 1%Z); ("_goal", 2%Z)]) /\
  own_names_clean "foo" (keys [("u", 1%Z); ("_goal", 2%Z)]) /\
  to_global [("u", 1%Z); ("_goal", 2%Z)] "foo" = Ok [("u", 1%Z); ("foo_goal", 2%Z)] /\
  to_local [("u", 1%Z); ("foo_goal", 2%Z)] "foo" ["u"; "_goal"; "w"]
  = Ok [("u", 1%Z); ("_goal", 2%Z)].
Proof.
  split; [repeat constructor; simpl; intuition discriminate|].
  split; [|split; reflexivity].
  intros k [<-|[<-|[]]]; simpl; intros; (reflexivity || discriminate).
Qed.

(* the local view is exact: for a global state without keys starting with
   "_", `_to_local_state` never signals a spurious collision and a component
   named n sees under k exactly the global "n ++ k" if k is hidden, the
   global k if k is visible (and not of the form "n_..."), and only for the
   k it declares *)
Theorem C19_local_view_exact : forall G n mvars,
  NoDup (keys G) -> no_hidden_keys G ->
  exists L, to_local G n mvars = Ok L /\ NoDup (keys L) /\
    forall k, lookup k L = if mem k mvars then spec_local G n k else None.
Proof. exact to_local_exact. Qed.

(* assembly_isolation (theories/L4Steps/IsolationExact.v), under a
   SUFFICIENT naming condition (necessity is not proved; the third clause
   cannot simply be dropped, see the witness below):
     names_ok ms              every component name is non-empty and does not
                              start with "_";
     mangling_unambiguous ms  for components c, d of the assembly, a hidden
                              identifier k declared by c and a hidden
                              identifier h declared by d:
                              fst c ++ k = fst d ++ h  only if  fst c = fst d
                              and k = h;
     visible_clean ms         no declared visible variable looks like a
                              mangled name "d_..." of a component d;
   G consists of the components' mangled outputs.  Then a component's view
   contains only variables it declares; its hidden entries are outputs of
   the component of its name; its visible entries are visible outputs of the
   same name: no value of another component's hidden variable reaches it. *)
Theorem C19_assembly_isolation : forall ms outs G c,
  names_ok ms -> mangling_unambiguous ms -> visible_clean ms ->
  from_outputs ms outs G -> In c ms ->
  exists L, to_local G (fst c) (m_vars (snd c)) = Ok L /\
    forall k z, In (k, z) L ->
      In k (m_vars (snd c)) /\
      if is_hidden k
      then exists rg, In rg outs /\ to_global (fst rg) (fst c) = Ok (snd rg) /\
                      In (k, z) (fst rg)
      else exists rg, In rg outs /\ In (k, z) (visible_vars (fst rg)).
Proof. exact assembly_isolation_exact. Qed.

(* sufficient conditions for [mangling_unambiguous] (1. also gives
   [names_ok]):
   1. component names free of "_" ([names_plain]);
   2. all declared hidden identifiers have one length;
   3. all declared hidden identifiers are among "_goal", "_hold", "_goal'",
      "_hold'", which is what synthesized implementations declare
      (`AutomatonStepper.vars = aut.vars` holds the primed copies too):
      within the unprimed and within the primed identifiers the lengths
      agree, and a primed and an unprimed one differ in the last character.
   In 2. and 3. nothing more is required of the component names (which
   [names_ok] and [visible_clean] still restrict). *)
Theorem C19_mangling_unambiguous_when :
  (forall ms, names_plain ms -> names_ok ms /\ mangling_unambiguous ms) /\
  (forall ms n, hidden_same_length ms n -> mangling_unambiguous ms) /\
  (forall ms, hidden_goal_hold ms -> mangling_unambiguous ms).
Proof.
  split; [|split].
  - intros ms NP. split; [apply names_plain_names_ok|apply names_plain_unambiguous]; exact NP.
  - exact same_length_unambiguous.
  - exact goal_hold_unambiguous.
Qed.

(* the former statement (names without underscores) *)
Theorem C19_assembly_isolation_plain_names : forall ms outs G c,
  names_plain ms -> visible_clean ms -> from_outputs ms outs G -> In c ms ->
  exists L, to_local G (fst c) (m_vars (snd c)) = Ok L /\
    forall k z, In (k, z) L ->
      In k (m_vars (snd c)) /\
      if is_hidden k
      then exists rg, In rg outs /\ to_global (fst rg) (fst c) = Ok (snd rg) /\
                      In (k, z) (fst rg)
      else exists rg, In rg outs /\ In (k, z) (visible_vars (fst rg)).
Proof. exact assembly_isolation_plain. Qed.

(* the property's quantifier - assemblies of synthesized implementations,
   whose hidden identifiers are "_goal", "_hold" and their primed copies:
   isolation for component names that are non-empty and do not start with
   "_" ([names_ok]) and declared visible variables that do not look like
   "d_..." for a component d ([visible_clean]); no further condition on the
   names: they may contain underscores and be prefixes of one another ("a",
   "a_b", "cell_1", "cell_10"; C19_isolation_hypotheses_satisfiable) *)
Theorem C19_assembly_isolation_synthesized : forall ms outs G c,
  names_ok ms -> hidden_goal_hold ms -> visible_clean ms ->
  from_outputs ms outs G -> In c ms ->
  exists L, to_local G (fst c) (m_vars (snd c)) = Ok L /\
    forall k z, In (k, z) L ->
      In k (m_vars (snd c)) /\
      if is_hidden k
      then exists rg, In rg outs /\ to_global (fst rg) (fst c) = Ok (snd rg) /\
                      In (k, z) (fst rg)
      else exists rg, In rg outs /\ In (k, z) (visible_vars (fst rg)).
Proof. exact assembly_isolation_synthesized. Qed.

(* observation (outside the property's quantifier): with hidden identifiers
   of different lengths and names containing "_" the mangling is ambiguous.
   Component "a_b" has the hidden "_y" (value 7); component "a" declares the
   hidden "_b_y", never writes it, and copies what it reads there to "u".
   Both identifiers have the global name "a_b_y": names_ok and visible_clean
   hold, mangling_unambiguous does not, NOTHING IS SIGNALLED (a leak without
   a collision), "a" outputs the hidden value of "a_b", and the conclusion
   of C19_assembly_isolation is false for the initial state. *)
Example C19_underscore_names_can_leak :
  names_ok leak_ms /\ visible_clean leak_ms /\ machines_ok leak_ms /\
  NoDup (map fst leak_ms) /\
  ~ mangling_unambiguous leak_ms /\
  (exists a, run omit1 leak_ms 1 = Ok a /\
             s_state a = Some [("a_b_y", 7%Z); ("u", 7%Z)]) /\
  to_local [("a_b_y", 7%Z); ("u", 0%Z)] "a" ["_b_y"; "u"]
  = Ok [("_b_y", 7%Z); ("u", 0%Z)] /\
  asm_init leak_ms = Ok leak_G /\ from_outputs leak_ms leak_outs leak_G /\
  ~ (exists L, to_local leak_G "a" (m_vars leak_a) = Ok L /\
       forall k z, In (k, z) L ->
         In k (m_vars leak_a) /\
         if is_hidden k
         then exists rg, In rg leak_outs /\
                to_global (fst rg) "a" = Ok (snd rg) /\ In (k, z) (fst rg)
         else exists rg, In rg leak_outs /\ In (k, z) (visible_vars (fst rg))).
Proof. exact underscore_names_can_leak. Qed.

(* non-vacuity, with machines that ARE steppers ([stepper_machine], whose
   declared variables are names (a_decls A), primed copies included), names
   with underscores one of which is a prefix of the other, and a non-empty
   recorded state: all hypotheses of C19_assembly_isolation and of
   C19_assembly_isolation_synthesized hold, and the views are the isolated
   ones ("cell_1" does not see "cell_10_goal") *)
Definition iso_A1 : automaton := {|
  a_decls := [("x", [0; 1]%Z); ("y", [0; 1]%Z); ("_goal", [0; 1]%Z);
              ("x'", [0; 1]%Z); ("y'", [0; 1]%Z); ("_goal'", [0; 1]%Z)];
  a_init := fun _ => true; a_action := fun _ => true;
  a_impl := ["y"; "_goal"] |}.
Definition iso_A2 : automaton := {|
  a_decls := [("y", [0; 1]%Z); ("z", [0; 1]%Z); ("_goal", [0; 1]%Z);
              ("_hold", [0; 1]%Z); ("y'", [0; 1]%Z); ("z'", [0; 1]%Z);
              ("_goal'", [0; 1]%Z); ("_hold'", [0; 1]%Z)];
  a_init := fun _ => true; a_action := fun _ => true;
  a_impl := ["z"; "_goal"; "_hold"] |}.
Definition iso_ms : machines :=
  [("cell_1", stepper_machine (@hd_error dict) (@hd_error dict) iso_A1);
   ("cell_10", stepper_machine (@hd_error dict) (@hd_error dict) iso_A2)].
Definition iso_outs : list (dict * dict) :=
  [([("y", 1%Z); ("_goal", 0%Z)], [("y", 1%Z); ("cell_1_goal", 0%Z)]);
   ([("z", 0%Z); ("_goal", 1%Z); ("_hold", 1%Z)],
    [("z", 0%Z); ("cell_10_goal", 1%Z); ("cell_10_hold", 1%Z)])].
Definition iso_G : dict :=
  [("y", 1%Z); ("cell_1_goal", 0%Z);
   ("z", 0%Z); ("cell_10_goal", 1%Z); ("cell_10_hold", 1%Z)].

Example C19_isolation_hypotheses_satisfiable :
  names_ok iso_ms /\ hidden_goal_hold iso_ms /\ mangling_unambiguous iso_ms /\
  visible_clean iso_ms /\ from_outputs iso_ms iso_outs iso_G /\
  to_local iso_G "cell_1" (names (a_decls iso_A1))
  = Ok [("y", 1%Z); ("_goal", 0%Z)] /\
  to_local iso_G "cell_10" (names (a_decls iso_A2))
  = Ok [("y", 1%Z); ("z", 0%Z); ("_goal", 1%Z); ("_hold", 1%Z)].
Proof.
  assert (GH : hidden_goal_hold iso_ms).
  { intros c k [<-|[<-|[]]]; simpl; intuition (subst; try discriminate; auto). }
  split; [|split; [exact GH|split; [exact (goal_hold_unambiguous _ GH)|split; [|split]]]].
  - intros nm [<-|[<-|[]]]; simpl; split; (discriminate || reflexivity).
  - intros c d [<-|[<-|[]]] [<-|[<-|[]]] k; simpl;
      intuition (subst; try discriminate; auto).
  - split; [|split].
    + constructor; [|constructor; [|constructor]];
        (split; [repeat constructor; simpl; intuition discriminate
                |split; [simpl; tauto|reflexivity]]).
    + reflexivity.
    + repeat constructor; simpl; intuition discriminate.
  - split; reflexivity.
Qed.

(* every state an assembly records - by `step` and by `init` - does consist
   of mangled outputs, with pairwise distinct global names *)
Theorem C19_recorded_state_from_outputs : forall ms G G',
  machines_ok ms -> asm_step omit1 ms G = Ok G' ->
  exists outs, from_outputs ms outs G'.
Proof. exact asm_step_from_outputs. Qed.

Theorem C19_initial_state_from_outputs : forall ms G,
  machines_ok ms -> asm_init ms = Ok G ->
  exists outs, from_outputs ms outs G.
Proof. exact asm_init_from_outputs. Qed.

(* collisions are signalled, never resolved silently:
   unmangling that would map two keys to one name raises; a step in which
   two components return values for the same global name raises *)
Theorem C19_collisions_signalled :
  (forall om p d, ~ NoDup (keys (ren om p d)) ->
     omit_prefix_with om d p = Err Collision) /\
  (forall ms G c d kc kd,
     machines_ok ms ->
     (exists pre mid post, ms = (pre ++ c :: mid ++ d :: post)%list) ->
     (forall lc rc, to_local G (fst c) (m_vars (snd c)) = Ok lc ->
        m_step (snd c) lc = Ok rc -> In kc (keys rc)) ->
     (forall ld rd, to_local G (fst d) (m_vars (snd d)) = Ok ld ->
        m_step (snd d) ld = Ok rd -> In kd (keys rd)) ->
     gname (fst c) kc = gname (fst d) kd ->
     forall G', asm_step omit1 ms G <> Ok G').
Proof. split; [exact omit_prefix_collision_signalled|exact collision_signalled]. Qed.

(* assembly_step_sound: in the history of any run (init and then any number
   of steps) the first state holds every component's initial values and
   every pair of consecutive states (G, G') satisfies every component:
   G' holds, under the component's global names, exactly what its `step`
   returned for its local view of G. *)
Theorem C19_assembly_step_sound : forall ms n a,
  machines_ok ms -> run omit1 ms n = Ok a ->
  (forall G G', consecutive (trace a) G G' -> step_rel ms G G') /\
  match trace a with G0 :: _ => init_rel ms G0 | [] => False end.
Proof.
  intros ms n a MOK H. destruct (assembly_step_sound ms n a MOK H) as [C I].
  split; [|exact I]. intros G G' CO. eapply chain_consecutive; eauto.
Qed.

(* ... and for a component that is an AutomatonStepper this means that the
   recorded step satisfies its action (whatever the local view is: the
   stepper returns values only after its own checks, see
   C19_stepper_step_sound, so no hypothesis on the local state is needed): *)
Theorem C19_recorded_step_satisfies_action :
  forall pick_i pick_s A ms name n a,
  (forall l x, pick_i l = Some x -> In x l) ->
  (forall l x, pick_s l = Some x -> In x l) ->
  wf_decls (a_decls A) -> reads_only (a_decls A) (a_action A) ->
  (forall x, In (prime x) (names (a_decls A)) -> In x (names (a_decls A))) ->
  machines_ok ms -> In (name, stepper_machine pick_i pick_s A) ms ->
  run omit1 ms n = Ok a ->
  forall G G', consecutive (trace a) G G' ->
  exists local r,
    to_local G name (names (a_decls A)) = Ok local /\
    (forall k z, In (k, z) r -> lookup (gname name k) G' = Some z) /\
    (forall x, In x (a_impl A) -> In (prime x) (names (a_decls A)) -> In x (keys r)) /\
    (forall v, in_dom (a_decls A) v ->
       (forall s z, lookup s r = Some z -> v (prime s) = z) ->
       a_action A (override v local) = true).
Proof.
  intros pick_i pick_s A ms name n a Pi Ps WF RO UNP MOK IN RUN G G' CO.
  destruct (assembly_step_sound ms n a MOK RUN) as [C _].
  destruct (chain_consecutive _ _ _ _ C CO name _ IN) as [local [r [L [S E]]]].
  exists local, r. split; [exact L|]. split; [exact E|].
  exact (step_ok_sound pick_s Ps A WF RO local r S).
Qed.

(* machines built from steppers, and the Scheduler, are admissible machines *)
Theorem C19_stepper_machine_ok : forall pick_i pick_s A,
  (forall l x, pick_i l = Some x -> In x l) ->
  (forall l x, pick_s l = Some x -> In x l) ->
  wf_decls (a_decls A) ->
  (forall x, In (prime x) (names (a_decls A)) -> In x (names (a_decls A))) ->
  machine_ok (stepper_machine pick_i pick_s A).
Proof. intros pick_i pick_s A Pi Ps. exact (stepper_machine_ok pick_i pick_s Pi Ps A). Qed.

(* C19_mangle_refuted (regression, defect F9): with the unrepaired
   `_omit_prefix` the hypotheses of C19_assembly_isolation_plain_names (hence
   of C19_assembly_isolation) hold for the
   assembly {ab (hidden _y), a (declares visible b_y)} and "a" nevertheless
   computes its output from ab's hidden value 7; the repaired function gives
   the isolated result. *)
Example C19_mangle_refuted :
  names_plain f9_ms /\ visible_clean f9_ms /\ machines_ok f9_ms /\
  (exists a, run omit1_old f9_ms 1 = Ok a /\
             s_state a = Some [("ab_y", 7%Z); ("u", 7%Z)]) /\
  (exists a, run omit1 f9_ms 1 = Ok a /\
             s_state a = Some [("ab_y", 7%Z); ("u", 0%Z)]).
Proof. exact mangle_refuted_old. Qed.

Example C19_mangle_refuted_loss :
  to_local_old [("foobar", 3%Z)] "foo" ["foobar"] = Ok [] /\
  to_local [("foobar", 3%Z)] "foo" ["foobar"] = Ok [("foobar", 3%Z)].
Proof. split; reflexivity. Qed.

(* ---- non-vacuity: the hypotheses of the stepper theorems are satisfiable
   and each case of stepper_step_sound occurs ---- *)
Definition ex_ds : decls :=
  [("x", [0; 1]%Z); ("y", [0; 1]%Z); ("x'", [0; 1]%Z); ("y'", [0; 1]%Z)].
(* action  x /\ y' = x ; init  y = 0 *)
Definition ex_A : automaton := {|
  a_decls := ex_ds;
  a_init := eval_tbl ex_ds
    (Node [Node [Node [Node [Leaf true; Leaf true]; Node [Leaf true; Leaf true]];
                 Node [Node [Leaf false; Leaf false]; Node [Leaf false; Leaf false]]];
           Node [Node [Node [Leaf true; Leaf true]; Node [Leaf true; Leaf true]];
                 Node [Node [Leaf false; Leaf false]; Node [Leaf false; Leaf false]]]]);
  a_action := fun v => Z.eqb (v "x") 1 && Z.eqb (v "y'") (v "x");
  a_impl := ["y"] |}.

Example C19_hypotheses_satisfiable :
  wf_decls ex_ds /\
  (forall x, In x (names ex_ds) -> is_primed x = true -> unprime x <> None) /\
  reads_only ex_ds (a_action ex_A) /\ reads_only ex_ds (a_init ex_A) /\
  state_ok ex_ds [("x", 1%Z); ("y", 0%Z)] /\
  support_assigned ex_A [("x", 1%Z); ("y", 0%Z)] /\
  step (@hd_error dict) ex_A [("x", 1%Z); ("y", 0%Z)] = Ok [("y", 1%Z)] /\
  step (@hd_error dict) ex_A [("x", 0%Z); ("y", 0%Z)] = Err Disabled /\
  step (@hd_error dict) ex_A [("y", 0%Z)] = Err Missing /\
  init (@hd_error dict) ex_A = Ok [("y", 0%Z)].
Proof.
  split; [|split; [|split; [|split; [|split; [|split]]]]].
  - split.
    + repeat constructor; simpl; intuition discriminate.
    + intros x dom H. simpl in H.
      repeat (destruct H as [H|H]; [injection H as <- <-; discriminate|]). contradiction.
  - intros x H. simpl in H.
    repeat (destruct H as [<-|H]; [simpl; intros; discriminate|]). contradiction.
  - intros v w AG. simpl.
    rewrite (AG "x"), (AG "y'") by (simpl; tauto). reflexivity.
  - apply eval_tbl_reads_only.
  - intros k z H. simpl in H. destruct H as [H|[H|[]]]; injection H as <- <-.
    + exists [0; 1]%Z. simpl. tauto.
    + exists [0; 1]%Z. simpl. tauto.
  - intros x H. vm_compute in H. destruct H as [<-|[<-|[]]]; simpl; intros; [tauto|discriminate].
  - repeat split; vm_compute; reflexivity.
Qed.

(* ======================================================================
   Tie T: the model is the translated code.
   gen/StepsGen.v is regenerated from the current omega/steps.py on every
   run (strings -> Coq strings; dictionaries -> association lists with
   Python's own `d[k] = v` = [dset]; `assert` / `raise` -> error values;
   fields of `self` -> explicit arguments; the dd calls stay parameters).
   The model writes comprehensions as [filter] and `update` as append, which
   agrees with the generic dictionary operations exactly on association
   lists with distinct keys, i.e. on Python dictionaries.  Hence:
   Leibniz equality for all arguments where no dictionary argument is
   re-built (`_omit_prefix`, `add_prefix`, `omit_prefix`,
   `_assert_disjoint`, `_to_local_state`, `History.update`,
   `AutomatonStepper.step`); equality for all dictionaries with distinct
   keys ([NoDup (keys d)]) for `visible_vars`, `hidden_vars`, `slice_dict`,
   `_to_global_state`, `_update_state`; equality for all machines that
   return dictionaries with distinct keys (implied by [machines_ok]) for
   `Assembly.init`, `Assembly.step` and whole runs. *)
Theorem C19_model_is_translated_code :
  (forall s p, StepsGen._omit_prefix s p = omit1 s p) /\
  (forall d p, StepsGen.add_prefix d p = add_prefix d p) /\
  (forall d p, StepsGen.omit_prefix d p = omit_prefix d p) /\
  (forall a b, StepsGen._assert_disjoint a b
     = if overlap a b then Err Collision else Ok tt) /\
  (forall d, NoDup (keys d) -> StepsGen.visible_vars d = visible_vars d) /\
  (forall d, NoDup (keys d) -> StepsGen.hidden_vars d = hidden_vars d) /\
  (forall d ks, NoDup (keys d) ->
     StepsGen.slice_dict d ks = filter (fun kv => mem (fst kv) ks) d) /\
  (forall G name m,
     StepsGen.Assembly__to_local_state G name m = to_local G name (m_vars m)) /\
  (forall local name, NoDup (keys local) ->
     StepsGen.Assembly__to_global_state local name = to_global local name) /\
  (forall state partial, NoDup (keys partial) ->
     StepsGen.Assembly__update_state state partial
     = update_state state partial) /\
  (forall (s : dict) past n,
     StepsGen.History_update s past n = (n, (past ++ [s])%list)) /\
  (forall ms a, Forall (fun nm => returns_dicts (snd nm)) ms ->
     StepsGen.Assembly_init ms a = do_init ms a) /\
  (forall ms a, Forall (fun nm => returns_dicts (snd nm)) ms ->
     StepsGen.Assembly_step ms a = do_step omit1 ms a) /\
  (forall ms n, Forall (fun nm => returns_dicts (snd nm)) ms ->
     gen_run ms n = run omit1 ms n) /\
  (forall A pick supp state,
     StepsGen.AutomatonStepper_step pred (m_let A)
       (fun u => support (free_decls (a_decls A) state) u)
       (fun u vrs =>
          pick (candidates (a_decls A) (restrict_decls (a_decls A) vrs) u))
       (m_varlist A) (m_unprimed supp) m_unprime
       (a_init A) (a_action A) state
     = step_core pick A supp state) /\
  (forall A pick supp,
     (forall p, pick (candidates (a_decls A) (restrict_decls (a_decls A) supp)
                        (a_init A)) = Some p -> NoDup (keys p)) ->
     StepsGen.AutomatonStepper_init pred
       (fun u =>
          pick (candidates (a_decls A) (restrict_decls (a_decls A) supp) u))
       (m_varlist A) (a_init A) (a_action A)
     = init_core pick A supp).
Proof. exact model_is_translated_code. Qed.

(* [machines_ok], the hypothesis of the assembly theorems, gives what the
   equalities need *)
Theorem C19_machines_ok_return_dicts : forall ms,
  machines_ok ms -> Forall (fun nm => returns_dicts (snd nm)) ms.
Proof. exact machines_ok_Forall. Qed.

(* --- the theorems above, about the translated code ---------------------- *)
(* mangle_roundtrip *)
Theorem C19_translated_mangle_roundtrip : forall s n m,
  NoDup (keys s) ->
  (forall k, In k (keys s) -> In k (m_vars m)) ->
  own_names_clean n (keys s) ->
  exists g, StepsGen.Assembly__to_global_state s n = Ok g /\
    StepsGen.Assembly__to_local_state g n m
    = Ok (visible_vars s ++ hidden_vars s)%list.
Proof.
  intros s n m ND K C. destruct (mangle_roundtrip s n (m_vars m) ND K C) as [g [G L]].
  exists g. rewrite (to_global_generated_is_model s n ND), to_local_generated_is_model.
  split; assumption.
Qed.

(* the local view computed by the translated `_to_local_state` is exact *)
Theorem C19_translated_local_view_exact : forall G n m,
  NoDup (keys G) -> no_hidden_keys G ->
  exists L, StepsGen.Assembly__to_local_state G n m = Ok L /\ NoDup (keys L) /\
    forall k, lookup k L = if mem k (m_vars m) then spec_local G n k else None.
Proof.
  intros G n m. rewrite to_local_generated_is_model. apply to_local_exact.
Qed.

(* assembly_isolation, for the view computed by the translated code *)
Theorem C19_translated_assembly_isolation : forall ms outs G c,
  names_ok ms -> mangling_unambiguous ms -> visible_clean ms ->
  from_outputs ms outs G -> In c ms ->
  exists L, StepsGen.Assembly__to_local_state G (fst c) (snd c) = Ok L /\
    forall k z, In (k, z) L ->
      In k (m_vars (snd c)) /\
      if is_hidden k
      then exists rg, In rg outs /\ to_global (fst rg) (fst c) = Ok (snd rg) /\
                      In (k, z) (fst rg)
      else exists rg, In rg outs /\ In (k, z) (visible_vars (fst rg)).
Proof.
  intros ms outs G c. rewrite to_local_generated_is_model.
  apply assembly_isolation_exact.
Qed.

(* ... and the leak outside the condition, on the translated code *)
Example C19_translated_underscore_names_can_leak :
  exists a, gen_run leak_ms 1 = Ok a /\
            s_state a = Some [("a_b_y", 7%Z); ("u", 7%Z)].
Proof. eexists. split; vm_compute; reflexivity. Qed.

(* collisions of unmangled names are signalled by the translated code *)
Theorem C19_translated_collisions_signalled : forall p d,
  ~ NoDup (keys (ren omit1 p d)) -> StepsGen.omit_prefix d p = Err Collision.
Proof.
  intros p d. rewrite omit_prefix_generated_is_model.
  apply omit_prefix_collision_signalled.
Qed.

(* assembly_step_sound, for behaviours of the translated `Assembly`:
   `Assembly()`, `init()`, then n times `step()` ([gen_run]) *)
Theorem C19_translated_assembly_step_sound : forall ms n a,
  machines_ok ms -> gen_run ms n = Ok a ->
  (forall G G', consecutive (trace a) G G' -> step_rel ms G G') /\
  match trace a with G0 :: _ => init_rel ms G0 | [] => False end.
Proof.
  intros ms n a MOK. rewrite (run_generated_is_model ms n (machines_ok_Forall ms MOK)).
  exact (C19_assembly_step_sound ms n a MOK).
Qed.

(* a refused step changes nothing: in the translated `Assembly.step` every
   change of `self.state` / `self.past` comes after the last statement that
   can raise (statement order analysed by the translator, pinned here) *)
Theorem C19_translated_refused_step_changes_nothing :
  StepsGen.Assembly_step_commits_last = true.
Proof. exact assembly_step_commits_last. Qed.

(* the translated code runs: the F9 scenario (components "ab" and "a") on
   the generated `Assembly.init` / `Assembly.step`, and the mangling round
   trip on the generated functions *)
Example C19_translated_code_runs :
  (exists a, gen_run f9_ms 1 = Ok a /\
             s_state a = Some [("ab_y", 7%Z); ("u", 0%Z)]) /\
  StepsGen.Assembly__to_global_state [("u", 1%Z); ("_goal", 2%Z)] "foo"
  = Ok [("u", 1%Z); ("foo_goal", 2%Z)] /\
  StepsGen.omit_prefix [("foobar", 3%Z); ("foo_y", 4%Z)] "foo"
  = Ok [("foobar", 3%Z); ("_y", 4%Z)] /\
  StepsGen.omit_prefix [("_y", 3%Z); ("foo_y", 4%Z)] "foo" = Err Collision /\
  StepsGen.Assembly_step f9_ms asm_new = Err Uninit.
Proof.
  split; [eexists; split; vm_compute; reflexivity|].
  repeat split; vm_compute; reflexivity.
Qed.


Print Assumptions C19_stepper_step_sound.
Print Assumptions C19_stepper_init_sound.
Print Assumptions C19_mangle_roundtrip.
Print Assumptions C19_local_view_exact.
Print Assumptions C19_assembly_isolation.
Print Assumptions C19_mangling_unambiguous_when.
Print Assumptions C19_assembly_isolation_plain_names.
Print Assumptions C19_assembly_isolation_synthesized.
Print Assumptions C19_underscore_names_can_leak.
Print Assumptions C19_isolation_hypotheses_satisfiable.
Print Assumptions C19_recorded_state_from_outputs.
Print Assumptions C19_initial_state_from_outputs.
Print Assumptions C19_collisions_signalled.
Print Assumptions C19_assembly_step_sound.
Print Assumptions C19_recorded_step_satisfies_action.
Print Assumptions C19_stepper_machine_ok.
Print Assumptions C19_mangle_refuted.
Print Assumptions C19_mangle_refuted_loss.
Print Assumptions C19_hypotheses_satisfiable.
Print Assumptions C19_mangle_roundtrip_example.
Print Assumptions C19_model_is_translated_code.
Print Assumptions C19_translated_stepper_step_sound.
Print Assumptions C19_translated_stepper_init_sound.
Print Assumptions C19_translated_mangle_roundtrip.
Print Assumptions C19_translated_local_view_exact.
Print Assumptions C19_translated_assembly_isolation.
Print Assumptions C19_translated_underscore_names_can_leak.
Print Assumptions C19_machines_ok_return_dicts.
Print Assumptions C19_translated_collisions_signalled.
Print Assumptions C19_translated_assembly_step_sound.
Print Assumptions C19_translated_refused_step_changes_nothing.
Print Assumptions C19_translated_code_runs.
