"""Shared machinery of the checks (DESIGN §3).

A property plug-in `tools/props/cXX.py` provides

    ID            'C11'
    LEVEL         evidence level ('proof')
    def prove(ctx)       tie T/G + Coq obligations; raise Broken on failure
    def correspond(ctx)  tie H; returns list of Mismatch (possibly empty)
    def search(ctx, broken, mismatches)   -> list of Failing (concrete
                  failing inputs of the *property*), may be empty

and `run_check` drives them, writes evidence/<id>.json, prints VIOLATION /
KNOWN-FINDING lines and returns the exit status.
"""
import concurrent.futures
import fcntl
import json
import os
import random
import re
import subprocess
import sys
import time

VERIF = os.path.dirname(os.path.dirname(os.path.dirname(
    os.path.abspath(__file__))))
COQ = os.path.join(VERIF, 'coq')
REPO = os.environ.get('OMEGA_REPO', '/repo')
NPROC = int(os.environ.get('VERIF_JOBS', '16'))

COQ_ARGS = ['-Q', 'theories', 'Omega', '-Q', 'gen', 'OmegaGen',
            '-Q', 'GenProofs', 'OmegaGP',
            '-Q', 'Properties', 'OmegaProps', '-Q', 'cases', 'OmegaCases',
            '-w', '-notation-overridden,-deprecated-hint-without-locality,'
            '-deprecated-instance-without-locality,-deprecated-syntactic-definition']

TRUSTED_COMMON = [
    'Coq 8.16.1 kernel including the vm_compute machine (no native_compute)',
    'dd (BDD package) is outside the model: its operations are modelled by '
    'their meaning on sets of assignments (DESIGN §8.3)',
    'the correspondence generators: tie H is a sample (exhaustive where '
    'coverage.exhaustive_part says so)',
    'tools/py2coq.py, tools/vlib/coqlit.py (Python -> Gallina writers) and '
    'the comparison evaluated inside Coq',
]


class Broken(Exception):
    """A tie or a proof obligation no longer checks."""

    def __init__(self, tie, detail, case=None):
        super().__init__(f'{tie}: {detail}')
        self.tie = tie          # 'translator' | 'proof' | 'table' | 'infra'
        self.detail = detail
        self.case = case


class Mismatch:
    """Implementation and model/spec differ on a concrete input."""

    def __init__(self, what, case, impl=None, model=None, key=None,
                 property_fails=None):
        self.what = what
        self.case = case
        self.impl = impl
        self.model = model
        self.key = key          # known-finding class, if recognised
        # True: shown to violate the property itself (spec oracle);
        # None: only model/impl disagreement so far
        self.property_fails = property_fails

    def to_json(self):
        return dict(what=self.what, case=self.case, impl=self.impl,
                    model=self.model, key=self.key,
                    property_fails=self.property_fails)


class Failing:
    """A concrete input on which the property fails on the implementation."""

    def __init__(self, what, case, expected=None, got=None, key=None,
                 replay_cmd=None):
        self.what, self.case = what, case
        self.expected, self.got, self.key = expected, got, key
        self.replay_cmd = replay_cmd

    def to_json(self):
        return dict(what=self.what, input=self.case, required=self.expected,
                    implementation=self.got, key=self.key,
                    replay_cmd=self.replay_cmd)


class Ctx:
    def __init__(self, pid, tier, seed):
        self.pid = pid
        self.tier = tier
        self.seed = seed
        self.rng = random.Random(seed)
        self.t0 = time.time()
        self.obligations = []       # names of theorems checked this run
        self.discharged = 0
        self.assumptions_out = []   # Print Assumptions output
        self.trusted = list(TRUSTED_COMMON)
        self.cov = dict(evaluations=0, distinct_nontrivial=0, rule='',
                        samples=[])
        self.extra = {}
        self.assumptions = []
        self.notes = []
        self.known_printed = []
        self.checker_cmds = []

    @property
    def thorough(self):
        return self.tier == 'thorough'

    def log(self, *a):
        print(f'[{self.pid} {time.time() - self.t0:6.1f}s]', *a,
              file=sys.stderr, flush=True)

    # ---------------------------------------------------------------- coq
    def build_theories(self, targets=None):
        """(Re)build hand-written theories; normally a no-op after setup.

        targets: list like ['theories/L4/Kleene.vo'] (their dependencies are
        built too); None builds everything under coq/theories."""
        lock = os.path.join(COQ, '.lock')
        with open(lock, 'w') as lf:
            fcntl.flock(lf, fcntl.LOCK_EX)
            r = subprocess.run(
                ['bash', os.path.join(VERIF, 'tools', 'coqbuild.sh')]
                + list(targets or []),
                cwd=COQ, capture_output=True, text=True, timeout=3000)
        if r.returncode != 0:
            raise Broken('proof', 'hand-written theories do not build: '
                         + (r.stdout + r.stderr)[-2000:])
        self.checker_cmds.append(
            'cd /verif/coq && make ' + ' '.join(targets or []))

    def coq_lock(self):
        """Lock serialising writes of shared gen/ GenProofs/ Properties/ .vo."""
        lf = open(os.path.join(COQ, '.proplock'), 'w')
        fcntl.flock(lf, fcntl.LOCK_EX)
        return lf

    def write_gen(self, relpath, text):
        """Write a generated .v; compile it if new or changed."""
        path = os.path.join(COQ, relpath)
        old = None
        if os.path.exists(path):
            with open(path) as f:
                old = f.read()
        vo = path[:-2] + '.vo'
        if old != text or not os.path.exists(vo) \
                or os.path.getmtime(vo) < os.path.getmtime(path) \
                or self._stale(relpath, vo):
            with open(path, 'w') as f:
                f.write(text)
            # the generated text obeys the same rules as the hand-written
            # files (no Axiom/Parameter/Admitted, no Variable outside a
            # Section): a translator that emitted one would be a broken tie
            import io
            import contextlib
            import lint_coq
            buf = io.StringIO()
            with contextlib.redirect_stdout(buf):
                nbad = lint_coq.lint_file(path)
            if nbad:
                raise Broken('translator',
                             f'{relpath}: generated code contains forbidden '
                             'vernacular: ' + buf.getvalue().strip()[-800:])
            rc, out, err, dt = self.coqc(relpath, 600)
            if rc != 0:
                raise Broken('translator',
                             f'{relpath}: generated code does not compile: '
                             + err.strip()[-1500:])
        self.checker_cmds.append(
            f'regenerate {relpath} from /repo with tools/py2coq.py; coqc')

    def _stale(self, relpath, vo):
        """Is a compiled file older than a compiled file it imports?"""
        r = subprocess.run(['coqdep'] + COQ_ARGS[:12] + [relpath], cwd=COQ,
                           capture_output=True, text=True)
        t = os.path.getmtime(vo)
        for line in r.stdout.splitlines():
            if ':' not in line or '.vo' not in line.split(':', 1)[0]:
                continue
            for d in line.split(':', 1)[1].split():
                dp = os.path.join(COQ, d)
                if d.endswith('.vo') and os.path.exists(dp) \
                        and os.path.getmtime(dp) > t:
                    return True
        return False

    def coqc(self, relpath, timeout=600):
        cmd = ['timeout', str(timeout), 'coqc'] + COQ_ARGS + [relpath]
        t = time.time()
        r = subprocess.run(cmd, cwd=COQ, capture_output=True, text=True)
        return r.returncode, r.stdout, r.stderr, time.time() - t

    def prove(self, relpath, timeout=600):
        """Compile a file of obligations; raise Broken naming the theorem."""
        path = os.path.join(COQ, relpath)
        with open(path) as f:
            src = f.read()
        names = theorem_names(src)
        self.checker_cmds.append(
            'cd /verif/coq && coqc ' + ' '.join(COQ_ARGS[:12]) + ' ' + relpath)
        # make-like freshness: a compiled file is reused when its source and
        # every compiled file it imports are unchanged since it was checked
        # (so that concurrent runs on one tree do not rewrite each other's
        # .vo files); anything regenerated from /repo that differs, or any
        # edited proof, invalidates it and everything built on it
        key = self._fresh_key(relpath, src)
        cpath = os.path.join(COQ, '.cache', relpath.replace('/', '__') + '.json')
        if key and os.path.exists(path[:-2] + '.vo') and os.path.exists(cpath):
            try:
                with open(cpath) as f:
                    c = json.load(f)
            except Exception:
                c = {}
            if c.get('key') == key:
                out = c.get('out', '')
                self.obligations += [f'{relpath}:{n}' for n in names]
                self.discharged += len(names)
                pa = parse_print_assumptions(out)
                self.assumptions_out += [f'{relpath}: {x}' for x in pa]
                self.log(f'proved {relpath}: {len(names)} obligations '
                         '(unchanged since last checked)')
                return out
        rc, out, err, dt = self.coqc(relpath, timeout)
        if rc != 0:
            thm = locate_theorem(src, err)
            if rc == 124:
                detail = f'{relpath}: coqc timed out after {timeout}s'
            else:
                detail = (f'{relpath}: theorem {thm} no longer checks: '
                          + err.strip()[-1500:])
            b = Broken('proof', detail)
            b.theorem = thm
            b.file = relpath
            raise b
        self.obligations += [f'{relpath}:{n}' for n in names]
        self.discharged += len(names)
        pa = parse_print_assumptions(out)
        self.assumptions_out += [f'{relpath}: {x}' for x in pa]
        self.log(f'proved {relpath}: {len(names)} obligations in {dt:.1f}s')
        key = self._fresh_key(relpath, src)
        if key:
            os.makedirs(os.path.dirname(cpath), exist_ok=True)
            tmp = cpath + f'.{os.getpid()}'
            with open(tmp, 'w') as f:
                json.dump(dict(key=key, out=out), f)
            os.replace(tmp, cpath)
        return out

    def _fresh_key(self, relpath, src):
        """Hash of the source and of the identity (mtime, size) of every
        compiled file it imports; None if the dependencies are unknown."""
        import hashlib
        r = subprocess.run(['coqdep'] + COQ_ARGS[:12] + [relpath], cwd=COQ,
                           capture_output=True, text=True)
        h = hashlib.sha256(src.encode())
        found = False
        for line in r.stdout.splitlines():
            if ':' not in line or '.vo' not in line.split(':', 1)[0]:
                continue
            found = True
            for d in sorted(set(line.split(':', 1)[1].split())):
                if not d.endswith('.vo'):
                    continue
                dp = os.path.join(COQ, d)
                if not os.path.exists(dp):
                    return None
                st = os.stat(dp)
                h.update(f'|{d}:{st.st_mtime_ns}:{st.st_size}'.encode())
        return h.hexdigest() if found else None

    def prove_with_deps(self, relpath, timeout=600):
        """Compile relpath after the GenProofs/Properties files it imports
        (transitively, in dependency order, as computed by coqdep)."""
        files = [os.path.join(d, f) for d in ('GenProofs', 'Properties')
                 for f in sorted(os.listdir(os.path.join(COQ, d)))
                 if f.endswith('.v')]
        r = subprocess.run(['coqdep'] + COQ_ARGS[:12] + files, cwd=COQ,
                           capture_output=True, text=True)
        deps = {}
        for line in r.stdout.splitlines():
            if ':' not in line:
                continue
            lhs, rhs = line.split(':', 1)
            tgt = [t for t in lhs.split() if t.endswith('.vo')]
            if not tgt:
                continue
            v = tgt[0][:-1]
            deps[v] = [d[:-1] for d in rhs.split()
                       if d.endswith('.vo') and d[:-1] in files]
        order, seen = [], set()

        def visit(f):
            if f in seen:
                return
            seen.add(f)
            for d in deps.get(f, []):
                visit(d)
            order.append(f)
        visit(relpath)
        for f in order:
            self.prove(f, timeout)

    def eval_bools(self, name, preamble, terms, shard=400, timeout=900):
        """Evaluate Gallina terms of type bool with vm_compute."""
        return self.eval_groups(name, preamble, [('', terms)], shard, timeout)

    def eval_groups(self, name, header, groups, shard=400, timeout=900):
        """Evaluate bool terms grouped with the definitions they share.

        groups: list of (definitions_text, [bool terms]).  Groups are packed
        into files of about `shard` terms, compiled in parallel; the result
        is the flat list of bools in input order."""
        os.makedirs(os.path.join(COQ, 'cases'), exist_ok=True)
        packs, cur, n = [], [], 0
        for g in groups:
            if cur and n + len(g[1]) > shard:
                packs.append(cur)
                cur, n = [], 0
            cur.append(g)
            n += len(g[1])
        if cur:
            packs.append(cur)
        files, counts = [], []
        for k, pack in enumerate(packs):
            rel = f'cases/{self.pid}_{name}_p{os.getpid()}_{k}.v'
            i = 0
            with open(os.path.join(COQ, rel), 'w') as f:
                f.write(header + '\n')
                for defs, terms in pack:
                    f.write(defs + '\n')
                    for t in terms:
                        f.write(f'Definition case_{i} : bool :=\n  {t}.\n')
                        i += 1
                lst = '; '.join(f'case_{j}' for j in range(i))
                f.write('Definition all_cases : list bool := ['
                        + lst + '].\n')
                f.write('Eval vm_compute in all_cases.\n')
            files.append(rel)
            counts.append(i)
        results = []

        def run(rel):
            return self.coqc(rel, timeout)
        with concurrent.futures.ThreadPoolExecutor(NPROC) as ex:
            outs = list(ex.map(run, files))
        for rel, cnt, (rc, out, err, dt) in zip(files, counts, outs):
            if rc != 0:
                raise Broken('infra', f'{rel}: case file failed to compile: '
                             + err.strip()[-1500:])
            toks = re.findall(r'\b(true|false)\b',
                              out.split(': list bool')[0])
            if len(toks) != cnt:
                raise Broken('infra', f'{rel}: expected {cnt} results, '
                             f'got {len(toks)}')
            results += [t == 'true' for t in toks]
        self.cleanup_cases(files)
        return results

    def eval_terms(self, name, preamble, terms, timeout=900):
        """Evaluate arbitrary terms; returns the raw printed values."""
        os.makedirs(os.path.join(COQ, 'cases'), exist_ok=True)
        rel = f'cases/{self.pid}_{name}_p{os.getpid()}_show.v'
        with open(os.path.join(COQ, rel), 'w') as f:
            f.write(preamble + '\n')
            for t in terms:
                f.write(f'Eval vm_compute in ({t}).\n')
        rc, out, err, dt = self.coqc(rel, timeout)
        self.cleanup_cases([rel])
        if rc != 0:
            raise Broken('infra', f'{rel}: {err.strip()[-1500:]}')
        vals = re.split(r'^\s*= ', out, flags=re.M)[1:]
        return [re.sub(r'\s+', ' ', v.rsplit('\n     :', 1)[0]).strip()
                for v in vals]

    def cleanup_cases(self, files):
        if os.environ.get('VERIF_KEEP_CASES'):
            return
        for rel in files:
            base = os.path.join(COQ, rel[:-2])
            d, b = os.path.split(base)
            for ext in ('.v', '.vo', '.vok', '.vos', '.glob'):
                try:
                    os.remove(base + ext)
                except OSError:
                    pass
            try:
                os.remove(os.path.join(d, '.' + b + '.aux'))
            except OSError:
                pass


def theorem_names(src):
    src = strip_comments(src)
    return re.findall(
        r'^\s*(?:Local\s+|Global\s+)?(?:Theorem|Lemma|Corollary|Example|Fact|Proposition)'
        r'\s+([A-Za-z_][\w\']*)', src, flags=re.M)


def strip_comments(src):
    out, depth, i = [], 0, 0
    while i < len(src):
        if src.startswith('(*', i):
            depth += 1
            i += 2
        elif src.startswith('*)', i) and depth:
            depth -= 1
            i += 2
        else:
            if not depth:
                out.append(src[i])
            elif src[i] == '\n':
                out.append('\n')
            i += 1
    return ''.join(out)


def locate_theorem(src, err):
    m = re.search(r'line (\d+), characters', err)
    if not m:
        return '?'
    line = int(m.group(1))
    name = '?'
    for i, l in enumerate(strip_comments(src).split('\n'), 1):
        if i > line:
            break
        mm = re.match(
            r'\s*(?:Local\s+|Global\s+)?(?:Theorem|Lemma|Corollary|Example|Fact|Proposition|Definition|Fixpoint)'
            r'\s+([A-Za-z_][\w\']*)', l)
        if mm:
            name = mm.group(1)
    return name


def parse_print_assumptions(out):
    """One entry per Print Assumptions: 'Closed under the global context' or
    'Axioms: name : type; ...'."""
    res, cur = [], None
    for line in out.splitlines():
        if line.startswith('Closed under the global context'):
            if cur is not None:
                res.append(cur)
                cur = None
            res.append('Closed under the global context')
        elif line.startswith('Axioms:'):
            if cur is not None:
                res.append(cur)
            cur = 'Axioms:'
        elif cur is not None and line.strip() and (
                ' : ' in line or line.startswith(' ')
                or re.fullmatch(r'[A-Za-z_][\w.\']*', line.strip())):
            # "name : type", a continuation line, or a name alone on its
            # line (its type follows on the next line)
            cur += ' ' + re.sub(r'\s+', ' ', line).strip()
        elif cur is not None:
            res.append(cur)
            cur = None
    if cur is not None:
        res.append(cur)
    return res


# -------------------------------------------------------------------------
def load_known():
    findings, fixed = [], []
    p = os.path.join(VERIF, 'KNOWN_FINDINGS.txt')
    if os.path.exists(p):
        for line in open(p):
            line = line.strip()
            m = re.match(r'finding:\s+property=(\w+)\s+key=(\S+)\s+(.*)', line)
            if m:
                findings.append((m.group(1), m.group(2), m.group(3)))
            m = re.match(r'fixed:\s+property=(\w+)\s+(\S+)\s+(.*)', line)
            if m:
                fixed.append((m.group(1), m.group(2), m.group(3)))
    return findings, fixed


def write_evidence(ctx, level, violations):
    cov = dict(ctx.cov)
    cov['samples'] = cov.get('samples', [])[:8] or ['(none)']
    # schema: `exhaustive` is a boolean; a plug-in may describe the part of
    # the run that enumerated a finite space completely in words
    if isinstance(cov.get('exhaustive'), str):
        cov['exhaustive_part'] = cov['exhaustive']
        cov['exhaustive'] = False      # the run as a whole also samples
    cov['obligations'] = len(ctx.obligations)
    cov['discharged'] = ctx.discharged
    cov['obligation_names'] = ctx.obligations
    cov['checker_cmd'] = ' ; '.join(dict.fromkeys(ctx.checker_cmds)) or \
        'cd /verif/coq && make'
    cov['trusted_base'] = ctx.trusted + [
        'Print Assumptions: ' + a for a in ctx.assumptions_out]
    cov.update(ctx.extra)
    ev = dict(property_id=ctx.pid, tier=ctx.tier, seed=ctx.seed, level=level,
              coverage=cov, assumptions=ctx.assumptions,
              wall_s=round(time.time() - ctx.t0, 2), violations=violations)
    if ctx.notes:
        ev['notes'] = ctx.notes
    os.makedirs(os.path.join(VERIF, 'evidence'), exist_ok=True)
    with open(os.path.join(VERIF, 'evidence', ctx.pid + '.json'), 'w') as f:
        json.dump(ev, f, indent=1, default=str)


def write_replay(ctx, n, payload):
    d = os.path.join(VERIF, 'replay')
    os.makedirs(d, exist_ok=True)
    p = os.path.join(d, f'{ctx.pid}-{n}.json')
    with open(p, 'w') as f:
        json.dump(payload, f, indent=1, default=str)
    return p


def run_check(plugin, tier, seed):
    pid = plugin.ID
    ctx = Ctx(pid, tier, seed)
    level = getattr(plugin, 'LEVEL', 'proof')
    broken, mism = [], []
    try:
        ctx.build_theories(getattr(plugin, 'THEORIES', None))
        plugin.prove(ctx)
    except Broken as b:
        ctx.log('BROKEN', b)
        broken.append(b)
    try:
        mism = plugin.correspond(ctx) or []
    except Broken as b:
        ctx.log('BROKEN', b)
        broken.append(b)
    except Exception as e:   # noqa: an exception escaping from the library
        import traceback     # under test (or the harness) while corresponding
        tb = traceback.format_exc()
        b = Broken('correspondence',
                   'the correspondence run raised ' + repr(e)[:300]
                   + '\n' + tb[-1500:])
        ctx.log('BROKEN', b)
        broken.append(b)
    findings, _fixed = load_known()
    known = {k: d for (p, k, d) in findings if p == pid}
    # separate recognised finding classes
    new_mism = []
    seen_known = {}
    for m in mism:
        if m.key is not None and m.key in known:
            seen_known.setdefault(m.key, m)
        else:
            new_mism.append(m)
    for k, m in seen_known.items():
        print(f'KNOWN-FINDING: property={pid} {known[k]}', flush=True)
    # a listed finding that this run's sample did not meet is still listed
    # (its kernel-checked witness in Properties/ is re-checked by the proof
    # phase of every run)
    for k in known:
        if k not in seen_known:
            print(f'KNOWN-FINDING: property={pid} {known[k]} '
                  "[not met by this run's sample]", flush=True)
    ctx.extra['known_findings_reobserved'] = {
        k: m.to_json() for k, m in seen_known.items()}
    status = 0
    nviol = 0
    if broken or new_mism:
        failing = []
        try:
            failing = plugin.search(ctx, broken, new_mism) or []
        except Broken as b:
            ctx.log('search failed:', b)
        failing = [f for f in failing if not (f.key and f.key in known)]
        n = 0
        if failing:
            for f in failing[:5]:
                payload = dict(property=pid, kind='failing-input',
                               broken=[str(b) for b in broken],
                               **f.to_json())
                p = write_replay(ctx, n, payload)
                print(f'VIOLATION property={pid} replay={p}', flush=True)
                n += 1
        else:
            payload = dict(
                property=pid, kind='no-failing-input-found',
                broken=[dict(tie=b.tie, detail=b.detail,
                             theorem=getattr(b, 'theorem', None),
                             file=getattr(b, 'file', None)) for b in broken],
                correspondence_mismatches=[m.to_json() for m in new_mism[:5]])
            p = write_replay(ctx, 0, payload)
            print(f'VIOLATION property={pid} replay={p} '
                  'no-failing-input-found', flush=True)
            n = 1
        nviol = n
        status = 1
    write_evidence(ctx, level, nviol)
    ctx.log('done, status', status)
    return status


def main(argv):
    import argparse
    import importlib
    ap = argparse.ArgumentParser()
    ap.add_argument('pid')
    ap.add_argument('--tier', default=os.environ.get('VERIF_TIER') or 'quick')
    ap.add_argument('--seed', type=int,
                    default=int(os.environ.get('VERIF_SEED') or 0))
    ap.add_argument('--replay')
    a = ap.parse_args(argv)
    sys.path.insert(0, os.path.join(VERIF, 'tools'))
    plugin = importlib.import_module('props.' + a.pid.lower())
    if a.replay:
        return plugin.replay(a.replay)
    return run_check(plugin, a.tier, a.seed)
