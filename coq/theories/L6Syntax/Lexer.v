(* L6 Syntax — character-level model of omega.logic.lexyacc.Lexer (PLY).
   PLY builds one master regex: the function rules in definition order, then
   the string rules by decreasing regex length; at each position the FIRST
   rule (and within a rule the first alternative) that matches wins — not
   the longest.  The rule list, in that order, is generated from the source
   (gen/C16_Tables.v); this file interprets it.  Model file: no proofs. *)
From Coq Require Import List String Ascii NArith Bool.
From Omega Require Import L6Syntax.Tokens.
Import ListNotations.
Local Open Scope string_scope.

Definition code (c : ascii) : N := N_of_ascii c.

Definition is_digit (c : ascii) : bool :=
  let n := code c in (48 <=? n)%N && (n <=? 57)%N.
Definition is_name_start (c : ascii) : bool :=
  let n := code c in
  ((65 <=? n)%N && (n <=? 90)%N) || ((97 <=? n)%N && (n <=? 122)%N)
  || (n =? 95)%N.
Definition is_name_char (c : ascii) : bool := is_name_start c || is_digit c.
Definition is_newline (c : ascii) : bool := (code c =? 10)%N.

(* [strip_prefix p s] = Some rest when s = p ++ rest *)
Fixpoint strip_prefix (p s : string) : option string :=
  match p with
  | EmptyString => Some s
  | String a p' =>
      match s with
      | EmptyString => None
      | String b s' => if Ascii.eqb a b then strip_prefix p' s' else None
      end
  end.

(* longest prefix of characters satisfying f, and the rest *)
Fixpoint span (f : ascii -> bool) (s : string) : string * string :=
  match s with
  | EmptyString => (EmptyString, EmptyString)
  | String c s' =>
      if f c then let (a, b) := span f s' in (String c a, b)
      else (EmptyString, s)
  end.

(* rest after the first occurrence of pat *)
Fixpoint find_after (pat s : string) : option string :=
  match strip_prefix pat s with
  | Some r => Some r
  | None =>
      match s with
      | EmptyString => None
      | String _ s' => find_after pat s'
      end
  end.

(* rest after the first newline *)
Fixpoint after_newline (s : string) : option string :=
  match s with
  | EmptyString => None
  | String c s' => if is_newline c then Some s' else after_newline s'
  end.

Fixpoint first_alt (alts : list string) (s : string) : option (string * string) :=
  match alts with
  | [] => None
  | a :: r =>
      match strip_prefix a s with
      | Some rest => Some (a, rest)
      | None => first_alt r s
      end
  end.

(* one rule at the current position: (lexeme, rest) *)
Definition match_rule (r : lexrule) (s : string) : option (string * string) :=
  match lr_kind r with
  | RLit => first_alt (lr_alts r) s
  | RName =>
      match s with
      | String c s' =>
          if is_name_start c
          then let (a, b) := span is_name_char s' in Some (String c a, b)
          else None
      | EmptyString => None
      end
  | RNumber =>
      match s with
      | String c s' =>
          if is_digit c
          then let (a, b) := span is_digit s' in Some (String c a, b)
          else None
      | EmptyString => None
      end
  | RLineComment =>                    (* \\ \* [^\n]* \n *)
      match strip_prefix "\*" s with
      | Some r' => match after_newline r' with
                   | Some rest => Some ("", rest)
                   | None => None
                   end
      | None => None
      end
  | RMlComment =>                      (* \( \* [\s\S]*? \* \) *)
      match strip_prefix "(*" s with
      | Some r' => match find_after "*)" r' with
                   | Some rest => Some ("", rest)
                   | None => None
                   end
      | None => None
      end
  | RNewline =>
      match s with
      | String c s' =>
          if is_newline c
          then let (a, b) := span is_newline s' in Some (String c a, b)
          else None
      | EmptyString => None
      end
  end.

Fixpoint first_rule (rules : list lexrule) (s : string)
  : option (lexrule * string * string) :=
  match rules with
  | [] => None
  | r :: rs =>
      match match_rule r s with
      | Some (lexeme, rest) => Some (r, lexeme, rest)
      | None => first_rule rs s
      end
  end.

Section Lex.
Variable rules : list lexrule.
Variable reserved values : list (string * string).
Variable ignore : list N.

Definition is_ignored (c : ascii) : bool :=
  existsb (fun n => (n =? code c)%N) ignore.

(* the token a rule emits for a lexeme *)
Definition mk_token (r : lexrule) (lexeme : string) : token :=
  match lr_kind r with
  | RName =>
      (* t.value = self.values.get(t.value, t.value)
         t.type = self.reserved.get(t.value, 'NAME') *)
      let v := match assoc_str lexeme values with Some v => v | None => lexeme end in
      let ty := match assoc_str v reserved with Some ty => ty | None => lr_type r end in
      Tok ty v
  | _ =>
      Tok (lr_type r) (match lr_norm r with Some v => v | None => lexeme end)
  end.

Fixpoint lex_aux (fuel : nat) (s : string) : option (list token) :=
  match fuel with
  | O => None
  | S f =>
      match s with
      | EmptyString => Some []
      | String c s' =>
          if is_ignored c then lex_aux f s' else
          match first_rule rules s with
          | None => None                      (* "Illegal character" *)
          | Some (r, lexeme, rest) =>
              if lr_emit r
              then match lex_aux f rest with
                   | Some ts => Some (mk_token r lexeme :: ts)
                   | None => None
                   end
              else lex_aux f rest
          end
      end
  end.

Definition lex (s : string) : option (list token) :=
  lex_aux (S (String.length s)) s.

End Lex.
