(* L7 / StepProgProofs: the generated step through the emitted program, with
   the denotation premise restricted to assignments of the declared length.

   StepProofs.step_prog_correct asks that the references denote the extracted
   functions at EVERY list of Booleans; [ref_val] reads an assignment through
   [get] (default false beyond its end) while the extracted functions are
   tabulated over exactly n bits ([memo n]), so that premise cannot be met by
   a relation that depends on a bit.  Only the assignment
   [assign_bitvectors n ly state] is ever used, and it has length n. *)
From Coq Require Import List Bool Arith ZArith Lia.
Import ListNotations.
From Omega Require Import L7Codegen.Pred L7Codegen.PredFacts L7Codegen.Synth
  L7Codegen.SynthProofs L7Codegen.Bits L7Codegen.BitsProofs L7Codegen.Dag
  L7Codegen.DagProofs L7Codegen.Step L7Codegen.StepProofs.

Lemma assign_bitvectors_length n ly state :
  length (assign_bitvectors n ly state) = n.
Proof.
  unfold assign_bitvectors.
  assert (forall a, length (fold_left
            (fun a xv => write_bits a (var_bits ly (fst xv))
                           (encode (var_type ly (fst xv)) (snd xv))) state a)
          = length a) as H.
  { induction state as [|xv state IH]; intros a; cbn [fold_left]; [reflexivity|].
    rewrite IH. apply write_bits_length. }
  rewrite H. apply repeat_length.
Qed.

Theorem step_prog_correct_len n restrict ly out_vars r order
  (d : dag) (nlev : nat) (keys : list Z) state :
  wf_dag d nlev = true ->
  (forall k, In k keys -> root_ok_p d nlev k) ->
  (forall a, length a = n ->
     Forall2 (fun k e => ref_val (S nlev) d a k = fst (snd e) a) keys
       (functions n restrict ly out_vars r order)) ->
  step_prog n ly out_vars nlev d
    (combine (map fst (functions n restrict ly out_vars r order)) keys) state
  = Some (step n restrict ly out_vars r order state).
Proof.
  intros WF RO Den. unfold step_prog, step_prog_with, step, step_with.
  set (a := assign_bitvectors n ly state).
  rewrite (straightline_correct d nlev WF a).
  - f_equal. f_equal. unfold compute_bdds, DagProofs.val.
    specialize (Den a (assign_bitvectors_length n ly state)). clear RO.
    induction Den as [|k e ks gs Hke _ IH]; [reflexivity|].
    cbn [map combine fst snd]. rewrite Hke. f_equal. exact IH.
  - intros [y k] Hr. apply in_combine_r in Hr. apply RO, Hr.
Qed.

(* the premise of step_prog_correct_len as a Boolean over the 2^n assignments
   (used to show that it is satisfiable) *)
Fixpoint all2 {A B} (f : A -> B -> bool) (l1 : list A) (l2 : list B) : bool :=
  match l1, l2 with
  | [], [] => true
  | x :: r1, y :: r2 => f x y && all2 f r1 r2
  | _, _ => false
  end.

Lemma all2_Forall2 {A B} (f : A -> B -> bool) : forall l1 l2,
  all2 f l1 l2 = true -> Forall2 (fun x y => f x y = true) l1 l2.
Proof.
  induction l1 as [|x l1 IH]; intros [|y l2] H; try discriminate; [constructor|].
  cbn [all2] in H. apply andb_true_iff in H. destruct H as [H1 H2].
  constructor; [exact H1|apply IH, H2].
Qed.

Definition denotes_b (n nlev : nat) (d : dag) (keys : list Z)
  (fs : list (var * (pred * pred))) : bool :=
  forallb (fun a => all2 (fun k e => eqb (ref_val (S nlev) d a k) (fst (snd e) a))
                         keys fs) (all_asg n).

Lemma denotes_b_spec n nlev d keys fs : denotes_b n nlev d keys fs = true ->
  forall a, length a = n ->
  Forall2 (fun k e => ref_val (S nlev) d a k = fst (snd e) a) keys fs.
Proof.
  intros H a Ha. unfold denotes_b in H. rewrite forallb_forall in H.
  specialize (H a (proj2 (all_asg_spec n a) Ha)). apply all2_Forall2 in H.
  induction H as [|k e ks es E _ IH]; constructor; [apply eqb_prop, E|exact IH].
Qed.
