(* L1d / DeepProofs: each emitter of Deep.v is sound: evaluating the memory
   cells it appends (as symbolic/bdd.py does) and then its result formulas
   gives the output of the shallow circuit of Circuits.v on the values of the
   operand formulas -- for all widths, all start addresses, all bit values.
   This is where the index arithmetic of the "? i" registers is proved. *)
From Coq Require Import List Bool Arith Lia.
From Omega Require Import L1Circuits.Circuits L1Circuits.CircuitsLengths L1Circuits.Deep.
Import ListNotations.

Section Sound.
Variable vars : nat -> bool.

(* e has value v in memory m and in every extension of m *)
Definition stable (m : list bool) (e : bx) (v : bool) : Prop :=
  forall m', evalx vars (m ++ m') e = v.

Notation stables m := (Forall2 (stable m)).

Lemma stable_ext : forall m m2 e v, stable m e v -> stable (m ++ m2) e v.
Proof. intros m m2 e v H m'. rewrite <- app_assoc. apply H. Qed.

Lemma stables_ext : forall m m2 es vs, stables m es vs -> stables (m ++ m2) es vs.
Proof. intros m m2 es vs H. induction H; constructor; auto using stable_ext. Qed.

Lemma stable_const : forall m b, stable m (XC b) b.
Proof. intros m b m'. reflexivity. Qed.

Lemma stable_reg : forall m i, i < length m -> stable m (XR i) (nth i m false).
Proof. intros m i H m'. cbn [evalx]. now rewrite app_nth1. Qed.

Lemma stable_not : forall m a va, stable m a va -> stable m (XNot a) (negb va).
Proof. intros m a va H m'. cbn [evalx]. now rewrite H. Qed.

Lemma stable_and : forall m a b va vb, stable m a va -> stable m b vb ->
  stable m (XAnd a b) (va && vb).
Proof. intros m a b va vb Ha Hb m'. cbn [evalx]. now rewrite Ha, Hb. Qed.

Lemma stable_or : forall m a b va vb, stable m a va -> stable m b vb ->
  stable m (XOr a b) (va || vb).
Proof. intros m a b va vb Ha Hb m'. cbn [evalx]. now rewrite Ha, Hb. Qed.

Lemma stable_xor : forall m a b va vb, stable m a va -> stable m b vb ->
  stable m (XXor a b) (xorb va vb).
Proof. intros m a b va vb Ha Hb m'. cbn [evalx]. now rewrite Ha, Hb. Qed.

Lemma stable_eval : forall m e v, stable m e v -> evalx vars m e = v.
Proof. intros m e v H. specialize (H []). now rewrite app_nil_r in H. Qed.

(* ---- structural helpers *)
Lemma stables_length : forall m es vs, stables m es vs -> length es = length vs.
Proof. intros m es vs H. induction H; cbn [length]; auto. Qed.

Lemma stables_sign : forall m x vx, stables m x vx -> stable m (d_sign x) (sign vx).
Proof.
  intros m x vx H. unfold d_sign, sign. induction H as [|e v es vs He Hs IH].
  - apply stable_const.
  - destruct Hs; [exact He|]. exact IH.
Qed.

Lemma stables_repeat : forall m e v n, stable m e v -> stables m (repeat e n) (repeat v n).
Proof. intros. induction n; cbn [repeat]; constructor; auto. Qed.

Lemma stables_app : forall m a va b vb, stables m a va -> stables m b vb ->
  stables m (a ++ b) (va ++ vb).
Proof. intros. now apply Forall2_app. Qed.

Lemma stables_firstn : forall m n a va, stables m a va -> stables m (firstn n a) (firstn n va).
Proof.
  intros m n a va H. revert n. induction H; intros [|n]; cbn [firstn]; constructor; auto.
Qed.

Lemma stables_skipn : forall m n a va, stables m a va -> stables m (skipn n a) (skipn n va).
Proof.
  intros m n a va H. revert n. induction H; intros [|n]; cbn [skipn]; try constructor; auto.
Qed.

Lemma stables_sign_extension : forall m x vx n, stables m x vx ->
  stables m (d_sign_extension x n) (sign_extension vx n).
Proof.
  intros m x vx n H. unfold d_sign_extension, sign_extension.
  rewrite (stables_length _ _ _ H). apply stables_app; [assumption|].
  apply stables_repeat. now apply stables_sign.
Qed.

Lemma stables_equalize : forall m x vx y vy e, stables m x vx -> stables m y vy ->
  stables m (fst (d_equalize_width x y e)) (fst (equalize_width vx vy e)) /\
  stables m (snd (d_equalize_width x y e)) (snd (equalize_width vx vy e)).
Proof.
  intros m x vx y vy e Hx Hy. unfold d_equalize_width, equalize_width. cbn [fst snd].
  rewrite (stables_length _ _ _ Hx), (stables_length _ _ _ Hy).
  split; now apply stables_sign_extension.
Qed.

Lemma stables_pad : forall m x vx n, stables m x vx -> stables m (d_pad x n) (pad vx n).
Proof.
  intros m x vx n H. unfold d_pad, pad. rewrite (stables_length _ _ _ H).
  apply stables_app; [assumption|]. apply stables_repeat, stable_const.
Qed.

Lemma stables_shift : forall m x vx c, stables m x vx ->
  stables m (d_fixed_shift_left x c) (fixed_shift_left vx c).
Proof.
  intros m x vx c H. unfold d_fixed_shift_left, fixed_shift_left.
  rewrite (stables_length _ _ _ H). apply stables_app.
  - apply stables_repeat, stable_const.
  - now apply stables_firstn.
Qed.

Lemma stables_map_not : forall m q vq, stables m q vq -> stables m (map XNot q) (map negb vq).
Proof. intros m q vq H. induction H; cbn [map]; constructor; auto using stable_not. Qed.

Lemma stables_map_and : forall m x vx b vb, stables m x vx -> stable m b vb ->
  stables m (map (fun a => XAnd a b) x) (map (fun a => a && vb) vx).
Proof. intros m x vx b vb H Hb. induction H; cbn [map]; constructor; auto using stable_and. Qed.

Lemma stables_nth : forall m y vy k, stables m y vy ->
  stable m (nth k y (XC false)) (nth k vy false).
Proof.
  intros m y vy k H. revert k. induction H; intros [|k]; cbn [nth]; auto using stable_const.
Qed.

(* ---- running a buffer *)
Lemma run_app : forall cs1 cs2 m, run vars m (cs1 ++ cs2) = run vars (run vars m cs1) cs2.
Proof. induction cs1; intros; cbn [app run]; auto. Qed.

(* a memory state reached from m by running cells *)
Definition extends (m m1 : list bool) (n : nat) : Prop :=
  exists ext, m1 = m ++ ext /\ length ext = n.

Lemma extends_stable : forall m m1 n e v, extends m m1 n -> stable m e v -> stable m1 e v.
Proof. intros m m1 n e v [ext [-> _]] H. now apply stable_ext. Qed.

Lemma extends_stables : forall m m1 n es vs, extends m m1 n -> stables m es vs -> stables m1 es vs.
Proof. intros m m1 n es vs [ext [-> _]] H. now apply stables_ext. Qed.

Lemma extends_trans : forall m m1 m2 a b, extends m m1 a -> extends m1 m2 b -> extends m m2 (a + b).
Proof.
  intros m m1 m2 a b [e1 [-> L1]] [e2 [-> L2]]. exists (e1 ++ e2).
  rewrite app_assoc, app_length. auto.
Qed.

Lemma extends_length : forall m m1 n, extends m m1 n -> length m1 = length m + n.
Proof. intros m m1 n [e [-> L]]. rewrite app_length. lia. Qed.

Lemma extends_refl : forall m, extends m m 0.
Proof. intros. exists []. now rewrite app_nil_r. Qed.

(* ---- ripple-carry chain *)
Lemma ripple_sound : forall p vp q vq carry vc m,
  stables m p vp -> stables m q vq -> stable m carry vc ->
  let '(res, mem, cf) := d_ripple p q carry (length m) in
  let m1 := run vars m mem in
  extends m m1 (length mem) /\
  stables m1 res (fst (ripple vp vq vc)) /\ stable m1 cf (snd (ripple vp vq vc)).
Proof.
  induction p as [|a p IH]; intros vp q vq carry vc m Hp Hq Hc.
  - inversion Hp; subst.
    cbn [d_ripple ripple run fst snd length]. repeat split; auto using extends_refl.
  - inversion Hp as [|? va ? vp' Ha Hp']; subst. clear Hp. rename vp' into vp.
    inversion Hq as [|b vb q' vq' Hb Hq']; subst.
    + cbn [d_ripple ripple run fst snd length]. repeat split; auto using extends_refl.
    + clear Hq. rename q' into q. rename vq' into vq. rename Hp' into Hp. rename Hq' into Hq.
      cbn [d_ripple ripple].
      set (r := xorb (xorb va vb) vc). set (c := (va && vb) || (xorb va vb && vc)).
      set (m' := (m ++ [r]) ++ [c]).
      assert (E : extends m m' 2).
      { exists [r; c]. unfold m'. now rewrite <- app_assoc. }
      assert (Lm' : length m' = length m + 2) by (now apply extends_length).
      specialize (IH vp q vq (XR (length m + 1)) c m').
      replace (length m') with (length m + 2) in IH by lia.
      assert (Hc' : stable m' (XR (length m + 1)) c).
      { replace c with (nth (length m + 1) m' false).
        - apply stable_reg. lia.
        - unfold m'. rewrite <- app_assoc. rewrite app_nth2 by lia.
          replace (length m + 1 - length m) with 1 by lia. reflexivity. }
      specialize (IH (extends_stables _ _ _ _ _ E Hp) (extends_stables _ _ _ _ _ E Hq) Hc').
      destruct (d_ripple p q (XR (length m + 1)) (length m + 2)) as [[res mem] cf].
      destruct (ripple vp vq c) as [rv cfv] eqn:ER. cbn [fst snd] in IH.
      cbn [run length fst snd].
      assert (R1 : evalx vars m (XXor (XXor a b) carry) = r).
      { apply stable_eval. unfold r. apply stable_xor; [apply stable_xor|]; assumption. }
      assert (R2 : evalx vars (m ++ [r]) (XOr (XAnd a b) (XAnd (XXor a b) carry)) = c).
      { apply stable_eval, stable_ext. unfold c.
        apply stable_or; [apply stable_and|apply stable_and; [apply stable_xor|]]; assumption. }
      rewrite R1, R2. fold m'.
      destruct IH as (E1 & S1 & C1). repeat split.
      * replace (S (S (length mem))) with (2 + length mem) by lia.
        eapply extends_trans; eauto.
      * constructor; [|exact S1].
        replace r with (nth (length m) m' false).
        -- eapply extends_stable; [exact E1|]. apply stable_reg. lia.
        -- unfold m'. rewrite <- app_assoc, app_nth2 by lia.
           now rewrite Nat.sub_diag.
      * exact C1.
Qed.

Lemma adder_sound : forall x vx y vy add e m, stables m x vx -> stables m y vy ->
  let '(res, mem, cf) := d_adder_subtractor x y add (length m) e in
  let m1 := run vars m mem in
  extends m m1 (length mem) /\
  stables m1 res (fst (adder_subtractor vx vy add e)) /\
  stable m1 cf (snd (adder_subtractor vx vy add e)).
Proof.
  intros x vx y vy add e m Hx Hy. unfold d_adder_subtractor, adder_subtractor.
  destruct (stables_equalize m x vx y vy e Hx Hy) as [Hp Hq].
  destruct (d_equalize_width x y e) as [p q]. destruct (equalize_width vx vy e) as [vp vq].
  cbn [fst snd] in Hp, Hq. destruct add.
  - apply (ripple_sound p vp q vq (XC false) false m); auto using stable_const.
  - apply (ripple_sound p vp (map XNot q) (map negb vq) (XC true) true m);
      auto using stable_const, stables_map_not.
Qed.

(* ---- comparators *)
Lemma less_than_sound : forall p vp q vq m, stables m p vp -> stables m q vq ->
  let '(r, mem) := d_less_than p q (length m) in
  let m1 := run vars m mem in
  extends m m1 (length mem) /\ stable m1 r (less_than vp vq).
Proof.
  intros p vp q vq m Hp Hq. unfold d_less_than, less_than.
  pose proof (adder_sound p vp q vq false 1 m Hp Hq) as A.
  destruct (d_adder_subtractor p q false (length m) 1) as [[res mem] cf].
  destruct (adder_subtractor vp vq false 1) as [rv cv]. cbn [fst snd] in A.
  destruct A as (E & _ & C). split; [exact E|].
  apply stable_xor; [|exact C]. apply stable_not, stable_xor;
    (eapply extends_stable; [exact E|]); now apply stables_sign.
Qed.

Lemma inequality_sound : forall m p vp q vq, stables m p vp -> stables m q vq ->
  stable m (d_inequality p q) (inequality vp vq).
Proof.
  intros m p vp q vq Hp. revert q vq. induction Hp as [|a va p vp Ha Hp IH]; intros q vq Hq.
  - cbn. apply stable_const.
  - destruct Hq as [|b vb q vq Hb Hq]; cbn [d_inequality inequality]; [apply stable_const|].
    apply stable_or; [now apply stable_xor|now apply IH].
Qed.

Lemma run_snoc : forall cs c m, run vars m (cs ++ [c]) =
  run vars m cs ++ [evalx vars (run vars m cs) c].
Proof. intros. rewrite run_app. reflexivity. Qed.

(* flatten_comparator emits the buffer "$ n cells"; bdd.py's value of a
   buffer is its last cell *)
Theorem comparator_sound : forall o x vx y vy m, stables m x vx -> stables m y vy ->
  last (run vars m (d_flatten_comparator o x y (length m))) false = comparator o vx vy.
Proof.
  intros o x vx y vy m Hx Hy. unfold d_flatten_comparator, comparator.
  destruct (stables_equalize m x vx y vy 0 Hx Hy) as [Hp Hq].
  destruct (d_equalize_width x y 0) as [p q]. destruct (equalize_width vx vy 0) as [vp vq].
  cbn [fst snd] in Hp, Hq.
  assert (L : forall r mem v, stable (run vars m mem) r v ->
              last (run vars m (mem ++ [r])) false = v).
  { intros r mem v H. rewrite run_snoc, last_last. now apply stable_eval. }
  destruct o.
  - pose proof (less_than_sound p vp q vq m Hp Hq) as H.
    destruct (d_less_than p q (length m)) as [r mem]. apply L, H.
  - pose proof (less_than_sound q vq p vp m Hq Hp) as H.
    destruct (d_less_than q p (length m)) as [r mem]. apply L, stable_not, H.
  - apply (L _ []). cbn [run]. apply stable_not. now apply inequality_sound.
  - apply (L _ []). cbn [run]. now apply inequality_sound.
  - pose proof (less_than_sound p vp q vq m Hp Hq) as H.
    destruct (d_less_than p q (length m)) as [r mem]. apply L, stable_not, H.
  - pose proof (less_than_sound q vq p vp m Hq Hp) as H.
    destruct (d_less_than q p (length m)) as [r mem]. apply L, H.
Qed.

(* ---- if-then-else on vectors *)
Lemma run_stables : forall cells vs m, stables m cells vs -> run vars m cells = m ++ vs.
Proof.
  induction cells as [|c cells IH]; intros vs m H; inversion H; subst; cbn [run].
  - now rewrite app_nil_r.
  - rewrite (stable_eval _ _ _ H2). rewrite (IH l' (m ++ [y])).
    + now rewrite <- app_assoc.
    + now apply stables_ext.
Qed.

Lemma regs_stable : forall vs m0 k, k = length m0 ->
  stables (m0 ++ vs) (map (fun i => XR (i + k)) (seq 0 (length vs))) vs.
Proof.
  induction vs as [|v vs IH]; intros m0 k ->; cbn [length seq map]; constructor.
  - pose proof (stable_reg (m0 ++ v :: vs) (0 + length m0)) as R.
    rewrite app_nth2 in R by lia. replace (0 + length m0 - length m0) with 0 in R by lia.
    apply R. rewrite app_length. cbn [length]. lia.
  - rewrite <- seq_shift, map_map.
    replace (m0 ++ v :: vs) with ((m0 ++ [v]) ++ vs) by (now rewrite <- app_assoc).
    specialize (IH (m0 ++ [v]) (length (m0 ++ [v])) eq_refl).
    rewrite app_length in IH. cbn [length] in IH.
    erewrite map_ext; [exact IH|]. intros i. cbn. f_equal. lia.
Qed.

Lemma ite_cells_stable : forall m' start va b vb c vc,
  stable m' (XR start) va -> stables m' b vb -> stables m' c vc ->
  stables m' (d_ite_cells b c start) (ite_function va vb vc).
Proof.
  intros m' start va b vb c vc Hg Hb. revert c vc.
  induction Hb as [|p vp b vb Hp Hb IH]; intros c vc Hc.
  - cbn. constructor.
  - destruct Hc as [|q vq c vc Hq Hc]; cbn [d_ite_cells ite_function]; constructor.
    + apply stable_or; apply stable_and; auto using stable_not.
    + now apply IH.
Qed.

Lemma ite_function_len : forall a b c, length b = length c ->
  length (ite_function a b c) = length b.
Proof.
  intros a. induction b as [|p b IH]; intros [|q c] H; cbn [length] in H; try discriminate;
    cbn [ite_function length]; auto.
Qed.

Lemma ite_sound : forall a va b vb c vc m,
  stable m a va -> stables m b vb -> stables m c vc -> length vb = length vc ->
  let '(r, mem) := d_ite_function a b c (length m) in
  let m1 := run vars m mem in
  extends m m1 (length mem) /\ stables m1 r (ite_function va vb vc).
Proof.
  intros a va b vb c vc m Ha Hb Hc Hl. unfold d_ite_function. cbn [run].
  rewrite (stable_eval _ _ _ Ha).
  set (m' := m ++ [va]).
  assert (Hg : stable m' (XR (length m)) va).
  { assert (N : nth (length m) m' false = va)
      by (unfold m'; rewrite app_nth2, Nat.sub_diag by lia; reflexivity).
    rewrite <- N. apply stable_reg. unfold m'. rewrite app_length. cbn [length]. lia. }
  pose proof (ite_cells_stable m' (length m) va b vb c vc Hg
                (stables_ext _ [va] _ _ Hb) (stables_ext _ [va] _ _ Hc)) as Hcells.
  rewrite (run_stables _ _ _ Hcells).
  pose proof (stables_length _ _ _ Hcells) as Lc.
  pose proof (ite_function_len va vb vc Hl) as Lv.
  split.
  - exists ([va] ++ ite_function va vb vc). unfold m'. rewrite <- app_assoc. split; [reflexivity|].
    rewrite app_length. cbn [length]. lia.
  - rewrite (stables_length _ _ _ Hb), <- Lv.
    erewrite map_ext; [apply (regs_stable (ite_function va vb vc) m' (length m + 1))|].
    + unfold m'. rewrite app_length. cbn [length]. lia.
    + intros i. cbn. f_equal. lia.
Qed.

(* ---- conditional negation, absolute value *)
Lemma negate_if_sound : forall g vg x vx m, stable m g vg -> stables m x vx ->
  1 <= length vx ->
  let '(r, mem) := d_negate_if g x (length m) in
  let m1 := run vars m mem in
  extends m m1 (length mem) /\ stables m1 r (negate_if vg vx).
Proof.
  intros g vg x vx m Hg Hx Hn. unfold d_negate_if, negate_if.
  rewrite (stables_length _ _ _ Hx).
  assert (Hz : stables m (d_pad [XC false] (length vx)) (pad [false] (length vx))).
  { apply stables_pad. constructor; [apply stable_const|constructor]. }
  pose proof (adder_sound _ _ x vx false 1 m Hz Hx) as A.
  destruct (d_adder_subtractor (d_pad [XC false] (length vx)) x false (length m) 1) as [[neg mem] cf].
  pose proof (CircuitsLengths.adder_length (pad [false] (length vx)) vx false 1) as AL.
  destruct (adder_subtractor (pad [false] (length vx)) vx false 1) as [vneg vc]. cbn [fst snd] in A, AL.
  destruct A as (E & Sn & _).
  set (m1 := run vars m mem) in *.
  pose proof (extends_length _ _ _ E) as L1.
  pose proof (ite_sound g vg neg vneg (d_sign_extension x (length vx + 1))
                (sign_extension vx (length vx + 1)) m1
                (extends_stable _ _ _ _ _ E Hg) Sn
                (extends_stables _ _ _ _ _ E (stables_sign_extension _ _ _ _ Hx))) as I.
  rewrite L1 in I.
  destruct (d_ite_function g neg (d_sign_extension x (length vx + 1)) (length m + length mem)) as [r imem].
  assert (LL : length vneg = length (sign_extension vx (length vx + 1))).
  { rewrite AL. unfold sign_extension, pad. rewrite !app_length, !repeat_length. cbn [length]. lia. }
  destruct (I LL) as (E2 & S2). rewrite run_app. fold m1. split; [|exact S2].
  rewrite app_length. eapply extends_trans; eauto.
Qed.

Lemma abs_sound : forall x vx m, stables m x vx -> 1 <= length vx ->
  let '(r, mem) := d_abs x (length m) in
  let m1 := run vars m mem in
  extends m m1 (length mem) /\ stables m1 r (abs_ vx).
Proof.
  intros x vx m Hx Hn. unfold d_abs, abs_. apply negate_if_sound; [|assumption|assumption].
  now apply stables_sign.
Qed.

(* ---- multiplier *)
Lemma mult_stages_sound : forall x vx y vy k m, stables m x vx -> stables m y vy ->
  let '(res, mem) := d_mult_stages x y k (length m) in
  let m1 := run vars m mem in
  extends m m1 (length mem) /\ stables m1 res (mult_stages vx vy k).
Proof.
  intros x vx y vy k m Hx Hy. induction k as [|k IH]; cbn [d_mult_stages mult_stages].
  - cbn [run length]. split; [apply extends_refl|].
    rewrite (stables_length _ _ _ Hx). apply stables_repeat, stable_const.
  - destruct (d_mult_stages x y k (length m)) as [mres mem]. destruct IH as (E & S).
    set (m1 := run vars m mem) in *.
    pose proof (extends_length _ _ _ E) as L1.
    assert (Hz : stables m1 (map (fun a => XAnd a (nth k y (XC false))) (d_fixed_shift_left x k))
                   (map (fun a => a && nth k vy false) (fixed_shift_left vx k))).
    { eapply extends_stables; [exact E|]. apply stables_map_and.
      - now apply stables_shift.
      - now apply stables_nth. }
    pose proof (adder_sound _ _ _ _ true 0 m1 S Hz) as A. rewrite L1 in A.
    destruct (d_adder_subtractor mres _ true (length m + length mem) 0) as [[res smem] cf].
    destruct A as (E2 & S2 & _). rewrite run_app. fold m1. split; [|exact S2].
    rewrite app_length. eapply extends_trans; eauto.
Qed.

Theorem multiplier_sound : forall x vx y vy m, stables m x vx -> stables m y vy ->
  let '(res, mem) := d_multiplier x y (length m) in
  let m1 := run vars m mem in
  extends m m1 (length mem) /\ stables m1 res (multiplier vx vy).
Proof.
  intros x vx y vy m Hx Hy. unfold d_multiplier, multiplier.
  rewrite (stables_length _ _ _ Hx), (stables_length _ _ _ Hy).
  destruct (stables_equalize m x vx y vy (Nat.min (length vx) (length vy)) Hx Hy) as [Hp Hq].
  destruct (d_equalize_width x y _) as [p q]. destruct (equalize_width vx vy _) as [vp vq].
  cbn [fst snd] in Hp, Hq. rewrite (stables_length _ _ _ Hq).
  now apply mult_stages_sound.
Qed.

(* ---- restoring divider *)
Lemma div_stages_sound : forall x vx y vy n k m, stables m x vx -> stables m y vy ->
  length vx = n -> length vy = 2 * n -> 1 <= n ->
  let '(quo, p, mem) := d_div_stages x y n k (length m) in
  let m1 := run vars m mem in
  extends m m1 (length mem) /\
  stables m1 quo (fst (div_stages vx vy n k)) /\ stables m1 p (snd (div_stages vx vy n k)).
Proof.
  intros x vx y vy n k m Hx Hy Lx Ly Hn. induction k as [|k IH]; cbn [d_div_stages div_stages].
  - cbn [run length fst snd]. repeat split; [apply extends_refl|constructor|now apply stables_pad].
  - destruct (d_div_stages x y n k (length m)) as [[quo p] mem].
    destruct (CircuitsLengths.div_stages_length vx vy n k Lx Ly Hn) as [LQ LP].
    destruct (div_stages vx vy n k) as [vquo vp]. cbn [fst snd] in *.
    destruct IH as (E & SQ & SP).
    set (m1 := run vars m mem) in *.
    pose proof (extends_length _ _ _ E) as L1.
    pose proof (stables_shift _ _ _ 1 SP) as Ssp.
    pose proof (adder_sound _ _ y vy false 0 m1 Ssp (extends_stables _ _ _ _ _ E Hy)) as A.
    rewrite L1 in A.
    destruct (d_adder_subtractor (d_fixed_shift_left p 1) y false (length m + length mem) 0)
      as [[r smem] cf].
    pose proof (CircuitsLengths.adder_length (fixed_shift_left vp 1) vy false 0) as AL.
    destruct (adder_subtractor (fixed_shift_left vp 1) vy false 0) as [vr vc]. cbn [fst snd] in *.
    destruct A as (E2 & SR & _).
    set (m2 := run vars m1 smem) in *.
    pose proof (extends_length _ _ _ E2) as L2.
    assert (Sq : stable m2 (XNot (d_sign r)) (negb (sign vr))) by (apply stable_not; now apply stables_sign).
    pose proof (ite_sound _ _ r vr (d_fixed_shift_left p 1) (fixed_shift_left vp 1) m2 Sq SR
                  (extends_stables _ _ _ _ _ E2 Ssp)) as I.
    rewrite L2, L1 in I.
    destruct (d_ite_function (XNot (d_sign r)) r (d_fixed_shift_left p 1)
                (length m + length mem + length smem)) as [rem imem].
    assert (LL : length vr = length (fixed_shift_left vp 1)).
    { rewrite AL, CircuitsLengths.fixed_shift_left_length by lia. lia. }
    destruct (I LL) as (E3 & S3).
    rewrite !run_app. fold m1. fold m2. repeat split.
    + rewrite !app_length. replace (length mem + (length smem + length imem))
        with ((length mem + length smem) + length imem) by lia.
      eapply extends_trans; [eapply extends_trans|]; eauto.
    + constructor.
      * eapply extends_stable; [exact E3|exact Sq].
      * eapply extends_stables; [exact E3|]. eapply extends_stables; [exact E2|exact SQ].
    + exact S3.
Qed.

Lemma divider_pos_sound : forall x vx y vy m, stables m x vx -> stables m y vy ->
  length vx = length vy -> 1 <= length vx ->
  let '(quo, rem, mem) := d_restoring_divider_pos x y (length m) in
  let m1 := run vars m mem in
  extends m m1 (length mem) /\
  stables m1 quo (fst (restoring_divider_pos vx vy)) /\
  stables m1 rem (snd (restoring_divider_pos vx vy)).
Proof.
  intros x vx y vy m Hx Hy Hl Hn. unfold d_restoring_divider_pos, restoring_divider_pos.
  rewrite (stables_length _ _ _ Hx).
  assert (Hy2 : stables m (d_fixed_shift_left (d_pad y (2 * length vx)) (length vx))
                  (fixed_shift_left (pad vy (2 * length vx)) (length vx)))
    by (now apply stables_shift, stables_pad).
  assert (Ly2 : length (fixed_shift_left (pad vy (2 * length vx)) (length vx)) = 2 * length vx).
  { rewrite CircuitsLengths.fixed_shift_left_length; rewrite CircuitsLengths.pad_length; lia. }
  pose proof (div_stages_sound x vx _ _ (length vx) (length vx) m Hx Hy2 eq_refl Ly2 Hn) as D.
  destruct (d_div_stages x _ (length vx) (length vx) (length m)) as [[quo rem] mem].
  destruct (div_stages vx _ (length vx) (length vx)) as [vquo vrem]. cbn [fst snd] in *.
  destruct D as (E & SQ & SR). repeat split; auto. now apply stables_skipn.
Qed.

(* restoring_divider (with the width equalisation of repair F1) *)
Theorem divider_sound : forall x vx y vy m, stables m x vx -> stables m y vy ->
  1 <= length vx -> 1 <= length vy ->
  let '(quo, rem, mem) := d_restoring_divider x y (length m) in
  let m1 := run vars m mem in
  extends m m1 (length mem) /\
  stables m1 quo (fst (restoring_divider vx vy)) /\
  stables m1 rem (snd (restoring_divider vx vy)).
Proof.
  intros x vx y vy m Hx Hy Lx Ly. unfold d_restoring_divider, restoring_divider.
  pose proof (abs_sound x vx m Hx Lx) as A.
  destruct (d_abs x (length m)) as [a amem]. destruct A as (Ea & Sa).
  set (m1 := run vars m amem) in *. pose proof (extends_length _ _ _ Ea) as L1.
  pose proof (abs_sound y vy m1 (extends_stables _ _ _ _ _ Ea Hy) Ly) as B. rewrite L1 in B.
  destruct (d_abs y (length m + length amem)) as [b bmem]. destruct B as (Eb & Sb).
  set (m2 := run vars m1 bmem) in *. pose proof (extends_length _ _ _ Eb) as L2.
  destruct (stables_equalize m2 a (abs_ vx) b (abs_ vy) 0
              (extends_stables _ _ _ _ _ Eb Sa) Sb) as [Hp Hq].
  destruct (d_equalize_width a b 0) as [a' b'].
  pose proof (CircuitsLengths.negate_if_length (sign vx) vx Lx) as LA.
  pose proof (CircuitsLengths.negate_if_length (sign vy) vy Ly) as LB.
  fold (abs_ vx) in LA. fold (abs_ vy) in LB.
  assert (LE : length (fst (equalize_width (abs_ vx) (abs_ vy) 0))
               = length (snd (equalize_width (abs_ vx) (abs_ vy) 0))
               /\ 1 <= length (fst (equalize_width (abs_ vx) (abs_ vy) 0))).
  { unfold equalize_width. cbn [fst snd].
    rewrite !CircuitsLengths.sign_extension_len by lia. lia. }
  destruct (equalize_width (abs_ vx) (abs_ vy) 0) as [va' vb']. cbn [fst snd] in *.
  destruct LE as [LE1 LE2].
  pose proof (divider_pos_sound a' va' b' vb' m2 Hp Hq LE1 LE2) as D. rewrite L2, L1 in D.
  destruct (d_restoring_divider_pos a' b' (length m + length amem + length bmem))
    as [[quo rem] dmem].
  assert (LQR : length (fst (restoring_divider_pos va' vb')) = length va'
                /\ length (snd (restoring_divider_pos va' vb')) = length va').
  { unfold restoring_divider_pos.
    assert (Ly2 : length (fixed_shift_left (pad vb' (2 * length va')) (length va')) = 2 * length va').
    { rewrite CircuitsLengths.fixed_shift_left_length; rewrite CircuitsLengths.pad_length; lia. }
    destruct (CircuitsLengths.div_stages_length va' _ (length va') (length va') eq_refl Ly2 LE2) as [Q P].
    destruct (div_stages va' _ (length va') (length va')) as [q p]. cbn [fst snd] in *.
    rewrite skipn_length. lia. }
  destruct (restoring_divider_pos va' vb') as [vquo vrem]. cbn [fst snd] in *.
  destruct LQR as [LQ LR]. destruct D as (Ed & SQ & SR).
  set (m3 := run vars m2 dmem) in *. pose proof (extends_length _ _ _ Ed) as L3.
  assert (Sx : stable m3 (d_sign x) (sign vx)).
  { eapply extends_stable; [exact Ed|]. eapply extends_stable; [exact Eb|].
    eapply extends_stable; [exact Ea|]. now apply stables_sign. }
  assert (Sy : stable m3 (d_sign y) (sign vy)).
  { eapply extends_stable; [exact Ed|]. eapply extends_stable; [exact Eb|].
    eapply extends_stable; [exact Ea|]. now apply stables_sign. }
  pose proof (negate_if_sound _ _ quo vquo m3 (stable_xor _ _ _ _ _ Sx Sy) SQ ltac:(lia)) as N1.
  rewrite L3, L2, L1 in N1.
  destruct (d_negate_if (XXor (d_sign x) (d_sign y)) quo
              (length m + length amem + length bmem + length dmem)) as [quo2 nmem].
  destruct N1 as (En & SQ2).
  set (m4 := run vars m3 nmem) in *. pose proof (extends_length _ _ _ En) as L4.
  pose proof (negate_if_sound _ _ rem vrem m4 (extends_stable _ _ _ _ _ En Sx)
                (extends_stables _ _ _ _ _ En SR) ltac:(lia)) as N2.
  rewrite L4, L3, L2, L1 in N2.
  destruct (d_negate_if (d_sign x) rem
              (length m + length amem + length bmem + length dmem + length nmem)) as [rem2 nmem2].
  destruct N2 as (En2 & SR2).
  rewrite !run_app. fold m1. fold m2. fold m3. fold m4. repeat split.
  - rewrite !app_length.
    replace (length amem + (length bmem + (length dmem + (length nmem + length nmem2))))
      with ((((length amem + length bmem) + length dmem) + length nmem) + length nmem2) by lia.
    repeat (eapply extends_trans; [|eassumption]). eassumption.
  - eapply extends_stables; [exact En2|exact SQ2].
  - exact SR2.
Qed.
End Sound.
