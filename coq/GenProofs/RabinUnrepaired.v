(* gr1.make_rabin_transducer BEFORE the repair fixes/F3.patch (finding F3),
   kept for the regression example Properties/C05.v
   C05_refuted_unrepaired_dead_end.

   Difference with TransducerModel.rabin_action: rho_1 was accumulated with
   `basin = zk[0]; for z in zk[1:]`, so it served only the levels >= 1; the
   rims of rho_2..rho_4 exclude cpre(previous basin), which at level 0 is
   cpre(FALSE): with strict causality (plus_one) and _hold = none a winning
   state inside cpre(FALSE) - the environment cannot keep its action whatever
   the component does - had no allowed step.  The repaired code starts from
   the EMPTY basin and runs over all of zk.

   Model file: one definition (a copy of rabin_action with the old rho_1). *)
From Coq Require Import List Bool Arith Lia.
Import ListNotations.
From Omega Require Import L4.Arena.
From OmegaGen Require Import FixpointGen Gr1Gen.
From OmegaGP Require Import TransducerModel.

Section RabinOld.
Variables nc nx ny H G : nat.   (* H, G: numbers of values of `_hold`, `_goal` *)
Variables E S : bdd.
Variables holds goals : list bdd.
Variables moore plus_one : bool.

Local Notation M := (H * G).
Local Notation nyE := (ny * M).
Local Notation band := (Arena.band nc nx nyE).
Local Notation bor := (Arena.bor nc nx nyE).
Local Notation bnot := (Arena.bnot nc nx nyE).
Local Notation forall_ := (Arena.forall_ nc nx nyE).
Local Notation memo := (Arena.memo nc nx nyE).
Local Notation ca := (Gr1Gen.controllable_action nc nx nyE E S moore plus_one 0).
Local Notation step := (FixpointGen.step nc nx nyE moore plus_one 0).

Local Notation rg := (rg H G).
Local Notation rh := (rh H G).
Local Notation rgp := (rgp H G).
Local Notation rhp := (rhp H G).
Local Notation mp := (mp nc nx ny H G).

Definition rabin_action_unrepaired (zk : list bdd)
    (yki : list (list bdd)) (xkijr : list (list (list (list bdd)))) : bdd :=
  let n_holds := length holds in
  let n_goals := length goals in
  let none := n_holds in
  (* rho_1: descent in persistence basin - UNREPAIRED: basin = zk[0], for z in
     zk[1:], so level 0 is not served *)
  let count1 := mp (fun v => Nat.eqb (rgp v) (rg v) && Nat.eqb (rhp v) none) in
  let '(rho_1, _) :=
    fold_left (fun '(r, basin) z =>
      let zstar := ca basin None in
      let rim := band z (bnot basin) in
      (bor r (band (band rim zstar) count1), z))
      (tl zk) (bfalse, hd bfalse zk) in
  let '(rho_2, rho_3, rho_4, _) :=
    fold_left (fun '(rho_2, rho_3, rho_4, basin) '(z, yi, xijr) =>
      let cox_basin := step E S basin in
      let rim := band (band z (bnot basin)) (bnot cox_basin) in
      (* rho_2: pick persistence set *)
      let count := mp (fun v => Nat.eqb (rgp v) (rg v) && Nat.eqb (rh v) none) in
      let u := band rim count in
      let v2 := fold_left (fun acc '(i, y) =>
                  bor acc (band (mp (fun v => Nat.eqb (rhp v) i)) (ca y None)))
                  (enumerate 0 yi) bfalse in
      let rho_2 := bor rho_2 (band u v2) in
      (* rho_3: descent in recurrence basin *)
      let count := mp (fun v => Nat.eqb (rgp v) (rg v) && negb (Nat.eqb (rh v) none)
                                && Nat.eqb (rhp v) (rh v)) in
      let u := band rim count in
      let v3 := fold_left (fun acc '(i, xjr) =>
                  fold_left (fun acc '(j, (xr, goal)) =>
                    let cnt := mp (fun v => Nat.eqb (rg v) j && Nat.eqb (rh v) i) in
                    let '(p, _) :=
                      fold_left (fun '(p, x_basin) x =>
                        let xstar := ca x_basin None in
                        let q := band (band xstar (bnot x_basin)) x in
                        (bor p q, x))
                        (tl xr) (bfalse, hd bfalse xr) in
                    let p := band (band p cnt) (bnot goal) in
                    bor acc p)
                    (enumerate 0 (combine xjr goals)) acc)
                  (enumerate 0 xijr) bfalse in
      let rho_3 := bor rho_3 (band u v3) in
      (* rho_4: advance to next recurrence goal *)
      let u := fold_left (fun acc '(j, goal) =>
                 bor acc (band (mp (fun v => Nat.eqb (rg v) j
                                   && Nat.eqb (rgp v) ((j + 1) mod n_goals))) goal))
                 (enumerate 0 goals) bfalse in
      let count := mp (fun v => negb (Nat.eqb (rh v) none) && Nat.eqb (rhp v) (rh v)) in
      let u := band (band u count) rim in
      let u := ca btrue (Some u) in
      let v4 := fold_left (fun acc '(i, y) =>
                  bor acc (band (mp (fun v => Nat.eqb (rh v) i)) (ca y None)))
                  (enumerate 0 yi) bfalse in
      let rho_4 := bor rho_4 (band u v4) in
      (rho_2, rho_3, rho_4, z))
      (combine (combine zk yki) xkijr) (bfalse, bfalse, bfalse, bfalse) in
  let u := bor (bor (bor rho_1 rho_2) rho_3) rho_4 in
  let u := band u (mp (fun v => Nat.leb (rh v) n_holds && Nat.leb (rg v) (n_goals - 1))) in
  let u := if negb plus_one then
             let u := bor u (bnot E) in
             if moore then forall_ [Envp] u else u
           else u in
  u.

End RabinOld.
