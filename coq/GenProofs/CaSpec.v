(* The GENERATED _controllable_action, pointwise, in any arena: the stepwise
   implication of the mode towards the target (and the optional extra
   conjunct), for every next environment value if Moore. *)
From Coq Require Import List Bool Arith Lia.
Import ListNotations.
From Omega Require Import L4.Arena L4.ArenaFacts L4.Kleene L4.GameSpec.
From OmegaGen Require Import FixpointGen Gr1Gen.
From OmegaGP Require Import ReadsGr1.

Ltac ext_all := repeat first [apply forallb_ext'; intro | apply existsb_ext'; intro].
Ltac strip := repeat (progress (alg_unfold; cbn [forall_raw exist_raw dom app]; ext_all)).

Section CaSpec.
Variables nc nx ny : nat.
Variables E S : bdd.

Definition psi (plus_one : bool) (T : bdd) (e : option bdd) (v : V) : bool :=
  let t' := T (mkV (vc v) (vxp v) (vyp v) (vxp v) (vyp v)) &&
            match e with Some e => e v | None => true end in
  if plus_one then S v && (negb (E v) || t') else negb (E v) || (S v && t').

Definition ca_spec (moore plus_one : bool) (T : bdd) (e : option bdd) (v : V) : bool :=
  if moore then forallb (fun x' => psi plus_one T e (setg Envp v x')) (seq 0 nx)
  else psi plus_one T e v.

Lemma ca_is_spec moore plus_one T e v :
  Gr1Gen.controllable_action nc nx ny E S moore plus_one 0 T e v =
  ca_spec moore plus_one T e v.
Proof.
  unfold Gr1Gen.controllable_action, ca_spec, psi. cbv zeta.
  destruct v as [c x y xp yp].
  destruct e as [e|], plus_one, moore; strip; cbn [setg vc vx vy vxp vyp];
    repeat match goal with |- context [?f (mkV ?a ?b ?c ?d ?e)] =>
      is_var f; destruct (f (mkV a b c d e)) end; reflexivity.
Qed.

(* the relation with the controllable predecessor: from a state of cpre T the
   component has, per the mode's quantifier order, next values satisfying the
   half-quantified action towards T *)
Lemma cpre_ca_mealy plus_one T v :
  cpre_spec nx ny false plus_one E S T v = true ->
  forall x', x' < nx -> exists y', y' < ny /\
    psi plus_one T None (mkV (vc v) (vx v) (vy v) x' y') = true.
Proof.
  unfold cpre_spec. rewrite forallb_forall. intros H x' Hx'.
  specialize (H x' (proj2 (in_seq _ _ _) (conj (Nat.le_0_l _) Hx'))).
  apply existsb_exists in H. destruct H as [y' [Hy' H]]. apply in_seq in Hy'.
  exists y'. split; [lia|]. unfold phi in H. unfold psi. cbn [vc vx vy vxp vyp].
  rewrite andb_true_r. exact H.
Qed.

Lemma cpre_ca_moore plus_one T v :
  cpre_spec nx ny true plus_one E S T v = true ->
  exists y', y' < ny /\ forall x', x' < nx ->
    psi plus_one T None (mkV (vc v) (vx v) (vy v) x' y') = true.
Proof.
  unfold cpre_spec. intros H. apply existsb_exists in H. destruct H as [y' [Hy' H]].
  apply in_seq in Hy'. exists y'. split; [lia|]. intros x' Hx'.
  rewrite forallb_forall in H.
  specialize (H x' (proj2 (in_seq _ _ _) (conj (Nat.le_0_l _) Hx'))).
  unfold phi in H. unfold psi. cbn [vc vx vy vxp vyp]. rewrite andb_true_r. exact H.
Qed.

End CaSpec.
