"""Fail-closed translator for omega/symbolic/functions.py (tie T for C14).

Turns `extract_function` and `make_functions` of the CURRENT source text into
Gallina over the BDDs-by-meaning of coq/theories/L7Codegen/Pred.v.  Like
py2coq.py it reads the source with `ast` (never imports omega), compiles the
statements in continuation style into nested `let`s and raises `Refuse` on
anything outside the subset below.

Values and their Gallina types (a small kind system; a kind error is a
refusal):

  pred     a BDD node                      Pred.pred
  var      a variable name (a bit)         Pred.var
  vlist    a list / set of variable names  list var   (sets are read as
           lists: every use made of them - membership filter, remove-all,
           quantification - is insensitive to order and repetition)
  mset     `bdd.support(u)` and unions of such: the membership function
           fun x => depends n u x  : var -> bool
  bool
  entry    dict(function=g, care_set=c)    the pair (g, c)
  fdict    dict var -> entry               association list, in insertion
           order
  letmap   a one-entry dict {y: v} given to bdd.let

What Python leaves unspecified becomes a parameter, exactly as in the
hand-written model L7Codegen/Synth.v:
  - `for x in S` over a SET: the loop runs over an extra list argument (the
    iteration order).  If the body calls a translated function that itself
    needs orders, the elements of the list are tuples carrying them.  The set
    S itself (the iteration domain) is emitted as a separate definition
    `<function>_domain_<k>`;
  - `if _bdd is None: g = p  else: g = _bdd.restrict(p, care)` (with `_bdd`
    bound by the module's `try: import dd.cudd as _bdd / except ImportError:
    _bdd = None`): `restrict i p care` for the Section variable
    `restrict : var -> pred -> pred -> pred`, indexed by the variable-typed
    argument of the enclosing function.  The `None` branch is the instance
    `fun _ p _ => p`.

`assert c, msg` becomes `ok := ok && c` on a Boolean flag threaded through
the function; a function containing assertions is emitted as `<f>_run`
returning (result, ok) with projections `<f>` and `<f>_asserts`.

Nothing is dropped silently: every statement or sub-expression that does not
appear in the generated term is listed in `notes`.
"""
import ast
import textwrap

from py2coq import Refuse, _src, _dotted

# expected signatures: parameter name -> kind ('mgr' = the BDD manager, which
# is implicit in the model)
SIGNATURES = {
    'extract_function': [('f', 'pred'), ('yp', 'var'), ('outputs', 'vlist'),
                         ('bdd', 'mgr')],
    'make_functions': [('r', 'pred'), ('vrs', 'vlist'), ('bdd', 'mgr')],
}
COQ_TYPE = {'pred': 'pred', 'var': 'var', 'vlist': 'list var',
            'bool': 'bool', 'entry': 'pred * pred',
            'fdict': 'list (var * (pred * pred))'}
ENTRY_KEYS = ('function', 'care_set')
MUTABLE = ('vlist', 'fdict')


def _comment(s):
    """Make text safe inside a Coq comment."""
    return (s.replace('"', "'").replace('(*', '( *').replace('*)', '* )')
            .replace('\n', ' '))


def _kind_type(k):
    if isinstance(k, tuple):
        return ' * '.join(
            (f'({_kind_type(x)})' if isinstance(x, tuple) or x in
             ('entry',) else _kind_type(x)) for x in k)
    if k not in COQ_TYPE:
        raise Refuse(f'no Gallina type for kind {k}')
    return COQ_TYPE[k]


def _tup(names):
    if len(names) == 1:
        return names[0]
    return '(' + ', '.join(names) + ')'


def _pat(names):
    return names[0] if len(names) == 1 else "'" + _tup(names)


class Func:
    def __init__(self, name, node):
        self.name = name
        self.node = node
        self.order_params = []      # [(coq name, coq type)]
        self.ret_kind = None
        self.has_asserts = any(isinstance(n, ast.Assert)
                               for n in ast.walk(node))
        self.domains = []           # [(coq name, type, text)]


class SetLoop:
    """A `for` over a set that is being translated."""

    def __init__(self, index):
        self.index = index
        self.extra = []             # [(coq name, coq type)] orders of callees


class Translator:
    def __init__(self, path):
        with open(path) as f:
            self.tree = ast.parse(f.read())
        self.funcs = {}
        self.notes = []
        self.optional_module = None
        self.found = {n.name: n for n in self.tree.body
                      if isinstance(n, ast.FunctionDef)}
        self._find_optional_import()

    def note(self, s):
        s = f'{self.cur.name}: {s}' if getattr(self, 'cur', None) else s
        if s not in self.notes:
            self.notes.append(s)

    def _find_optional_import(self):
        """`try: import dd.cudd as X / except ImportError: X = None`."""
        bound = []
        for n in ast.walk(self.tree):
            if isinstance(n, (ast.Import, ast.ImportFrom)):
                for a in n.names:
                    bound.append(a.asname or a.name.split('.')[0])
        for n in self.tree.body:
            if not isinstance(n, ast.Try):
                continue
            if (len(n.body) == 1 and isinstance(n.body[0], ast.Import)
                    and len(n.body[0].names) == 1
                    and n.body[0].names[0].name == 'dd.cudd'
                    and n.body[0].names[0].asname
                    and len(n.handlers) == 1
                    and isinstance(n.handlers[0].type, ast.Name)
                    and n.handlers[0].type.id == 'ImportError'
                    and not n.orelse and not n.finalbody):
                x = n.body[0].names[0].asname
                h = n.handlers[0].body
                if (len(h) == 1 and isinstance(h[0], ast.Assign)
                        and len(h[0].targets) == 1
                        and isinstance(h[0].targets[0], ast.Name)
                        and h[0].targets[0].id == x
                        and isinstance(h[0].value, ast.Constant)
                        and h[0].value.value is None
                        and bound.count(x) == 1
                        and sum(1 for m in ast.walk(self.tree)
                                if isinstance(m, ast.Name) and m.id == x
                                and isinstance(m.ctx, (ast.Store, ast.Del)))
                        == 1
                        and not any(isinstance(m, (ast.Global, ast.Nonlocal))
                                    and x in m.names
                                    for m in ast.walk(self.tree))):
                    self.optional_module = x
        # the name must not be rebound anywhere else at module level or in
        # the translated functions (checked when a function assigns to it)

    # ------------------------------------------------------------------
    def translate_function(self, name):
        if name not in self.found:
            raise Refuse(f'function {name} not found')
        node = self.found[name]
        fi = Func(name, node)
        self.cur = fi
        a = node.args
        if (a.vararg or a.kwarg or a.kwonlyargs or a.posonlyargs
                or a.defaults or node.decorator_list):
            raise Refuse(f'{name}: unsupported signature')
        got = [x.arg for x in a.args]
        want = SIGNATURES[name]
        if got != [p for p, _ in want]:
            raise Refuse(f'{name}: signature {got} is not '
                         f'{[p for p, _ in want]}')
        for n in ast.walk(node):
            if isinstance(n, (ast.Global, ast.Nonlocal, ast.FunctionDef,
                              ast.Lambda, ast.Yield, ast.YieldFrom,
                              ast.Await, ast.Try, ast.With, ast.While,
                              ast.Delete, ast.Import, ast.ImportFrom,
                              ast.ClassDef, ast.NamedExpr, ast.Starred,
                              ast.Break, ast.Continue)) and n is not node:
                raise Refuse(f'{name}: {type(n).__name__}')
        env = {}
        for p, k in want:
            env[p] = k
        self.env_params = [(p, k) for p, k in want if k != 'mgr']
        self.note('the manager argument `bdd` is implicit (BDDs by meaning '
                  'over n declared bits)')
        self.loops = []
        self.nloops = 0
        self.stop_at = None
        body = list(node.body)
        if (body and isinstance(body[0], ast.Expr)
                and isinstance(body[0].value, ast.Constant)
                and isinstance(body[0].value.value, str)):
            body = body[1:]
            self.note('docstring skipped')
        if fi.has_asserts:
            env['ok!'] = 'bool'
        bad = self.mutated(body) & {p for p, k in want if k in MUTABLE}
        if bad:
            raise Refuse(f'{name} changes its argument {sorted(bad)} in '
                         'place')
        text = self.block(body, env, top=True)
        fi.text = text
        nloops = self.nloops
        # iteration domains of the top-level loops over sets
        for k in range(1, nloops + 1):
            self.nloops = 0
            self.loops = []
            self.stop_at = k
            saved_params, saved_notes = list(fi.order_params), list(self.notes)
            r = self.block(body, dict(env), top=True)
            if fi.has_asserts:
                r = 'let ok := true in\n' + r
            fi.domains.append((f'{name}_domain_{k}', self.domain_type, r))
            fi.order_params = saved_params
            self.notes = saved_notes
        self.stop_at = None
        self.funcs[name] = fi
        self.cur = None
        return fi

    def emit(self, fi):
        params = ' '.join(f'({self.cn(p)} : {COQ_TYPE[k]})'
                          for p, k in SIGNATURES[fi.name] if k != 'mgr')
        oparams = ' '.join(f'({n} : {t})' for n, t in fi.order_params)
        allp = (params + ' ' + oparams).strip()
        names = ' '.join([self.cn(p) for p, k in SIGNATURES[fi.name]
                          if k != 'mgr'] + [n for n, _ in fi.order_params])
        rt = _kind_type(fi.ret_kind)
        out = []
        for dn, dt, dtext in fi.domains:
            out.append(f'Definition {dn} {params} : {dt} :=\n'
                       + textwrap.indent(dtext, '  ') + '.')
        if fi.has_asserts:
            out.append(f'Definition {fi.name}_run {allp} : ({rt}) * bool :=\n'
                       f'  let ok := true in\n'
                       + textwrap.indent(fi.text, '  ') + '.')
            out.append(f'Definition {fi.name} {allp} : {rt} :=\n'
                       f'  fst ({fi.name}_run {names}).')
            out.append(f'Definition {fi.name}_asserts {allp} : bool :=\n'
                       f'  snd ({fi.name}_run {names}).')
        else:
            out.append(f'Definition {fi.name} {allp} : {rt} :=\n'
                       + textwrap.indent(fi.text, '  ') + '.')
        return '\n\n'.join(out)

    # ------------------------------------------------------------------
    @staticmethod
    def cn(pyname):
        return 'ok' if pyname == 'ok!' else 'v_' + pyname

    def assigned(self, stmts):
        """Names (re)bound or mutated by statements, in order of first
        occurrence; `ok!` for assertions."""
        out = []

        def add(n):
            if n not in out:
                out.append(n)

        def walk(s):
            if isinstance(s, ast.Assign):
                for t in s.targets:
                    if isinstance(t, ast.Subscript):
                        if isinstance(t.value, ast.Name):
                            add(t.value.id)
                        continue
                    for m in ast.walk(t):
                        if isinstance(m, ast.Name):
                            add(m.id)
            elif isinstance(s, ast.AugAssign):
                if isinstance(s.target, ast.Name):
                    add(s.target.id)
            elif isinstance(s, ast.Assert):
                add('ok!')
            elif isinstance(s, ast.Expr):
                v = s.value
                if (isinstance(v, ast.Call)
                        and isinstance(v.func, ast.Attribute)
                        and isinstance(v.func.value, ast.Name)):
                    add(v.func.value.id)
            elif isinstance(s, ast.For):
                for m in ast.walk(s.target):
                    if isinstance(m, ast.Name):
                        add(m.id)
                for b in s.body:
                    walk(b)
            elif isinstance(s, ast.If):
                for b in s.body + s.orelse:
                    walk(b)
        for s in stmts:
            walk(s)
        return out

    # ------------------------------------------------------------------
    # statements
    def mutated(self, stmts):
        """Names of collections changed IN PLACE (remove, &=, |=, store)."""
        out = set()
        for s in stmts:
            for n in ast.walk(s):
                if isinstance(n, ast.AugAssign) and isinstance(
                        n.target, ast.Name):
                    out.add(n.target.id)
                elif isinstance(n, ast.Assign):
                    for t in n.targets:
                        if isinstance(t, ast.Subscript) and isinstance(
                                t.value, ast.Name):
                            out.add(t.value.id)
                elif (isinstance(n, ast.Call)
                      and isinstance(n.func, ast.Attribute)
                      and isinstance(n.func.value, ast.Name)
                      and n.func.attr not in ('values', 'intersection')):
                    out.add(n.func.value.id)
        return out

    def block(self, stmts, env, tail=None, top=False):
        """Gallina text of `stmts`; `tail(env)` gives the value when control
        falls off the end (None: the block must end in `return`)."""
        if not stmts:
            if tail is None:
                raise Refuse(f'{self.cur.name}: control reaches the end of '
                             'the function without return')
            return tail(env)
        s, rest = stmts[0], stmts[1:]
        env = dict(env)

        def k(e=env):
            return self.block(rest, e, tail, top)
        if isinstance(s, ast.Pass):
            return k()
        if isinstance(s, ast.Return):
            if rest or not top:
                raise Refuse('return that is not the last statement of the '
                             'function')
            if s.value is None:
                raise Refuse('bare return')
            t, kd = self.expr(s.value, env)
            self.cur.ret_kind = kd
            if self.cur.has_asserts:
                return f'({t}, ok)'
            return t
        if isinstance(s, ast.Assert):
            t, kd = self.expr(s.test, env)
            t = self.truth(t, kd)
            if s.msg is not None:
                self.note('message of `assert '
                          f'{_comment(_src(s.test))}` skipped: '
                          f'{_comment(_src(s.msg))}')
            return f'let ok := ok && {t} in\n' + k()
        if isinstance(s, ast.Assign):
            return self.assign(s, env, k)
        if isinstance(s, ast.AugAssign):
            if not isinstance(s.target, ast.Name):
                raise Refuse(f'augmented assignment: {_src(s)}')
            x = s.target.id
            a = self.expr(s.target, env)
            b = self.expr(s.value, env)
            t, kd = self.binop(s.op, a, b, _src(s))
            if kd != env[x]:
                raise Refuse(f'{_src(s)} changes the kind of {x}')
            return f'let {self.cn(x)} := {t} in\n' + k()
        if isinstance(s, ast.Expr):
            v = s.value
            # S.remove(x) on a set of variables
            if (isinstance(v, ast.Call) and isinstance(v.func, ast.Attribute)
                    and v.func.attr == 'remove'
                    and isinstance(v.func.value, ast.Name)
                    and len(v.args) == 1 and not v.keywords):
                S = v.func.value.id
                if env.get(S) != 'vlist':
                    raise Refuse(f'remove on {S}, which is not a set of '
                                 'variables')
                xt, xk = self.expr(v.args[0], env)
                if xk != 'var':
                    raise Refuse(f'{_src(s)}: not a variable')
                self.note(f'`{_comment(_src(s))}` removes every occurrence; '
                          'the KeyError of set.remove on an absent element '
                          'is not modelled (the element comes from a copy '
                          'of the set; order_ok in the theorems)')
                return (f'let {self.cn(S)} := filter (fun x => negb '
                        f'(Nat.eqb x {xt})) {self.cn(S)} in\n' + k())
            raise Refuse(f'statement: {_src(s)}')
        if isinstance(s, ast.If):
            return self.if_stmt(s, rest, env, tail, top)
        if isinstance(s, ast.For):
            return self.for_stmt(s, rest, env, tail, top)
        raise Refuse(f'statement kind {type(s).__name__}: {_src(s)}')

    def bind(self, env, x, kd):
        if x == self.optional_module or x in ('bdd',):
            raise Refuse(f'assignment to {x}')
        if isinstance(kd, tuple):
            raise Refuse(f'tuple bound to a single name {x}')
        if kd == 'mgr':
            raise Refuse('the manager used as a value')
        env[x] = kd

    def assign(self, s, env, k):
        if len(s.targets) != 1:
            raise Refuse('chained assignment')
        t = s.targets[0]
        if isinstance(t, ast.Name):
            e, kd = self.expr(s.value, env)
            if isinstance(s.value, ast.Name) and kd in MUTABLE:
                raise Refuse(f'{_src(s)}: second name for a mutable '
                             'collection')
            self.bind(env, t.id, kd)
            return f'let {self.cn(t.id)} := {e} in\n' + k(env)
        if isinstance(t, ast.Tuple) and all(isinstance(x, ast.Name)
                                            for x in t.elts):
            names = [x.id for x in t.elts]
            if len(set(names)) != len(names):
                raise Refuse(f'repeated target in {_src(s)}')
            e, kd = self.expr(s.value, env)
            if not isinstance(kd, tuple) or len(kd) != len(names):
                raise Refuse(f'{_src(s)}: value is not a {len(names)}-tuple')
            for x, kx in zip(names, kd):
                self.bind(env, x, kx)
            pat = _tup([self.cn(x) for x in names])
            return f"let '{pat} := {e} in\n" + k(env)
        if isinstance(t, ast.Subscript) and isinstance(t.value, ast.Name):
            D = t.value.id
            if env.get(D) != 'fdict':
                raise Refuse(f'store into {D}, which is not the dict of '
                             'functions')
            kt, kk = self.expr(t.slice, env)
            vt, vk = self.expr(s.value, env)
            if kk != 'var' or vk != 'entry':
                raise Refuse(f'{_src(s)}: key/value kinds {kk}/{vk}')
            self.note(f'`{_comment(_src(s))}` appends to an association '
                      'list: exact when the keys are distinct, which holds '
                      'because the key ranges over a set (NoDup in '
                      'order_ok)')
            return (f'let {self.cn(D)} := {self.cn(D)} ++ [({kt}, {vt})] in\n'
                    + k(env))
        raise Refuse(f'assignment target: {_src(t)}')

    def restrict_idiom(self, s, env):
        """if X is None: g = p / else: g = X.restrict(p, care)."""
        X = self.optional_module
        t = s.test
        if not (X and isinstance(t, ast.Compare) and len(t.ops) == 1
                and isinstance(t.left, ast.Name) and t.left.id == X
                and isinstance(t.comparators[0], ast.Constant)
                and t.comparators[0].value is None
                and isinstance(t.ops[0], (ast.Is, ast.IsNot))):
            return None
        none_br, some_br = ((s.body, s.orelse) if isinstance(t.ops[0], ast.Is)
                            else (s.orelse, s.body))
        ok = (len(none_br) == 1 and len(some_br) == 1
              and all(isinstance(b, ast.Assign) and len(b.targets) == 1
                      and isinstance(b.targets[0], ast.Name)
                      for b in (none_br[0], some_br[0])))
        if not ok:
            raise Refuse(f'unrecognised use of {X}: {_src(s)}')
        a, b = none_br[0], some_br[0]
        g = a.targets[0].id
        c = b.value
        if not (b.targets[0].id == g and isinstance(a.value, ast.Name)
                and isinstance(c, ast.Call)
                and _dotted(c.func) == X + '.restrict'
                and len(c.args) == 2 and not c.keywords
                and isinstance(c.args[0], ast.Name)
                and c.args[0].id == a.value.id):
            raise Refuse(f'unrecognised use of {X}: {_src(s)}')
        pt, pk = self.expr(a.value, env)
        ct, ck = self.expr(c.args[1], env)
        if pk != 'pred' or ck != 'pred':
            raise Refuse(f'{_src(c)}: arguments are not BDDs')
        idx = [p for p, kd in self.env_params if kd == 'var']
        if len(idx) != 1:
            raise Refuse('restrict: the enclosing function must have exactly '
                         'one variable-typed argument (the index of the '
                         'family)')
        self.note(f'`if {_comment(_src(t))}: {g} = {a.value.id} else: {g} = '
                  f'{_comment(_src(c))}` is the Section variable `restrict` '
                  f'(indexed by {idx[0]}); the None branch is the instance '
                  'fun _ p _ => p')
        return g, f'restrict {self.cn(idx[0])} {pt} {ct}'

    def if_stmt(self, s, rest, env, tail, top):
        r = self.restrict_idiom(s, env)
        if r is not None:
            g, t = r
            self.bind(env, g, 'pred')
            return (f'let {self.cn(g)} := {t} in\n'
                    + self.block(rest, env, tail, top))
        for n in ast.walk(s):
            if isinstance(n, ast.Return):
                raise Refuse('return inside if')
        c, ck = self.expr(s.test, env)
        c = self.truth(c, ck)
        names = self.assigned(s.body + s.orelse)
        live = [x for x in names if x in env]
        fresh = [x for x in names if x not in env]

        def tl(e):
            for x in live:
                if e[x] != env[x]:
                    raise Refuse(f'a branch changes the kind of {x}')
            return _tup([self.cn(x) for x in live])
        if not live:
            raise Refuse(f'if without effect: {_src(s.test)}')
        b = self.block(s.body, env, tl)
        e = self.block(s.orelse, env, tl)
        if fresh:
            self.note('names first bound inside a branch are local to it: '
                      + ', '.join(fresh))
        pat = _tup([self.cn(x) for x in live])
        q = "'" if len(live) != 1 else ''
        ind = lambda x: textwrap.indent(x, '  ')
        return (f'let {q}{pat} :=\n  if {c} then\n{ind(ind(b))}\n  else\n'
                f'{ind(ind(e))}\nin\n' + self.block(rest, env, tail, top))

    def for_stmt(self, s, rest, env, tail, top):
        if s.orelse:
            raise Refuse('for-else')
        if not isinstance(s.target, ast.Name):
            raise Refuse(f'for target: {_src(s.target)}')
        for n in ast.walk(s):
            if isinstance(n, ast.Return):
                raise Refuse('return inside for')
        x = s.target.id
        it, ik = self.expr(s.iter, env)
        base = s.iter
        if (isinstance(base, ast.Call) and isinstance(base.func, ast.Attribute)
                and base.func.attr == 'values'):
            base = base.func.value
        if isinstance(base, ast.Name) and base.id in self.mutated(s.body):
            raise Refuse(f'the loop changes {base.id} while iterating over '
                         'it')
        is_set = False
        it_src = _comment(_src(s.iter))
        if ik == 'mset':
            is_set, xk, dom_t = True, 'var', 'var -> bool'
        elif ik == 'vlist':
            # only a set(...) or a set-valued name is iterated in
            # unspecified order; we treat every vlist as a set
            is_set, xk, dom_t = True, 'var', 'list var'
        elif ik == 'entries':
            xk = 'entry'
        else:
            raise Refuse(f'for over {it_src} of kind {ik}')
        loop = None
        if is_set:
            if top:
                self.nloops += 1
                if self.stop_at == self.nloops:
                    # second pass: the value of this block is the iteration
                    # domain of the loop
                    self.domain_type = dom_t
                    return it
            loop = SetLoop(self.nloops if top else 0)
            self.loops.append(loop)
        names = self.assigned(s.body)
        carried = [n for n in names if n in env and n != x]
        fresh = [n for n in names if n not in env and n != x]
        if x in env:
            raise Refuse(f'loop variable {x} shadows a live name')
        if not carried:
            raise Refuse(f'for without effect: {_src(s.iter)}')
        inner = dict(env)
        inner[x] = xk

        def tl(e):
            for n in carried:
                if e[n] != env[n]:
                    raise Refuse(f'the loop changes the kind of {n}')
            return _tup([self.cn(n) for n in carried])
        b = self.block(s.body, inner, tl)
        if is_set:
            self.loops.pop()
        # names first bound in the body do not survive the loop
        if fresh:
            self.note(f'names first bound in the body of `for {x} in '
                      f'{it_src}` are local to one iteration: '
                      + ', '.join(fresh))
        cpat = _tup([self.cn(n) for n in carried])
        if is_set:
            elems = [(self.cn(x), 'var')] + loop.extra
            oname = f'order_{x}'
            otype = 'list (' + ' * '.join(
                (f'({t})' if ' ' in t else t) for _, t in elems) + ')' \
                if len(elems) > 1 else 'list var'
            oname = self.add_order(oname, otype)
            xpat = _pat([n for n, _ in elems])
            L = oname
            self.note(f'`for {x} in {it_src}` runs over the extra argument '
                      f'{oname} (iteration order of a set; the set itself '
                      f'is {self.cur.name}_domain_{loop.index})'
                      if top else
                      f'`for {x} in {it_src}` runs over the extra argument '
                      f'{oname} (iteration order of a set)')
        else:
            xpat = self.cn(x)
            L = it
        q = "'" if len(carried) != 1 else ''
        after = dict(env)
        return (f"let {q}{cpat} :=\n"
                f"  fold_left (fun {_pat([self.cn(n) for n in carried])} "
                f"{xpat} =>\n" + textwrap.indent(b, '    ') + ')\n'
                f"    {L} {cpat}\nin\n" + self.block(rest, after, tail, top))

    def add_order(self, name, typ):
        """Register an order argument: of the enclosing set loop if there is
        one, else of the function."""
        where = (self.loops[-1].extra if self.loops
                 else self.cur.order_params)
        have = [n for n, _ in where]
        base, i = name, 1
        while name in have:
            i += 1
            name = f'{base}_{i}'
        where.append((name, typ))
        return name

    # ------------------------------------------------------------------
    # expressions: return (text, kind)
    def truth(self, t, kd):
        if kd == 'bool':
            return t
        if kd == 'vlist':
            return f'(negb (is_nil {t}))'
        raise Refuse(f'truth value of kind {kd}')

    def binop(self, op, a, b, src):
        (at, ak), (bt, bk) = a, b
        if ak == 'pred' and bk == 'pred':
            if isinstance(op, ast.BitAnd):
                return f'(pand {at} {bt})', 'pred'
            if isinstance(op, ast.BitOr):
                return f'(por {at} {bt})', 'pred'
        if ak == 'mset' and bk == 'mset':
            if isinstance(op, ast.BitOr):
                return f'(fun x => {at} x || {bt} x)', 'mset'
            if isinstance(op, ast.BitAnd):
                return f'(fun x => {at} x && {bt} x)', 'mset'
        if ak == 'vlist' and bk == 'mset' and isinstance(op, ast.BitAnd):
            return f'(filter {bt} {at})', 'vlist'
        raise Refuse(f'operator {type(op).__name__} on {ak}, {bk}: {src}')

    def is_bdd_false(self, e):
        return _dotted(e) == 'bdd.false'

    def expr(self, e, env):
        if isinstance(e, ast.Name):
            if e.id not in env:
                raise Refuse(f'{self.cur.name}: unknown or no longer '
                             f'defined name {e.id}')
            if env[e.id] == 'mgr':
                raise Refuse('the manager used as a value')
            return self.cn(e.id), env[e.id]
        if isinstance(e, ast.Constant):
            if isinstance(e.value, bool):
                return ('true' if e.value else 'false'), 'bool'
            raise Refuse(f'constant {e.value!r}')
        if isinstance(e, ast.Tuple):
            xs = [self.expr(x, env) for x in e.elts]
            if len(xs) < 2:
                raise Refuse('short tuple')
            return ('(' + ', '.join(t for t, _ in xs) + ')',
                    tuple(k for _, k in xs))
        if isinstance(e, ast.List):
            xs = [self.expr(x, env) for x in e.elts]
            if any(k != 'var' for _, k in xs):
                raise Refuse(f'list {_src(e)} is not a list of variables')
            return '[' + '; '.join(t for t, _ in xs) + ']', 'vlist'
        if isinstance(e, ast.Dict):
            m = self.letmap(e, env)
            if m is None:
                raise Refuse(f'dict {_src(e)}')
            return f'({m[0]}, {m[1]})', 'letmap:' + m[2]
        if isinstance(e, ast.UnaryOp):
            t, k = self.expr(e.operand, env)
            if isinstance(e.op, ast.Invert) and k == 'pred':
                return f'(pnot {t})', 'pred'
            if isinstance(e.op, ast.Not):
                if k == 'bool':
                    return f'(negb {t})', 'bool'
                if k == 'vlist':
                    return f'(is_nil {t})', 'bool'
            raise Refuse(f'unary {_src(e)} on kind {k}')
        if isinstance(e, ast.BinOp):
            return self.binop(e.op, self.expr(e.left, env),
                              self.expr(e.right, env), _src(e))
        if isinstance(e, ast.Compare):
            return self.compare(e, env)
        if isinstance(e, ast.Subscript):
            t, k = self.expr(e.value, env)
            key = e.slice
            if (k == 'entry' and isinstance(key, ast.Constant)
                    and key.value in ENTRY_KEYS):
                return (f'({"fst" if key.value == ENTRY_KEYS[0] else "snd"} '
                        f'{t})', 'pred')
            raise Refuse(f'subscript {_src(e)}')
        if isinstance(e, ast.Call):
            return self.call(e, env)
        raise Refuse(f'expression {type(e).__name__}: {_src(e)}')

    def compare(self, e, env):
        if len(e.ops) != 1:
            raise Refuse(f'chained comparison {_src(e)}')
        op, l, r = e.ops[0], e.left, e.comparators[0]
        if isinstance(op, (ast.Eq, ast.NotEq)):
            if self.is_bdd_false(r) or self.is_bdd_false(l):
                o = l if self.is_bdd_false(r) else r
                if self.is_bdd_false(o):
                    raise Refuse(_src(e))
                t, k = self.expr(o, env)
                if k != 'pred':
                    raise Refuse(f'{_src(e)}: not a BDD')
                t = f'(is_false {t})'
            else:
                (a, ak), (b, bk) = self.expr(l, env), self.expr(r, env)
                if ak != 'pred' or bk != 'pred':
                    raise Refuse(f'comparison {_src(e)} of kinds {ak}, {bk}')
                t = f'(peq {a} {b})'
            return (t if isinstance(op, ast.Eq) else f'(negb {t})'), 'bool'
        if isinstance(op, (ast.In, ast.NotIn)):
            (a, ak), (b, bk) = self.expr(l, env), self.expr(r, env)
            if ak != 'var':
                raise Refuse(f'{_src(e)}: left side is not a variable')
            if bk == 'mset':
                t = f'({b} {a})'
            elif bk == 'vlist':
                t = f'(existsb (Nat.eqb {a}) {b})'
            else:
                raise Refuse(f'{_src(e)}: membership in kind {bk}')
            return (t if isinstance(op, ast.In) else f'(negb {t})'), 'bool'
        raise Refuse(f'comparison {_src(e)}')

    def letmap(self, d, env):
        if not (isinstance(d, ast.Dict) and len(d.keys) == 1
                and d.keys[0] is not None):
            return None
        (kt, kk) = self.expr(d.keys[0], env)
        (vt, vk) = self.expr(d.values[0], env)
        if kk != 'var' or vk not in ('bool', 'pred'):
            raise Refuse(f'substitution {_src(d)}: kinds {kk} -> {vk}')
        return kt, vt, vk

    def call(self, e, env):
        fn = _dotted(e.func)
        args = e.args
        if any(isinstance(a, ast.Starred) for a in args) or any(
                kw.arg is None for kw in e.keywords):
            raise Refuse(f'call {_src(e)}')
        if fn == 'dict':
            if args:
                raise Refuse(f'call {_src(e)}')
            if not e.keywords:
                return f"([] : {COQ_TYPE['fdict']})", 'fdict'
            kws = {kw.arg: kw.value for kw in e.keywords}
            if sorted(kws) != sorted(ENTRY_KEYS) or len(e.keywords) != 2:
                raise Refuse(f'dict with keys {sorted(kws)}')
            (a, ak) = self.expr(kws[ENTRY_KEYS[0]], env)
            (b, bk) = self.expr(kws[ENTRY_KEYS[1]], env)
            if ak != 'pred' or bk != 'pred':
                raise Refuse(f'{_src(e)}: values are not BDDs')
            return f'({a}, {b})', 'entry'
        if e.keywords:
            raise Refuse(f'keyword arguments in {_src(e)}')
        if fn == 'set' and len(args) == 1:
            t, k = self.expr(args[0], env)
            if k != 'vlist':
                raise Refuse(f'{_src(e)}: not a collection of variables')
            self.note(f'`{_comment(_src(e))}`: the set is represented by the '
                      'list itself (copy; order and repetition immaterial)')
            return t, 'vlist'
        if fn == 'bdd.support' and len(args) == 1:
            t, k = self.expr(args[0], env)
            if k != 'pred':
                raise Refuse(f'{_src(e)}: not a BDD')
            return f'(fun x => depends {t} x)', 'mset'
        if fn == 'bdd.exist' and len(args) == 2:
            (a, ak), (b, bk) = self.expr(args[0], env), self.expr(args[1], env)
            if ak != 'vlist' or bk != 'pred':
                raise Refuse(f'{_src(e)}: kinds {ak}, {bk}')
            return f'(exist {a} {b})', 'pred'
        if fn == 'bdd.let' and len(args) == 2:
            (b, bk) = self.expr(args[1], env)
            if bk != 'pred':
                raise Refuse(f'{_src(e)}: not a BDD')
            m = self.letmap(args[0], env)
            if m is not None:
                kt, vt, vk = m
                if vk == 'bool':
                    return f'(cofactor {b} {kt} {vt})', 'pred'
                return f'(subst {b} {kt} {vt})', 'pred'
            if isinstance(args[0], ast.Name):
                t, k = self.expr(args[0], env)
                if k == 'letmap:pred':
                    return f'(subst {b} (fst {t}) (snd {t}))', 'pred'
                if k == 'letmap:bool':
                    return f'(cofactor {b} (fst {t}) (snd {t}))', 'pred'
            raise Refuse(f'{_src(e)}: substitution is not a one-entry dict')
        if (isinstance(e.func, ast.Attribute) and not fn is None
                and isinstance(e.func.value, ast.Name)
                and e.func.value.id in env):
            t, k = self.expr(e.func.value, env)
            if e.func.attr == 'intersection' and len(args) == 1:
                (a, ak) = self.expr(args[0], env)
                if k == 'mset' and ak == 'vlist':
                    return f'(filter {t} {a})', 'vlist'
                if k == 'vlist' and ak == 'mset':
                    return f'(filter {a} {t})', 'vlist'
            if e.func.attr == 'values' and not args and k == 'fdict':
                return f'(map snd {t})', 'entries'
            raise Refuse(f'method call {_src(e)} on kind {k}')
        if fn in self.funcs and fn in SIGNATURES:
            callee = self.funcs[fn]
            if callee.has_asserts:
                raise Refuse(f'call to {fn}, which contains assertions')
            want = SIGNATURES[fn]
            if len(args) != len(want):
                raise Refuse(f'{_src(e)}: wrong number of arguments')
            out = []
            for (p, k), a in zip(want, args):
                if k == 'mgr':
                    if not (isinstance(a, ast.Name) and a.id == 'bdd'
                            and env.get('bdd') == 'mgr'):
                        raise Refuse(f'{_src(e)}: manager argument')
                    continue
                t, ka = self.expr(a, env)
                if ka != k:
                    raise Refuse(f'{_src(e)}: argument {p} has kind {ka}')
                out.append(t)
            for n, t in callee.order_params:
                out.append(self.add_order(n, t))
            return f'({fn} ' + ' '.join(out) + ')', callee.ret_kind
        raise Refuse(f'call {_src(e)}')


HEADER = r'''(* GENERATED by tools/py2coq_fn.py from %(src)s in the working tree of /repo.
   Do not edit; regenerated on every check run.

   BDDs by meaning over n declared bits (L7Codegen/Pred.v).  Python names
   are prefixed with v_.  Arguments named order_* are the iteration orders
   of Python sets; `restrict` stands for `_bdd.restrict` / the branch
   `_bdd is None` (see the notes at the end). *)
From Coq Require Import List Bool Arith.
Import ListNotations.
From Omega Require Import L7Codegen.Pred.

Definition is_nil {A : Type} (l : list A) : bool :=
  match l with [] => true | _ :: _ => false end.

Section Gen.
Variable n : nat.
Variable restrict : var -> pred -> pred -> pred.
Local Notation pand := (Pred.pand n).
Local Notation por := (Pred.por n).
Local Notation pnot := (Pred.pnot n).
Local Notation cofactor := (Pred.cofactor n).
Local Notation subst := (Pred.subst n).
Local Notation exist := (Pred.exist n).
Local Notation is_false := (Pred.is_false n).
Local Notation peq := (Pred.peq n).
Local Notation depends := (Pred.depends n).

'''
FOOTER = '\n\nEnd Gen.\n'
FUNCTIONS = ['extract_function', 'make_functions']
SRC = 'omega/symbolic/functions.py'


def translate(path, names=FUNCTIONS):
    """Returns (Gallina text of the definitions, notes)."""
    tr = Translator(path)
    out = []
    for name in names:
        fi = tr.translate_function(name)
        out.append(tr.emit(fi))
    return '\n\n'.join(out), tr.notes


def file_text(path, src=SRC):
    text, notes = translate(path)
    body = HEADER % dict(src=src) + text + FOOTER
    body += ''.join(f'(* note: {n} *)\n' for n in notes)
    return body


if __name__ == '__main__':
    import sys
    print(file_text(sys.argv[1]))
