(* L5Cover / CyclicCoreOpt: the cyclic-core reduction of cover.py
   (_cyclic_core_fixpoint: maximal ceilings of X, essential elements,
   maximal floors of Y, iterated) does not lose optimal covers:

     every cover C of X by elements of Y yields a cover C' of the core Xc by
     elements of the core Yc with  |essential| + |C'| <= |C|.

   (Coudert 1994, Thm. 3-6; spec/mincover/CyclicCore.tla, StrongReduction.tla.)
   Together with [cyclic_core_sound] (a cover of the core plus the essential
   elements covers X) this says that the reduction preserves the minimum.

   The covering problems are over the lattice of parameter assignments:
   elements of X lie below [top rs], elements of Y above [bot rs], and Y is
   an antichain (primes are; maximal floors are). *)
From Coq Require Import List ZArith Bool Lia Arith.
Import ListNotations.
From Omega Require Import L5Cover.Boxes L5Cover.BoxesProofs L5Cover.MinCover
  L5Cover.MinCoverProofs.
Open Scope Z_scope.

(* ------------------------------------------------------------ meets, joins *)
Lemma box_meet_le_l b c : length b = length c -> box_le (box_meet b c) b.
Proof.
  unfold box_le. revert c. induction b as [|i b IH]; intros [|j c] H; try discriminate;
    cbn [box_meet]; constructor.
  - unfold ival_le, ival_meet. cbn. lia.
  - apply IH. cbn in H. lia.
Qed.

Lemma box_meet_length b c : length b = length c -> length (box_meet b c) = length b.
Proof.
  revert c. induction b as [|i b IH]; intros [|j c] H; try discriminate; cbn [box_meet length].
  - reflexivity.
  - f_equal. apply IH. cbn in H. lia.
Qed.

Lemma box_join_ub_l b c : length b = length c -> box_le b (box_join b c).
Proof.
  unfold box_le. revert c. induction b as [|i b IH]; intros [|j c] H; try discriminate;
    cbn [box_join]; constructor.
  - unfold ival_le, ival_join. cbn. lia.
  - apply IH. cbn in H. lia.
Qed.

Lemma box_join_ub_r b c : length b = length c -> box_le c (box_join b c).
Proof.
  unfold box_le. revert c. induction b as [|i b IH]; intros [|j c] H; try discriminate;
    cbn [box_join]; constructor.
  - unfold ival_le, ival_join. cbn. lia.
  - apply IH. cbn in H. lia.
Qed.

Lemma box_join_lub b c z : box_le b z -> box_le c z -> box_le (box_join b c) z.
Proof.
  unfold box_le. intros H. revert c. induction H as [|i k b z Hik Hbz IH]; intros c Hc;
    inversion Hc; subst; cbn [box_join]; constructor.
  - unfold ival_le, ival_join in *. cbn. lia.
  - apply IH. assumption.
Qed.

Lemma box_join_length b c : length b = length c -> length (box_join b c) = length b.
Proof.
  revert c. induction b as [|i b IH]; intros [|j c] H; try discriminate; cbn [box_join length].
  - reflexivity.
  - f_equal. apply IH. cbn in H. lia.
Qed.

Lemma bot_length rs : length (bot rs) = length rs.
Proof. unfold bot. apply map_length. Qed.

Lemma meet_all_length rs l :
  (forall y, In y l -> length y = length rs) -> length (meet_all rs l) = length rs.
Proof.
  induction l as [|y l IH]; intros H; cbn [meet_all fold_right]; [reflexivity|].
  rewrite box_meet_length; [apply H; left; reflexivity|].
  rewrite (H y (or_introl eq_refl)). symmetry. apply IH.
  intros z Hz. apply H. right. exact Hz.
Qed.

Lemma meet_all_lb rs l c :
  (forall y, In y l -> length y = length rs) -> In c l -> box_le (meet_all rs l) c.
Proof.
  induction l as [|y l IH]; intros H Hc; [destruct Hc|].
  cbn [meet_all fold_right].
  assert (Hl : length y = length (meet_all rs l)).
  { rewrite (H y (or_introl eq_refl)). symmetry. apply meet_all_length.
    intros z Hz. apply H. right. exact Hz. }
  destruct Hc as [->|Hc].
  - apply box_meet_le_l. exact Hl.
  - apply box_le_trans with (meet_all rs l).
    + apply box_meet_le_r. exact Hl.
    + apply IH; [|exact Hc]. intros z Hz. apply H. right. exact Hz.
Qed.

Lemma join_all_length rs l :
  (forall y, In y l -> length y = length rs) -> length (join_all rs l) = length rs.
Proof.
  induction l as [|y l IH]; intros H; cbn [join_all fold_right]; [apply bot_length|].
  rewrite box_join_length; [apply H; left; reflexivity|].
  rewrite (H y (or_introl eq_refl)). symmetry. apply IH.
  intros z Hz. apply H. right. exact Hz.
Qed.

Lemma join_all_ub rs l c :
  (forall y, In y l -> length y = length rs) -> In c l -> box_le c (join_all rs l).
Proof.
  induction l as [|y l IH]; intros H Hc; [destruct Hc|].
  cbn [join_all fold_right].
  assert (Hl : length y = length (join_all rs l)).
  { rewrite (H y (or_introl eq_refl)). symmetry. apply join_all_length.
    intros z Hz. apply H. right. exact Hz. }
  destruct Hc as [->|Hc].
  - apply box_join_ub_l. exact Hl.
  - apply box_le_trans with (join_all rs l).
    + apply IH; [|exact Hc]. intros z Hz. apply H. right. exact Hz.
    + apply box_join_ub_r. exact Hl.
Qed.

Lemma join_all_lub rs l z :
  box_le (bot rs) z -> (forall x, In x l -> box_le x z) -> box_le (join_all rs l) z.
Proof.
  intros Hb. induction l as [|y l IH]; intros H; cbn [join_all fold_right]; [exact Hb|].
  apply box_join_lub; [apply H; left; reflexivity|].
  apply IH. intros x Hx. apply H. right. exact Hx.
Qed.

Lemma join_all_above_bot rs l :
  (forall y, In y l -> length y = length rs) -> box_le (bot rs) (join_all rs l).
Proof.
  induction l as [|y l IH]; intros H; cbn [join_all fold_right]; [apply box_le_refl|].
  assert (IH' : box_le (bot rs) (join_all rs l)).
  { apply IH. intros z Hz. apply H. right. exact Hz. }
  apply box_le_trans with (join_all rs l); [exact IH'|].
  apply box_join_ub_r. rewrite (H y (or_introl eq_refl)).
  apply box_le_length in IH'. rewrite bot_length in IH'. exact IH'.
Qed.

Lemma those_under_In X y x : In x (those_under X y) <-> In x X /\ box_le x y.
Proof. unfold those_under. rewrite filter_In, box_leb_true. reflexivity. Qed.

(* ------------------------------------------------------------ lists *)
Lemma diff_length_le (C e : list box) :
  NoDup e -> incl e C -> (length e + length (diff C e) <= length C)%nat.
Proof.
  intros He Hi.
  assert (H1 : (length (filter (mem_box e) C) + length (diff C e) = length C)%nat).
  { unfold diff. clear. induction C as [|c C IH]; cbn [filter]; [reflexivity|].
    destruct (mem_box e c); cbn [negb length]; lia. }
  assert (H2 : (length e <= length (filter (mem_box e) C))%nat).
  { apply NoDup_incl_length; [exact He|]. intros b Hb.
    apply filter_In. split; [apply Hi, Hb | apply mem_box_true, Hb]. }
  lia.
Qed.

Lemma union_length_le (A B : list box) : (length (union A B) <= length A + length B)%nat.
Proof.
  unfold union, diff. rewrite app_length.
  pose proof (filter_length_le (fun b => negb (mem_box A b)) (fun _ => true) B
                (fun _ _ _ => eq_refl)) as H.
  assert (E : filter (fun _ : box => true) B = B).
  { clear. induction B as [|b B IH]; cbn; [reflexivity | rewrite IH; reflexivity]. }
  rewrite E in H. lia.
Qed.

Lemma maxima_NoDup l : NoDup l -> NoDup (maxima l).
Proof. intros H. unfold maxima. apply NoDup_filter, H. Qed.

Section Core.
Variable rs : ranges.

Definition above_bot (Y : list box) : Prop := forall y, In y Y -> box_le (bot rs) y.
Definition antichain (Y : list box) : Prop :=
  forall a b, In a Y -> In b Y -> box_le a b -> a = b.
(* every element of C lies below some element of Y *)
Definition sub (C Y : list box) : Prop :=
  forall c, In c C -> exists y, In y Y /\ box_le c y.

Lemma sub_refl Y : sub Y Y.
Proof. intros c Hc. exists c. split; [exact Hc | apply box_le_refl]. Qed.

Lemma sub_incl C Y : incl C Y -> sub C Y.
Proof. intros H c Hc. exists c. split; [apply H, Hc | apply box_le_refl]. Qed.

Lemma sub_trans A B C : sub A B -> sub B C -> sub A C.
Proof.
  intros H1 H2 a Ha. destruct (H1 a Ha) as [b [Hb Hab]]. destruct (H2 b Hb) as [c [Hc Hbc]].
  exists c. split; [exact Hc | apply box_le_trans with b; assumption].
Qed.

Lemma below_top_length X x : below_top rs X -> In x X -> length x = length rs.
Proof. intros H Hx. apply H in Hx. apply box_le_length in Hx. exact Hx. Qed.

Lemma above_bot_length Y y : above_bot Y -> In y Y -> length y = length rs.
Proof.
  intros H Hy. apply H in Hy. apply box_le_length in Hy. rewrite bot_length in Hy.
  symmetry. exact Hy.
Qed.

Lemma antichain_incl Y Y' : incl Y' Y -> antichain Y -> antichain Y'.
Proof. intros Hi H a b Ha Hb. apply H; apply Hi; assumption. Qed.

Lemma above_bot_incl Y Y' : incl Y' Y -> above_bot Y -> above_bot Y'.
Proof. intros Hi H y Hy. apply H, Hi, Hy. Qed.

Lemma maxima_antichain l : antichain (maxima l).
Proof.
  intros a b Ha Hb Hab. apply maxima_In in Ha. apply maxima_In in Hb.
  destruct Ha as [_ Ha]. symmetry. apply Ha; [apply Hb | exact Hab].
Qed.

(* ---- ceilings *)
Lemma ceil_le_over X Y x c :
  below_top rs X -> above_bot Y -> In x X -> In c Y -> box_le x c ->
  box_le (ceil rs Y x) c.
Proof.
  intros HX HY Hx Hc Hle. unfold ceil. apply meet_all_lb.
  - intros y Hy. apply those_over_In in Hy. apply (above_bot_length Y y HY), Hy.
  - apply those_over_In. split; assumption.
Qed.

Lemma max_ceilings_cov_fwd X Y C :
  below_top rs X -> above_bot Y -> incl C Y -> cov C X -> cov C (max_ceilings rs X Y).
Proof.
  intros HX HY HC Hcov m Hm. unfold max_ceilings in Hm. apply maxima_In in Hm.
  destruct Hm as [Hm _]. rewrite dedup_In in Hm. apply in_map_iff in Hm.
  destruct Hm as [x [<- Hx]]. destruct (Hcov x Hx) as [c [Hc Hle]].
  exists c. split; [exact Hc|]. apply (ceil_le_over X Y x c HX HY Hx (HC c Hc) Hle).
Qed.

(* ---- floors *)
Lemma floor_le X Y y : below_top rs X -> above_bot Y -> In y Y -> box_le (floor rs X y) y.
Proof.
  intros HX HY Hy. unfold floor. apply join_all_lub; [apply HY, Hy|].
  intros x Hx. apply those_under_In in Hx. apply Hx.
Qed.

Lemma floor_above X y x : below_top rs X -> In x X -> box_le x y -> box_le x (floor rs X y).
Proof.
  intros HX Hx Hle. unfold floor. apply join_all_ub.
  - intros z Hz. apply those_under_In in Hz. apply (below_top_length X z HX), Hz.
  - apply those_under_In. split; assumption.
Qed.

Lemma floor_above_bot X y : below_top rs X -> box_le (bot rs) (floor rs X y).
Proof.
  intros HX. unfold floor. apply join_all_above_bot.
  intros z Hz. apply those_under_In in Hz. apply (below_top_length X z HX), Hz.
Qed.

Lemma max_floors_In X Y m :
  In m (max_floors rs X Y) -> exists y, In y Y /\ m = floor rs X y.
Proof.
  intros Hm. unfold max_floors in Hm. apply maxima_In in Hm. destruct Hm as [Hm _].
  rewrite dedup_In in Hm. apply in_map_iff in Hm. destruct Hm as [y [<- Hy]].
  exists y. split; [exact Hy | reflexivity].
Qed.

Lemma max_floors_above_bot X Y : below_top rs X -> above_bot (max_floors rs X Y).
Proof.
  intros HX m Hm. destruct (max_floors_In X Y m Hm) as [y [_ ->]]. apply floor_above_bot, HX.
Qed.

Lemma max_floors_sub X Y : below_top rs X -> above_bot Y -> sub (max_floors rs X Y) Y.
Proof.
  intros HX HY m Hm. destruct (max_floors_In X Y m Hm) as [y [Hy ->]].
  exists y. split; [exact Hy | apply (floor_le X Y y HX HY Hy)].
Qed.

(* a cover of X by elements of Y maps to a cover by maximal floors that is
   not longer *)
Lemma max_floors_cover X Y C :
  below_top rs X -> incl C Y -> cov C X ->
  exists C', incl C' (max_floors rs X Y) /\ cov C' X /\ length C' = length C.
Proof.
  intros HX HC Hcov.
  assert (G : forall D, incl D Y ->
    exists D', incl D' (max_floors rs X Y) /\ length D' = length D /\
      forall x c, In x X -> In c D -> box_le x c -> exists c', In c' D' /\ box_le x c').
  { induction D as [|d D IH]; intros HD.
    - exists []. split; [apply incl_nil_l|]. split; [reflexivity|]. intros x c _ [].
    - destruct IH as [D' [A [B Cc]]]; [intros z Hz; apply HD; right; exact Hz|].
      assert (Hin : In (floor rs X d) (dedup (map (floor rs X) Y))).
      { apply dedup_In, in_map, HD. left. reflexivity. }
      destruct (maxima_above _ _ Hin) as [m [Hm Hle]].
      exists (m :: D'). split; [|split].
      + intros z [<-|Hz]; [exact Hm | apply A, Hz].
      + cbn. rewrite B. reflexivity.
      + intros x c Hx [<-|Hc] Hxc.
        * exists m. split; [left; reflexivity|].
          apply box_le_trans with (floor rs X d); [apply floor_above; assumption | exact Hle].
        * destruct (Cc x c Hx Hc Hxc) as [c' [Hc' Hle']]. exists c'.
          split; [right; exact Hc' | exact Hle']. }
  destruct (G C HC) as [C' [A [B Cc]]]. exists C'. split; [exact A|]. split; [|exact B].
  intros x Hx. destruct (Hcov x Hx) as [c [Hc Hle]]. apply (Cc x c Hx Hc Hle).
Qed.

(* ---- one iteration of the fixpoint *)
Lemma cc_step X Y C :
  below_top rs X -> above_bot Y -> antichain Y -> incl C Y -> cov C X ->
  let X1 := max_ceilings rs X Y in
  let e := inter X1 Y in
  let X2 := diff X1 e in
  let Y1 := diff Y e in
  let Y2 := max_floors rs X2 Y1 in
  exists C', incl C' Y2 /\ cov C' X2 /\ (length e + length C' <= length C)%nat.
Proof.
  intros HX HY HA HC Hcov X1 e X2 Y1 Y2.
  assert (Hcov1 : cov C X1) by (apply max_ceilings_cov_fwd; assumption).
  assert (He : incl e C).
  { intros z Hz. apply inter_In in Hz. destruct Hz as [Hz1 Hz2].
    destruct (Hcov1 z Hz1) as [c [Hc Hle]].
    rewrite (HA z c Hz2 (HC c Hc) Hle). exact Hc. }
  assert (HeN : NoDup e).
  { unfold e, inter. apply NoDup_filter. unfold X1, max_ceilings.
    apply maxima_NoDup, dedup_NoDup. }
  assert (HX2 : below_top rs X2).
  { intros x Hx. apply diff_In in Hx. apply (max_ceilings_below_top rs X Y HX), Hx. }
  assert (Hcov2 : cov (diff C e) X2).
  { intros x Hx. apply diff_In in Hx. destruct Hx as [Hx1 Hxe].
    destruct (Hcov1 x Hx1) as [c [Hc Hle]]. exists c. split; [|exact Hle].
    apply diff_In. split; [exact Hc|]. intros Hce. apply Hxe.
    assert (c = x).
    { apply inter_In in Hce. destruct Hce as [Hc1 _].
      unfold X1, max_ceilings in Hx1. apply maxima_In in Hx1. destruct Hx1 as [_ Hmax].
      apply Hmax; [|exact Hle]. unfold X1, max_ceilings in Hc1. apply maxima_In in Hc1. apply Hc1. }
    subst c. exact Hce. }
  assert (HC1 : incl (diff C e) Y1).
  { intros c Hc. apply diff_In in Hc. apply diff_In. split; [apply HC, Hc | apply Hc]. }
  destruct (max_floors_cover X2 Y1 (diff C e) HX2 HC1 Hcov2) as [C' [A [B D]]].
  exists C'. split; [exact A|]. split; [exact B|].
  rewrite D. apply diff_length_le; assumption.
Qed.

(* ---- the whole fixpoint *)
Lemma cc_loop_opt fuel : forall X Y E Xc Yc Ec,
  cc_loop rs fuel X Y E = Some (Xc, Yc, Ec) ->
  below_top rs X -> above_bot Y -> antichain Y ->
  below_top rs Xc /\ above_bot Yc /\ antichain Yc /\ sub Yc Y /\
  (forall z, In z Ec -> In z E \/ exists y, In y Y /\ box_le z y) /\
  (forall C, incl C Y -> cov C X ->
     exists C', incl C' Yc /\ cov C' Xc /\
                (length Ec + length C' <= length E + length C)%nat).
Proof.
  induction fuel as [|n IH]; intros X Y E Xc Yc Ec H HX HY HA; [discriminate|].
  cbn [cc_loop] in H.
  pose proof (cc_step X Y) as Step. cbv zeta in Step.
  set (X1 := max_ceilings rs X Y) in *.
  set (e := inter X1 Y) in *.
  set (X2 := diff X1 e) in *.
  set (Y1 := diff Y e) in *.
  set (E' := union E e) in *.
  set (Y2 := max_floors rs X2 Y1) in *.
  assert (HX2 : below_top rs X2).
  { intros x Hx. apply diff_In in Hx. apply (max_ceilings_below_top rs X Y HX), Hx. }
  assert (HY1 : above_bot Y1).
  { intros y Hy. apply diff_In in Hy. apply HY, Hy. }
  assert (HY2 : above_bot Y2) by (apply max_floors_above_bot, HX2).
  assert (HA2 : antichain Y2) by (apply maxima_antichain).
  assert (HS2 : sub Y2 Y).
  { apply sub_trans with Y1; [apply max_floors_sub; assumption|].
    apply sub_incl. intros y Hy. apply diff_In in Hy. apply Hy. }
  assert (HE' : forall z, In z E' -> In z E \/ exists y, In y Y /\ box_le z y).
  { intros z Hz. apply union_In in Hz. destruct Hz as [Hz|Hz]; [left; exact Hz|].
    right. exists z. split; [|apply box_le_refl]. apply inter_In in Hz. apply Hz. }
  assert (HL : (length E' <= length E + length e)%nat) by apply union_length_le.
  assert (Done : below_top rs X2 /\ above_bot Y2 /\ antichain Y2 /\ sub Y2 Y /\
    (forall z, In z E' -> In z E \/ exists y, In y Y /\ box_le z y) /\
    (forall C, incl C Y -> cov C X ->
       exists C', incl C' Y2 /\ cov C' X2 /\
                  (length E' + length C' <= length E + length C)%nat)).
  { repeat (split; [assumption|]). intros C HC Hcov.
    destruct (Step C HX HY HA HC Hcov) as [C' [A [B D]]].
    exists C'. split; [exact A|]. split; [exact B|]. lia. }
  destruct (if same_setb X2 X then same_setb Y2 Y else false).
  - inversion H; subst. exact Done.
  - destruct (IH _ _ _ _ _ _ H HX2 HY2 HA2) as [A [B [C0 [D [F G]]]]].
    split; [exact A|]. split; [exact B|]. split; [exact C0|].
    split; [apply sub_trans with Y2; assumption|]. split.
    + intros z Hz. destruct (F z Hz) as [Hz'|[y2 [Hy2 Hle]]]; [apply HE', Hz'|].
      right. destruct (HS2 y2 Hy2) as [y [Hy Hle2]]. exists y.
      split; [exact Hy | apply box_le_trans with y2; assumption].
    + intros C HC Hcov. destruct (Step C HX HY HA HC Hcov) as [C2 [A2 [B2 D2]]].
      destruct (G C2 A2 B2) as [C' [A' [B' D']]].
      exists C'. split; [exact A'|]. split; [exact B'|]. lia.
Qed.

(* cover.cyclic_core: the reduction does not lose optimal covers *)
Theorem cyclic_core_opt X Y Xc Yc Ec :
  cyclic_core rs X Y = Some (Xc, Yc, Ec) ->
  below_top rs X -> above_bot Y -> antichain Y ->
  below_top rs Xc /\ above_bot Yc /\ antichain Yc /\ sub Yc Y /\ sub Ec Y /\
  (forall C, incl C Y -> cov C X ->
     exists C', incl C' Yc /\ cov C' Xc /\ (length Ec + length C' <= length C)%nat).
Proof.
  intros H HX HY HA. unfold cyclic_core in H.
  destruct (cc_loop_opt _ _ _ _ _ _ _ H HX HY HA) as [A [B [C0 [D [F G]]]]].
  split; [exact A|]. split; [exact B|]. split; [exact C0|]. split; [exact D|]. split.
  - intros z Hz. destruct (F z Hz) as [[]|Hy]. exact Hy.
  - intros C HC Hcov. destruct (G C HC Hcov) as [C' [A' [B' D']]].
    exists C'. split; [exact A'|]. split; [exact B'|]. cbn [length] in D'. lia.
Qed.
End Core.
