"""C14 — functional synthesis picks an output in the relation.

Tie T: extract_function and make_functions of the CURRENT
omega/symbolic/functions.py are translated into Gallina on every run
(tools/py2coq_fn.py -> coq/gen/FunctionsGen.v) and proved EQUAL to the model
the theorems talk about (coq/GenProofs/FunctionsBridge.v, re-checked every
run; statement C14_model_is_translated_code).

Tie H: the REAL omega/symbolic/functions.make_functions is run on generated
relations (truth tables / formulas over <= 10 bits), with and without the
CUDD restrict path; the hand-written model (coq/theories/L7Codegen/Synth.v)
is evaluated inside Coq on the same relation, output bits and iteration
orders, and compared as truth tables (SynthCheck.check_instance).
"""
import json
import os

from vlib import core, codegen_synth as cs, fn_gen
from vlib.core import Broken, Mismatch, Failing

ID = 'C14'
LEVEL = 'proof'
THEORIES = ['theories/L7Codegen/SynthCheck.vo',
            'theories/L7Codegen/SynthProofs.vo']

HEADER = '''From Coq Require Import List Bool Arith NArith.
Import ListNotations.
From Omega Require Import L7Codegen.Pred L7Codegen.Synth L7Codegen.SynthCheck.
Local Open Scope N_scope.
'''

MODES = ['cudd', 'nocudd-autoref', 'nocudd-cudd']
ASPECTS = ['which bits get a function (set(vrs) & support)',
           'inputs tried by the widening loop (support(p) | support(n))',
           'relation passed to extract_function (substitution order)',
           'care_set', 'function', 'assertions of make_functions']



def _count_theory_lemmas(ctx, names):
    """Lemmas of the hand-written proof files (already checked by the build
    of THEORIES) are obligations of this check too."""
    for nm in names:
        rel = f'theories/L7Codegen/{nm}.v'
        with open(os.path.join(core.COQ, rel)) as f:
            found = core.theorem_names(f.read())
        ctx.obligations += [f'{rel}:{x}' for x in found]
        ctx.discharged += len(found)


def prove(ctx):
    with ctx.coq_lock():
        # tie T: regenerate gen/FunctionsGen.v from the current functions.py,
        # then re-prove GenProofs/FunctionsBridge.v (generated code = model)
        # and the statements built on it
        notes = fn_gen.ensure_functions(ctx)
        ctx.prove_with_deps('Properties/C14.v')
    _count_theory_lemmas(ctx, ['PredFacts', 'SynthProofs'])
    ctx.extra['translation'] = dict(
        source=fn_gen.SRC, functions=['extract_function', 'make_functions'],
        generated='coq/gen/FunctionsGen.v',
        bridge='coq/GenProofs/FunctionsBridge.v', notes=notes)
    ctx.trusted.append(
        'translator tie T: tools/py2coq_fn.py (omega/symbolic/functions.py '
        'extract_function, make_functions -> Gallina; assert -> Boolean '
        'flag proved always true; set iteration -> order arguments; '
        '`_bdd is None` / `_bdd.restrict` -> the argument `restrict`; '
        'everything not translated is listed as a note in '
        'coq/gen/FunctionsGen.v and in the evidence)')
    ctx.trusted.append(
        'dd.cudd.restrict enters only through its contract (result agrees '
        'with its argument on care; support within support(p) | '
        'support(care)); both clauses are re-checked on every sampled call')
    ctx.trusted.append(
        'iteration orders of Python sets are parameters of the model; the '
        'harness observes the orders the real run used through a logging '
        'proxy passed as the `bdd` argument (tools/vlib/codegen_synth.Spy)')


# ------------------------------------------------------------- instances
def gen_instances(ctx):
    rng = ctx.rng
    out = []
    if ctx.thorough:
        n_exh, n_rand = 110, 3200
    else:
        n_exh, n_rand = 14, 330
    # (a) all output subsets, relations over <= 6 bits
    for i in range(n_exh):
        n = rng.choice([1, 2, 3, 3, 4, 4, 5, 6] if ctx.thorough
                       else [1, 2, 3, 3, 4, 4, 5])
        if n == 6 and not ctx.thorough:
            n = 5
        outs0 = rng.sample(range(n), rng.randint(1, n))
        fam, t = cs.rand_relation(rng, n, outs0)
        while t in (0, cs.full(n)) and n > 1:
            fam, t = cs.rand_relation(rng, n, outs0)
        for vrs in cs.all_subsets(n):
            out.append(dict(n=n, t=t, vrs=vrs, fam=fam + '/all-subsets',
                            mode=MODES[len(out) % 3]))
    # (b) random relations over 2..10 bits, random output subsets
    for i in range(n_rand):
        n = rng.choice([2, 3, 4, 5, 6, 7, 8, 8, 9, 10])
        k = rng.randint(1, n)
        vrs = rng.sample(range(n), k)
        fam, t = cs.rand_relation(rng, n, vrs)
        if rng.random() < 0.15:
            # chosen outputs the relation ignores
            t = cs.cof(n, t, vrs[0], rng.random() < 0.5)
        out.append(dict(n=n, t=t, vrs=vrs, fam=fam, mode=MODES[len(out) % 3]))
    return out


def run_impl(inst):
    return cs.run_make_functions(inst['n'], inst['t'], inst['vrs'],
                                 inst['mode'])


def nat_list(xs):
    return '[' + '; '.join(f'{x}%nat' for x in xs) + ']'


def coq_term(inst, res):
    order = '[' + '; '.join(f'({y}%nat, {nat_list(zs)})'
                            for y, zs in res['order']) + ']'
    real = '[' + '; '.join(
        f'({y}%nat, ({res["funcs"][y][0]}, {res["funcs"][y][1]}))'
        for y in res['keys']) + ']'
    rels = '[' + '; '.join(str(t) for t in res['rels']) + ']'
    cudd = 'true' if inst['mode'] == 'cudd' else 'false'
    return (f'check_instance {inst["n"]}%nat {cudd} {inst["t"]} '
            f'{nat_list(inst["vrs"])} {order} {real} {rels}')


def _case(inst, res=None):
    c = {k: inst[k] for k in ('n', 'vrs', 'mode', 'fam')}
    c['relation_table'] = str(inst['t'])
    if res is not None:
        c['order'] = res['order']
    return c


def correspond(ctx):
    insts = gen_instances(ctx)
    results, mism = [], []
    stats = dict(widened=0, care_not_true=0, restrict_changed=0,
                 ignored_outputs=0, unsolvable_inputs=0)
    fams, sizes, modes = {}, {}, {}
    nontrivial = 0
    for inst in insts:
        n, t, vrs = inst['n'], inst['t'], inst['vrs']
        try:
            res = run_impl(inst)
        except Exception as e:   # the property says these must succeed
            return [Mismatch('make_functions raised', _case(inst),
                             impl=repr(e), property_fails=True)]
        results.append(res)
        o = cs.oracle(n, t, vrs, res)
        if o:
            mism.append(Mismatch(o, _case(inst, res), impl={
                str(k): [str(a), str(b)] for k, (a, b) in
                res['funcs'].items()}, property_fails=True))
        fams[inst['fam']] = fams.get(inst['fam'], 0) + 1
        sizes[n] = sizes.get(n, 0) + 1
        modes[inst['mode']] = modes.get(inst['mode'], 0) + 1
        F = cs.full(n)
        if cs.step_stats(n, t, res):
            stats['widened'] += 1
        if inst['mode'] == 'cudd' and res['funcs']:
            alt = cs.run_make_functions(n, t, vrs, 'nocudd-cudd')
            if alt['funcs'] != res['funcs']:
                stats['restrict_changed'] += 1
        if any(c != F for _, c in res['funcs'].values()):
            stats['care_not_true'] += 1
        if len(res['funcs']) < len(vrs):
            stats['ignored_outputs'] += 1
        if cs.t_exist(n, t, vrs) != F:
            stats['unsolvable_inputs'] += 1
        if res['funcs'] and t not in (0, F):
            nontrivial += 1
    groups = [('', [f'forallb (fun b => b) ({coq_term(i, r)})'])
              for i, r in zip(insts, results)]
    res_ok = ctx.eval_groups('corr', HEADER, groups,
                             shard=max(8, len(groups) // 16 + 1))
    bad = [k for k, ok in enumerate(res_ok) if not ok]
    if bad:
        # which aspect differs
        vals = ctx.eval_terms('which', HEADER,
                              [coq_term(insts[k], results[k])
                               for k in bad[:5]])
        for k, v in zip(bad[:5], vals):
            flags = [x == 'true' for x in
                     v.strip('[] ').replace(' ', '').split(';')]
            what = [ASPECTS[i] for i, f in enumerate(flags) if not f]
            mism.append(Mismatch(
                'model and implementation differ on: ' + ', '.join(what),
                _case(insts[k], results[k]),
                impl={str(y): [str(a), str(b)] for y, (a, b) in
                      results[k]['funcs'].items()}))
        for k in bad[5:]:
            mism.append(Mismatch('model and implementation differ',
                                 _case(insts[k], results[k])))
    ctx.cov['evaluations'] += len(insts)
    ctx.cov['distinct_nontrivial'] += nontrivial
    ctx.cov['rule'] = (
        'relations over 1..10 bits as truth tables (random tables of six '
        'densities, random formulas of depth <= 5, functional relations '
        'y <=> f(inputs, earlier outputs) with guards and unsolvable '
        'inputs, products); ALL output subsets for a sample of relations '
        'over <= 5 (quick) / 6 (thorough) bits, random subsets otherwise '
        '(15% with a chosen output outside the support); each instance on '
        'one of: CUDD restrict path, `_bdd = None` on dd.autoref, `_bdd = '
        'None` on dd.cudd. Compared inside Coq with the model run on the '
        'same iteration orders: function keys, inputs of the widening '
        'loop, every intermediate relation, every care_set and function '
        'truth table (CUDD path: restrict contract instead of equality). '
        'non-trivial = relation not constant and at least one function')
    ctx.cov['samples'] = [dict(_case(insts[k], results[k]), functions={
        str(y): [hex(a), hex(b)] for y, (a, b) in
        results[k]['funcs'].items()}) for k in range(min(3, len(insts)))]
    ctx.extra['correspondence'] = dict(
        instances=len(insts), mismatches=len(mism), families=fams,
        bits_histogram=sizes, modes=modes, **stats,
        oracle_checked=len(insts))
    return mism


# ---------------------------------------------------------------- search
def check_case(case):
    inst = dict(n=case['n'], t=int(case['relation_table']), vrs=case['vrs'],
                mode=case['mode'], fam=case.get('fam', ''))
    try:
        res = run_impl(inst)
    except Exception as e:
        return Failing('make_functions raised ' + repr(e), _case(inst),
                       replay_cmd='./check C14 --replay <this file>')
    o = cs.oracle(inst['n'], inst['t'], inst['vrs'], res)
    if o:
        return Failing(o, _case(inst, res), expected='C14 on explicit tables',
                       got={str(k): [str(a), str(b)] for k, (a, b) in
                            res['funcs'].items()},
                       replay_cmd='./check C14 --replay <this file>')
    return None


def shrink(f):
    """Greedy: drop chosen outputs, then fix bits of the relation."""
    case = dict(f.case)
    best = f
    changed = True
    while changed:
        changed = False
        for v in list(case['vrs']):
            if len(case['vrs']) <= 1:
                break
            c2 = dict(case, vrs=[x for x in case['vrs'] if x != v])
            g = check_case(c2)
            if g:
                case, best, changed = c2, g, True
                break
    return best


def search(ctx, broken, mismatches):
    out = []
    for m in mismatches:
        if m.case is None:
            continue
        f = check_case(m.case)
        if f:
            return [shrink(f)]
    rng = ctx.rng
    budget = 6000 if ctx.thorough else 1500
    for i in range(budget):
        n = rng.choice([2, 3, 3, 4, 4, 5, 6, 7, 8])
        vrs = rng.sample(range(n), rng.randint(1, n))
        fam, t = cs.rand_relation(rng, n, vrs)
        f = check_case(dict(n=n, relation_table=str(t), vrs=vrs,
                            mode=MODES[i % 3], fam=fam))
        if f:
            out.append(shrink(f))
            break
    return out


def replay(path):
    d = json.load(open(path))
    case = d.get('input') or d.get('case')
    if case is None and d.get('correspondence_mismatches'):
        case = d['correspondence_mismatches'][0]['case']
    if case is None:
        print('no input in replay file (broken proof/tie):', d.get('broken'))
        return 1
    f = check_case(case)
    if f:
        print('still fails:', f.what)
        return 1
    print('passes')
    return 0
