(* C18 — Priming, renaming and type-hint predicates are exact.
   Statements only; proofs in GenProofs/BitsProofs.v (about the definitions
   GENERATED from bitvector.dom_to_width and _type_hints._bitfield_limits on
   every run), GenProofs/PrimeBridge.v (the definitions GENERATED from
   omega/symbolic/prime.py and the identifier helpers of omega/logic/syntax.py
   on every run are the hand-written model of L3Context/Prime.v),
   theories/L0Bits/BitsFacts.v and theories/L3Context/*Facts.v. *)
From Coq Require Import ZArith List Bool String Lia.
From Omega Require Import L0Bits.Bits L0Bits.BitsFacts L3Context.Ctx L3Context.CtxFacts
  L3Context.Prime L3Context.PrimeFacts.
From Omega Require Import L3Context.PyPrims.
From OmegaGen Require Import BitsGen.
From OmegaGen Require PrimeGen.
From OmegaGP Require Import BitsProofs.
From OmegaGP Require PrimeBridge.
Import ListNotations.
Open Scope Z_scope.

(* ---- type hints: representability and limits (no bound on lo, hi) ------------- *)

(* every declaration lo <= hi is accepted *)
Theorem C18_declaration_total : forall lo hi, lo <= hi ->
  exists h, declared_hint lo hi = Some h /\ wf_hint h /\ h_dom h = (lo, hi).
Proof. exact declared_hint_some. Qed.

(* every value inside a declared type hint lies within the reported limits *)
Theorem C18_hint_representable : forall lo hi h L H, lo <= hi ->
  declared_hint lo hi = Some h -> bitfield_limits h = Some (L, H) ->
  forall v, lo <= v <= hi -> L <= v <= H.
Proof. exact hint_representable. Qed.

(* the value map over all bit fields of the declared width (completed by the
   constant sign bit for sign-definite hints) is a bijection onto [L..H] *)
Theorem C18_limits_exact : forall lo hi h L H, lo <= hi ->
  declared_hint lo hi = Some h -> bitfield_limits h = Some (L, H) ->
  (forall bits, List.length bits = wnat h ->
     exists v, decode_val h bits = Some v /\ L <= v <= H) /\
  (forall v, L <= v <= H ->
     exists bits, List.length bits = wnat h /\ decode_val h bits = Some v) /\
  (forall b1 b2, List.length b1 = wnat h -> List.length b2 = wnat h ->
     decode_val h b1 = decode_val h b2 -> b1 = b2).
Proof. exact limits_exact. Qed.

(* so the reported limits are the least and greatest representable values *)
Theorem C18_limits_least_greatest : forall lo hi h L H, lo <= hi ->
  declared_hint lo hi = Some h -> bitfield_limits h = Some (L, H) ->
  let representable v :=
    exists bits, List.length bits = wnat h /\ decode_val h bits = Some v in
  representable L /\ representable H /\
  (forall v, representable v -> L <= v <= H).
Proof. exact limits_least_greatest. Qed.

(* the sign bit is stored exactly for ranges that cross zero, otherwise it is
   the constant that _append_sign_bit adds; 0..0 gets width 1; the magnitude
   width is bit_length of the largest absolute value *)
Theorem C18_width_minimal_shape : forall lo hi h, lo <= hi ->
  declared_hint lo hi = Some h ->
  (h_signed h = true <-> lo < 0 <= hi) /\
  (forall (A : Type) (z o : A) bits, List.length bits = wnat h ->
     exists l, append_sign_bit z o bits h = Some l /\
       List.length l = (List.length bits + (if h_signed h then 0 else 1))%nat /\
       (h_signed h = false -> l = bits ++ [if lo >=? 0 then z else o])) /\
  (lo = 0 -> hi = 0 -> h_width h = 1 /\ h_signed h = false) /\
  (absval lo hi <> 0 ->
     let m := h_width h - (if h_signed h then 1 else 0) in
     2 ^ (m - 1) <= absval lo hi < 2 ^ m).
Proof. exact width_minimal_shape. Qed.

(* a value within the limits is stored digit by digit (fol._int_to_bit_assignment)
   and read back unchanged *)
Theorem C18_encode_decode : forall h z, wf_hint h -> in_limits h z = true ->
  int_to_bit_assignment h z = Some (combine (seq 0 (wnat h)) (encode_val h z)) /\
  decode_val h (encode_val h z) = Some z.
Proof.
  intros h z Hwf Hin. split.
  - exact (int_to_bit_assignment_spec h z Hwf Hin).
  - exact (decode_encode h z Hwf Hin).
Qed.

Example C18_hypotheses_satisfiable :
  declared_hint (-3) 2 = Some (mkHint 3 true (-3, 2)) /\
  bitfield_limits (mkHint 3 true (-3, 2)) = Some (-4, 3) /\
  wf_hint (mkHint 3 true (-3, 2)) /\ in_limits (mkHint 3 true (-3, 2)) (-4) = true.
Proof. repeat split; try reflexivity; try discriminate; simpl; lia. Qed.


(* ---- priming, unpriming, renaming -------------------------------------------------
   [t] is the table of a temporal.Automaton ([wf_aut]: every primed identifier is
   the twin of an unprimed one with the same declaration); a BDD is modelled by
   its meaning; [sem t u f] is its truth at the first-order assignment f. *)

(* identifiers: prime then unprime is the identity *)
Theorem C18_unprime_prime_ident : forall x, isprimed x = false ->
  exists xp, sprime x = Some xp /\ isprimed xp = true /\ sunprime xp = Some x.
Proof. exact unprime_prime_ident. Qed.

(* prime: the primed predicate at a equals the operand at the assignment that
   reads every flexible variable from its primed twin and leaves rigid
   constants untouched *)
Theorem C18_prime_sem : forall t u, wf_aut t -> uses_only (all_bits t) u ->
  is_state_predicate t u = Some true ->
  exists r, prime_pred t u = Some r /\ uses_only (all_bits t) r /\
    forall a, r a = u (prime_asg t a).
Proof. exact prime_sem. Qed.

(* prime then unprime of a state predicate is the identity *)
Theorem C18_unprime_prime : forall t u, wf_aut t -> uses_only (all_bits t) u ->
  is_state_predicate t u = Some true ->
  exists v w, prime_pred t u = Some v /\ unprime_pred t v = Some w /\
    uses_only (all_bits t) w /\ forall a, w a = u a.
Proof. exact unprime_prime. Qed.

(* replace_with_primed / replace_with_unprimed: the value at an assignment
   equals the original's value at the correspondingly renamed assignment *)
Theorem C18_rename_sem : forall t vrs u, wf_aut t -> uses_only (all_bits t) u ->
  NoDup vrs -> (forall x, In x vrs -> isprimed x = false /\ flexible t x = true) ->
  (exists r, replace_with_primed t vrs u = Some r /\ uses_only (all_bits t) r /\
     forall f, sem t r f =
       sem t u (fun x => if mem String.eqb x vrs then f (x ++ tick)%string else f x)) /\
  (exists r, replace_with_unprimed t vrs u = Some r /\ uses_only (all_bits t) r /\
     forall f, sem t r f =
       sem t u (frename f (map (fun v => ((v ++ tick)%string, v)) vrs))).
Proof.
  intros t vrs u Hwf Hu ND Hv. split.
  - apply replace_with_primed_sem; auto.
  - apply replace_with_unprimed_sem; auto.
Qed.

(* any renaming of same-typed variables (Context.let, rename_variables' core) *)
Theorem C18_let_vars_sem : forall t ren u,
  wf_tbl t -> uses_only (all_bits t) u -> ren_ok t ren ->
  exists r, ctx_let_vars t ren u = Some r /\ uses_only (all_bits t) r /\
    forall f, sem t r f = sem t u (frename f ren).
Proof. exact rename_spec. Qed.

(* prime.rename_variables: unprimed and primed occurrences renamed together;
   the support of the result avoids the renamed identifiers *)
Theorem C18_rename_variables_sem : forall t lt u r,
  wf_tbl t -> uses_only (all_bits t) u -> rename_variables t lt u = Some r ->
  exists lp, map_opt (fun kv => match sprime (fst kv), sprime (snd kv) with
                                | Some k, Some v => Some (k, v)
                                | _, _ => None
                                end) lt = Some lp /\
    let lt' := dict_update String.eqb lt lp in
    (ren_ok t lt' -> forall f, sem t r f = sem t u (frename f lt')) /\
    (forall s, ctx_support t r = Some s -> forall k, In k s -> ~ In k (map fst lt')).
Proof. exact rename_variables_sem. Qed.

(* ---- support classification --------------------------------------------------------- *)
(* the reported support is the semantic one (C07_support_spec) and its
   classification into unprimed / primed / rigid / flexible identifiers, and the
   state-predicate / proper-action tests, are exact *)
Theorem C18_support_classification_exact : forall t u s,
  ctx_support t u = Some s ->
  (exists l, unprimed_support t u = Some l /\
     forall x, In x l <-> In x s /\ isprimed x = false) /\
  (exists l, primed_support t u = Some l /\
     forall x, In x l <-> In x s /\ isprimed x = true) /\
  (exists l1 l2, split_support t u = Some (l1, l2) /\
     (forall x, In x l1 <-> In x s /\ isprimed x = false) /\
     (forall x, In x l2 <-> In x s /\ isprimed x = true)) /\
  (exists l, rigid_support t u = Some l /\
     forall x, In x l <-> In x s /\ isprimed x = false /\ flexible t x = false) /\
  (exists l, flexible_support t u = Some l /\
     forall x, In x l <-> In x s /\ isprimed x = false /\ flexible t x = true) /\
  is_state_predicate t u = Some (forallb (fun x => negb (isprimed x)) s) /\
  is_proper_action t u =
    Some (existsb isprimed s && existsb (fun x => negb (isprimed x)) s).
Proof. exact support_classification. Qed.

Theorem C18_support_semantic : forall t u, wf_tbl t -> uses_only (all_bits t) u ->
  exists s, ctx_support t u = Some s /\ NoDup s /\
    forall x, In x s <->
      exists d f v, In (x, d) t /\ in_range t f /\ val_in_range d v = true /\
                    sem t u f <> sem t u (fupd f x v).
Proof. exact support_spec. Qed.

(* ---- type-hint predicates ----------------------------------------------------------------- *)
Theorem C18_type_hint_sem : forall t vrs, wf_tbl t ->
  (forall x, In x vrs -> exists d, tlookup x t = Some d) ->
  exists r, type_hint_for t vrs = Some r /\ uses_only (all_bits t) r /\
    forall f, in_range t f -> sem t r f = hint_holds t vrs f.
Proof. exact type_hint_sem. Qed.

Theorem C18_type_action_sem : forall t vrs, wf_tbl t ->
  (forall x, In x vrs -> exists d, tlookup x t = Some d /\
     match d with
     | DInt _ => isprimed x = false /\
                 exists hp, tlookup (x ++ tick)%string t = Some (DInt hp)
     | DBool => True
     end) ->
  exists r, type_action_for t vrs = Some r /\ uses_only (all_bits t) r /\
    forall f, in_range t f -> sem t r f = action_holds t vrs f.
Proof. exact type_action_sem. Qed.

Theorem C18_implies_type_hints_spec : forall t u vrs,
  wf_tbl t -> uses_only (all_bits t) u ->
  let vs := match vrs with
            | Some v => v
            | None => filter (fun x => negb (isprimed x)) (map fst t)
            end in
  (forall x, In x vs -> exists d, tlookup x t = Some d) ->
  exists b, implies_type_hints t u vrs = Some b /\
    (b = true <->
     forall f, in_range t f -> sem t u f = true -> hint_holds t vs f = true).
Proof. exact implies_type_hints_spec. Qed.

Example C18_automaton_hypotheses_satisfiable :
  wf_aut [("x"%string, DInt (mkHint 2 false (0, 2)));
          ("x'"%string, DInt (mkHint 2 false (0, 2)));
          ("k"%string, DBool)] /\
  flexible [("x"%string, DInt (mkHint 2 false (0, 2)));
            ("x'"%string, DInt (mkHint 2 false (0, 2)));
            ("k"%string, DBool)] "x"%string = true /\
  is_state_predicate [("x"%string, DInt (mkHint 2 false (0, 2)));
            ("x'"%string, DInt (mkHint 2 false (0, 2)));
            ("k"%string, DBool)]
     (fun a => a ("x"%string, 0%nat) && a ("k"%string, 0%nat)) = Some true.
Proof. split; [exact wf_aut_example|]. split; vm_compute; reflexivity. Qed.

(* ---- the model of prime.py IS the translated code ----------------------------------------
   gen/PrimeGen.v is regenerated from the current omega/symbolic/prime.py and
   omega/logic/syntax.py on every run (tools/py2coq_prime.py); each generated
   function equals the hand-written model the theorems above are about:
   eighteen of them as functions (Leibniz, by conversion), four at every
   argument.  A change of prime.py that changes a translated term breaks this
   theorem. *)
Theorem C18_prime_model_is_translated_code :
  PrimeGen.stx_PRIME = PRIME /\
  PrimeGen.stx_isprimed = isprimed /\
  PrimeGen.stx_prime = sprime /\
  PrimeGen.stx_unprime = sunprime /\
  PrimeGen.stx_prime_vars = map_opt sprime /\
  PrimeGen.stx_unprime_vars = map_opt sunprime /\
  PrimeGen.is_variable = is_variable /\
  PrimeGen.is_constant = is_constant /\
  PrimeGen.unprimed_support = unprimed_support /\
  PrimeGen.primed_support = primed_support /\
  PrimeGen.split_support = split_support /\
  PrimeGen.rigid_support = rigid_support /\
  PrimeGen.flexible_support = flexible_support /\
  PrimeGen.is_state_predicate = is_state_predicate /\
  PrimeGen.is_proper_action = is_proper_action /\
  PrimeGen.support_issubset = support_issubset /\
  PrimeGen.prime = prime_pred /\
  PrimeGen.unprime = unprime_pred /\
  (forall t vop action player,
     PrimeGen.is_action_of_player t vop action player =
     is_action_of_player t action (vop [player])) /\
  (forall t u, PrimeGen.is_primed_state_predicate t u = is_primed_state_predicate t u) /\
  (forall t u, PrimeGen.vars_in_support t u = vars_in_support t u) /\
  (forall t lt u, PrimeGen.rename_variables t lt u = rename_variables t lt u).
Proof. exact PrimeBridge.prime_model_is_translated_code. Qed.

(* hence the theorems above hold of the translated code; the two headline
   ones, restated about the generated functions *)
Theorem C18_translated_unprime_prime : forall t u, wf_aut t -> uses_only (all_bits t) u ->
  PrimeGen.is_state_predicate t u = Some true ->
  exists v w, PrimeGen.prime t u = Some v /\ PrimeGen.unprime t v = Some w /\
    uses_only (all_bits t) w /\ forall a, w a = u a.
Proof. exact unprime_prime. Qed.

Theorem C18_translated_rename_variables_sem : forall t lt u r,
  wf_tbl t -> uses_only (all_bits t) u -> PrimeGen.rename_variables t lt u = Some r ->
  exists lp, map_opt (fun kv => match sprime (fst kv), sprime (snd kv) with
                                | Some k, Some v => Some (k, v)
                                | _, _ => None
                                end) lt = Some lp /\
    let lt' := dict_update String.eqb lt lp in
    (ren_ok t lt' -> forall f, sem t r f = sem t u (frename f lt')) /\
    (forall s, ctx_support t r = Some s -> forall k, In k s -> ~ In k (map fst lt')).
Proof.
  intros t lt u r. rewrite PrimeBridge.bridge_rename_variables.
  apply rename_variables_sem.
Qed.

(* ---- the four functions that used to be tied by correspondence only ----------------------
   (stated about the generated functions; [s] is the reported support) *)

(* support_issubset: exactly inclusion of the support *)
Theorem C18_support_issubset_spec : forall t u vrs s, ctx_support t u = Some s ->
  exists b, PrimeGen.support_issubset t u vrs = Some b /\
    (b = true <-> forall x, In x s -> In x vrs).
Proof. exact PrimeBridge.support_issubset_spec. Qed.

(* is_primed_state_predicate: true iff every unprimed identifier of the
   support is a rigid constant (has no primed twin in the table) *)
Theorem C18_is_primed_state_predicate_spec : forall t u s, ctx_support t u = Some s ->
  exists b, PrimeGen.is_primed_state_predicate t u = Some b /\
    (b = true <-> forall x, In x s -> isprimed x = false -> flexible t x = false).
Proof. exact PrimeBridge.is_primed_state_predicate_spec. Qed.

(* is_action_of_player: true iff every primed identifier of the support is the
   primed twin of a variable of the player; refused (stx.prime asserts) iff a
   variable of the player is primed *)
Theorem C18_is_action_of_player_spec : forall t vop action player s,
  ctx_support t action = Some s ->
  ((forall v, In v (vop [player]) -> isprimed v = false) ->
   exists b, PrimeGen.is_action_of_player t vop action player = Some b /\
     (b = true <-> forall x, In x s -> isprimed x = true ->
                     exists v, In v (vop [player]) /\ x = (v ++ tick)%string)) /\
  ((exists v, In v (vop [player]) /\ isprimed v = true) ->
   PrimeGen.is_action_of_player t vop action player = None).
Proof. exact PrimeBridge.is_action_of_player_spec. Qed.

(* vars_in_support: the unprimed names of the flexible variables that occur
   unprimed, and of every identifier that occurs primed; no duplicates; the
   function's own final assertion never fires *)
Theorem C18_vars_in_support_spec : forall t u s, ctx_support t u = Some s ->
  (forall x, In x s -> isprimed x = true -> exists y, sunprime x = Some y) ->
  exists l, PrimeGen.vars_in_support t u = Some l /\ NoDup l /\
    forall y, In y l <->
      (In y s /\ isprimed y = false /\ flexible t y = true) \/
      (exists x, In x s /\ isprimed x = true /\ sunprime x = Some y).
Proof. exact PrimeBridge.vars_in_support_spec. Qed.

(* on an automaton's table the side condition holds *)
Theorem C18_vars_in_support_automaton : forall t u,
  wf_aut t -> uses_only (all_bits t) u ->
  exists s l, ctx_support t u = Some s /\ PrimeGen.vars_in_support t u = Some l /\
    NoDup l /\
    forall y, In y l <->
      (In y s /\ isprimed y = false /\ flexible t y = true) \/
      (exists x, In x s /\ isprimed x = true /\ sunprime x = Some y).
Proof. exact PrimeBridge.vars_in_support_automaton. Qed.

(* joint_support (translated, no hand-written model): the union of the supports *)
Theorem C18_joint_support_spec : forall t nodes,
  ((forall u, In u nodes -> exists s, ctx_support t u = Some s) ->
   exists l, PrimeGen.joint_support t nodes = Some l /\ NoDup l /\
     forall x, In x l <->
       exists u s, In u nodes /\ ctx_support t u = Some s /\ In x s) /\
  ((exists u, In u nodes /\ ctx_support t u = None) ->
   PrimeGen.joint_support t nodes = None).
Proof. exact PrimeBridge.joint_support_spec. Qed.

(* the hypotheses are satisfiable, and the translated functions compute *)
Example C18_translated_functions_run :
  let t := [("x"%string, DBool); ("x'"%string, DBool); ("k"%string, DBool)] in
  let u : pred := fun a => a ("x'"%string, 0%nat) && a ("k"%string, 0%nat) in
  ctx_support t u = Some ["x'"%string; "k"%string] /\
  PrimeGen.vars_in_support t u = Some ["x"%string] /\
  PrimeGen.is_primed_state_predicate t u = Some true /\
  PrimeGen.is_action_of_player t (fun _ => ["x"%string]) u "sys"%string = Some true /\
  PrimeGen.is_action_of_player t (fun _ => ["k"%string]) u "env"%string = Some false /\
  PrimeGen.support_issubset t u ["k"%string] = Some false /\
  PrimeGen.joint_support t [u; (fun a => a ("x"%string, 0%nat))] =
    Some ["x'"%string; "k"%string; "x"%string].
Proof. vm_compute. repeat split; reflexivity. Qed.

Print Assumptions C18_declaration_total.
Print Assumptions C18_hint_representable.
Print Assumptions C18_limits_exact.
Print Assumptions C18_limits_least_greatest.
Print Assumptions C18_width_minimal_shape.
Print Assumptions C18_encode_decode.
Print Assumptions C18_unprime_prime_ident.
Print Assumptions C18_prime_sem.
Print Assumptions C18_unprime_prime.
Print Assumptions C18_rename_sem.
Print Assumptions C18_let_vars_sem.
Print Assumptions C18_support_classification_exact.
Print Assumptions C18_support_semantic.
Print Assumptions C18_type_hint_sem.
Print Assumptions C18_type_action_sem.
Print Assumptions C18_implies_type_hints_spec.
Print Assumptions C18_rename_variables_sem.
Print Assumptions C18_prime_model_is_translated_code.
Print Assumptions C18_translated_unprime_prime.
Print Assumptions C18_translated_rename_variables_sem.
Print Assumptions C18_support_issubset_spec.
Print Assumptions C18_is_primed_state_predicate_spec.
Print Assumptions C18_is_action_of_player_spec.
Print Assumptions C18_vars_in_support_spec.
Print Assumptions C18_vars_in_support_automaton.
Print Assumptions C18_joint_support_spec.
