(* PrefixRecBridge: the recursive prefix translator TRANSLATED from
   omega/symbolic/bdd.py (gen/PrefixRecGen.v, regenerated on every run:
   Parser.parse / _recurse, the `flatten` methods of the node classes, and
   add_expr) computes what the hand-written model (L3History/Prefix.v:
   rec_add_expr = parse, then flatten) computes, on every list of tokens
   (the token `@` included) and for every sufficient fuel.

   Trees: the code builds [pnode]s (one constructor per node class, holding
   the token texts), the model [ast]s (numbers already read); [tr] relates
   them.  Both parsers are characterised by one big-step relation [PT]. *)
From Coq Require Import ZArith List Bool String Ascii Lia.
From Omega Require Import L3History.Prefix L3History.PrefixProofs.
From OmegaGen Require Import PrefixGen PrefixRecGen.
From OmegaGP Require Import PrefixBridge.
Import ListNotations.
Open Scope Z_scope.

(* ------------------------------------------------------------------ trees *)
Fixpoint tr (a : ast) (p : pnode) {struct a} : Prop :=
  match a, p with
  | ANot x, NOperator o [x'] => o = "!"%string /\ tr x x'
  | ABin op x y, NOperator o [x'; y'] => o = binop_str op /\ tr x x' /\ tr y y'
  | ABuf es, NBuffer es' =>
      (fix trl (es : list ast) (es' : list pnode) {struct es} : Prop :=
         match es, es' with
         | [], [] => True
         | e :: r, e' :: r' => tr e e' /\ trl r r'
         | _, _ => False
         end) es es'
  | AReg z, NRegister s => py_int s = z
  | AVar s, NVar s' => s' = s
  | ANum z, NNum s => py_int s = z
  | _, _ => False
  end.

Fixpoint trl (es : list ast) (es' : list pnode) {struct es} : Prop :=
  match es, es' with
  | [], [] => True
  | e :: r, e' :: r' => tr e e' /\ trl r r'
  | _, _ => False
  end.

Lemma tr_buf : forall es es', tr (ABuf es) (NBuffer es') = trl es es'.
Proof. reflexivity. Qed.

Lemma trl_app : forall es es' e e', trl es es' -> tr e e' -> trl (es ++ [e]) (es' ++ [e']).
Proof.
  induction es as [|x es IH]; intros [|x' es'] e e' H T; simpl in *; try contradiction.
  - auto.
  - destruct H as [H1 H2]. split; [exact H1|apply IH; assumption].
Qed.

(* size of a tree: bounds the depth of the recursion of flatten *)
Fixpoint size (a : ast) : nat :=
  match a with
  | ANot x => S (size x)
  | ABin _ x y => S (size x + size y)
  | ABuf es => S ((fix sizes (l : list ast) : nat :=
                     match l with [] => O | e :: r => (size e + sizes r)%nat end) es)
  | _ => 1%nat
  end.
Fixpoint sizes (l : list ast) : nat :=
  match l with [] => O | e :: r => (size e + sizes r)%nat end.
Lemma size_pos : forall a, (1 <= size a)%nat.
Proof. destruct a; simpl; lia. Qed.
Lemma size_buf : forall es, size (ABuf es) = S (sizes es).
Proof. reflexivity. Qed.
Lemma sizes_app : forall a b, sizes (a ++ b) = (sizes a + sizes b)%nat.
Proof. induction a; intros; simpl; [reflexivity|rewrite IHa; lia]. Qed.

(* ------------------------------------------- parsing, as a relation ---- *)
Inductive PT : list tok -> ast -> list tok -> Prop :=
| PT_not : forall r x r1, PT r x r1 -> PT (TNot :: r) (ANot x) r1
| PT_bin : forall op r x r1 y r2,
    PT r x r1 -> PT r1 y r2 -> PT (TBin op :: r) (ABin op x y) r2
| PT_dollar : forall r z r1 n es r2,
    PT r (ANum z) r1 -> count z r1 = Some n -> PTm n r1 es r2 ->
    PT (TDollar :: r) (ABuf es) r2
| PT_question : forall r z r1,
    PT r (ANum z) r1 -> PT (TQuestion :: r) (AReg z) r1
| PT_name : forall s r, PT (TName s :: r) (AVar s) r
| PT_at : forall r a r1, PT r a r1 -> PT (TAt :: r) a r1
| PT_num : forall z r, PT (TNum z :: r) (ANum z) r
with PTm : nat -> list tok -> list ast -> list tok -> Prop :=
| PTm_0 : forall toks, PTm 0 toks [] toks
| PTm_S : forall n toks x r1 xs rest,
    PT toks x r1 -> PTm n r1 xs rest -> PTm (S n) toks (x :: xs) rest.

Scheme PT_ind2 := Minimality for PT Sort Prop
  with PTm_ind2 := Minimality for PTm Sort Prop.
Combined Scheme PT_PTm_ind from PT_ind2, PTm_ind2.

Lemma PT_shorter :
  (forall toks a rest, PT toks a rest ->
     (size a + List.length rest <= List.length toks)%nat) /\
  (forall n toks es rest, PTm n toks es rest ->
     (n + List.length rest <= List.length toks)%nat /\
     (sizes es + List.length rest <= List.length toks)%nat).
Proof.
  apply PT_PTm_ind; intros; try rewrite size_buf;
    repeat match goal with
    | H : context [size (ANum _)] |- _ => change (size (ANum _)) with 1%nat in H
    end;
    cbn [sizes List.length] in *;
    try (cbn [size]; lia).
  pose proof (size_pos x). lia.
Qed.

(* the model parser is sound and, with the fuel of rec_add_expr, complete *)
Lemma parse_sound : forall f,
  (forall toks a rest, parse f toks = Some (a, rest) -> PT toks a rest) /\
  (forall n toks es rest, parse_many f n toks = Some (es, rest) -> PTm n toks es rest).
Proof.
  induction f as [|f [IH1 IH2]]; [split; intros; discriminate|].
  split.
  - intros toks a rest H. simpl in H.
    destruct toks as [|t r]; [discriminate|].
    destruct t; simpl in H.
    + destruct (parse f r) as [[x r1]|] eqn:E1; [|discriminate]. simpl in H.
      injection H as <- <-. constructor. apply IH1, E1.
    + destruct (parse f r) as [[x r1]|] eqn:E1; [|discriminate]. simpl in H.
      destruct (parse f r1) as [[y r2]|] eqn:E2; [|discriminate]. simpl in H.
      injection H as <- <-. econstructor; eauto.
    + destruct (parse f r) as [[u r1]|] eqn:E1; [|discriminate]. simpl in H.
      destruct u; try discriminate.
      destruct (count z r1) as [n|] eqn:C; [|discriminate]. simpl in H.
      destruct (parse_many f n r1) as [[es r2]|] eqn:E2; [|discriminate].
      simpl in H. injection H as <- <-. econstructor; eauto.
    + destruct (parse f r) as [[u r1]|] eqn:E1; [|discriminate]. simpl in H.
      destruct u; try discriminate. injection H as <- <-.
      constructor. apply IH1, E1.
    + constructor. apply IH1, H.
    + injection H as <- <-. constructor.
    + injection H as <- <-. constructor.
  - intros n toks es rest H. simpl in H. destruct n as [|n].
    + injection H as <- <-. constructor.
    + destruct (parse f toks) as [[x r1]|] eqn:E1; [|discriminate]. simpl in H.
      destruct (parse_many f n r1) as [[ys r2]|] eqn:E2; [|discriminate].
      simpl in H. injection H as <- <-. econstructor; eauto.
Qed.

Lemma parse_complete :
  (forall toks a rest, PT toks a rest ->
     forall f, (f > List.length toks)%nat -> parse f toks = Some (a, rest)) /\
  (forall n toks es rest, PTm n toks es rest ->
     forall f, (f > S (List.length toks))%nat ->
     parse_many f n toks = Some (es, rest)).
Proof.
  apply PT_PTm_ind.
  - intros r x r1 _ IH f Hf. destruct f; [simpl in Hf; lia|]. simpl.
    rewrite IH by (simpl in Hf; lia). reflexivity.
  - intros op r x r1 y r2 Px IHx _ IHy f Hf. destruct f; [simpl in Hf; lia|]. simpl.
    assert (L := proj1 PT_shorter _ _ _ Px). pose proof (size_pos x).
    rewrite IHx by (simpl in Hf; lia). simpl.
    rewrite IHy by (simpl in Hf; lia). reflexivity.
  - intros r z r1 n es r2 Pu IHu C _ IHm f Hf. destruct f; [simpl in Hf; lia|]. simpl.
    assert (L := proj1 PT_shorter _ _ _ Pu). simpl in L.
    rewrite IHu by (simpl in Hf; lia). simpl. rewrite C. simpl.
    rewrite IHm by (simpl in Hf; lia). reflexivity.
  - intros r z r1 _ IH f Hf. destruct f; [simpl in Hf; lia|]. simpl.
    rewrite IH by (simpl in Hf; lia). reflexivity.
  - intros s r f Hf. destruct f; [lia|]. reflexivity.
  - intros r a r1 _ IH f Hf. destruct f; [simpl in Hf; lia|]. simpl.
    apply IH. simpl in Hf. lia.
  - intros z r f Hf. destruct f; [lia|]. reflexivity.
  - intros toks f Hf. destruct f; [lia|]. reflexivity.
  - intros n toks x r1 xs rest Px IHx _ IHm f Hf. destruct f; [lia|]. simpl.
    assert (L := proj1 PT_shorter _ _ _ Px). pose proof (size_pos x).
    rewrite IHx by lia. simpl. rewrite IHm by lia. reflexivity.
Qed.

(* ------------------------------------------------ the translated parser *)
Local Notation rc_recurse := PrefixRecGen.rc_recurse.
Local Notation rc_parse := PrefixRecGen.rc_parse.

Definition rstep (f : nat) (st : list pnode * list ptok)
    : option (list pnode * list ptok) :=
  let '(es, tk) := st in
  obind (rc_recurse f tk) (fun '(t, tk') => Some (es ++ [t], tk')).

Lemma rec_nil : forall f, rc_recurse (S f) [] = None.
Proof. reflexivity. Qed.

Lemma rec_not : forall f pr,
  rc_recurse (S f) (mkTok "NOT" "!" :: pr) =
  obind (rc_recurse f pr) (fun '(x, pr1) => Some (NOperator "!" [x], pr1)).
Proof. reflexivity. Qed.

Lemma rec_bin : forall f op pr,
  rc_recurse (S f) (mkTok (binop_type op) (binop_str op) :: pr) =
  obind (rc_recurse f pr) (fun '(x, pr1) =>
  obind (rc_recurse f pr1) (fun '(y, pr2) =>
  Some (NOperator (binop_str op) [x; y], pr2))).
Proof. intros. destruct op; reflexivity. Qed.

Lemma rec_question : forall f pr,
  rc_recurse (S f) (mkTok "QUESTION" "?" :: pr) =
  obind (rc_recurse f pr) (fun '(u, pr1) =>
  if String.eqb (n_type u) "num"
  then obind (n_value u) (fun s => Some (NRegister s, pr1))
  else None).
Proof. reflexivity. Qed.

Lemma rec_name : forall f s pr,
  rc_recurse (S f) (mkTok "NAME" s :: pr) = Some (NVar s, pr).
Proof. reflexivity. Qed.

Lemma rec_at : forall f pr,
  rc_recurse (S f) (mkTok "AT" "@" :: pr) =
  obind (rc_recurse f pr) (fun '(t, pr1) => Some (t, pr1)).
Proof. reflexivity. Qed.

Lemma rec_num : forall f s pr,
  rc_recurse (S f) (mkTok "NUMBER" s :: pr) = Some (NNum s, pr).
Proof. reflexivity. Qed.

Lemma rec_dollar : forall f pr,
  rc_recurse (S f) (mkTok "DOLLAR" "$" :: pr) =
  obind (rc_recurse f pr) (fun '(u, pr1) =>
  if String.eqb (n_type u) "num"
  then obind (n_value u) (fun s =>
       obind (py_int s) (fun n =>
       obind (iter_opt (Z.to_nat n) (rstep f) ([], pr1)) (fun '(es, pr2) =>
       Some (NBuffer es, pr2))))
  else None).
Proof.
  intros. cbn [PrefixRecGen.rc_recurse next_token p_type p_value].
  change (String.eqb "DOLLAR" "NOT") with false.
  change (str_in "DOLLAR" c_binary) with false.
  change (String.eqb "DOLLAR" "DOLLAR") with true.
  cbv beta iota zeta.
  match goal with
  | |- obind ?X _ = _ => change X with (rc_recurse f pr)
  end.
  destruct (rc_recurse f pr) as [[u pr1]|]; [|reflexivity]. cbn [obind].
  destruct (String.eqb (n_type u) "num"); [|reflexivity].
  destruct (n_value u) as [s|]; [|reflexivity]. cbn [obind].
  destruct (py_int s) as [n|]; [|reflexivity]. cbn [obind].
  erewrite (for_range_iter _ _ (rstep f)); [reflexivity|].
  intros i [es tk]. unfold rstep. cbv beta iota zeta.
  match goal with
  | |- obind ?X _ = _ => change X with (rc_recurse f tk)
  end.
  destruct (rc_recurse f tk) as [[t tk']|]; reflexivity.
Qed.

Lemma num_node : forall u, String.eqb (n_type u) "num" = true ->
  exists s, u = NNum s.
Proof. intros [o l|l|s1|s2|s3] H; try discriminate. eauto. Qed.

Lemma tr_num_inv : forall a s, tr a (NNum s) -> a = ANum (py_int s).
Proof. intros a s0 H; destruct a; simpl in H; try contradiction. subst. reflexivity. Qed.

Lemma PTm_count : forall n toks es rest nn,
  PTm n toks es rest -> n = Z.to_nat nn -> count (Some nn) toks = Some n.
Proof.
  intros n toks es rest nn H ->. apply (proj2 PT_shorter) in H. destruct H as [H _].
  unfold count. destruct (nn <=? 0) eqn:E0.
  - apply Z.leb_le in E0. f_equal. lia.
  - apply Z.leb_gt in E0.
    destruct (nn <=? Z.of_nat (List.length toks)) eqn:E1; [reflexivity|].
    apply Z.leb_gt in E1. lia.
Qed.

Lemma many_sound : forall f,
  (forall toks ptoks a' prest, rel toks ptoks ->
     rc_recurse f ptoks = Some (a', prest) ->
     exists a rest, PT toks a rest /\ tr a a' /\ rel rest prest) ->
  forall k toks ptoks acc' es' prest, rel toks ptoks ->
    iter_opt k (rstep f) (acc', ptoks) = Some (es', prest) ->
    exists es es'' rest, PTm k toks es rest /\ es' = acc' ++ es'' /\
                         trl es es'' /\ rel rest prest.
Proof.
  intros f IH. induction k as [|k IHk]; intros toks ptoks acc' es' prest R H; simpl in H.
  - injection H as <- <-. exists [], [], toks. rewrite app_nil_r.
    repeat split; [constructor|exact R].
  - unfold rstep at 1 in H.
    destruct (rc_recurse f ptoks) as [[t tk']|] eqn:I; cbn [obind] in H; [|discriminate].
    destruct (IH _ _ _ _ R I) as [a [r1 [Pa [Ta R1]]]].
    destruct (IHk _ _ _ _ _ R1 H) as [es [es'' [rest [PM [-> [TL R2]]]]]].
    exists (a :: es), (t :: es''), rest.
    split; [econstructor; eauto|split; [rewrite <- app_assoc; reflexivity|]].
    split; [simpl; auto|exact R2].
Qed.

Lemma gen_parse_sound : forall f toks ptoks a' prest, rel toks ptoks ->
  rc_recurse f ptoks = Some (a', prest) ->
  exists a rest, PT toks a rest /\ tr a a' /\ rel rest prest.
Proof.
  induction f as [|f IH]; intros toks ptoks a' prest R H; [discriminate|].
  destruct ptoks as [|p pr]; [rewrite rec_nil in H; discriminate|].
  inversion R as [|t ? tr0 ? TR R']; subst.
  destruct t as [|op| | | |s|z]; simpl in TR.
  - subst p. rewrite rec_not in H.
    destruct (rc_recurse f pr) as [[x' pr1]|] eqn:I; cbn [obind] in H; [|discriminate].
    injection H as <- <-.
    destruct (IH _ _ _ _ R' I) as [x [r1 [Px [Tx R1]]]].
    exists (ANot x), r1. split; [constructor; exact Px|split; [simpl; auto|exact R1]].
  - subst p. rewrite rec_bin in H.
    destruct (rc_recurse f pr) as [[x' pr1]|] eqn:I1; cbn [obind] in H; [|discriminate].
    destruct (IH _ _ _ _ R' I1) as [x [r1 [Px [Tx R1]]]].
    destruct (rc_recurse f pr1) as [[y' pr2]|] eqn:I2; cbn [obind] in H; [|discriminate].
    destruct (IH _ _ _ _ R1 I2) as [y [r2 [Py [Ty R2]]]].
    injection H as <- <-.
    exists (ABin op x y), r2.
    split; [econstructor; eauto|split; [simpl; auto|exact R2]].
  - subst p. rewrite rec_dollar in H.
    destruct (rc_recurse f pr) as [[u' pr1]|] eqn:I1; cbn [obind] in H; [|discriminate].
    destruct (IH _ _ _ _ R' I1) as [u [r1 [Pu [Tu R1]]]].
    destruct (String.eqb (n_type u') "num") eqn:EN; [|discriminate].
    destruct (num_node _ EN) as [s ->]. apply tr_num_inv in Tu. subst u.
    cbn [n_value obind] in H.
    destruct (py_int s) as [n|] eqn:PI; cbn [obind] in H; [|discriminate].
    destruct (iter_opt (Z.to_nat n) (rstep f) ([], pr1)) as [[es' pr2]|] eqn:IT;
      cbn [obind] in H; [|discriminate].
    injection H as <- <-.
    destruct (many_sound f IH _ _ _ _ _ _ R1 IT) as [es [es'' [rest [PM [-> [TL R2]]]]]].
    exists (ABuf es), rest.
    split; [|split; [rewrite tr_buf; exact TL|exact R2]].
    econstructor; [exact Pu| |exact PM].
    eapply PTm_count; [exact PM|reflexivity].
  - subst p. rewrite rec_question in H.
    destruct (rc_recurse f pr) as [[u' pr1]|] eqn:I1; cbn [obind] in H; [|discriminate].
    destruct (IH _ _ _ _ R' I1) as [u [r1 [Pu [Tu R1]]]].
    destruct (String.eqb (n_type u') "num") eqn:EN; [|discriminate].
    destruct (num_node _ EN) as [s ->]. apply tr_num_inv in Tu. subst u.
    cbn [n_value obind] in H. injection H as <- <-.
    exists (AReg (py_int s)), r1.
    split; [constructor; exact Pu|split; [reflexivity|exact R1]].
  - subst p. rewrite rec_at in H.
    destruct (rc_recurse f pr) as [[t' pr1]|] eqn:I1; cbn [obind] in H; [|discriminate].
    injection H as <- <-.
    destruct (IH _ _ _ _ R' I1) as [a [r1 [Pa [Ta R1]]]].
    exists a, r1. split; [constructor; exact Pa|split; assumption].
  - destruct TR as [-> _]. rewrite rec_name in H. injection H as <- <-.
    exists (AVar s), tr0. split; [constructor|split; [reflexivity|exact R']].
  - destruct TR as [s [-> I]]. rewrite rec_num in H. injection H as <- <-.
    exists (ANum z), tr0. split; [constructor|split; [exact I|exact R']].
Qed.

Lemma tr_num_r : forall z u', tr (ANum z) u' -> exists s, u' = NNum s /\ py_int s = z.
Proof. intros z [o l|l|s1|s2|s3] H; simpl in H; try contradiction. eauto. Qed.

Lemma gen_parse_complete :
  (forall toks a rest, PT toks a rest ->
     forall ptoks f, rel toks ptoks -> (f > List.length toks)%nat ->
     exists a' prest, rc_recurse f ptoks = Some (a', prest) /\ tr a a' /\
                      rel rest prest) /\
  (forall n toks es rest, PTm n toks es rest ->
     forall ptoks f acc', rel toks ptoks -> (f > List.length toks)%nat ->
     exists es' prest, iter_opt n (rstep f) (acc', ptoks) = Some (acc' ++ es', prest) /\
                       trl es es' /\ rel rest prest).
Proof.
  apply PT_PTm_ind.
  - intros r x r1 _ IH ptoks f R Hf.
    destruct (rel_cons_inv _ _ _ R) as [p [pr [-> [TR R']]]]. simpl in TR. subst p.
    destruct f; [simpl in Hf; lia|].
    destruct (IH pr f R') as [x' [pr1 [I [Tx R1]]]]; [simpl in Hf; lia|].
    rewrite rec_not, I. cbn [obind].
    eexists. eexists. split; [reflexivity|split; [simpl; auto|exact R1]].
  - intros op r x r1 y r2 Px IHx _ IHy ptoks f R Hf.
    destruct (rel_cons_inv _ _ _ R) as [p [pr [-> [TR R']]]]. simpl in TR. subst p.
    destruct f; [simpl in Hf; lia|].
    assert (L := proj1 PT_shorter _ _ _ Px).
    destruct (IHx pr f R') as [x' [pr1 [I1 [Tx R1]]]]; [simpl in Hf; lia|].
    destruct (IHy pr1 f R1) as [y' [pr2 [I2 [Ty R2]]]]; [simpl in Hf; lia|].
    rewrite rec_bin, I1. cbn [obind]. rewrite I2. cbn [obind].
    eexists. eexists. split; [reflexivity|split; [simpl; auto|exact R2]].
  - intros r z r1 n es r2 Pu IHu C _ IHm ptoks f R Hf.
    destruct (rel_cons_inv _ _ _ R) as [p [pr [-> [TR R']]]]. simpl in TR. subst p.
    destruct f; [simpl in Hf; lia|].
    assert (L := proj1 PT_shorter _ _ _ Pu).
    destruct (IHu pr f R') as [u' [pr1 [I1 [Tu R1]]]]; [simpl in Hf; lia|].
    destruct (tr_num_r _ _ Tu) as [s [-> PI]].
    destruct (count_inv _ _ _ C) as [nn [-> ->]].
    destruct (IHm pr1 f [] R1) as [es' [pr2 [IT [TL R2]]]]; [simpl in Hf; lia|].
    rewrite rec_dollar, I1. cbn [obind n_type n_value].
    change (String.eqb "num" "num") with true. cbv iota.
    rewrite PI. cbn [obind]. rewrite IT. cbn [obind app].
    eexists. eexists. split; [reflexivity|split; [rewrite tr_buf; exact TL|exact R2]].
  - intros r z r1 Pu IHu ptoks f R Hf.
    destruct (rel_cons_inv _ _ _ R) as [p [pr [-> [TR R']]]]. simpl in TR. subst p.
    destruct f; [simpl in Hf; lia|].
    destruct (IHu pr f R') as [u' [pr1 [I1 [Tu R1]]]]; [simpl in Hf; lia|].
    destruct (tr_num_r _ _ Tu) as [s [-> PI]].
    rewrite rec_question, I1. cbn [obind n_type n_value].
    eexists. eexists. split; [reflexivity|split; [exact PI|exact R1]].
  - intros s r ptoks f R Hf.
    destruct (rel_cons_inv _ _ _ R) as [p [pr [-> [TR R']]]]. destruct TR as [-> _].
    destruct f; [simpl in Hf; lia|]. rewrite rec_name.
    eexists. eexists. split; [reflexivity|split; [reflexivity|exact R']].
  - intros r a r1 _ IH ptoks f R Hf.
    destruct (rel_cons_inv _ _ _ R) as [p [pr [-> [TR R']]]]. simpl in TR. subst p.
    destruct f; [simpl in Hf; lia|].
    destruct (IH pr f R') as [a' [pr1 [I [Ta R1]]]]; [simpl in Hf; lia|].
    rewrite rec_at, I. cbn [obind].
    eexists. eexists. split; [reflexivity|split; assumption].
  - intros z r ptoks f R Hf.
    destruct (rel_cons_inv _ _ _ R) as [p [pr [-> [TR R']]]]. destruct TR as [s [-> I]].
    destruct f; [simpl in Hf; lia|]. rewrite rec_num.
    eexists. eexists. split; [reflexivity|split; [exact I|exact R']].
  - intros toks ptoks f acc' R Hf. exists [], ptoks.
    rewrite app_nil_r. split; [reflexivity|split; [exact I|exact R]].
  - intros n toks x r1 xs rest Px IHx _ IHm ptoks f acc' R Hf.
    assert (L := proj1 PT_shorter _ _ _ Px).
    destruct (IHx ptoks f R Hf) as [x' [pr1 [I1 [Tx R1]]]].
    destruct (IHm pr1 f (acc' ++ [x']) R1) as [es' [prest [IT [TL R2]]]]; [lia|].
    exists (x' :: es'), prest.
    split; [|split; [simpl; auto|exact R2]].
    cbn [iter_opt]. unfold rstep at 1. rewrite I1. cbn [obind].
    rewrite IT, <- app_assoc. reflexivity.
Qed.

(* --------------------------------------------------- the flatten methods *)
Section RecBridge.
Variable D : Type.
Variable dtrue dfalse : D.
Variable var : string -> option D.
Variable node : Z -> option D.
Variable ap1 : D -> option D.
Variable ap2 : binop -> D -> D -> option D.
Variable ren : list D -> D -> option D.

(* the block of BDDNodes.Operator.flatten that ends in bdd.rename (an
   abstract operation of the memory, the number of cells of the buffer and
   the operand in the generated code) is the abstract operation [ren] of the
   model (of the memory and the operand) *)
Variable ren_pairs : list D -> Z -> D -> option D.
Hypothesis ren_pairs_ren : forall m n u, ren_pairs m n u = ren m u.

Local Notation rc_flatten :=
  (PrefixRecGen.rc_flatten D dtrue dfalse var node ap1 ap2 ren_pairs).
Local Notation rc_add_expr :=
  (PrefixRecGen.rc_add_expr D dtrue dfalse var node ap1 ap2 ren_pairs).
Local Notation mkKw := (PrefixRecGen.mkKw D).
Local Notation flatten := (Prefix.flatten D dtrue dfalse var node ap1 ap2 ren).
Local Notation fill_with := (Prefix.fill_with D).
Local Notation last_opt := (Prefix.last_opt D).

Definition mem_of (km : option (option (list D))) : option (list D) :=
  match km with Some m => m | None => None end.
(* the `mem` entry handed back: methods that name `mem` return their own
   (unchanged) list, Var and Num pass their **kw through *)
Definition cell (a' : pnode) (km : option (option (list D)))
    : option (option (list D)) :=
  match a' with
  | NVar _ | NNum _ => km
  | _ => Some (mem_of km)
  end.

Lemma cell_some : forall a' m, cell a' (Some m) = Some m.
Proof. intros [] m; reflexivity. Qed.

Definition sim (f : nat) : Prop :=
  forall a a', tr a a' -> (size a < f)%nat -> forall km,
    rc_flatten f a' (mkKw true km None) =
    option_map (fun v => (v, cell a' km)) (flatten (mem_of km) a).

Lemma last_index : forall (m : list D), py_index m (-1) = last_opt m.
Proof.
  intros m. unfold Prefix.last_opt, py_index, py_len.
  change (-1 <? 0) with true. cbv iota.
  destruct m as [|x m'] using rev_ind; [reflexivity|].
  rewrite rev_unit, app_length. simpl List.length.
  destruct (-1 + Z.of_nat (List.length m' + 1) <? 0) eqn:E; [apply Z.ltb_lt in E; lia|].
  replace (Z.to_nat (-1 + Z.of_nat (List.length m' + 1))) with (List.length m') by lia.
  rewrite nth_error_app2 by lia. rewrite Nat.sub_diag. reflexivity.
Qed.

(* the loop of Buffer.flatten *)
Lemma buf_loop : forall f (B : pnode -> option (list D) ->
                               option (option (list D) * bool)),
  (forall e' m, B e' m =
     obind (rc_flatten f e' (mkKw true (Some m) None)) (fun '(t1, t2) =>
     obind (match t2 with Some m_ => m_ | None => m end) (fun l =>
     Some (Some (l ++ [t1]), false)))) ->
  sim f ->
  forall es es', trl es es' -> (sizes es < f)%nat -> forall m0,
    for_list_b B es' (Some m0) =
    option_map (fun m => (Some m, false)) (fill_with flatten es m0).
Proof.
  intros f B HB IH. induction es as [|e es IHes]; intros [|e' es'] TL Hs m0;
    simpl in TL; try contradiction.
  - reflexivity.
  - destruct TL as [Te TL]. simpl in Hs.
    cbn [for_list_b Prefix.fill_with]. rewrite HB.
    rewrite (IH e e' Te) by lia. rewrite cell_some. cbn [mem_of].
    destruct (flatten (Some m0) e) as [s|]; cbn [option_map obind]; [|reflexivity].
    apply IHes; [exact TL|lia].
Qed.

Lemma reg_index : forall (mem : option (list D)) i,
  (if 0 <=? i
   then obind mem (fun l => if i <? py_len l then py_index l i else None)
   else None) = reg D mem (Some i).
Proof.
  intros [m|] i; simpl; [|destruct (0 <=? i); reflexivity].
  destruct (0 <=? i) eqn:E0; simpl; [|reflexivity].
  unfold py_len.
  destruct (i <? Z.of_nat (List.length m)) eqn:E1; [|reflexivity].
  unfold py_index. apply Z.leb_le in E0.
  destruct (i <? 0) eqn:E2; [apply Z.ltb_lt in E2; lia|]. reflexivity.
Qed.

Lemma last_opt_nil : forall (m : list D), last_opt m = None -> m = [].
Proof.
  intros m. unfold Prefix.last_opt. destruct m as [|x m'] using rev_ind; [reflexivity|].
  rewrite rev_unit. discriminate.
Qed.

(* Buffer.flatten called with same_mem=True: the cells are appended to the
   caller's list, which is handed back *)
Lemma buf_same : forall f0, sim f0 ->
  forall es es', trl es es' -> (sizes es < f0)%nat -> forall m0,
  rc_flatten (S f0) (NBuffer es') (mkKw true (Some (Some m0)) (Some true)) =
  obind (fill_with flatten es m0) (fun m =>
    option_map (fun v => (v, Some (Some m))) (last_opt m)).
Proof.
  intros f0 IH es es' TL Hs m0.
  cbn [PrefixRecGen.rc_flatten k_bdd k_mem k_same_mem].
  unfold for_list.
  erewrite (buf_loop f0); [|intros e' m; reflexivity|exact IH|exact TL|exact Hs].
  destruct (fill_with flatten es m0) as [m|]; cbn [option_map obind fst]; [|reflexivity].
  rewrite last_index. destruct (last_opt m); reflexivity.
Qed.

Lemma buf_fresh : forall f0, sim f0 ->
  forall es es', trl es es' -> (sizes es < f0)%nat -> forall km,
  rc_flatten (S f0) (NBuffer es') (mkKw true km None) =
  option_map (fun v => (v, Some (mem_of km)))
    (obind (fill_with flatten es []) last_opt).
Proof.
  intros f0 IH es es' TL Hs km.
  cbn [PrefixRecGen.rc_flatten k_bdd k_mem k_same_mem].
  unfold for_list.
  erewrite (buf_loop f0); [|intros e' m; reflexivity|exact IH|exact TL|exact Hs].
  destruct (fill_with flatten es []) as [m|]; cbn [option_map obind fst]; [|reflexivity].
  rewrite last_index. destruct (last_opt m); reflexivity.
Qed.

Lemma flat_sim_le : forall f g, (g <= f)%nat -> sim g.
Proof.
  induction f as [|f IHf]; intros g Hg.
  { intros a a' _ Hs. lia. }
  destruct (Nat.eq_dec g (S f)) as [->|NE]; [|apply IHf; lia].
  assert (IH : sim f) by (apply IHf; lia).
  intros a a' T Hs km.
  destruct a as [x|op x y|es|z|s|z]; destruct a' as [o l|l|s'|s'|s']; simpl in T;
    try contradiction.
  - (* ! *)
    destruct l as [|x' [|? ?]]; try contradiction. destruct T as [-> Tx].
    simpl in Hs.
    cbn [PrefixRecGen.rc_flatten k_bdd k_mem k_same_mem].
    change ("!" =? "\S")%string with false. cbv iota.
    unfold for_list; cbn [for_list_b orb negb is_none].
    rewrite (IH x x' Tx) by lia. rewrite cell_some. cbn [mem_of].
    change (match km with Some x_ => x_ | None => None end) with (mem_of km).
    cbn [Prefix.flatten].
    destruct (flatten (mem_of km) x) as [u|]; cbn [option_map obind fst app]; [|reflexivity].
    change (bdd_apply_nodes D ap1 ap2 "!" [u]) with (ap1 u).
    destruct (ap1 u); reflexivity.
  - (* binary *)
    destruct l as [|x' [|y' [|? ?]]]; try contradiction. destruct T as [-> [Tx Ty]].
    simpl in Hs.
    cbn [PrefixRecGen.rc_flatten k_bdd k_mem k_same_mem].
    change (match km with Some x_ => x_ | None => None end) with (mem_of km).
    destruct op.
    1-5: (
      match goal with
      | |- (if ?c then _ else _) = _ => change c with false
      end; cbv iota;
      unfold for_list; cbn [for_list_b orb negb is_none];
      rewrite (IH x x' Tx) by lia; rewrite cell_some; cbn [mem_of Prefix.flatten];
      destruct (flatten (mem_of km) x) as [u|]; cbn [option_map obind fst app];
        [|reflexivity];
      rewrite (IH y y' Ty) by lia; rewrite cell_some; cbn [mem_of];
      destruct (flatten (mem_of km) y) as [v|]; cbn [option_map obind fst app];
        [|reflexivity];
      match goal with
      | |- obind (bdd_apply_nodes D ap1 ap2 ?o [u; v]) _ = option_map _ (ap2 ?b u v) =>
          change (bdd_apply_nodes D ap1 ap2 o [u; v]) with (ap2 b u v)
      end;
      destruct (ap2 _ u v); reflexivity).
    (* \S: x is the buffer of pairs, y the operand *)
    change (binop_str Rename =? "\S")%string with true.
    cbv iota. cbn [orb negb is_none].
    rewrite (IH y y' Ty) by lia. rewrite cell_some. cbn [mem_of Prefix.flatten].
    destruct (flatten (mem_of km) y) as [operand|]; cbn [option_map obind]; [|reflexivity].
    destruct f as [|f0]; [pose proof (size_pos x); pose proof (size_pos y); lia|].
    assert (IH0 : sim f0) by (apply IHf; lia).
    destruct x as [x1|op1 x1 y1|es|z1|s1|z1]; destruct x' as [o l|l|s'|s'|s'];
      simpl in Tx; try contradiction;
      try (destruct (rc_flatten (S f0) _ _) as [[? ?]|]; reflexivity).
    rewrite (buf_same f0 IH0 es l Tx) by (rewrite size_buf in Hs; lia).
    destruct (fill_with flatten es []) as [m|]; cbn [option_map obind]; [|reflexivity].
    destruct (last_opt m) as [v|] eqn:L; cbn [option_map obind n_memory].
    + destruct m as [|d m']; [discriminate|].
      rewrite ren_pairs_ren. destruct (ren (d :: m') operand); reflexivity.
    + apply last_opt_nil in L. subst m. reflexivity.
  - (* a buffer *)
    rewrite (buf_fresh f IH es l T) by (rewrite size_buf in Hs; lia).
    reflexivity.
  - (* a register *)
    cbn [PrefixRecGen.rc_flatten k_bdd k_mem k_same_mem Prefix.flatten cell].
    destruct km as [mem|]; cbn [mem_of]; [|destruct z; reflexivity].
    rewrite T.
    destruct z as [i|]; cbn [obind]; [|destruct mem; reflexivity].
    rewrite <- (reg_index mem i).
    destruct (0 <=? i); [|reflexivity].
    destruct mem as [m|]; cbn [obind]; [|reflexivity].
    destruct (i <? py_len m); [|reflexivity].
    destruct (py_index m i); reflexivity.
  - (* a variable *)
    subst s'. cbn [PrefixRecGen.rc_flatten k_bdd k_mem k_same_mem Prefix.flatten cell].
    destruct (var s); reflexivity.
  - (* a number *)
    cbn [PrefixRecGen.rc_flatten k_bdd k_mem k_same_mem Prefix.flatten cell].
    rewrite T. destruct z as [u|]; [|reflexivity]. cbn [obind].
    destruct u as [|p|p]; try reflexivity; try (simpl; destruct (node _); reflexivity).
    destruct p; try reflexivity; simpl; destruct (node _); reflexivity.
Qed.

Lemma flat_sim : forall f, sim f.
Proof. intros f. apply (flat_sim_le f f). lia. Qed.

(* ------------------------------------------------------------- the tie *)
Lemma rec_add_expr_unfold : forall f ptoks stale,
  rc_add_expr f ptoks stale =
  obind (rc_recurse f ptoks) (fun '(t, pr) =>
    match pr with
    | [] => obind (rc_flatten f t (mkKw true None None))
                  (fun '(u, _) => Some (u, []))
    | _ :: _ => None
    end).
Proof.
  intros. unfold PrefixRecGen.rc_add_expr, PrefixRecGen.rc_parse. cbv beta iota zeta.
  destruct (rc_recurse f ptoks) as [[t pr]|]; [|reflexivity]. cbn [obind].
  destruct pr; [|reflexivity]. cbn [next_token obind].
  destruct (rc_flatten f t (mkKw true None None)) as [[u c]|]; reflexivity.
Qed.

(* THE TIE: on every list of tokens (the token `@` included), with every
   sufficient fuel and whatever state an earlier call left the lexer in, the
   translated `add_expr` of bdd.py returns the node that the model
   rec_add_expr returns (and no unread token), or both reject *)
Theorem rec_code_eq_model : forall fuel toks ptoks stale,
  rel toks ptoks -> (fuel > List.length toks)%nat ->
  rc_add_expr fuel ptoks stale =
  option_map (fun v => (v, []))
    (rec_add_expr D dtrue dfalse var node ap1 ap2 ren toks).
Proof.
  intros fuel toks ptoks stale R Hf. rewrite rec_add_expr_unfold.
  unfold Prefix.rec_add_expr.
  destruct (parse (S (List.length toks)) toks) as [[a rest]|] eqn:PM; cbn [obind].
  - apply (proj1 (parse_sound _)) in PM.
    destruct (proj1 gen_parse_complete _ _ _ PM ptoks fuel R Hf) as [a' [prest [I [Ta R1]]]].
    rewrite I. cbn [obind].
    assert (L := proj1 PT_shorter _ _ _ PM).
    destruct rest as [|t rest].
    + apply rel_nil_l in R1. subst prest.
      rewrite (flat_sim fuel a a' Ta) by lia. cbn [mem_of].
      destruct (flatten None a); reflexivity.
    + inversion R1; subst. reflexivity.
  - destruct (rc_recurse fuel ptoks) as [[a' prest]|] eqn:I; [|reflexivity].
    destruct (gen_parse_sound _ _ _ _ _ R I) as [a [rest [Pa _]]].
    rewrite (proj1 parse_complete _ _ _ Pa (S (List.length toks))) in PM by lia.
    discriminate.
Qed.
End RecBridge.
