(* L6 Syntax — when do two operator tables (for instance the one of the
   code and the one of the documentation) determine the same trees?  An
   executable agreement check on a set of token types.  Definitions only. *)
From Coq Require Import List String NArith Bool.
From Omega Require Import L6Syntax.Tokens L6Syntax.Parser L6Syntax.PrecSpec.
Import ListNotations.
Local Open Scope string_scope.

Section Agree.
Variable T1 T2 : ptable.
Variable S : list string.      (* operator token types *)
Variable RN : list string.     (* rule names (IF_THEN_ELSE, COLON) *)

Definition opt_eqb {A} (f : A -> A -> bool) (a b : option A) : bool :=
  match a, b with
  | Some x, Some y => f x y
  | None, None => true
  | _, _ => false
  end.

(* the same operators, of the same kind, class, associativity and node name *)
Definition shape_agree (ty : string) : bool :=
  opt_eqb (fun x y => bclass_eqb (fst (fst x)) (fst (fst y))
                      && assoc_eqb (snd (fst x)) (snd (fst y)))
          (pt_bin T1 ty) (pt_bin T2 ty)
  && opt_eqb (fun x y => assoc_eqb (fst x) (fst y)) (pt_pre T1 ty) (pt_pre T2 ty)
  && opt_eqb (fun x y => assoc_eqb (fst (fst x)) (fst (fst y))
                         && String.eqb (snd x) (snd y))
             (pt_post T1 ty) (pt_post T2 ty).

(* minimum bindings that occur: right operand of an infix operator, operand
   of a prefix operator, body of a rule; paired for the two tables *)
Definition sources : list (N * N) :=
  flat_map (fun ty =>
    (match pt_bin T1 ty, pt_bin T2 ty with
     | Some (_, a1, l1), Some (_, a2, l2) => [(bind_of (a1, l1), bind_of (a2, l2))]
     | _, _ => [] end) ++
    (match pt_pre T1 ty, pt_pre T2 ty with
     | Some al1, Some al2 => [(bind_of al1, bind_of al2)]
     | _, _ => [] end))%list S
  ++ map (fun r => (bind_of (pt_rule T1 r), bind_of (pt_rule T2 r))) RN.

(* levels of operators that may be shifted: infix and postfix *)
Definition targets : list (N * N) :=
  flat_map (fun ty =>
    (match pt_bin T1 ty, pt_bin T2 ty with
     | Some (_, _, l1), Some (_, _, l2) => [(l1, l2)]
     | _, _ => [] end) ++
    (match pt_post T1 ty, pt_post T2 ty with
     | Some (_, l1, _), Some (_, l2, _) => [(l1, l2)]
     | _, _ => [] end))%list S.

Definition bind_agree (m : N * N) : bool :=
  forallb (fun l => Bool.eqb (can_shift (fst m) (fst l)) (can_shift (snd m) (snd l)))
          targets.

(* the two tables make the same shift/reduce decision for every pair of
   operators (and rules) of the given sets *)
Definition tables_agree : bool :=
  forallb shape_agree S && forallb bind_agree sources
  && negb (mem_str "TRUNCATE" S).

(* all operator tokens of a surface tree are of the given types, and the
   special forms it uses are among the given rules *)
Fixpoint ops_in (s : stree) : Prop :=
  match s with
  | SAtom _ => True
  | SPre t x => In (tty t) S /\ ops_in x
  | SPost t x => In (tty t) S /\ ops_in x
  | SBin t l r => In (tty t) S /\ ops_in l /\ ops_in r
  | SParen x => ops_in x
  | SIte _ a b c => ops_in a /\ ops_in b /\ ops_in c
  | SIf a b c => In "IF_THEN_ELSE" RN /\ ops_in a /\ ops_in b /\ ops_in c
  | SQuant _ vs body =>
      In "COLON" RN /\ Forall (fun v => match snd v with
                                        | Some t => In (tty t) S
                                        | None => True end) vs
      /\ ops_in body
  end.

End Agree.

(* the (assoc, level) table of the documentation re-keyed by token type: each
   documented spelling is replaced by the type the lexer gives it *)
Definition rekey (typ : string -> option string) (tbl : list (assoc * list string))
  : list (assoc * list string) :=
  map (fun row => (fst row,
         flat_map (fun d => match typ d with Some ty => [ty] | None => [] end)
                  (snd row))) tbl.
