"""Drive the REAL omega translator (fol.Context.add_expr / define,
bitvector flatteners, symbolic.bdd.add_expr) and read results back as truth
tables at the bit level of `dd` (own enumeration, no omega refinement code).
"""
import logging

logging.disable(logging.CRITICAL)

import omega.logic.bitvector as bv            # noqa: E402
import omega.symbolic.bdd as sym_bdd          # noqa: E402
import omega.symbolic.fol as _fol             # noqa: E402

from vlib import fol_ast                      # noqa: E402

BACKENDS = ('autoref', 'cudd')


class Rejected(Exception):
    """The library raised while translating (`exc` is its repr: the
    exception object itself would keep BDD nodes alive)."""

    def __init__(self, exc):
        super().__init__(exc)
        self.exc = exc


_CACHE = {}


def make_context(decl, backend, fresh=False):
    """Context with every variable and its primed copy declared.  The last
    context per back end is re-used for the same declarations (only
    add_expr is called on it) unless `fresh`."""
    key = tuple(decl.items())
    if not fresh:
        hit = _CACHE.get(backend)
        if hit is not None and hit[0] == key:
            return hit[1]
    ctx = _new_context(decl, backend)
    if not fresh:
        _CACHE[backend] = (key, ctx)
    return ctx


def _new_context(decl, backend):
    ctx = _fol.Context()
    if backend == 'autoref':
        import dd.autoref as _bdd
    elif backend == 'cudd':
        import dd.cudd as _bdd
    else:
        raise ValueError(backend)
    ctx.bdd = _bdd.BDD()
    d = {}
    for n, h in decl.items():
        d[n] = h
        d[n + "'"] = h
    ctx.declare(**d)
    return ctx


def slot_bits(ctx, slot):
    """dd variable names of a (variable, primed) slot, bitnames order."""
    name, primed = slot
    d = ctx.vars[name + "'" if primed else name]
    if d['type'] == 'bool':
        return [name + ("'" if primed else '')]
    return list(d['bitnames'])


def table_of(bdd, u, bits):
    """Truth table of BDD `u` over `bits` (first bit most significant,
    False before True).  Raises ValueError if `u` depends on other bits."""
    return _table(bdd, u, bits, 0, bdd.true, bdd.false)


def _table(bdd, u, bits, i, true, false):
    # (module-level recursion: a closure would form a reference cycle that
    # keeps BDD nodes alive past the manager)
    if u == true:
        return [True] * (1 << (len(bits) - i))
    if u == false:
        return [False] * (1 << (len(bits) - i))
    if i == len(bits):
        raise ValueError(
            f'BDD depends on bits outside the enumerated slots: '
            f'{sorted(bdd.support(u))}')
    b = bits[i]
    lo = bdd.let({b: False}, u)
    hi = bdd.let({b: True}, u)
    return (_table(bdd, lo, bits, i + 1, true, false)
            + _table(bdd, hi, bits, i + 1, true, false))


def check_parse(s, tree, defs=None):
    """Harness self-check: the string parses (omega's parser) to `tree`."""
    got = fol_ast.from_omega_tree(bv._parser.parse(s))
    want = fol_ast.normalise(tree)
    if got != want:
        raise AssertionError(
            f'harness: {s!r} parses to {got}, generated {want}')


def predicate_table(decl, tree, slots, backend, defs=None, text=None):
    """Truth table of Context.add_expr(render(tree)) over `slots`.

    defs: list of (name, tree) registered with Context.define first (then
    add_expr(..., with_ops=True)).  Raises Rejected if the library raises."""
    ctx = make_context(decl, backend, fresh=bool(defs))
    s = text if text is not None else fol_ast.render(tree)
    err = u = None
    try:
        if defs:
            ctx.define('\n'.join(
                f'{n} == {fol_ast.render(d)}' for n, d in defs))
            u = ctx.add_expr(s, with_ops=True)
        else:
            u = ctx.add_expr(s)
    except Exception as e:   # noqa: any exception = the translator rejects
        err = f'{type(e).__name__}: {e}'[:300]
    if err is not None:
        raise Rejected(err)
    bits = [b for sl in slots for b in slot_bits(ctx, sl)]
    return table_of(ctx.bdd, u, bits)


def bits_table(decl, tree, slots, backend):
    """For an arithmetic expression: per assignment of `slots`, the values
    of the bit formulas that Arithmetic.flatten returns (evaluated with the
    memory buffer it filled, through symbolic.bdd.add_expr)."""
    ctx = make_context(decl, backend)
    s = fol_ast.render(tree)
    err = None
    us = []
    try:
        t = bv._parser.parse(s)
        mem = list()
        res = t.flatten(t=ctx.vars, defs=dict(), mem=mem)
        if not isinstance(res, list):
            raise TypeError('not an arithmetic expression')
        for bit in res:
            cells = list(mem) + [bit]
            f = f'$ {len(cells)} ' + ' '.join(cells)
            us.append(sym_bdd.add_expr(f, ctx.bdd))
    except Exception as e:   # noqa
        err = f'{type(e).__name__}: {e}'[:300]
    if err is not None:
        del us
        raise Rejected(err)
    bits = [b for sl in slots for b in slot_bits(ctx, sl)]
    cols = [table_of(ctx.bdd, u, bits) for u in us]
    return [list(row) for row in zip(*cols)]


def hint_info(h):
    """(signed, width) computed here, independently of omega."""
    if h == 'bool':
        return None
    lo, hi = h
    signed = lo < 0 <= hi
    w = max(abs(lo), abs(hi)).bit_length() or 1
    return signed, w + (1 if signed else 0)


def nbits(h):
    return 1 if h == 'bool' else hint_info(h)[1]


def decode(h, bits):
    """Value of a variable from the values of its bits (own decoder)."""
    if h == 'bool':
        return bool(bits[0])
    signed, w = hint_info(h)
    assert len(bits) == w
    u = sum(1 << i for i, b in enumerate(bits) if b)
    if signed:
        return u - (1 << w) if bits[-1] else u
    return u if h[0] >= 0 else u - (1 << w)


def rows(decl, slots):
    """Assignments in table order: list of dict slot -> value."""
    import itertools
    widths = [nbits(decl[n]) for n, _ in slots]
    out = []
    for bs in itertools.product((False, True), repeat=sum(widths)):
        d, i = {}, 0
        for sl, w in zip(slots, widths):
            d[sl] = decode(decl[sl[0]], bs[i:i + w])
            i += w
        out.append(d)
    return out
