"""Regenerate coq/gen/PrefixGen.v from omega/symbolic/bdd_iterative.py and
the token rules of omega/symbolic/bdd.py, and coq/gen/PrefixRecGen.v from
omega/symbolic/bdd.py and omega/logic/ast.py (tie T for C17; translator
tools/py2coq_prefix.py).

Translated on every run: bdd_iterative.Parser.parse / _increase / _push /
_reduce, bdd_iterative.add_expr, the constant sets they read, and the table
of string token rules of bdd.Lexer.  The theorems of
coq/GenProofs/PrefixBridge.v (translated code = hand-written model on every
token list) are about these generated definitions and are re-proved on every
run.  Likewise bdd.Parser.parse / _recurse, the node classes built by
`Parser(nodes=BDDNodes())` with their `flatten` methods, and bdd.add_expr
(gen/PrefixRecGen.v, GenProofs/PrefixRecBridge.v).
"""
import os
import sys

sys.path.insert(0, os.path.join(os.path.dirname(__file__), '..'))
import py2coq  # noqa: E402
import py2coq_prefix  # noqa: E402
from vlib.core import Broken, REPO  # noqa: E402

SOURCES = [py2coq_prefix.ITER_SRC, py2coq_prefix.LEX_SRC,
           py2coq_prefix.AST_SRC]
FUNCTIONS = ['bdd_iterative.Parser.parse', 'bdd_iterative.Parser._increase',
             'bdd_iterative.Parser._push', 'bdd_iterative.Parser._reduce',
             'bdd_iterative.add_expr',
             'bdd.Lexer (string token rules, as a table)',
             'bdd.Parser.parse', 'bdd.Parser._recurse', 'bdd.add_expr',
             'bdd.BDDNodes.Operator.flatten', 'bdd.BDDNodes.Var.flatten',
             'bdd.BDDNodes.Num.flatten', 'bdd.Nodes.Buffer.flatten',
             'bdd.Nodes.Register.flatten',
             'constructors of the node classes (bdd.py, omega/logic/ast.py)']


def prefix_text():
    """(text of gen/PrefixGen.v, translator notes)."""
    return py2coq_prefix.file_text(REPO)


def prefix_rec_text():
    """(text of gen/PrefixRecGen.v, translator notes)."""
    return py2coq_prefix.file_text_rec(REPO)


def ensure_prefix(ctx):
    try:
        t, notes = prefix_text()
        t2, notes2 = prefix_rec_text()
    except py2coq.Refuse as e:
        raise Broken('translator', f'{", ".join(SOURCES)}: the translator '
                     f'refuses the current source: {e}')
    except (SyntaxError, OSError) as e:
        raise Broken('translator', f'{", ".join(SOURCES)}: {e}')
    except Exception as e:      # fail closed on anything unforeseen
        raise Broken('translator',
                     f'{", ".join(SOURCES)}: translator error {e!r}')
    ctx.write_gen('gen/PrefixGen.v', t)
    ctx.write_gen('gen/PrefixRecGen.v', t2)
    return notes + [n for n in notes2 if n not in notes]


if __name__ == '__main__':
    print((prefix_rec_text() if sys.argv[1:] == ['rec'] else prefix_text())[0])
