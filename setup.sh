#!/bin/bash
# MANIFEST.setup_cmd: build the framework from files on disk only (offline).
set -e
cd "$(dirname "$0")"
mkdir -p coq/gen coq/cases replay evidence
python3 tools/lint_coq.py
cd coq
exec 9> .lock; flock 9
if bash ../tools/coqbuild.sh; then
  echo "setup ok"
else
  echo "setup: some theories failed to build (see above); the checks that need them will report it" >&2
fi
