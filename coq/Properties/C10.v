(* C10 — enumeration returns exactly all minimum covers by primes.
   Statements only; proofs in theories/L5Cover/BoxesProofs.v,
   MinCoverProofs.v, CoverEnumProofs.v, CoverEnumLemmas.v, CoverEnumStep.v,
   CoverEnumExact.v, CoverEnumBounded4.v.

   (1) Specification and verified reference/checker, every finite instance:
       [all_min_covers_ref] is exactly the set of minimum covers by maximal
       boxes, and [is_all_min_covers_b] decides "R is exactly that set".
       The check evaluates the checker inside Coq on the set of covers
       returned by the real cover_enum.minimize.
   (2) Model of cover_enum.minimize (L5Cover/CoverEnum.v) AS REPAIRED by
       fixes/F2.patch and fixes/F17.patch: [C10_full], for ALL instances with
       a non-empty f and ALL pick functions (that pick from every non-empty
       set) the model returns a set of covers (no assertion of the code
       fails, the recursion ends within the fuel: [C10_total],
       [C10_ccfr_returns]) and it is exactly the set of all minimum covers by
       primes ([C10_enum_exact]: exhaustive branch and bound, reduction
       steps, the two enumerations); the same on the finite domains of the
       property's quantifier by computation ([_bounded], independent
       evidence).  For f = FALSE the code fails an assertion
       ([C10_refuted_empty_f]; the library requires f to be non-empty).  For
       the code before fixes/F17.patch totality is refuted on the level of
       covering problems ([C10_refuted_total_xy], finding F17).
   (3) Finding F2 (unrepaired code): Context.pick_iter / Context.count are
       called without care_vars, so a set of boxes that is a cylinder along a
       parameter is enumerated/counted as fewer elements and the assertions
       of _enumerate_mincovers_below fail; regression examples below. *)
From Coq Require Import List ZArith NArith Bool.
Import ListNotations.
From Omega Require Import L5Cover.Boxes L5Cover.BoxesProofs L5Cover.MinCover
  L5Cover.MinCoverProofs L5Cover.CoverEnum L5Cover.CoverEnumProofs
  L5Cover.MinCoverBounded L5Cover.MinCoverBounded4 L5Cover.CoverEnumBounded4
  L5Cover.CoverEnumOld L5Cover.CoverEnumRefuted L5Cover.CyclicCoreOpt
  L5Cover.CoverEnumLemmas L5Cover.CoverEnumStep L5Cover.CoverEnumExact
  L5Cover.MinCoverTotal L5Cover.CoverEnumOldLeaf L5Cover.CoverEnumRefutedTotal
  L5Cover.CoverEnumTotalLemmas L5Cover.CoverEnumTotal.
From OmegaGen Require Import CoverBBGen CoverEnumCCGen.
From OmegaGP Require Import CoverEnumCCBridge.
Open Scope Z_scope.

(* what C10 demands of an enumeration procedure: it returns (no error) a set
   R that is exactly the set of minimum covers by primes *)
Definition C10_spec
  (enum : ranges -> (point -> bool) -> (point -> bool) -> option (list (list box)))
  : Prop :=
  forall rs f care, exists R,
    enum rs f care = Some R /\ all_min_prime_covers rs f care R.

Theorem C10_reference_correct : forall rs f care,
  all_min_prime_covers rs f care (all_min_covers_ref rs f care).
Proof. exact all_min_covers_ref_correct. Qed.

(* the specification is satisfiable (by the verified reference) *)
Example C10_spec_satisfiable :
  C10_spec (fun rs f care => Some (all_min_covers_ref rs f care)).
Proof.
  intros rs f care. eexists. split; [reflexivity | apply all_min_covers_ref_correct].
Qed.

Theorem C10_checker_correct : forall rs f care R,
  is_all_min_covers_b rs f care R = true <-> all_min_prime_covers rs f care R.
Proof. exact is_all_min_covers_b_correct. Qed.

(* consequences named in the property: all returned covers have the same
   size; the set is not empty; every minimum cover by primes (in particular
   the single cover of C09) is one of them; the set is unique *)
Theorem C10_same_size : forall rs f care R,
  all_min_prime_covers rs f care R ->
  forall K K', In K R -> In K' R -> length K = length K'.
Proof. exact all_min_same_size. Qed.

Theorem C10_nonempty : forall rs f care R,
  all_min_prime_covers rs f care R -> R <> [].
Proof. exact all_min_nonempty. Qed.

Theorem C10_contains_every_minimum_cover : forall rs f care R K,
  all_min_prime_covers rs f care R -> min_prime_cover rs f care K ->
  anyb (same_setb K) R = true.
Proof. exact all_min_contains. Qed.

Theorem C10_unique : forall rs f care R R',
  all_min_prime_covers rs f care R -> all_min_prime_covers rs f care R' ->
  (forall K, In K R -> exists K', In K' R' /\ same_set K K') /\
  (forall K', In K' R' -> exists K, In K R /\ same_set K' K).
Proof. exact all_min_unique. Qed.

(* ---- (2) the model of cover_enum.minimize (repaired) *)
(* soundness, all instances, all picks (no hypothesis on pick is needed:
   the code re-checks its result with assertions, which the model contains):
   a returned set is non-empty, every member is a cover of f by maximal
   boxes, all members have the same number of boxes *)
Theorem C10_enum_sound : forall rs pick f care R,
  enum_minimize rs pick f care = inl R ->
  R <> [] /\
  (forall K, In K R -> prime_cover rs f care K) /\
  (forall K K', In K R -> In K' R -> length K = length K').
Proof. exact enum_sound. Qed.

Example C10_enum_returns :
  exists R, enum_minimize rs3 pick_first (fun_of_mask 126) (fun _ => true) = inl R
            /\ length R = 2%nat.
Proof. eexists. split; vm_compute; reflexivity. Qed.

(* exactness and termination without error on the finite domains *)
Theorem C10_bounded_3 :
  forall fm cm, (1 <= fm < 256)%N -> (cm < 256)%N ->
  exists R, enum_minimize rs3 pick_first (fun_of_mask fm) (fun_of_mask cm) = inl R /\
            all_min_prime_covers rs3 (fun_of_mask fm) (fun_of_mask cm) R.
Proof. exact enum_exact_bounded_3_first. Qed.

Theorem C10_bounded_3_pick_last :
  forall fm cm, (1 <= fm < 256)%N -> (cm < 256)%N ->
  exists R, enum_minimize rs3 pick_last (fun_of_mask fm) (fun_of_mask cm) = inl R /\
            all_min_prime_covers rs3 (fun_of_mask fm) (fun_of_mask cm) R.
Proof. exact enum_exact_bounded_3_last. Qed.

Theorem C10_bounded_4 :
  forall fm, (1 <= fm < 65536)%N ->
  exists R, enum_minimize rs4 pick_first (fun_of_mask fm) care_true = inl R /\
            all_min_prime_covers rs4 (fun_of_mask fm) care_true R.
Proof. exact enum_exact_bounded_4_first. Qed.

(* ---- (2') exactness, all instances, all pick functions: whenever the model
   of cover_enum.minimize returns a set of covers, it is exactly the set of
   all minimum covers of f by primes (every member is a duplicate-free
   minimum cover by primes; every minimum cover by primes is a member up to
   the order of its boxes) *)
Theorem C10_enum_exact : forall rs pick f care R,
  (forall s b, pick s = Some b -> In b s) ->
  enum_minimize rs pick f care = inl R ->
  all_min_prime_covers rs f care R.
Proof. exact enum_exact. Qed.

(* the same on an abstract covering problem (X below top, Y an antichain
   above bottom): the result consists of duplicate-free lists and contains,
   up to order, every minimum-cardinality cover of X by elements of Y *)
Theorem C10_enum_xy_complete : forall rs pick X Y R,
  (forall s b, pick s = Some b -> In b s) ->
  enum_xy rs pick X Y = inl R ->
  below_top rs X -> above_bot rs Y -> antichain Y ->
  fam_nodup R /\ forall C, mincover X Y C -> has R C.
Proof. exact enum_xy_exact. Qed.

(* the exhaustive branch and bound with the reduction steps: a call on the
   node (X, Y) with path cost pc and upper bound ub returns duplicate-free
   covers, leaves the upper bound unchanged or at least the total cost of an
   actual cover of the node, and finds every minimum cover of the node whose
   total cost is within the upper bound *)
Theorem C10_ccfr_invariants : forall rs pick,
  (forall s b, pick s = Some b -> In b s) ->
  forall fuel X Y pc ub F u,
  ccfr rs pick fuel X Y pc ub = inl (F, u) ->
  below_top rs X -> above_bot rs Y -> antichain Y ->
  fam_nodup F /\
  (u = ub \/ exists C0, incl C0 Y /\ cov C0 X /\ (pc + length C0 <= u)%nat) /\
  (forall C, mincover X Y C -> (pc + length C <= ub)%nat -> has F C).
Proof.
  intros rs pick Hp fuel X Y pc ub F u H HX HY HA.
  exact (proj1 (ccfr_exact rs pick Hp fuel X Y pc ub F u H HX HY HA)).
Qed.

(* ---- (2'') totality: on every instance with a non-empty f, for every pick
   function that returns an element of every non-empty set (as dd's pick
   does), the model of the repaired cover_enum.minimize RETURNS: none of the
   assertions of cover_enum.py fails and the recursion ends within the fuel
   of the model.  ([f] non-empty is the library's precondition:
   cover_enum.minimize asserts on f = FALSE, see C10_refuted_empty_f.) *)
Theorem C10_total :
  forall pick, (forall s b, pick s = Some b -> In b s) ->
  (forall s, pick s = None -> s = []) ->
  forall rs f care, (exists p, in_ranges rs p /\ f p = true) ->
  exists R, enum_minimize rs pick f care = inl R.
Proof. intros pick Hok Htot rs f care Hf. exact (enum_minimize_total rs pick f care Hok Htot Hf). Qed.

(* the invariant behind it: every call of _cyclic_core_fixpoint_recursive on
   a feasible node (small enough for the fuel) returns, the upper bound does
   not increase, "nothing returned" means that every cover of the node costs
   more than the bound, and the returned covers are duplicate-free MINIMUM
   covers of the node (this is what the assertions of the two enumerations
   need, and what failed before fixes/F17.patch) *)
Theorem C10_ccfr_returns : forall rs pick,
  (forall s b, pick s = Some b -> In b s) ->
  (forall s, pick s = None -> s = []) ->
  forall n X Y pc ub,
  feasible rs X Y -> antichain Y -> X <> [] ->
  (2 * (length X + length Y) + 1 < n)%nat ->
  exists F u, ccfr rs pick n X Y pc ub = inl (F, u) /\
    (u <= ub)%nat /\
    (F = [] -> u = ub /\ forall C, incl C Y -> cov C X -> (ub < pc + length C)%nat) /\
    (forall c, In c F -> mincover X Y c /\ NoDup c /\ (pc + length c <= u)%nat).
Proof.
  intros rs pick Hok Htot n X Y pc ub HF HA HX Hn.
  apply (ccfr_total rs pick Hok Htot n X Y pc ub 1%nat HF HA HX); [intros Hc; discriminate | exact Hn].
Qed.

(* C10, the unbounded statement: on every instance with a non-empty f the
   model returns a set of covers, and it is exactly the set of all minimum
   covers of f by primes of f \/ ~care *)
Theorem C10_full :
  forall pick, (forall s b, pick s = Some b -> In b s) ->
  (forall s, pick s = None -> s = []) ->
  forall rs f care, (exists p, in_ranges rs p /\ f p = true) ->
  exists R, enum_minimize rs pick f care = inl R /\
            all_min_prime_covers rs f care R.
Proof.
  intros pick Hok Htot rs f care Hf.
  destruct (enum_minimize_total rs pick f care Hok Htot Hf) as [R HR].
  exists R. split; [exact HR | apply (enum_exact rs pick f care R Hok HR)].
Qed.

(* non-vacuity of the hypotheses on pick *)
Example C10_pick_first_hypotheses :
  (forall s b, pick_first s = Some b -> In b s) /\ (forall s, pick_first s = None -> s = []).
Proof. split; [exact pick_first_ok | exact pick_first_total]. Qed.

(* regression for finding F17 (repaired by fixes/F17.patch): with the
   unrepaired leaf of cover_enum._traverse_exhaustive (CoverEnumOldLeaf.v: a
   leaf is accepted also when it is more expensive than bab.upper_bound) the
   model stops at the assertion `k == k_` of _enumerate_mincovers_unfloor on
   a feasible covering problem (X = the unit vectors of 15 two-valued
   variables, Y = 15 cubes, an antichain; cover.minimize's model returns 6
   columns) for a priority pick: a node inside a sub-optimal branch returns
   covers that are not minimal for that node (its left branch is pruned, its
   right branch ends in a leaf more expensive than the upper bound), and
   lifting such a cover is not injective.  The real unrepaired code raised
   the AssertionError on coordinate permutations of this instance
   (fixes/F17_enum_assert_*.json).  The repaired model returns the 27 minimum
   covers *)
Example C10_refuted_total_xy :
  (forall s b, e_pick s = Some b -> In b s) /\
  (forall s, e_pick s = None -> s = []) /\
  feasible e_rs e_X e_Y /\ antichain e_Y /\ e_X <> [] /\
  (exists K, minimize_xy e_rs e_pick e_X e_Y = Some K /\ length K = 6%nat) /\
  enum_xy_oldleaf e_rs e_pick e_X e_Y = inr EAssert.
Proof.
  destruct e_feasible as [A [B C]].
  split; [exact e_pick_ok|]. split; [exact e_pick_total|].
  split; [exact A|]. split; [exact B|]. split; [exact C|].
  split; [exact e_minimize_xy_6 | exact e_enum_xy_asserts].
Qed.

Example C10_repaired_leaf_witness :
  exists R, enum_xy e_rs e_pick e_X e_Y = inl R /\ length R = 27%nat /\
            forallb (fun K => Nat.eqb (length K) 6) R = true.
Proof. exact e_enum_xy_repaired. Qed.

(* without the precondition the statement is false: for f = FALSE the model
   (like the code) stops at an assertion although the set of minimum covers
   is { {} } *)
Example C10_refuted_empty_f :
  enum_minimize rs3 pick_first (fun _ => false) (fun _ => true) = inr EAssert /\
  all_min_prime_covers rs3 (fun _ => false) (fun _ => true) [[]].
Proof.
  split; [vm_compute; reflexivity|].
  apply is_all_min_covers_b_correct. vm_compute. reflexivity.
Qed.

(* ---- (3) finding F2: the witness of DESIGN section 7 (minterms 0000 0001
   0010 1000 1011 1100 1101 1111) has exactly three minimum covers, of size
   five; the repaired code returns them; in the unrepaired code the set
   computed by _below_and_suff at the failing step is a cylinder along one
   parameter (two boxes, enumerated by pick_iter as one) *)
Example C10_F2_witness_answer :
  let f := mem_pt [[0;0;0;0];[0;0;0;1];[0;0;1;0];[1;0;0;0];[1;0;1;1];
                   [1;1;0;0];[1;1;0;1];[1;1;1;1]] in
  let R := all_min_covers_ref [(0,1);(0,1);(0,1);(0,1)] f (fun _ => true) in
  length R = 3%nat /\ forallb (fun K => Nat.eqb (length K) 5) R = true.
Proof. vm_compute. split; reflexivity. Qed.

Example C10_F2_repaired_answer :
  exists R, enum_minimize rs4 pick_first f2_f care_true = inl R /\
            length R = 3%nat /\ is_all_min_covers_b rs4 f2_f care_true R = true.
Proof. exact F2_repaired_answer. Qed.

(* "terminates without error" is FALSE for the model of the unrepaired code
   (CoverEnumOld.v: pick_iter/count without care_vars): on the witness it
   stops at one of the two assertions of _enumerate_mincovers_below *)
Theorem C10_refuted_unrepaired :
  exists fm, (1 <= fm < 65536)%N /\
    is_f2_error (enum_minimize_unrepaired rs4 pick_first (fun_of_mask fm) care_true) = true.
Proof. exists f2_mask. destruct enum_unrepaired_fails as [A [B _]]. split; assumption. Qed.

Example C10_refuted_unrepaired_mechanism :
  exists S,
    below_and_suff [(1,1);(0,1);(0,0);(0,0)]
      (union [[(0,0);(0,0);(0,0);(0,1)]] (tl f2_lm)) f2_x f2_y = inl S /\
    length S = 2%nat /\
    independent_of (0, 1) S 1 true = true.
Proof. exact F2_mechanism. Qed.

(* ---- tie T for cover_enum.py around the branch-and-bound skeleton: the
   functions translated from the working tree on every run
   (gen/CoverEnumCCGen.v) ARE the model's (GenProofs/CoverEnumCCBridge.v).
   The functions above the two enumerations are generated abstracted over
   them and are equal to the model's with the model's enumerations as
   callees; the two enumerations are worklist loops in the code, equal to the
   worklists below_work / unfloor_work over the model's one-level functions *)
Theorem C10_minimize_code_is_model : forall rs pick f care,
  enum_minimize_gen rs pick enumerate_below enumerate_unfloor
    (2 * (length (embed rs f) + length (primes rs f care)) + 4)%nat f care =
  enum_minimize rs pick f care.
Proof. exact enum_minimize_gen_is_model. Qed.

Theorem C10_ccfr_code_is_model : forall rs pick fuel X Y pc ub,
  cyclic_core_fixpoint_recursive_gen rs pick enumerate_below enumerate_unfloor
    fuel X Y pc ub = ccfr rs pick fuel X Y pc ub.
Proof. exact cyclic_core_fixpoint_recursive_gen_is_model. Qed.

Theorem C10_from_floor_code_is_model : forall core X Yfl,
  mincovers_from_floor_gen enumerate_below core X Yfl = from_floor core X Yfl.
Proof. exact mincovers_from_floor_gen_is_model. Qed.

Theorem C10_from_unfloor_code_is_model : forall fl Y,
  mincovers_from_unfloor_gen enumerate_unfloor fl Y = from_unfloor fl Y.
Proof. exact mincovers_from_unfloor_gen_is_model. Qed.

Theorem C10_below_and_suff_code_is_model : forall ymax cover X Y,
  below_and_suff_gen ymax cover X Y = below_and_suff ymax cover X Y.
Proof. exact below_and_suff_gen_is_model. Qed.

Theorem C10_enumerate_below_code_is_worklist : forall fuel c X Y, NoDup c ->
  enumerate_mincovers_below_gen fuel c X Y =
  check (inclb c Y) (check (1 <=? length c)%nat
    (bind (below_work fuel (length c) c X Y [] [[]]) (fun r =>
       check (negb (is_nil (fst r))) (ok (fst r))))).
Proof. exact enumerate_mincovers_below_gen_is_work. Qed.

Theorem C10_enumerate_unfloor_code_is_worklist : forall fuel c Y,
  enumerate_mincovers_unfloor_gen fuel c Y =
  check (1 <=? length c)%nat
    (bind (unfloor_work fuel (length c) c Y [] [[]]) (fun r =>
       check (negb (is_nil (fst r))) (ok (fst r)))).
Proof. exact enumerate_mincovers_unfloor_gen_is_work. Qed.

(* the stack of the code and the level order of the model enumerate the same
   covers (as sets), and the code returns whenever the model does *)
Theorem C10_enumerate_below_code_refines_model : forall c X Y r, NoDup c ->
  enumerate_below c X Y = ok r ->
  exists f0 r',
    (forall f, enumerate_mincovers_below_gen (f0 + f) c X Y = ok r') /\
    (forall C, has r C <-> has r' C).
Proof. exact enumerate_below_code_refines_model. Qed.

Theorem C10_enumerate_unfloor_code_refines_model : forall c Y r,
  enumerate_unfloor c Y = ok r ->
  exists f0, forall f, exists r',
    enumerate_mincovers_unfloor_gen (f0 + f) c Y = ok r' /\
    (forall C, has r C <-> has r' C).
Proof. exact enumerate_unfloor_code_refines_model. Qed.

Print Assumptions C10_reference_correct.
Print Assumptions C10_checker_correct.
Print Assumptions C10_same_size.
Print Assumptions C10_nonempty.
Print Assumptions C10_contains_every_minimum_cover.
Print Assumptions C10_unique.
Print Assumptions C10_enum_sound.
Print Assumptions C10_bounded_3.
Print Assumptions C10_bounded_3_pick_last.
Print Assumptions C10_bounded_4.
Print Assumptions C10_enum_exact.
Print Assumptions C10_enum_xy_complete.
Print Assumptions C10_ccfr_invariants.
Print Assumptions C10_total.
Print Assumptions C10_ccfr_returns.
Print Assumptions C10_full.
Print Assumptions C10_refuted_total_xy.
Print Assumptions C10_refuted_unrepaired.
Print Assumptions C10_minimize_code_is_model.
Print Assumptions C10_ccfr_code_is_model.
Print Assumptions C10_from_floor_code_is_model.
Print Assumptions C10_from_unfloor_code_is_model.
Print Assumptions C10_below_and_suff_code_is_model.
Print Assumptions C10_enumerate_below_code_is_worklist.
Print Assumptions C10_enumerate_unfloor_code_is_worklist.
Print Assumptions C10_enumerate_below_code_refines_model.
Print Assumptions C10_enumerate_unfloor_code_refines_model.
