(* L5Cover / CoverEnumOld: model of the UNREPAIRED cover_enum.minimize
   (finding F2), kept for the refutation [C10_refuted] and for observing the
   F2 class in the correspondence.

   Difference to CoverEnum.v: Context.pick_iter(u) and Context.count(u) are
   called without care_vars.  A BDD does not depend on a parameter along
   which the denoted set S is a cylinder; pick_iter then returns one partial
   assignment for each class of elements of S that agree outside those
   parameters, _pick_iter_as_bdd turns it into the BDD of the whole class (a
   cube), and count returns the number of classes.  The code treats each
   result of pick_iter as ONE lattice element.

   Model file: definitions only. *)
From Coq Require Import List ZArith Bool Lia Arith.
Import ListNotations.
From Omega Require Import L5Cover.Boxes L5Cover.MinCover L5Cover.CoverEnum.
Open Scope Z_scope.

Section Old.
Variable rs : ranges.
Variable pick : list box -> option box.

(* the parameters (variable number, a or b) of which S is independent *)
Definition indep_params (S : list box) : list (nat * bool) :=
  filter (fun ib => independent_of (nth (fst ib) rs (0, 0)) S (fst ib) (snd ib))
         (flat_map (fun i => [(i, false); (i, true)]) (seq 0 (length rs))).

(* forget the independent parameters *)
Definition forget (V : list (nat * bool)) (b : box) : box :=
  fold_left (fun acc ib => set_param (snd ib) (fst ib) 0 acc) V b.

(* Context.pick_iter(u) followed by assign_from: the classes (cubes) *)
Definition cubes (S : list box) : list (list box) :=
  let V := indep_params S in
  let keys := dedup (map (forget V) S) in
  map (fun k => filter (fun b => box_eqb (forget V b) k) S) keys.

(* Context.count(u) *)
Definition count_old (S : list box) : nat := length (cubes S).

Definition unions (l : list (list box)) : list box :=
  fold_right union [] l.

(* _below_and_suff with ymax a set of elements *)
Definition below_and_suff_old (ymax cover X Y : list box) : res (list box) :=
  chk negb (is_nil ymax) ;;
  chk inclb ymax cover ;;
  let other := diff cover ymax in
  let xsig := filter (fun p => negb (anyb (box_leb p) other)) X in
  chk negb (is_nil xsig) ;;
  chk inclb ymax Y ;;
  let yonly := filter (fun q => allb (fun p => box_leb p q) xsig) Y in
  chk negb (is_nil yonly) ;;
  let yk := filter (fun p => anyb (box_leb p) ymax) yonly in
  chk negb (is_nil yk) ;;
  ok yk.

Definition below_expand_old (n k : nat) (tail : list (list box))
  (X Y : list box) (partial : list box) : res family :=
  match tail with
  | [] => fail EAssert
  | ymax :: _ =>
      chk inclb ymax Y ;;
      let cover := union partial (unions tail) in
      if negb (Nat.eqb (count_old cover) n) then fail E419
      else
        do succ <- below_and_suff_old ymax cover X Y ;;
        fold_right (fun z acc =>
          do news <- acc ;;
          let new := union partial z in
          if Nat.eqb (count_old new) k then ok (new :: news)
          else fail E425) (ok []) (cubes succ)
  end.

Fixpoint below_levels_old (n k : nat) (tail : list (list box))
  (X Y : list box) (partials : family) : res family :=
  match tail with
  | [] => ok partials
  | _ :: tail' =>
      do next <- fold_right (fun p acc =>
                   do done <- acc ;;
                   do news <- below_expand_old n k tail X Y p ;;
                   ok (news ++ done)) (ok []) partials ;;
      below_levels_old n (S k) tail' X Y next
  end.

Definition enumerate_below_old (cover_from_max X Y : list box) : res family :=
  chk inclb cover_from_max Y ;;
  let lm := cubes cover_from_max in
  let n := length lm in
  chk Nat.leb 1 n ;;
  do r <- below_levels_old n 1 lm X Y [[]] ;;
  let r' := union_fam [] r in
  chk negb (is_nil r') ;;
  ok r'.

Definition from_floor_old (core : family) (X Yfl : list box) : res family :=
  do r <- fold_left (fun acc c =>
            do done <- acc ;;
            do b <- enumerate_below_old c X Yfl ;;
            ok (union_fam done b)) core (ok []) ;;
  chk Nat.leb (length core) (length r) ;;
  ok r.

(* _enumerate_mincovers_unfloor; _y_unfloor asserts that pick(yfloor) assigns
   all parameters, i.e. that the cube is a single element *)
Fixpoint unfloor_levels_old (k : nat) (lm : list (list box)) (Y : list box)
  (partials : family) : res family :=
  match lm with
  | [] => ok partials
  | yfloor :: lm' =>
      match yfloor with
      | [z0] =>
          let succ := those_over Y z0 in
          chk negb (is_nil succ) ;;
          do next <- fold_right (fun p acc =>
                       do done <- acc ;;
                       do news <- fold_right (fun z acc2 =>
                                    do news <- acc2 ;;
                                    let new := union p z in
                                    if Nat.eqb (count_old new) k then ok (new :: news)
                                    else fail EAssert) (ok []) (cubes succ) ;;
                       ok (news ++ done)) (ok []) partials ;;
          unfloor_levels_old (S k) lm' Y next
      | _ => fail EAssert
      end
  end.

Definition enumerate_unfloor_old (cover_from_floor Y : list box) : res family :=
  let lm := cubes cover_from_floor in
  chk Nat.leb 1 (length lm) ;;
  do r <- unfloor_levels_old 1 lm Y [[]] ;;
  let r' := union_fam [] r in
  chk negb (is_nil r') ;;
  ok r'.

Definition from_unfloor_old (fl : family) (Y : list box) : res family :=
  do r <- fold_left (fun acc c =>
            do done <- acc ;;
            do b <- enumerate_unfloor_old c Y ;;
            ok (union_fam done b)) fl (ok []) ;;
  chk Nat.leb (length fl) (length r) ;;
  ok r.

Definition uniform_old (F : family) : bool :=
  match F with
  | [] => true
  | c :: _ => allb (fun d => Nat.eqb (count_old d) (count_old c)) F
  end.

(* _cyclic_core_fixpoint_recursive, unrepaired (cf. CoverEnum.ccfr) *)
Fixpoint ccfr_old (fuel : nat) (X Y : list box) (pc ub : nat)
  : res (family * nat) :=
  match fuel with
  | O => fail EFuel
  | S n =>
      chk cover_refines X Y ;;
      let xt := max_ceilings rs X Y in
      let yt := max_floors rs xt Y in
      let yfl := dedup (map (floor rs xt) Y) in
      let e := inter xt yt in
      let x := diff xt e in
      let y := diff yt e in
      let npc := (pc + count_old e)%nat in
      let core_res : res (family * nat) :=
        if (if (if same_setb x X then same_setb y Y else false) then true
            else is_nil x)
        then
          let core_lb := indep_size pick (S (length x)) x y in
          let blb := (npc + core_lb)%nat in
          match x with
          | [] => chk is_nil y ;; chk Nat.eqb core_lb 0 ;; ok ([[]], blb)
          | _ =>
              if (ub <? blb)%nat then ok ([], ub)
              else
                match pick y with
                | None => fail EAssert
                | Some d =>
                    let ynew := diff y [d] in
                    let xm := filter (fun p => negb (box_leb p d)) x in
                    chk negb (Nat.eqb (length xm) (length x)) ;;
                    do l <- ccfr_old n xm ynew (S npc) ub ;;
                    let L := map (fun c => union c [d]) (fst l) in
                    do r <- ccfr_old n x ynew npc (snd l) ;;
                    let R := fst r in
                    match L, R with
                    | [], _ => ok (R, snd r)
                    | _, [] => ok (L, snd r)
                    | l0 :: _, r0 :: _ =>
                        if (count_old l0 <? count_old r0)%nat then ok (L, snd r)
                        else if (count_old r0 <? count_old l0)%nat then ok (R, snd r)
                        else ok (union_fam L R, snd r)
                    end
                end
          end
        else ccfr_old n x y npc ub in
      do cr <- core_res ;;
      match fst cr with
      | [] => ok ([], snd cr)
      | _ =>
          chk (if is_nil e then negb (is_nil y) else true) ;;
          chk covers_from (fst cr) yfl ;;
          let core := union_fam [] (map (fun c => union c e) (fst cr)) in
          chk allb (fun c => negb (is_nil c)) core ;;
          chk inclb yt yfl ;;
          chk inclb e yfl ;;
          chk are_covers xt core ;;
          chk covers_from core yt ;;
          chk uniform_old core ;;
          do fl <- from_floor_old core xt yfl ;;
          chk negb (is_nil fl) ;;
          chk are_covers xt fl ;;
          chk covers_from fl yfl ;;
          chk uniform_old fl ;;
          do mc <- from_unfloor_old fl Y ;;
          chk negb (is_nil mc) ;;
          chk are_covers X mc ;;
          chk covers_from mc Y ;;
          chk uniform_old mc ;;
          ok (mc, snd cr)
      end
  end.

Definition enum_xy_old (X Y : list box) : res family :=
  match some_cover pick (S (length X)) X Y with
  | None => fail EAssert
  | Some c0 =>
      do r <- ccfr_old (2 * (length X + length Y) + 4) X Y 0 (length c0) ;;
      chk negb (is_nil (fst r)) ;;
      ok (fst r)
  end.
End Old.

Definition enum_minimize_unrepaired (rs : ranges) (pick : list box -> option box)
  (f care : point -> bool) : res family :=
  enum_xy_old rs pick (embed rs f) (primes rs f care).

Definition is_f2_error {A} (r : res A) : bool :=
  match r with inr E419 => true | inr E425 => true | _ => false end.
