"""Gallina literals for covering instances (C08/C09/C10).

All literals are written for `Open Scope Z_scope`.
"""
from vlib import cover_inst as ci

HEADER = '''From Coq Require Import List ZArith Bool.
Import ListNotations.
From Omega Require Import L5Cover.Boxes.
Open Scope Z_scope.
'''


def z(n):
    return f'({n})' if n < 0 else str(n)


def point(p):
    return '[' + ';'.join(z(v) for v in p) + ']'


def points(ps):
    return '[' + ';'.join(point(p) for p in ps) + ']'


def box(b):
    return '[' + ';'.join(f'({z(a)},{z(c)})' for a, c in b) + ']'


def boxes(bs):
    return '[' + ';'.join(box(b) for b in bs) + ']'


def families(fs):
    return '[' + ';'.join(boxes(k) for k in fs) + ']'


def project(pts, idx):
    """Project points to the coordinates idx, removing duplicates."""
    seen, out = set(), []
    for p in pts:
        q = tuple(p[i] for i in idx)
        if q not in seen:
            seen.add(q)
            out.append(q)
    return out


def instance_defs(prefix, inst, limits, idx=None):
    """Definitions <prefix>rs, <prefix>f, <prefix>care.

    idx: coordinates kept (the lattice variables); f and care must not depend
    on the dropped ones."""
    n = len(limits)
    idx = list(range(n)) if idx is None else idx
    rs = [limits[i] for i in idx]
    f = project(inst['f'], idx)
    lines = [
        f'Definition {prefix}rs : ranges := {box(rs)}.',
        f'Definition {prefix}f : point -> bool := mem_pt {points(f)}.']
    if inst['care'] is None:
        lines.append(
            f'Definition {prefix}care : point -> bool := fun _ => true.')
    else:
        c = project(inst['care'], idx)
        lines.append(
            f'Definition {prefix}care : point -> bool := mem_pt {points(c)}.')
    return '\n'.join(lines)


# ------------------------------------------------------------------ formulas
class Unsupported(Exception):
    """The parsed formula left the fragment of L5Cover/ListExpr.v."""


_CMP = {'=': 'CEq', '#': 'CNe', '!=': 'CNe', '/=': 'CNe', '<': 'CLt',
        '<=': 'CLe', '=<': 'CLe', '>': 'CGt', '>=': 'CGe'}
_AND = ('/\\', '&', '&&')
_OR = ('\\/', '|', '||')
_NOT = ('~', '!')
_IMP = ('=>', '->')
_IFF = ('<=>', '<->')


def term_lit(t, index):
    ty = getattr(t, 'type', None)
    if ty == 'var':
        if t.value not in index:
            raise Unsupported(f'unknown variable {t.value}')
        return f'(TVar {index[t.value]})'
    if ty == 'num':
        return f'(TNum {z(int(t.value))})'
    raise Unsupported(f'term {type(t).__name__} {getattr(t, "operator", "")}')


def expr_lit(t, index):
    """Gallina `expr` literal of a syntax tree returned by omega's parser."""
    ty = getattr(t, 'type', None)
    if ty == 'bool':
        v = str(t.value).upper()
        if v == 'TRUE':
            return 'ETrue'
        if v == 'FALSE':
            return 'EFalse'
        raise Unsupported(f'constant {t.value}')
    if ty != 'operator':
        raise Unsupported(f'node {type(t).__name__}')
    op, xs = t.operator, t.operands
    cls = type(t).__name__
    if cls == 'Unary' and op in _NOT:
        return f'(ENot {expr_lit(xs[0], index)})'
    if cls == 'Comparator' and op in _CMP:
        return (f'(ECmp {_CMP[op]} {term_lit(xs[0], index)} '
                f'{term_lit(xs[1], index)})')
    if cls == 'Binary':
        if op in _AND + _OR + _IMP + _IFF:
            c = ('EAnd' if op in _AND else 'EOr' if op in _OR
                 else 'EImp' if op in _IMP else 'EIff')
            return f'({c} {expr_lit(xs[0], index)} {expr_lit(xs[1], index)})'
        if op == '\\in':
            r = xs[1]
            if getattr(r, 'operator', None) != '..':
                raise Unsupported('\\in without a range')
            return (f'(EIn {term_lit(xs[0], index)} '
                    f'{term_lit(r.operands[0], index)} '
                    f'{term_lit(r.operands[1], index)})')
    raise Unsupported(f'{cls} {op}')


def exprs(ls):
    return '[' + ';'.join(ls) + ']'
