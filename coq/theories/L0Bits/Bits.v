(* L0 / Bits: integers refined by bit vectors (model, no proofs).

   Models of the integer-level helpers of omega/logic/bitvector.py,
   omega/symbolic/fol.py and omega/symbolic/enumeration.py:

     bit_length                     Python int.bit_length
     hint                           a bitblasted table entry of an integer
                                    (keys "width", "signed", "dom")
     twos_complement_to_int         bitvector.twos_complement_to_int
     append_sign_bit                bitvector._append_sign_bit
     int_to_twos_complement         bitvector.int_to_twos_complement
     sign_extension, equalize_width bitvector.sign_extension / equalize_width
     int_to_bit_assignment          fol._int_to_bit_assignment
     enumerate_int                  enumeration._enumerate_int

   Bit vectors are little-endian [list bool]; the last element is the sign.
   [dom_to_width] and [_bitfield_limits] are NOT modelled here: they are
   translated from /repo on every run (coq/gen/BitsGen.v, tie T) and the
   theorems about them live in coq/GenProofs/BitsProofs.v. [limits_of] below is
   the hand-written specification they are proved equal to. *)
From Coq Require Import ZArith List Bool.
Import ListNotations.
Open Scope Z_scope.

(* Python [int.bit_length]: number of bits of |z| *)
Definition bit_length (z : Z) : Z :=
  if z =? 0 then 0 else Z.log2 (Z.abs z) + 1.

(* an integer's entry in a bitblasted symbol table *)
Record hint := mkHint { h_width : Z; h_signed : bool; h_dom : Z * Z }.

Definition wnat (h : hint) : nat := Z.to_nat (h_width h).

(* --- values of bit vectors ------------------------------------------------ *)
Fixpoint uval (l : list bool) : Z :=
  match l with
  | [] => 0
  | b :: r => Z.b2z b + 2 * uval r
  end.

(* bitvector.twos_complement_to_int:
     n = len(bits) - 1;  -r[-1] * 2**n + sum(b * 2**i for i, b in enumerate(r[:-1])) *)
Definition twos_complement_to_int (bits : list bool) : Z :=
  let n := Z.of_nat (length bits) - 1 in
  - Z.b2z (last bits false) * 2 ^ n + uval (removelast bits).

Notation sval := twos_complement_to_int.

(* bitvector._append_sign_bit, generic in the type of bit entries (names and
   '0'/'1' strings in var_to_twos_complement, Booleans/None in enumeration).
   None = the ValueError / AssertionError branches. *)
Definition append_sign_bit {A} (zero one : A) (bits : list A) (h : hint)
    : option (list A) :=
  if h_signed h then
    if (length bits <? 2)%nat then None else Some bits
  else
    let '(mn, mx) := h_dom h in
    if mn * mx <? 0 then None
    else if mn >=? 0 then Some (bits ++ [zero])
    else if mx <? 0 then Some (bits ++ [one])
    else None.

(* value of the (trimmed) bit field [bits] of a variable declared with [h];
   this is bitvector.bitfields_to_ints for one integer *)
Definition decode_val (h : hint) (bits : list bool) : option Z :=
  match append_sign_bit false true bits h with
  | Some l => Some (sval l)
  | None => None
  end.

(* the hand-written specification of _type_hints._bitfield_limits *)
Definition limits_of (h : hint) : Z * Z :=
  let w := h_width h in
  if h_signed h then (- 2 ^ (w - 1), 2 ^ (w - 1) - 1)
  else if fst (h_dom h) >=? 0 then (0, 2 ^ w - 1)
  else (- 2 ^ w, -1).

Definition in_limits (h : hint) (z : Z) : bool :=
  (fst (limits_of h) <=? z) && (z <=? snd (limits_of h)).

(* structural well-formedness of a declared hint (what dom_to_width ensures) *)
Definition wf_hint (h : hint) : Prop :=
  1 <= h_width h /\
  (h_signed h = true -> 2 <= h_width h) /\
  (h_signed h = false -> 0 <= fst (h_dom h) \/ snd (h_dom h) < 0) /\
  fst (h_dom h) <= snd (h_dom h).

Definition wf_hint_b (h : hint) : bool :=
  (1 <=? h_width h) &&
  (if h_signed h then 2 <=? h_width h
   else (0 <=? fst (h_dom h)) || (snd (h_dom h) <? 0)) &&
  (fst (h_dom h) <=? snd (h_dom h)).

(* --- encoding ------------------------------------------------------------- *)
(* the n low bits of z in two's complement, little-endian *)
Fixpoint zbits (n : nat) (z : Z) : list bool :=
  match n with
  | O => []
  | S k => Z.odd z :: zbits k (Z.div2 z)
  end.

(* the stored bit field of value z for a variable declared with h *)
Definition encode_val (h : hint) (z : Z) : list bool := zbits (wnat h) z.

(* bitvector.int_to_twos_complement (on an int, not a string):
     n = x.bit_length(); y = x if x >= 0 else 2**n + x; m = max(n, 1)
     bits = reversed(bin(y).lstrip('-0b').zfill(m)) + [sign]
   The string operations are modelled by their meaning: the m low binary
   digits of y. *)
Definition int_to_twos_complement (x : Z) : list bool :=
  let n := bit_length x in
  let y := if x >=? 0 then x else 2 ^ n + x in
  let m := Z.max n 1 in
  zbits (Z.to_nat m) y ++ [x <? 0].

(* bitvector.sign_extension; None = ValueError (fewer than 2 bits, n < len).
   The 32-bit ALU assertion is not modelled (widths here are far below). *)
Definition sign_extension {A} (dflt : A) (x : list A) (n : nat) : option (list A) :=
  let m := length x in
  if (m <? 2)%nat then None
  else if (n <? m)%nat then None
  else Some (x ++ repeat (last x dflt) (n - m)).

(* bitvector.equalize_width with extend_by = 0 *)
Definition equalize_width {A B} (da : A) (db : B) (x : list A) (y : list B)
    : option (list A * list B) :=
  let n := Nat.max (length x) (length y) in
  match sign_extension da x n, sign_extension db y n with
  | Some p, Some q => Some (p, q)
  | _, _ => None
  end.

(* entries of bitvector.var_to_twos_complement: bit names (here the index of
   the bit in "bitnames") or the constant sign digit '0' / '1' *)
Inductive vbit := VName (i : nat) | VConst (b : bool).

Definition var_to_twos_complement (h : hint) : option (list vbit) :=
  append_sign_bit (VConst false) (VConst true)
    (map VName (seq 0 (wnat h))) h.

(* Python dict with insertion order: d[k] = v *)
Fixpoint dict_set {K V} (eqb : K -> K -> bool) (k : K) (v : V)
    (d : list (K * V)) : list (K * V) :=
  match d with
  | [] => [(k, v)]
  | (k', v') :: r =>
    if eqb k k' then (k, v) :: r else (k', v') :: dict_set eqb k v r
  end.

Fixpoint dict_get {K V} (eqb : K -> K -> bool) (k : K) (d : list (K * V))
    : option V :=
  match d with
  | [] => None
  | (k', v) :: r => if eqb k k' then Some v else dict_get eqb k r
  end.

(* fol._int_to_bit_assignment: zip the variable's two's complement with the
   integer's, after equalising widths; digits must agree (assert), names are
   assigned in order (a later write to the same name wins: this is how an
   out-of-range value of a signed variable wraps). Result: index of the bit in
   "bitnames" -> value. *)
Fixpoint zip_assign (p : list vbit) (q : list bool) (acc : list (nat * bool))
    : option (list (nat * bool)) :=
  match p, q with
  | u :: p', v :: q' =>
    match u with
    | VConst b => if eqb b v then zip_assign p' q' acc else None
    | VName i => zip_assign p' q' (dict_set Nat.eqb i v acc)
    end
  | _, _ => Some acc
  end.

Definition int_to_bit_assignment (h : hint) (value : Z)
    : option (list (nat * bool)) :=
  match var_to_twos_complement h with
  | None => None
  | Some var_bits =>
    match equalize_width (VConst false) false var_bits
            (int_to_twos_complement value) with
    | None => None
    | Some (p, q) => zip_assign p q []
    end
  end.

(* --- enumeration._enumerate_int ------------------------------------------- *)
(* partial bit vector (None = bit not assigned) -> values, in the order the
   Python generator yields them *)
Fixpoint enumerate_int_from (j : Z) (bs : list (option bool)) : list Z :=
  match bs with
  | [] => []                               (* assert j < n *)
  | b :: rest =>
    match rest with
    | [] =>                                (* sign *)
      match b with
      | None => [- 2 ^ j; 0]
      | Some b => [- Z.b2z b * 2 ^ j]
      end
    | _ :: _ =>
      flat_map (fun v =>
        match b with
        | None => [v; v + 2 ^ j]
        | Some b => [v + 2 ^ j * Z.b2z b]
        end) (enumerate_int_from (j + 1) rest)
    end
  end.

Definition enumerate_int (bs : list (option bool)) : list Z :=
  enumerate_int_from 0 bs.

(* all total bit vectors that agree with a partial one, in the order that
   corresponds to [enumerate_int] (specification device) *)
Fixpoint expand (bs : list (option bool)) : list (list bool) :=
  match bs with
  | [] => []
  | b :: rest =>
    match rest with
    | [] => match b with None => [[true]; [false]] | Some b => [[b]] end
    | _ :: _ =>
      flat_map (fun l =>
        match b with
        | None => [false :: l; true :: l]
        | Some b => [b :: l]
        end) (expand rest)
    end
  end.

Definition agrees (bs : list (option bool)) (l : list bool) : Prop :=
  Forall2 (fun ob b => ob = None \/ ob = Some b) bs l.

(* --- small executable helpers used by the correspondence cases ------------ *)
Fixpoint insert_z (x : Z) (l : list Z) : list Z :=
  match l with
  | [] => [x]
  | y :: r => if x <=? y then x :: l else y :: insert_z x r
  end.
Definition sort_z (l : list Z) : list Z := fold_right insert_z [] l.
Fixpoint eq_zs (a b : list Z) : bool :=
  match a, b with
  | [], [] => true
  | x :: a', y :: b' => (x =? y) && eq_zs a' b'
  | _, _ => false
  end.
Fixpoint eq_bools (a b : list bool) : bool :=
  match a, b with
  | [], [] => true
  | x :: a', y :: b' => eqb x y && eq_bools a' b'
  | _, _ => false
  end.
Definition hint_eqb (a b : hint) : bool :=
  (h_width a =? h_width b) && eqb (h_signed a) (h_signed b) &&
  (fst (h_dom a) =? fst (h_dom b)) && (snd (h_dom a) =? snd (h_dom b)).
Definition vbit_eqb (a b : vbit) : bool :=
  match a, b with
  | VName i, VName j => Nat.eqb i j
  | VConst x, VConst y => eqb x y
  | _, _ => false
  end.
Fixpoint list_eqb {A} (e : A -> A -> bool) (a b : list A) : bool :=
  match a, b with
  | [], [] => true
  | x :: a', y :: b' => e x y && list_eqb e a' b'
  | _, _ => false
  end.
Definition opt_eqb {A} (e : A -> A -> bool) (a b : option A) : bool :=
  match a, b with
  | Some x, Some y => e x y
  | None, None => true
  | _, _ => false
  end.
(* equality of two index -> bool dictionaries as maps *)
Definition natdict_eqb (a b : list (nat * bool)) : bool :=
  Nat.eqb (length a) (length b) &&
  forallb (fun kv => match dict_get Nat.eqb (fst kv) b with
                     | Some v => eqb v (snd kv)
                     | None => false
                     end) a.
Definition zrange (lo hi : Z) : list Z :=
  map (fun i => lo + Z.of_nat i) (seq 0 (Z.to_nat (hi - lo + 1))).
