#!/bin/bash
# MANIFEST.setup_cmd: build the framework from files on disk only (offline).
set -e
cd "$(dirname "$0")"
mkdir -p coq/gen coq/cases replay evidence
python3 tools/lint_coq.py
cd coq
exec 9> .lock; flock 9
if bash ../tools/coqbuild.sh; then
  echo "setup ok"
else
  echo "setup: some theories failed to build (see above); the checks that need them will report it" >&2
fi
flock -u 9
cd ..
# proof phase of every check once: regenerate coq/gen from /repo, compile
# coq/GenProofs and coq/Properties (the checks re-check whatever changes later)
PYTHONPATH="${OMEGA_REPO:-/repo}:tools" PYTHONHASHSEED=0 OMEGA_VERIF=1 \
  timeout 2400 /venv/bin/python tools/warm.py || \
  echo "setup: warm-up incomplete; the checks compile what is missing" >&2
