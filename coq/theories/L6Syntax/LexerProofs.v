(* L6 Syntax — proofs about the lexer model: a sequence of lexemes with
   arbitrary separators (blanks, line breaks, one-line and multi-line
   comments) between them lexes to the tokens of the lexemes: blanks,
   comments and line breaks do not matter. *)
From Coq Require Import List String Ascii NArith Bool Lia Arith.
From Omega Require Import L6Syntax.Tokens L6Syntax.Lexer L6Syntax.LexSpec.
Import ListNotations.
Local Open Scope string_scope.

(* ---- strings ---- *)
Lemma strip_prefix_app : forall s t, strip_prefix s (s ++ t) = Some t.
Proof. induction s; simpl; intros; [reflexivity|]. rewrite Ascii.eqb_refl. apply IHs. Qed.

Lemma strip_prefix_length : forall p s r, strip_prefix p s = Some r ->
  String.length s = String.length p + String.length r.
Proof.
  induction p; simpl; intros s r H.
  - inversion H; subst. reflexivity.
  - destruct s; [discriminate|]. destruct (Ascii.eqb a a0); [|discriminate].
    simpl. rewrite (IHp _ _ H). reflexivity.
Qed.

Lemma sapp_assoc : forall a b c : string, ((a ++ b) ++ c = a ++ (b ++ c))%string.
Proof. induction a; simpl; intros; [reflexivity|]. rewrite IHa. reflexivity. Qed.

Lemma app_length_str : forall a b, String.length (a ++ b) = String.length a + String.length b.
Proof. induction a; simpl; intros; [reflexivity|]. rewrite IHa. reflexivity. Qed.

Lemma noconf_sound : forall a s tail,
  noconf a s (hd_char tail) = true -> strip_prefix a (s ++ tail) = None.
Proof.
  induction a as [|x a IH]; intros s tail H; simpl in H; [discriminate|].
  destruct s as [|y s]; simpl.
  - destruct tail as [|c t]; simpl in *; [reflexivity|].
    apply negb_true_iff in H. rewrite H. reflexivity.
  - destruct (Ascii.eqb x y); [apply IH; assumption | reflexivity].
Qed.

Lemma diverge_sound : forall a op x, diverge a op = true -> strip_prefix a (op ++ x) = None.
Proof.
  induction a as [|c a IH]; intros op x H; destruct op as [|d op]; simpl in *; try discriminate.
  destruct (Ascii.eqb c d); [apply IH; assumption | reflexivity].
Qed.

Lemma alts_ok_sound : forall alts s tail,
  alts_ok alts s (hd_char tail) = true -> first_alt alts (s ++ tail) = Some (s, tail).
Proof.
  induction alts as [|a r IH]; intros s tail H; simpl in *; [discriminate|].
  destruct (String.eqb_spec a s) as [e|ne].
  - subst. rewrite strip_prefix_app. reflexivity.
  - apply andb_prop in H. destruct H as [H1 H2].
    rewrite (noconf_sound _ _ _ H1). apply IH. assumption.
Qed.

Lemma alts_none_sound : forall alts s tail,
  forallb (fun a => noconf a s (hd_char tail)) alts = true ->
  first_alt alts (s ++ tail) = None.
Proof.
  induction alts as [|a r IH]; intros s tail H; simpl in *; [reflexivity|].
  apply andb_prop in H. destruct H as [H1 H2].
  rewrite (noconf_sound _ _ _ H1). apply IH. assumption.
Qed.

Lemma rule_none_sound : forall r s tail,
  s <> "" -> rule_none r s (hd_char tail) = true -> match_rule r (s ++ tail) = None.
Proof.
  intros r s tail Hs H. unfold rule_none in H. unfold match_rule.
  destruct s as [|c0 s]; [congruence|]. simpl in H.
  destruct (lr_kind r).
  - apply alts_none_sound. assumption.
  - simpl. apply negb_true_iff in H. rewrite H. reflexivity.
  - simpl. apply negb_true_iff in H. rewrite H. reflexivity.
  - change (String c0 s ++ tail) with ((String c0 s) ++ tail).
    rewrite (noconf_sound "\*" (String c0 s) tail H). reflexivity.
  - rewrite (noconf_sound "(*" (String c0 s) tail H). reflexivity.
  - simpl. apply negb_true_iff in H. rewrite H. reflexivity.
Qed.

Lemma lit_scan_sound : forall rules s tail r,
  s <> "" -> lit_scan rules s (hd_char tail) = Some r ->
  first_rule rules (s ++ tail) = Some (r, s, tail).
Proof.
  induction rules as [|r0 rs IH]; intros s tail r Hs H; simpl in H; [discriminate|].
  simpl.
  destruct (lr_kind r0) eqn:K.
  - destruct (alts_ok (lr_alts r0) s (hd_char tail)) eqn:A.
    + inversion H; subst. unfold match_rule. rewrite K.
      rewrite (alts_ok_sound _ _ _ A). reflexivity.
    + destruct (rule_none r0 s (hd_char tail)) eqn:N; [|discriminate].
      rewrite (rule_none_sound _ _ _ Hs N). apply IH; assumption.
  - destruct (rule_none r0 s (hd_char tail)) eqn:N; [|discriminate].
    rewrite (rule_none_sound _ _ _ Hs N). apply IH; assumption.
  - destruct (rule_none r0 s (hd_char tail)) eqn:N; [|discriminate].
    rewrite (rule_none_sound _ _ _ Hs N). apply IH; assumption.
  - destruct (rule_none r0 s (hd_char tail)) eqn:N; [|discriminate].
    rewrite (rule_none_sound _ _ _ Hs N). apply IH; assumption.
  - destruct (rule_none r0 s (hd_char tail)) eqn:N; [|discriminate].
    rewrite (rule_none_sound _ _ _ Hs N). apply IH; assumption.
  - destruct (rule_none r0 s (hd_char tail)) eqn:N; [|discriminate].
    rewrite (rule_none_sound _ _ _ Hs N). apply IH; assumption.
Qed.

(* ---- span ---- *)
Lemma span_app : forall f a tail,
  all_chars f a = true -> char_is f (hd_char tail) = false ->
  span f (a ++ tail) = (a, tail).
Proof.
  induction a as [|c a IH]; intros tail Ha Ht; simpl in *.
  - destruct tail as [|d t]; simpl in *; [reflexivity|]. rewrite Ht. reflexivity.
  - apply andb_prop in Ha. destruct Ha as [Hc Ha]. rewrite Hc, (IH _ Ha Ht). reflexivity.
Qed.

Lemma span_split : forall f s a b, span f s = (a, b) -> s = a ++ b.
Proof.
  induction s as [|c s IH]; simpl; intros a b H.
  - inversion H; reflexivity.
  - destruct (f c).
    + destruct (span f s) as [a' b'] eqn:E. inversion H; subst. simpl.
      rewrite (IH _ _ eq_refl). reflexivity.
    + inversion H; subst. reflexivity.
Qed.

(* ---- rules that cannot start with a given character / opener ---- *)
Lemma first_alt_skip_char : forall f alts c s,
  forallb (fun a => match a with String x _ => negb (f x) | EmptyString => false end) alts = true ->
  f c = true -> first_alt alts (String c s) = None.
Proof.
  induction alts as [|a r IH]; intros c s H Hc; simpl in *; [reflexivity|].
  apply andb_prop in H. destruct H as [H1 H2].
  destruct a as [|x a]; [discriminate|]. simpl.
  destruct (Ascii.eqb_spec x c) as [e|ne].
  - subst. rewrite Hc in H1. discriminate.
  - apply IH; assumption.
Qed.

Lemma first_alt_skip_opener : forall op alts x,
  forallb (fun a => diverge a op) alts = true -> first_alt alts (op ++ x) = None.
Proof.
  induction alts as [|a r IH]; intros x H; simpl in *; [reflexivity|].
  apply andb_prop in H. destruct H as [H1 H2].
  rewrite (diverge_sound _ _ _ H1). apply IH. assumption.
Qed.

Lemma find_kind_sound : forall skip k rules r str lx rest,
  find_kind skip k rules = Some r ->
  (forall r', skip r' = true -> match_rule r' str = None) ->
  match_rule r str = Some (lx, rest) ->
  first_rule rules str = Some (r, lx, rest).
Proof.
  induction rules as [|r0 rs IH]; intros r str lx rest H Hs Hm; simpl in *; [discriminate|].
  destruct (k (lr_kind r0)).
  - inversion H; subst. rewrite Hm. reflexivity.
  - destruct (skip r0) eqn:S; [|discriminate].
    rewrite (Hs _ S). apply IH; assumption.
Qed.

Lemma find_kind_kind : forall skip k rules r,
  find_kind skip k rules = Some r -> k (lr_kind r) = true.
Proof.
  induction rules as [|r0 rs IH]; intros r H; simpl in *; [discriminate|].
  destruct (k (lr_kind r0)) eqn:K.
  - inversion H; subst. assumption.
  - destruct (skip r0); [apply IH; assumption | discriminate].
Qed.

Lemma digit_skip_sound : forall r c s, digit_skip r = true -> is_digit c = true ->
  match_rule r (String c s) = None.
Proof.
  intros r c s H Hc. unfold digit_skip in H. unfold match_rule.
  destruct (lr_kind r) eqn:K; try discriminate.
  - unfold rule_skips_char in H. rewrite K in H.
    apply (first_alt_skip_char is_digit); assumption.
  - assert (is_name_start c = false).
    { unfold is_digit, is_name_start in *. apply andb_prop in Hc. destruct Hc as [A B].
      apply N.leb_le in A. apply N.leb_le in B.
      repeat rewrite orb_false_iff. repeat split.
      + apply andb_false_iff. left. apply N.leb_gt. lia.
      + apply andb_false_iff. left. apply N.leb_gt. lia.
      + apply N.eqb_neq. lia. }
    rewrite H0. reflexivity.
  - assert (Ascii.eqb "\"%char c = false).
    { destruct (Ascii.eqb_spec "\"%char c); [subst; discriminate | reflexivity]. }
    change (strip_prefix "\*" (String c s))
      with (if Ascii.eqb "\"%char c then strip_prefix "*" s else None).
    rewrite H0. reflexivity.
  - assert (Ascii.eqb "("%char c = false).
    { destruct (Ascii.eqb_spec "("%char c); [subst; discriminate | reflexivity]. }
    change (strip_prefix "(*" (String c s))
      with (if Ascii.eqb "("%char c then strip_prefix "*" s else None).
    rewrite H0. reflexivity.
  - assert (is_newline c = false).
    { unfold is_digit, is_newline in *. apply andb_prop in Hc. destruct Hc as [A B].
      apply N.leb_le in A. apply N.eqb_neq. lia. }
    rewrite H0. reflexivity.
Qed.

Lemma newline_skip_sound : forall r c s, newline_skip r = true -> is_newline c = true ->
  match_rule r (String c s) = None.
Proof.
  intros r c s H Hc. unfold newline_skip in H. unfold match_rule.
  assert (Hn : code c = 10%N) by (apply N.eqb_eq; exact Hc).
  destruct (lr_kind r) eqn:K; try discriminate.
  - unfold rule_skips_char in H. rewrite K in H.
    apply (first_alt_skip_char is_newline); assumption.
  - assert (is_name_start c = false).
    { unfold is_name_start. rewrite Hn. reflexivity. }
    rewrite H0. reflexivity.
  - assert (is_digit c = false).
    { unfold is_digit. rewrite Hn. reflexivity. }
    rewrite H0. reflexivity.
  - assert (Ascii.eqb "\"%char c = false).
    { destruct (Ascii.eqb_spec "\"%char c); [subst; discriminate | reflexivity]. }
    change (strip_prefix "\*" (String c s))
      with (if Ascii.eqb "\"%char c then strip_prefix "*" s else None).
    rewrite H0. reflexivity.
  - assert (Ascii.eqb "("%char c = false).
    { destruct (Ascii.eqb_spec "("%char c); [subst; discriminate | reflexivity]. }
    change (strip_prefix "(*" (String c s))
      with (if Ascii.eqb "("%char c then strip_prefix "*" s else None).
    rewrite H0. reflexivity.
Qed.

Lemma opener_skip_sound : forall op r x, op <> "" ->
  rule_skips_opener op r = true -> match_rule r (op ++ x) = None.
Proof.
  intros op r x Hop H. unfold rule_skips_opener in H. unfold match_rule.
  destruct op as [|c op]; [congruence|].
  destruct (lr_kind r) eqn:K; simpl in H.
  - apply first_alt_skip_opener. assumption.
  - simpl. apply negb_true_iff in H. rewrite H. reflexivity.
  - simpl. apply negb_true_iff in H. rewrite H. reflexivity.
  - rewrite (diverge_sound "\*" (String c op) x H). reflexivity.
  - rewrite (diverge_sound "(*" (String c op) x H). reflexivity.
  - simpl. apply negb_true_iff in H. rewrite H. reflexivity.
Qed.

Lemma find_after_skip : forall p0 pat c x,
  Ascii.eqb p0 c = false ->
  find_after (String p0 pat) (String c x) = find_after (String p0 pat) x.
Proof.
  intros. cbn [find_after].
  change (strip_prefix (String p0 pat) (String c x))
    with (if Ascii.eqb p0 c then strip_prefix pat x else None).
  rewrite H. reflexivity.
Qed.

Lemma closes_nostar : forall body,
  all_chars (fun c => negb (Ascii.eqb c "*"%char)) body = true -> closes body.
Proof.
  unfold closes. induction body as [|c b IH]; intros H rest.
  - reflexivity.
  - simpl in H. apply andb_prop in H. destruct H as [Hc Hb]. apply negb_true_iff in Hc.
    rewrite Ascii.eqb_sym in Hc.
    change (String c b ++ "*)" ++ rest) with (String c (b ++ "*)" ++ rest)).
    rewrite find_after_skip by assumption. apply IH. assumption.
Qed.

(* ------------------------------------------------------------------ *)
Section LexThm.
Variable rules : list lexrule.
Variable reserved values : list (string * string).
Variable ignore : list N.
Hypothesis Htab : lex_table_ok rules = true.
Hypothesis Hign : ignore_ok ignore = true.

Local Notation is_ignored := (is_ignored ignore).
Local Notation mk_token := (mk_token reserved values).
Local Notation lex_aux := (lex_aux rules reserved values ignore).
Local Notation lex := (lex rules reserved values ignore).

(* big-step reading of lex_aux, without fuel: every step consumes input *)
Inductive Lex : string -> list token -> Prop :=
| Lex_nil : Lex "" []
| Lex_ign c s ts : is_ignored c = true -> Lex s ts -> Lex (String c s) ts
| Lex_tok c s r lx rest ts :
    is_ignored c = false ->
    first_rule rules (String c s) = Some (r, lx, rest) ->
    String.length rest < String.length (String c s) ->
    lr_emit r = true -> Lex rest ts -> Lex (String c s) (mk_token r lx :: ts)
| Lex_skip c s r lx rest ts :
    is_ignored c = false ->
    first_rule rules (String c s) = Some (r, lx, rest) ->
    String.length rest < String.length (String c s) ->
    lr_emit r = false -> Lex rest ts -> Lex (String c s) ts.

Lemma Lex_aux : forall s ts, Lex s ts -> forall n, String.length s < n -> lex_aux n s = Some ts.
Proof.
  induction 1; intros n Hn.
  - destruct n; [lia|]. reflexivity.
  - destruct n; [simpl in Hn; lia|]. simpl. rewrite H. apply IHLex. simpl in Hn. lia.
  - destruct n; [simpl in Hn; lia|]. cbn [Lexer.lex_aux]. rewrite H, H0, H2.
    rewrite IHLex; [reflexivity | lia].
  - destruct n; [simpl in Hn; lia|]. cbn [Lexer.lex_aux]. rewrite H, H0, H2.
    apply IHLex. lia.
Qed.

Lemma Lex_lex : forall s ts, Lex s ts -> lex s = Some ts.
Proof. intros. unfold Lexer.lex. apply Lex_aux; [assumption | lia]. Qed.

(* ---- table facts ---- *)
Lemma tab_split :
  (match rules with r :: _ => is_kind_name (lr_kind r) && lr_emit r | [] => false end) = true /\
  (match find_kind digit_skip is_kind_number rules with Some r => lr_emit r | None => false end) = true /\
  (match find_kind newline_skip is_kind_newline rules with Some r => negb (lr_emit r) | None => false end) = true /\
  (match find_kind (rule_skips_opener "\*") is_kind_lc rules with Some r => negb (lr_emit r) | None => false end) = true /\
  (match find_kind (rule_skips_opener "(*") is_kind_mlc rules with Some r => negb (lr_emit r) | None => false end) = true.
Proof.
  pose proof Htab as H. unfold lex_table_ok in H.
  apply andb_prop in H. destruct H as [H H5].
  apply andb_prop in H. destruct H as [H H4].
  apply andb_prop in H. destruct H as [H H3].
  apply andb_prop in H. destruct H as [H1 H2].
  auto.
Qed.

Lemma tab_name : exists rn rs, rules = rn :: rs /\ lr_kind rn = RName /\ lr_emit rn = true.
Proof.
  destruct tab_split as [H _]. destruct rules as [|rn rs]; [discriminate|].
  exists rn, rs. apply andb_prop in H. destruct H as [K E].
  destruct (lr_kind rn); try discriminate. auto.
Qed.

Lemma tab_number : exists r, find_kind digit_skip is_kind_number rules = Some r
  /\ lr_kind r = RNumber /\ lr_emit r = true.
Proof.
  destruct tab_split as [_ [H _]].
  destruct (find_kind digit_skip is_kind_number rules) as [r|] eqn:E; [|discriminate].
  exists r. pose proof (find_kind_kind _ _ _ _ E) as K.
  destruct (lr_kind r); try discriminate. auto.
Qed.

Lemma tab_newline : exists r, find_kind newline_skip is_kind_newline rules = Some r
  /\ lr_kind r = RNewline /\ lr_emit r = false.
Proof.
  destruct tab_split as [_ [_ [H _]]].
  destruct (find_kind newline_skip is_kind_newline rules) as [r|] eqn:E; [|discriminate].
  exists r. pose proof (find_kind_kind _ _ _ _ E) as K.
  destruct (lr_kind r); try discriminate. apply negb_true_iff in H. auto.
Qed.

Lemma tab_lc : exists r, find_kind (rule_skips_opener "\*") is_kind_lc rules = Some r
  /\ lr_kind r = RLineComment /\ lr_emit r = false.
Proof.
  destruct tab_split as [_ [_ [_ [H _]]]].
  destruct (find_kind (rule_skips_opener "\*") is_kind_lc rules) as [r|] eqn:E; [|discriminate].
  exists r. pose proof (find_kind_kind _ _ _ _ E) as K.
  destruct (lr_kind r); try discriminate. apply negb_true_iff in H. auto.
Qed.

Lemma tab_mlc : exists r, find_kind (rule_skips_opener "(*") is_kind_mlc rules = Some r
  /\ lr_kind r = RMlComment /\ lr_emit r = false.
Proof.
  destruct tab_split as [_ [_ [_ [_ H]]]].
  destruct (find_kind (rule_skips_opener "(*") is_kind_mlc rules) as [r|] eqn:E; [|discriminate].
  exists r. pose proof (find_kind_kind _ _ _ _ E) as K.
  destruct (lr_kind r); try discriminate. apply negb_true_iff in H. auto.
Qed.

Lemma ign_newline : forall c, is_newline c = true -> is_ignored c = false.
Proof.
  intros c H. pose proof Hign as Hg. unfold ignore_ok in Hg.
  apply andb_prop in Hg. destruct Hg as [H1 _]. apply andb_prop in H1. destruct H1 as [H1 _].
  apply negb_true_iff in H1.
  assert (c = "010"%char).
  { unfold is_newline in H. apply N.eqb_eq in H. unfold code in H.
    rewrite <- (ascii_N_embedding c). rewrite H. reflexivity. }
  subst. exact H1.
Qed.
Lemma ign_backslash : is_ignored "\"%char = false.
Proof.
  pose proof Hign as Hg. unfold ignore_ok in Hg.
  apply andb_prop in Hg. destruct Hg as [H1 _]. apply andb_prop in H1. destruct H1 as [_ H1].
  apply negb_true_iff in H1. exact H1.
Qed.
Lemma ign_lparen : is_ignored "("%char = false.
Proof.
  pose proof Hign as Hg. unfold ignore_ok in Hg. apply andb_prop in Hg. destruct Hg as [_ H1].
  apply negb_true_iff in H1. exact H1.
Qed.

(* ---- the newline rule ---- *)
Lemma first_rule_newline : forall c s, is_newline c = true ->
  exists r a b, first_rule rules (String c s) = Some (r, String c a, b)
    /\ lr_emit r = false /\ span is_newline s = (a, b).
Proof.
  intros c s Hc. destruct tab_newline as [r [F [K E]]].
  destruct (span is_newline s) as [a b] eqn:Sp.
  exists r, a, b. split; [|auto].
  apply (find_kind_sound _ _ _ _ _ _ _ F).
  - intros r' Hs. apply newline_skip_sound; assumption.
  - unfold match_rule. rewrite K, Hc, Sp. reflexivity.
Qed.

(* dropping leading line breaks does not change what is lexed *)
Lemma Lex_drop_newlines : forall x ts a b,
  Lex x ts -> span is_newline x = (a, b) -> Lex b ts.
Proof.
  intros x ts a b H Sp. destruct x as [|c s]; simpl in Sp.
  - inversion Sp; subst. assumption.
  - destruct (is_newline c) eqn:Hc.
    + destruct (span is_newline s) as [a' b'] eqn:Sp'. inversion Sp; subst.
      destruct (first_rule_newline c s Hc) as [r [a2 [b2 [F [E Sp2]]]]].
      rewrite Sp' in Sp2. inversion Sp2; subst.
      pose proof (ign_newline c Hc) as Hi.
      inversion H; subst; congruence.
    + inversion Sp; subst. assumption.
Qed.

Lemma span_length : forall f s a b, span f s = (a, b) -> String.length b <= String.length s.
Proof.
  intros f s a b H. rewrite (span_split _ _ _ _ H), app_length_str. lia.
Qed.

Lemma find_after_length : forall pat s r, find_after pat s = Some r ->
  String.length r <= String.length s.
Proof.
  induction s as [|c s IH]; intros r H; simpl in H.
  - destruct (strip_prefix pat "") eqn:E; [|discriminate]. inversion H; subst.
    apply strip_prefix_length in E. simpl in *. lia.
  - destruct (strip_prefix pat (String c s)) eqn:E.
    + inversion H; subst. apply strip_prefix_length in E. simpl in *. lia.
    + apply IH in H. simpl. lia.
Qed.

Lemma after_newline_app : forall text c w, no_newline text = true -> is_newline c = true ->
  after_newline (text ++ String c w) = Some w.
Proof.
  induction text as [|d t IH]; intros c w Ht Hc; simpl in *.
  - rewrite Hc. reflexivity.
  - apply andb_prop in Ht. destruct Ht as [Hd Ht]. apply negb_true_iff in Hd.
    rewrite Hd. apply IH; assumption.
Qed.

(* ---- separators are skipped ---- *)
Lemma Lex_sep : forall w, sep ignore w -> forall s ts, Lex s ts -> Lex (w ++ s) ts.
Proof.
  induction 1; intros s ts HL.
  - exact HL.
  - simpl. apply Lex_ign; auto.
  - simpl. pose proof (IHsep s ts HL) as HL'.
    destruct (first_rule_newline c (w ++ s) H) as [r [a [b [F [E Sp]]]]].
    eapply Lex_skip; [apply ign_newline; assumption | exact F | | exact E | ].
    + pose proof (span_length _ _ _ _ Sp). simpl. lia.
    + eapply Lex_drop_newlines; [exact HL' | exact Sp].
  - (* \* text newline *)
    destruct tab_lc as [r [F [K E]]].
    pose proof (IHsep s ts HL) as HL'.
    assert (M : match_rule r (("\*" ++ text ++ String c w) ++ s) = Some ("", w ++ s)).
    { unfold match_rule. rewrite K.
      replace (("\*" ++ text ++ String c w) ++ s) with ("\*" ++ (text ++ String c (w ++ s))).
      - rewrite strip_prefix_app, after_newline_app by assumption. reflexivity.
      - simpl. rewrite !sapp_assoc. reflexivity. }
    assert (FR : first_rule rules (("\*" ++ text ++ String c w) ++ s) = Some (r, "", w ++ s)).
    { apply (find_kind_sound _ _ _ _ _ _ _ F); [|exact M].
      intros r' Hs.
      replace (("\*" ++ text ++ String c w) ++ s) with ("\*" ++ (text ++ String c (w ++ s))).
      - apply opener_skip_sound; [discriminate | assumption].
      - simpl. rewrite !sapp_assoc. reflexivity. }
    change (("\*" ++ text ++ String c w) ++ s)
      with (String "\" (("*" ++ text ++ String c w) ++ s)) in *.
    eapply Lex_skip; [apply ign_backslash | exact FR | | exact E | exact HL'].
    simpl. repeat (rewrite app_length_str; simpl). lia.
  - (* ( * body * ) *)
    destruct tab_mlc as [r [F [K E]]].
    pose proof (IHsep s ts HL) as HL'.
    assert (M : match_rule r (("(*" ++ body ++ "*)" ++ w) ++ s) = Some ("", w ++ s)).
    { unfold match_rule. rewrite K.
      replace (("(*" ++ body ++ "*)" ++ w) ++ s) with ("(*" ++ (body ++ "*)" ++ (w ++ s))).
      - rewrite strip_prefix_app, (H (w ++ s)). reflexivity.
      - simpl. rewrite !sapp_assoc. reflexivity. }
    assert (FR : first_rule rules (("(*" ++ body ++ "*)" ++ w) ++ s) = Some (r, "", w ++ s)).
    { apply (find_kind_sound _ _ _ _ _ _ _ F); [|exact M].
      intros r' Hs.
      replace (("(*" ++ body ++ "*)" ++ w) ++ s) with ("(*" ++ (body ++ "*)" ++ (w ++ s))).
      - apply opener_skip_sound; [discriminate | assumption].
      - simpl. rewrite !sapp_assoc. reflexivity. }
    change (("(*" ++ body ++ "*)" ++ w) ++ s)
      with (String "(" (("*" ++ body ++ "*)" ++ w) ++ s)) in *.
    eapply Lex_skip; [apply ign_lparen | exact FR | | exact E | exact HL'].
    simpl. repeat (rewrite app_length_str; simpl). lia.
Qed.

(* ---- a lexeme followed by the rest ---- *)
Local Notation lexeme_tok := (lexeme_tok rules reserved values ignore).

Lemma Lex_lexeme : forall sp s ts tok,
  lexeme_tok sp (hd_char s) = Some tok -> Lex s ts -> Lex (sp ++ s) (tok :: ts).
Proof.
  intros sp s ts tok H HL. unfold LexSpec.lexeme_tok in H.
  destruct (first_not_ignored ignore sp) eqn:Hfi; simpl in H; [|discriminate].
  destruct sp as [|c0 sp']; [discriminate|].
  simpl in Hfi. apply negb_true_iff in Hfi.
  assert (Hlen : String.length s < String.length (String c0 (sp' ++ s))).
  { simpl. rewrite app_length_str. lia. }
  destruct (is_name_start c0) eqn:Hn.
  - destruct (all_chars is_name_char sp' && negb (char_is is_name_char (hd_char s))) eqn:Hc;
      [|discriminate].
    apply andb_prop in Hc. destruct Hc as [Ha Hb]. apply negb_true_iff in Hb.
    destruct tab_name as [rn [rs [E [K Em]]]]. rewrite E in H. inversion H; subst tok.
    simpl. eapply Lex_tok; [exact Hfi | | exact Hlen | exact Em | exact HL].
    rewrite E. simpl. unfold match_rule. rewrite K, Hn, (span_app _ _ _ Ha Hb). reflexivity.
  - destruct (is_digit c0) eqn:Hd.
    + destruct (all_chars is_digit sp' && negb (char_is is_digit (hd_char s))) eqn:Hc;
        [|discriminate].
      apply andb_prop in Hc. destruct Hc as [Ha Hb]. apply negb_true_iff in Hb.
      destruct tab_number as [r [F [K Em]]]. rewrite F in H. inversion H; subst tok.
      simpl. eapply Lex_tok; [exact Hfi | | exact Hlen | exact Em | exact HL].
      apply (find_kind_sound _ _ _ _ _ _ _ F).
      * intros r' Hs. apply digit_skip_sound; assumption.
      * unfold match_rule. rewrite K, Hd, (span_app _ _ _ Ha Hb). reflexivity.
    + destruct (lit_scan rules (String c0 sp') (hd_char s)) as [r|] eqn:Sc; [|discriminate].
      destruct (lr_emit r) eqn:Em; [|discriminate]. inversion H; subst tok.
      change (String c0 sp' ++ s) with (String c0 (sp' ++ s)).
      eapply Lex_tok; [exact Hfi | | exact Hlen | exact Em | exact HL].
      change (String c0 (sp' ++ s)) with (String c0 sp' ++ s).
      apply lit_scan_sound; [discriminate | exact Sc].
Qed.

(* lex_render: a sequence of lexemes with arbitrary separators between them
   (blanks, line breaks, comments) lexes to the tokens of the lexemes *)
Theorem lex_rendered : forall s ts,
  Rendered rules reserved values ignore s ts -> lex s = Some ts.
Proof.
  intros s ts H. apply Lex_lex. induction H.
  - constructor.
  - apply Lex_sep; assumption.
  - apply Lex_lexeme; assumption.
Qed.

(* comments_ws: two renderings of the same token sequence, whatever blanks,
   line breaks and comments they use, lex to the same tokens *)
Corollary comments_ws : forall s1 s2 ts,
  Rendered rules reserved values ignore s1 ts ->
  Rendered rules reserved values ignore s2 ts ->
  lex s1 = lex s2.
Proof. intros. rewrite (lex_rendered _ _ H), (lex_rendered _ _ H0). reflexivity. Qed.

End LexThm.
