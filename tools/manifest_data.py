HOOK_COMMITS = []
NOTES = ('Technique: machine-checked proof in Coq 8.16.1. See DESIGN.md. '
         'Every check regenerates its model/tables from /repo, re-checks the '
         'theorems with coqc, runs the correspondence on fresh inputs and '
         'writes evidence/<id>.json.')
NOT_APPLICABLE = {}
CHECKS = {
 'C11': dict(
   design_ref='§6 C11',
   technique='Coq proof over code translated from fixpoint.py (tie T) + vm_compute correspondence on random arenas',
   text=('step/attractor/trap/ee_image/descendants are translated from the '
         'current fixpoint.py into Gallina on every run; theorems proved for '
         'all arenas, all four modes: step = set-level controllable '
         'predecessor; attractor = least fixpoint (with/without inside); trap '
         '= greatest fixpoint started from TRUE; ee_image = exact successors; '
         'descendants inside constraint, closed, least; loops never exhaust '
         'fuel >= |valuations|. The dd operations are modelled by meaning, '
         'so the translated model is additionally run against the real '
         'code on random arenas over both back ends.'),
   note=('Trusted: Coq kernel+vm_compute; py2coq translator (fail-closed); '
         'meaning of dd operations (&,|,~,exist,forall,let/rename,==) as set '
         'operations; sample-based tie for dd semantics; preimage() not '
         'modelled. No axioms (Print Assumptions: closed).')),
 'C01': dict(
   design_ref='§6 C01',
   technique='Coq proof over solver code translated from gr1.py (tie T): returned region = mu-calculus fixpoint; vm_compute correspondence incl. all iterates',
   text=('solve_streett_game and _attractor_under_assumptions are translated '
         'from the current gr1.py into Gallina on every run; proved for all '
         'arenas, actions, liveness lists and the four modes: the returned '
         'region equals nu Z. /\\_j mu Y. \\/_k nu X. (P_k /\\ cpre X) \\/ cpre Y '
         '\\/ (R_j /\\ cpre Z) over the exact controllable predecessor of '
         'C11 (each level characterised as least/greatest fixpoint), loops '
         'terminate by convergence. The game-semantic reading (winning '
         'strategies over infinite plays) is NOT mechanised: partial. The '
         'translated model is run against the real solver (region and all '
         'iterates, both back ends, all bit-range valuations).'),
   note=('Trusted: Coq kernel+vm_compute; py2coq translator; dd operations '
         'modelled by meaning; classical GR(1) theorem linking the fixpoint '
         'to winning strategies is assumed, not proved. No axioms.')),
 'C03': dict(
   design_ref='§6 C03',
   technique='Coq proof over is_realizable/_make_init translated from gr1.py (tie T) + vm_compute correspondence over 4 qinit x 2 plus_one',
   text=('is_realizable and _make_init are translated every run; proved: '
         'verdict = the documented quantified formula for each qinit form and '
         'causality mode, None exactly when the side condition fails; '
         'init[impl] = form predicate /\\ internal init, refused iff empty; '
         'admitted states meet SysInit and are winning when EnvInit holds; '
         'verdict true => init synthesis succeeds. Real code compared on '
         'random games/inits incl. transducer construction success.'),
   note=('Trusted: as C01. The winning region is a parameter of these '
         'theorems (its exactness is C01/C04). No axioms.')),
 'C04': dict(
   design_ref='§6 C04',
   technique='Coq proof: translated Rabin solver = mu-calculus fixpoint; Streett/Rabin duality theorem via complement-swap bijection; correspondence + real-code duality check',
   text=('solve_rabin_game/_cycle_inside/_attractor_inside translated every '
         'run; proved for all arenas and modes: last iterate = mu Z. \\/_k nu '
         'Y. /\\_j mu X. (cpre X \\/ R_j) /\\ cpre Y /\\ (cpre Z \\/ P_k); and the '
         'full duality: the Streett(1) region (spec and generated solver) is '
         'the complement of the opponent Rabin(1) region for complemented '
         'liveness, swapped roles, Moore<->Mealy, strict<->non-strict. '
         'Game-semantic reading not mechanised (partial).'),
   note='Trusted: as C01. No axioms.'),
 'C02': dict(
   design_ref='§6 C02',
   technique='Coq proofs on a hand model of make_streett_transducer (over translated _controllable_action) + exhaustive truth-table correspondence + closed-loop search',
   text=('Hand-written Gallina model of make_streett_transducer built on the '
         'translated _controllable_action/_make_init/solver; proved for '
         'arbitrary iterates, all modes: every allowed step satisfies the '
         'specified component action under the mode causality rule; Moore '
         'implementations do not depend on next environment values; the goal '
         'counter stays in range when the environment keeps its action; '
         'initial states via C03. Closure, non-blocking and liveness are NOT '
         'proved (partial): they are searched on the real implementation by '
         'explicit closed-loop analysis (reachability, blocking, fair cycles) '
         'on every run. The model is tied by comparing the complete truth '
         'tables of action[impl]/init[impl] with the real construction.'),
   note=('Trusted: Coq kernel+vm_compute; hand model tied by sampled '
         'correspondence (tables are exhaustive per game); translator for '
         'the generated parts; dd by meaning. Liveness/non-blocking only '
         'searched, not proved. No axioms.')),
 'C05': dict(
   design_ref='§6 C05',
   technique='Coq proofs on a hand model of make_rabin_transducer; two machine-checked refutation witnesses (known findings F3, F12); correspondence + closed-loop search',
   text=('Hand-written Gallina model of make_rabin_transducer over the '
         'translated _controllable_action/step/_make_init/solver; proved for '
         'arbitrary iterates: every allowed step satisfies the specified '
         'component action under the mode causality rule. Absence of '
         'blocking is REFUTED on the faithful model by two kernel-checked '
         'witnesses (C05_refuted_dead_end = F3, C05_refuted_stale_hold = '
         'F12), reproduced on the real code and listed as known findings; '
         'every other blocking state, refinement/range failure or '
         'liveness-violating fair cycle found by the closed-loop search on '
         'the real implementation is reported as a violation.'),
   note=('Trusted: as C02. Known findings keyed rabin_blocks_env_deadend_plus_one '
         'and rabin_blocks_stale_hold in KNOWN_FINDINGS.txt. No axioms.')),
 'C12': dict(
   design_ref='§6 C12',
   technique='Coq invariant proof of a worklist model of _action_to_steps for any pick; verified checker evaluated in Coq on the graphs the real enumeration returns',
   text=('Hand-written Gallina model of games/enumeration._action_to_steps '
         'and the four _init_search variants, parametric in dd pick (only '
         '"returns a member" assumed). Proved by invariants for every action '
         'pair, pick and number of steps: nodes are distinct valuations, every '
         'edge is allowed by both actions, each processed node has exactly '
         'one out-edge per allowed next environment value and none for '
         'others; initial nodes follow each qinit pattern. The boolean '
         'checker of that statement is proved to characterise it and is '
         'evaluated inside Coq on graphs produced by the REAL enumeration '
         '(synthesized Streett implementations and hand-made actions, 4 '
         'qinit, Moore/Mealy, both back ends). Termination bound and the '
         'inherited liveness of paths are not proved.'),
   note=('Trusted: Coq kernel+vm_compute; hand model tied by checking real '
         'outputs with the verified checker (sample); domain restriction: '
         'environment action independent of y\' (inputs the library rejects '
         'by its own assertion are counted as rejected). No axioms.')),
 'C16': dict(
   design_ref='§6 C16',
   technique='Coq theorems over a table-driven lexer and Pratt-parser model (tie G: tables regenerated from lexyacc.py, bitvector.py and doc.md every run; tie H: vm_compute correspondence with the real PLY parser, flatten and split_gr1)',
   text=('The precedence tuple, token rules (PLY order, spellings, '
         'normalisation), productions, opmap and the documentation precedence '
         'list and BNF are extracted with ast on every run. Proved by '
         'vm_compute over the generated tables (bounded): documented tokens '
         'have lexer spellings, documented order/associativity match the '
         'tuple, same shift/reduce decisions, normalised spellings give '
         'identical tokens, un-normalised synonyms share an opmap image. '
         'Proved for all inputs: the parser model returns the unique tree the '
         'table determines (operators, parentheses, terminals, ranges, ite, '
         'IF/THEN/ELSE, quantifiers); flatten/parse round trip at token and '
         'string level; blanks, newlines and comments do not matter; '
         'spellings never matter; split_gr1 returns exactly the four lists '
         'for any nesting and None outside the fragment. Every generated '
         'string is lexed and parsed by PLY and by the model and compared.'),
   note=('Trusted: Coq kernel+vm_compute; the fail-closed extractor '
         'syntax_tables.py; PLY LALR tables are NOT modelled (tied by '
         'correspondence only); \\S not modelled; LET, junction lists, <<>> '
         'and @ are in the model but outside prec_determines_tree; its '
         'converse is not proved. No axioms.')),
}
