(* C13 — generated code computes outputs that satisfy the relation it came
   from.  Statements only; proofs in theories/L7Codegen/{Bits,Dag,Step}Proofs.v.

   Models (after the F4/F7 repairs of omega/symbolic/codegen.py):
   Bits.v  int_to_bits, twos_complement_to_int, _append_sign_bit, dom_to_width;
   Dag.v   dumps_bdd_as_code on a DAG seen through int(u)/u.var/u.negated/
           bdd.succ, the emitted text as a straight-line program AST with a
           strict evaluator (fails on use-before-assignment and on a second
           assignment of a latch);
   Step.v  dumps_bdds_as_code + the generated step(state);
   gen/C13_tables.v  the `languages` table extracted from the source text. *)
From Coq Require Import List Bool Arith ZArith String Lia.
Import ListNotations.
From Omega Require Import L7Codegen.Pred L7Codegen.PredFacts L7Codegen.Synth
  L7Codegen.SynthProofs L7Codegen.Bits L7Codegen.BitsProofs L7Codegen.Dag
  L7Codegen.DagProofs L7Codegen.Step L7Codegen.StepProofs
  L7Codegen.Render L7Codegen.RenderProofs L7Codegen.BitsConverse
  L7Codegen.StepProgProofs.
From OmegaGen Require Import C13_tables.
From OmegaGen Require Import CodegenGen.
From OmegaGP Require Import CodegenBridge.

(* (1) int_bits_roundtrip: for every type hint (Boolean, unsigned, signed,
   all-negative; any lo, hi) and every value representable in the bits of the
   variable (so also values outside lo..hi, negative values and Booleans),
   decoding (bitfields_to_ints) the bits the generated code reads from
   assign_bitvectors gives the value back. *)
Theorem C13_int_bits_roundtrip : forall t v,
  representable t v ->
  decode t (firstn (nbits t) (encode t v)) = v.
Proof. exact int_bits_roundtrip. Qed.

(* (1') the converse: every list of nbits t bits decodes to a representable
   value, decoding is injective on such lists, and encoding the decoded value
   gives the bits back.  So the integers step returns denote exactly the
   output bits of the assignment that satisfies the relation
   (C13_step_outputs_encode_back below). *)
Theorem C13_decode_representable : forall t bits,
  List.length bits = nbits t -> representable t (decode t bits).
Proof. exact decode_representable. Qed.

Theorem C13_decode_injective : forall t b1 b2,
  List.length b1 = nbits t -> List.length b2 = nbits t ->
  decode t b1 = decode t b2 -> b1 = b2.
Proof. exact decode_inj. Qed.

Theorem C13_bits_int_roundtrip : forall t bits,
  List.length bits = nbits t ->
  firstn (nbits t) (encode t (decode t bits)) = bits.
Proof. exact bits_int_roundtrip. Qed.

(* (2) straightline_correct: for every DAG whose levels strictly increase
   along edges, every list of named roots and every input a, the emitted
   program runs without reading an unassigned latch or assigning one twice,
   and leaves in out_bits exactly the roots' names, each with the value of
   the BDD at a. *)
Theorem C13_straightline_correct : forall d nlev a roots,
  wf_dag d nlev = true ->
  (forall r, In r roots -> root_ok_p d nlev (snd r)) ->
  run a (dumps_bdd_as_code nlev d roots)
  = Some (map (fun r => (fst r, ref_val (S nlev) d a (snd r))) roots).
Proof. intros d nlev a roots WF. exact (straightline_correct d nlev WF a roots). Qed.

Theorem C13_latches_assigned_once : forall d nlev roots,
  wf_dag d nlev = true ->
  (forall r, In r roots -> root_ok_p d nlev (snd r)) ->
  NoDup (assigned (dumps_bdd_as_code nlev d roots)).
Proof. intros d nlev roots WF. exact (latches_assigned_once d nlev WF [] roots). Qed.

(* (3) step_correct: for every number of bits, relation r over the bits,
   layout of typed variables, requested outputs, iteration order and
   `restrict` meeting the contract of C14, and every state of representable
   values of non-output variables for which some assignment of the output
   bits satisfies r: the completed bit assignment a' satisfies r, decodes to
   the given state on the state's variables, and step returns exactly the
   requested output variables with the values a' decodes to.
   [state_ok] does not ask that every declared variable has a value: for a
   partial state the model reads the missing bits as false, whereas the real
   generated step raises KeyError when compute_bdds reads a bit of a variable
   the state does not mention (Step.v); the statement says what the real step
   returns only for states that mention every variable the functions read
   (the correspondence runs total states). *)
Theorem C13_step_correct :
  forall n restrict, restrict_agrees n restrict -> restrict_support n restrict ->
  forall ly out_vars r order,
  layout_ok n ly -> (forall x, In x out_vars -> x < List.length ly) ->
  forall state,
  order_ok n r (list_bits ly out_vars) order ->
  state_ok ly out_vars state ->
  let a := assign_bitvectors n ly state in
  (exists b, agree_out (list_bits ly out_vars) a b /\ r b = true) ->
  let a' := apply_functions (functions n restrict ly out_vars r order) a in
  r a' = true /\
  (forall x v, In (x, v) state ->
     decode (var_type ly x) (read_bits a' (var_bits ly x)) = v) /\
  step n restrict ly out_vars r order state
  = map (fun x => (x, decode (var_type ly x) (read_bits a' (var_bits ly x)))) out_vars.
Proof. exact step_correct. Qed.

(* the value step returns for a requested output variable x is
   decode (the bits of x in a'); encoding it gives those bits back, i.e. the
   returned integers, written into the bits, are the assignment a' of which
   (3) says r a' = true *)
Theorem C13_step_outputs_encode_back :
  forall n ly x (a' : asg),
  layout_ok n ly -> x < List.length ly ->
  let t := var_type ly x in
  let bits := read_bits a' (var_bits ly x) in
  representable t (decode t bits) /\
  firstn (nbits t) (encode t (decode t bits)) = bits.
Proof.
  intros n ly x a' [L _] Hx t bits.
  destruct (L x Hx) as (_ & _ & Hlen).
  assert (List.length bits = nbits t) as Hb
    by (unfold bits, read_bits; rewrite map_length; exact Hlen).
  split; [apply decode_representable, Hb|apply bits_int_roundtrip, Hb].
Qed.

(* (3) and (1') composed: every (x, v) that step returns is a requested
   output with a representable value v whose encoding is exactly the bits of
   x in the assignment a' that satisfies the relation, i.e. the integers step
   returns, written back into the bits, are a' on the output bits *)
Theorem C13_step_outputs_written_back :
  forall n restrict, restrict_agrees n restrict -> restrict_support n restrict ->
  forall ly out_vars r order,
  layout_ok n ly -> (forall x, In x out_vars -> x < List.length ly) ->
  forall state,
  order_ok n r (list_bits ly out_vars) order ->
  state_ok ly out_vars state ->
  let a := assign_bitvectors n ly state in
  (exists b, agree_out (list_bits ly out_vars) a b /\ r b = true) ->
  let a' := apply_functions (functions n restrict ly out_vars r order) a in
  r a' = true /\
  forall x v, In (x, v) (step n restrict ly out_vars r order state) ->
    In x out_vars /\ representable (var_type ly x) v /\
    firstn (nbits (var_type ly x)) (encode (var_type ly x) v)
    = read_bits a' (var_bits ly x).
Proof.
  intros n restrict RA RS ly out_vars r order LY OV state OO SO a EX a'.
  destruct (C13_step_correct n restrict RA RS ly out_vars r order LY OV state OO SO EX)
    as (R & _ & E).
  split; [exact R|]. intros x v I. fold a a' in E. rewrite E in I.
  apply in_map_iff in I. destruct I as (y & Eq & Iy). injection Eq as <- <-.
  split; [exact Iy|].
  exact (C13_step_outputs_encode_back n ly y a' LY (OV y Iy)).
Qed.

(* the same when compute_bdds executes the program emitted for a well-formed
   DAG whose references denote the extracted functions AT EVERY ASSIGNMENT OF
   THE n DECLARED BITS (this link between the manager's DAG and the function
   is the trusted meaning of dd, re-checked by the correspondence on every
   sampled DAG).  The premise is restricted to assignments of length n: a
   reference is read through [get] (false beyond the end of the list) while
   the extracted functions are tabulated over exactly n bits, so the two can
   differ on longer or shorter lists; only [assign_bitvectors n ly state],
   which has length n, is ever used.  (The unrestricted premise of
   StepProofs.step_prog_correct cannot be met by a relation that depends on a
   bit; that lemma is no longer used.)  C13_step_through_program_instance
   below shows every hypothesis satisfiable. *)
Theorem C13_step_through_program :
  forall n restrict ly out_vars r order d nlev keys state,
  wf_dag d nlev = true ->
  (forall k, In k keys -> root_ok_p d nlev k) ->
  (forall a, List.length a = n ->
     Forall2 (fun k e => ref_val (S nlev) d a k = fst (snd e) a) keys
       (functions n restrict ly out_vars r order)) ->
  step_prog n ly out_vars nlev d
    (combine (map fst (functions n restrict ly out_vars r order)) keys) state
  = Some (step n restrict ly out_vars r order state).
Proof. exact step_prog_correct_len. Qed.

Theorem C13_assign_bitvectors_length : forall n ly state,
  List.length (assign_bitvectors n ly state) = n.
Proof. exact assign_bitvectors_length. Qed.

(* (4) tie G, by computation over the extracted table (the bound is the
   table): both targets are present, define the same keys, and define every
   key the emitter subscripts *)
Definition has_key (k : string) (t : list (string * string)) : bool :=
  existsb (fun e => String.eqb k (fst e)) t.
Definition same_keys (s t : list (string * string)) : bool :=
  forallb (fun e => has_key (fst e) t) s && forallb (fun e => has_key (fst e) s) t.
Theorem C13_languages_same_keys_bounded :
  existsb (fun l => String.eqb "python" (fst l)) languages = true /\
  existsb (fun l => String.eqb "c" (fst l)) languages = true /\
  forallb (fun l1 => forallb (fun l2 => same_keys (snd l1) (snd l2)) languages)
          languages = true /\
  forallb (fun l => forallb (fun k => has_key k (snd l)) used_keys) languages = true.
Proof. vm_compute. repeat split; reflexivity. Qed.

(* (5) the rendered TEXT.  Render.v lays a program out as the token list of
   the text dumps_bdd_as_code writes (COMMENT level lines; `latch_k = (`,
   `(bit AND hi) OR`, `((NOT bit) AND lo))SEP`; `out_bits["name"] = ref SEP`;
   lines joined by line breaks) for ANY syntax table, and run_text is a
   strict evaluator of that token language parametric in the same table
   (or/and/not with the usual precedences, parentheses, TRUE/FALSE,
   identifiers that must be inputs or latches assigned earlier, no second
   assignment, mandatory separator, comment lines).
   For EVERY table whose tokens are pairwise distinct and do not look like
   latches/outputs (syntax_ok), every list of pairwise distinct input names
   that are no tokens (names_ok) and every program the strict AST evaluator
   accepts: evaluating the rendered text = evaluating the AST. *)
Theorem C13_rendered_text_evaluates_program :
  forall sy names outname, syntax_ok sy = true -> names_ok sy names = true ->
  forall a p outs,
  prog_bits_ok (List.length names) p = true ->
  run a p = Some outs ->
  run_text sy names a (render sy names outname p)
  = Some (map (fun o => (out_word (outname (fst o)), snd o)) outs).
Proof. exact rendered_text_evaluates_program. Qed.

(* hence, with (2): for every well-formed DAG whose nodes test input bits,
   the rendered text evaluates each root to the BDD's value *)
Theorem C13_rendered_text_evaluates_bdd :
  forall sy names outname, syntax_ok sy = true -> names_ok sy names = true ->
  forall d nlev a roots,
  wf_dag d nlev = true -> dag_bits_ok (List.length names) d = true ->
  (forall r, In r roots -> root_ok_p d nlev (snd r)) ->
  run_text sy names a (render sy names outname (dumps_bdd_as_code nlev d roots))
  = Some (map (fun r => (out_word (outname (fst r)), ref_val (S nlev) d a (snd r))) roots).
Proof. exact rendered_text_evaluates_bdd. Qed.

(* the side condition holds for every extracted table (python and c), and
   the names b0.. used by the correspondence are admissible for both; by
   computation over the generated tables *)
Theorem C13_rendered_text_tables_ok_bounded :
  forallb (fun l => match syntax_of (snd l) with
                    | Some sy => syntax_ok sy && forallb (fun n => names_ok sy (bnames n)) (seq 0 13)
                    | None => false
                    end) languages = true /\
  (exists sy, lang_syntax "python" languages = Some sy) /\
  (exists sy, lang_syntax "c" languages = Some sy).
Proof. split; [vm_compute; reflexivity|]. split; eexists; vm_compute; reflexivity. Qed.

(* so: for each extracted target language *)
Theorem C13_rendered_text_evaluates_extracted :
  forall lang sy, lang_syntax lang languages = Some sy ->
  forall names outname, names_ok sy names = true ->
  forall d nlev a roots,
  wf_dag d nlev = true -> dag_bits_ok (List.length names) d = true ->
  (forall r, In r roots -> root_ok_p d nlev (snd r)) ->
  run_text sy names a (render sy names outname (dumps_bdd_as_code nlev d roots))
  = Some (map (fun r => (out_word (outname (fst r)), ref_val (S nlev) d a (snd r))) roots).
Proof.
  intros lang sy L names outname NO. apply rendered_text_evaluates_bdd; [|exact NO].
  clear NO names outname.
  assert (A : forall l, In l languages -> forall sy', syntax_of (snd l) = Some sy' ->
                syntax_ok sy' = true).
  { intros l I sy' E.
    pose proof (proj1 C13_rendered_text_tables_ok_bounded) as H.
    rewrite forallb_forall in H. specialize (H l I). rewrite E in H.
    apply andb_true_iff in H. tauto. }
  revert L. generalize languages at 1 as ls, A. intros ls.
  induction ls as [|[k t] r IH]; intros A' L; [discriminate|].
  cbn [lang_syntax] in L. destruct (String.eqb k lang).
  - apply (A' (k, t)); [left; reflexivity | exact L].
  - apply IH; [|exact L]. intros l I. apply A'. right. exact I.
Qed.

(* --- the hypotheses are satisfiable ---------------------------------------- *)
(* a DAG with a complemented edge: root -5 = not (b0 and b1) *)
Definition ex_dag : dag :=
  [ (1%Z, mk_info true false 0 0 0 0); ((-1)%Z, mk_info true true 0 0 0 0);
    (4%Z, mk_info false false 1 1 (-1) 1); (5%Z, mk_info false false 0 0 (-1) 4);
    ((-5)%Z, mk_info false true 0 0 (-1) 4) ].
Example C13_straightline_instance :
  wf_dag ex_dag 2 = true /\
  (forall r, In r [(0, (-5)%Z); (1, 5%Z)] -> root_ok_p ex_dag 2 (snd r)) /\
  run [true; true] (dumps_bdd_as_code 2 ex_dag [(0, (-5)%Z); (1, 5%Z)])
  = Some [(0, false); (1, true)].
Proof.
  split; [vm_compute; reflexivity|]. split; [|vm_compute; reflexivity].
  intros r [<-|[<-|[]]]; eexists; (split; [vm_compute; reflexivity|right; cbn; lia]).
Qed.

(* the same DAG as text, in both extracted syntaxes *)
Definition ex_c_text : list string :=
  ["//"; "level"; ":"; "1"; NL;
   "latch_4"; "="; "("; NL; "("; "b1"; "&&"; "true"; ")"; "||"; NL;
   "("; "("; "!"; "b1"; ")"; "&&"; "("; "!"; "true"; ")"; ")"; ")"; ";"; NL;
   "//"; "level"; ":"; "0"; NL;
   "latch_n5"; "="; "("; NL; "("; "b0"; "&&"; "latch_4"; ")"; "||"; NL;
   "("; "("; "!"; "b0"; ")"; "&&"; "("; "!"; "true"; ")"; ")"; ")"; ";"; NL;
   "latch_5"; "="; "("; NL; "("; "b0"; "&&"; "latch_4"; ")"; "||"; NL;
   "("; "("; "!"; "b0"; ")"; "&&"; "("; "!"; "true"; ")"; ")"; ")"; ";"; NL;
   "out_bits[""out0""]"; "="; "("; "!"; "latch_n5"; ")"; ";"; NL;
   "out_bits[""out1""]"; "="; "latch_5"; ";"]%string.
Example C13_rendered_text_instance :
  exists syc syp,
    lang_syntax "c" languages = Some syc /\ lang_syntax "python" languages = Some syp /\
    names_ok syc (bnames 2) = true /\ names_ok syp (bnames 2) = true /\
    dag_bits_ok 2 ex_dag = true /\
    render syc (bnames 2) oname (dumps_bdd_as_code 2 ex_dag [(0, (-5)%Z); (1, 5%Z)])
    = ex_c_text /\
    run_text syc (bnames 2) [true; true] ex_c_text
    = Some [("out_bits[""out0""]", false); ("out_bits[""out1""]", true)]%string /\
    run_text syp (bnames 2) [true; true]
      (render syp (bnames 2) oname (dumps_bdd_as_code 2 ex_dag [(0, (-5)%Z); (1, 5%Z)]))
    = Some [("out_bits[""out0""]", false); ("out_bits[""out1""]", true)]%string /\
    (* the strict evaluator rejects a Python keyword in C text *)
    run_text syc (bnames 2) [true; true]
      ["out_bits[""out0""]"; "="; "("; "not"; "b0"; ")"; ";"]%string = None.
Proof.
  eexists. eexists. split; [vm_compute; reflexivity|]. split; [vm_compute; reflexivity|].
  repeat split; vm_compute; reflexivity.
Qed.

(* x in -1..1 (bits 0,1), requested output x' (bits 2,3), relation x' = x,
   state x = -2 (representable in the two bits, outside the hint) *)
Definition ex_ly : layout := [(TInt (-1) 1, [0; 1]); (TInt (-1) 1, [2; 3])].
Definition ex_rel : pred :=
  fun a => Bool.eqb (get a 2) (get a 0) && Bool.eqb (get a 3) (get a 1).
Example C13_step_instance :
  layout_ok 4 ex_ly /\ state_ok ex_ly [1] [(0, VZ (-2))] /\
  order_ok 4 ex_rel (list_bits ex_ly [1]) [(3, [0; 1]); (2, [0; 1])] /\
  (exists b, agree_out (list_bits ex_ly [1])
               (assign_bitvectors 4 ex_ly [(0, VZ (-2))]) b /\ ex_rel b = true) /\
  step 4 no_restrict ex_ly [1] ex_rel [(3, [0; 1]); (2, [0; 1])] [(0, VZ (-2))]
  = [(1, VZ (-2))].
Proof.
  split; [|split; [|split; [|split]]].
  - split.
    + intros x Hx.
      assert (N : forall p q : nat, p <> q -> NoDup [p; q]).
      { intros p q Npq. constructor; [intros [E|[]]; congruence|].
        constructor; [intros []|constructor]. }
      destruct x as [|[|x]]; [| |cbn in Hx; lia];
        cbn [var_bits var_type ex_ly nth fst snd nbits];
        (split; [apply N; lia|]);
        (split; [intros p [<-|[<-|[]]]; lia|vm_compute; reflexivity]).
    + intros x x' p Hx Hx' Hp Hp'.
      destruct x as [|[|x]]; [| |cbn in Hx; lia];
        (destruct x' as [|[|x']]; [| |cbn in Hx'; lia]);
        cbn [var_bits ex_ly nth snd In] in Hp, Hp'; try reflexivity; exfalso; lia.
  - split; [repeat constructor; intros []|].
    intros x v [E|[]]. injection E as <- <-.
    split; [cbn; lia|]. split; [cbn; lia|]. intros [E|[]]. lia.
  - split; [repeat constructor; cbn; intuition lia|].
    intro y. cbn [map fst In list_bits flat_map var_bits ex_ly nth snd app]. split.
    + intros [<-|[<-|[]]]; (split; [cbn; tauto|vm_compute; reflexivity]).
    + intros [[<-|[<-|[]]] _]; tauto.
  - exists [false; true; false; true]. split; [|reflexivity].
    split; [reflexivity|]. intros i Hi.
    destruct i as [|[|[|[|i]]]]; try reflexivity; exfalso; apply Hi; cbn; tauto.
  - vm_compute. reflexivity.
Qed.

(* non-vacuity of C13_step_through_program: the same layout and relation
   (x' = x), a DAG whose references 11 and 10 denote the two extracted
   functions (bit 3 := bit 1, bit 2 := bit 0) at all 16 assignments of the 4
   declared bits, and the step through the emitted program *)
Definition ex_dag2 : dag :=
  [ (1%Z, mk_info true false 0 0 0 0); ((-1)%Z, mk_info true true 0 0 0 0);
    (10%Z, mk_info false false 0 0 (-1) 1);
    (11%Z, mk_info false false 1 1 (-1) 1) ].
Example C13_step_through_program_instance :
  let order := [(3, [0; 1]); (2, [0; 1])] in
  let fs := functions 4 no_restrict ex_ly [1] ex_rel order in
  wf_dag ex_dag2 2 = true /\
  (forall k, In k [11%Z; 10%Z] -> root_ok_p ex_dag2 2 k) /\
  (forall a, List.length a = 4 ->
     Forall2 (fun k e => ref_val 3 ex_dag2 a k = fst (snd e) a) [11%Z; 10%Z] fs) /\
  step_prog 4 ex_ly [1] 2 ex_dag2 (combine (map fst fs) [11%Z; 10%Z])
    [(0, VZ (-2))] = Some [(1, VZ (-2))] /\
  step 4 no_restrict ex_ly [1] ex_rel order [(0, VZ (-2))] = [(1, VZ (-2))].
Proof.
  cbv zeta. split; [vm_compute; reflexivity|]. split.
  - intros k [<-|[<-|[]]]; eexists; (split; [vm_compute; reflexivity|right; cbn; lia]).
  - split; [|split; vm_compute; reflexivity].
    apply denotes_b_spec. vm_compute. reflexivity.
Qed.

(* regression examples for the defects repaired by fixes/F4.patch: with the
   old int_to_bits, x = -3 under the hint -3..3 decoded to +1 *)
Example C13_refuted_neg_old_code :
  representable (TInt (-3) 3) (VZ (-3)) /\
  twos_complement_to_int (append_sign_bit (-3) 3
     (firstn 3 (int_to_bits_old (-3) (width_of (-3) 3)))) = 1%Z.
Proof. exact int_to_bits_old_refuted. Qed.

(* ------------------------------------------------------------------ tie T
   codegen.py is TRANSLATED from the current source on every run
   (tools/py2coq_codegen.py -> gen/CodegenGen.v) and
   GenProofs/CodegenBridge.v proves the generated terms equal to the models
   the theorems above talk about.

   int_to_bits: the generated function (bin / lstrip / zfill / reversed /
   bool(int(.)) on character strings) returns the model's list of bits, for
   all x and width (Leibniz). *)
Theorem C13_int_to_bits_is_translated_code : forall x width,
  cg_int_to_bits x width = Some (int_to_bits x width).
Proof. exact int_to_bits_is_translated_code. Qed.

(* the round trip (1) for the bits the TRANSLATED int_to_bits returns *)
Theorem C13_translated_int_bits_roundtrip : forall lo hi z bits,
  representable (TInt lo hi) (VZ z) ->
  cg_int_to_bits z (width_of lo hi) = Some bits ->
  decode (TInt lo hi) (firstn (nbits (TInt lo hi)) bits) = VZ z.
Proof.
  intros lo hi z bits R E. rewrite int_to_bits_is_translated_code in E.
  injection E as <-. exact (int_bits_roundtrip (TInt lo hi) (VZ z) R).
Qed.

(* The emitter: _latch_name, _latch_ref, _register_nodes, _collect_layers,
   _comment_level, _dumps_node, _dumps_layer, _append_sep and
   dumps_bdd_as_code.  A text is the list of its tokens as Render.v cuts a
   text; the literal text of the f-strings is cut by the translator with the
   same rules.  The BDD manager is read through int(u), u.var, u.negated,
   node.low/high, bdd.succ.  HEADLINE: C13_emitter_is_translated_code_renamed,
   for ANY accessors that agree with the DAG and ANY renaming (None or
   Some dict: dumps_bdds_as_code always passes map_bits_to_bitvectors(..));
   C13_emitter_is_translated_code after it is the instance renaming = None
   with the accessors of the DAG [d].
   For a language of the extracted table whose operator tokens are not
   empty, a well-formed DAG whose nodes test named bits, roots of the DAG,
   and provided no code line begins with or contains the comment token
   (code_ok: otherwise _append_sep takes the line for a comment or raises),
   the translated dumps_bdd_as_code, run with one unit of fuel more than
   there are levels, returns exactly the token list Render.render lays out
   for the program of Dag.dumps_bdd_as_code. *)
Theorem C13_emitter_is_translated_code_renamed :
  forall (ref_is_terminal ref_negated : Z -> bool) (ref_low ref_high : Z -> Z)
         (ref_var : Z -> string) (bdd_succ : Z -> nat * Z * Z)
         (d : dag) (names : list string) (renaming tbl : list (string * string))
         (sy : syntax),
  syntax_of tbl = Some sy ->
  s_true sy <> ""%string /\ s_not sy <> ""%string /\ s_and sy <> ""%string /\
  s_or sy <> ""%string /\ s_comment sy <> ""%string ->
  (* the accessors read the DAG; renaming.get(node.var, node.var) is the
     (non-empty) expression that stands for the input bit the node tests *)
  (forall u i, find_info d u = Some i ->
     ref_is_terminal u = i_term i /\ ref_negated u = i_neg i /\
     (i_term i = false ->
        ref_low u = i_low i /\ ref_high u = i_high i /\
        bdd_succ u = (i_level i, i_low i, i_high i) /\
        dict_get_default renaming (ref_var u) (ref_var u) =
        bitname names (i_var i) /\ bitname names (i_var i) <> ""%string)) ->
  forall outname nlev roots lang oren,
  assoc_langs lang languages = Some tbl ->
  match oren with Some o => o | None => [] end = renaming ->
  wf_dag d nlev = true ->
  (forall r, In r roots -> root_ok_p d nlev (snd r)) ->
  forallb (code_ok names sy outname) (dumps_bdd_as_code nlev d roots) = true ->
  cg_dumps_bdd_as_code ref_is_terminal ref_negated ref_low ref_high ref_var
    bdd_succ (S nlev) (map (root_name outname) roots) lang oren =
  Some (render sy names outname (dumps_bdd_as_code nlev d roots)).
Proof. exact dumps_bdd_as_code_is_translated_code. Qed.

(* the instance without a renaming (roots dumped as dumps_bdd_as_code(roots,
   bdd, lang) does, as in the raw-emission correspondence), with the
   accessors of the DAG *)
Theorem C13_emitter_is_translated_code :
  forall lang sy, lang_syntax lang languages = Some sy ->
  tokens_nonempty sy = true ->
  forall d names outname nlev roots,
  dag_names_ok d names = true ->
  wf_dag d nlev = true ->
  (forall r, In r roots -> root_ok_p d nlev (snd r)) ->
  forallb (code_ok names sy outname) (dumps_bdd_as_code nlev d roots) = true ->
  cg_dumps_bdd_as_code (dag_term d) (dag_neg d) (dag_low d) (dag_high d)
    (dag_var d names) (dag_succ d) (S nlev)
    (map (root_name outname) roots) lang None =
  Some (render sy names outname (dumps_bdd_as_code nlev d roots)).
Proof. exact emitter_is_translated_code. Qed.

(* with (5): evaluating the text the TRANSLATED emitter returns gives every
   root the value of the BDD *)
Theorem C13_translated_text_evaluates_bdd :
  forall lang sy, lang_syntax lang languages = Some sy ->
  tokens_nonempty sy = true -> syntax_ok sy = true ->
  forall d names outname nlev roots a text,
  names_ok sy names = true -> dag_names_ok d names = true ->
  wf_dag d nlev = true -> dag_bits_ok (List.length names) d = true ->
  (forall r, In r roots -> root_ok_p d nlev (snd r)) ->
  cg_dumps_bdd_as_code (dag_term d) (dag_neg d) (dag_low d) (dag_high d)
    (dag_var d names) (dag_succ d) (S nlev)
    (map (root_name outname) roots) lang None = Some text ->
  forallb (code_ok names sy outname) (dumps_bdd_as_code nlev d roots) = true ->
  run_text sy names a text =
  Some (map (fun r => (out_word (outname (fst r)),
                       ref_val (S nlev) d a (snd r))) roots).
Proof. exact translated_text_evaluates_bdd. Qed.

(* the pieces, each for any accessors [ref_*] / [bdd_succ] that agree with
   the DAG: see CodegenBridge.latch_name_is_translated_code,
   latch_ref_is_translated_code, register_nodes_is_translated_code,
   collect_layers_is_translated_code, dumps_node_is_translated_code,
   dumps_layer_is_translated_code, append_sep_is_translated_code *)

(* bitvector.twos_complement_to_int (copied into the generated file):
   IndexError on the empty list, else the model's value *)
Theorem C13_twos_complement_is_translated_code : forall bits,
  bv_twos_complement_to_int bits =
  match bits with [] => None | _ => Some (twos_complement_to_int bits) end.
Proof. exact twos_complement_is_translated_code. Qed.

(* _list_bits and assign_bitvectors, for the table of a layout: variable x
   is called [vname x], the bit at position p [bname p]; the names of the
   variables are pairwise distinct and the bit of a Boolean variable carries
   the variable's name.  _list_bits lists the names of Step.list_bits;
   assign_bitvectors maps every variable of the state to the bits
   Bits.encode gives for its value (a Boolean variable to its one bit). *)
Theorem C13_list_bits_is_translated_code :
  forall (vname : nat -> string) (bname : var -> string) (ly : layout),
  (forall x y, x < List.length ly -> y < List.length ly ->
     vname x = vname y -> x = y) ->
  (forall x, x < List.length ly -> var_type ly x = TBool ->
     map bname (var_bits ly x) = [vname x]) ->
  forall out_vars, (forall x, In x out_vars -> x < List.length ly) ->
  cg_list_bits (map vname out_vars) (table_of vname bname ly) =
  Some (map bname (list_bits ly out_vars)).
Proof. exact list_bits_is_translated_code. Qed.

Theorem C13_assign_bitvectors_is_translated_code :
  forall (vname : nat -> string) (bname : var -> string) (ly : layout),
  (forall x y, x < List.length ly -> y < List.length ly ->
     vname x = vname y -> x = y) ->
  forall state : list (nat * Bits.val),
  NoDup (map fst state) ->
  (forall x v, In (x, v) state -> x < List.length ly /\
     List.length (var_bits ly x) = nbits (var_type ly x)) ->
  cg_assign_bitvectors (map (fun xv => (vname (fst xv), snd xv)) state)
    (table_of vname bname ly) =
  Some (map (fun xv => (vname (fst xv),
                        match var_type ly (fst xv) with
                        | TBool => BVbool (hd false (encode TBool (snd xv)))
                        | TInt lo hi => BVlist (encode (TInt lo hi) (snd xv))
                        end)) state).
Proof.
  intros vname bname ly Hinj state Hnd Hst.
  exact (assign_bitvectors_is_translated_code vname bname ly Hinj state Hnd Hst).
Qed.

(* the side condition on the table holds for every extracted language; by
   computation over the generated table *)
Theorem C13_translated_tables_ok_bounded :
  forallb (fun l => match syntax_of (snd l) with
                    | Some sy => tokens_nonempty sy
                    | None => false
                    end) languages = true.
Proof. vm_compute. reflexivity. Qed.

(* non-vacuity: the DAG with a complemented edge of the examples above, in
   both extracted syntaxes; the translated code is evaluated *)
Example C13_translated_instance :
  exists syc syp,
    lang_syntax "c" languages = Some syc /\
    lang_syntax "python" languages = Some syp /\
    tokens_nonempty syc = true /\ tokens_nonempty syp = true /\
    dag_names_ok ex_dag (bnames 2) = true /\
    forallb (code_ok (bnames 2) syc oname)
      (dumps_bdd_as_code 2 ex_dag [(0, (-5)%Z); (1, 5%Z)]) = true /\
    forallb (code_ok (bnames 2) syp oname)
      (dumps_bdd_as_code 2 ex_dag [(0, (-5)%Z); (1, 5%Z)]) = true /\
    cg_dumps_bdd_as_code (dag_term ex_dag) (dag_neg ex_dag) (dag_low ex_dag)
      (dag_high ex_dag) (dag_var ex_dag (bnames 2)) (dag_succ ex_dag) 3
      (map (root_name oname) [(0, (-5)%Z); (1, 5%Z)]) "c" None
    = Some ex_c_text /\
    cg_dumps_bdd_as_code (dag_term ex_dag) (dag_neg ex_dag) (dag_low ex_dag)
      (dag_high ex_dag) (dag_var ex_dag (bnames 2)) (dag_succ ex_dag) 3
      (map (root_name oname) [(0, (-5)%Z); (1, 5%Z)]) "python" None
    = Some (render syp (bnames 2) oname
              (dumps_bdd_as_code 2 ex_dag [(0, (-5)%Z); (1, 5%Z)])) /\
    cg_int_to_bits (-3) 3 = Some [true; false; true] /\
    bv_twos_complement_to_int [true; false; true; true] = Some (-3)%Z /\
    cg_list_bits ["y"; "b"]%string
      (table_of (fun x => nth x ["x"; "y"; "b"]%string ""%string)
                (fun p => nth p ["x_0"; "x_1"; "y_0"; "y_1"; "b"]%string ""%string)
                [(TInt 0 3, [0; 1]); (TInt 0 3, [2; 3]); (TBool, [4])])
    = Some ["y_0"; "y_1"; "b"]%string.
Proof.
  eexists. eexists. split; [vm_compute; reflexivity|].
  split; [vm_compute; reflexivity|]. repeat split; vm_compute; reflexivity.
Qed.

(* non-vacuity of the renamed emitter THROUGH the theorem: the DAG of the
   examples above emitted in C with renaming = {"x": bitvectors["v"][0],
   "y": bitvectors["v"][1]} (node.var = "x" for bit 0, "y" for bit 1), as
   dumps_bdds_as_code does; every hypothesis of
   C13_emitter_is_translated_code_renamed is discharged *)
Definition ex_ren : list (string * string) :=
  [("x", "bitvectors[""v""][0]"); ("y", "bitvectors[""v""][1]")]%string.
Definition ex_rnames : list string :=
  ["bitvectors[""v""][0]"; "bitvectors[""v""][1]"]%string.
Example C13_emitter_renamed_instance :
  exists syc,
    lang_syntax "c" languages = Some syc /\
    cg_dumps_bdd_as_code (dag_term ex_dag) (dag_neg ex_dag) (dag_low ex_dag)
      (dag_high ex_dag) (dag_var ex_dag ["x"; "y"]%string) (dag_succ ex_dag) 3
      (map (root_name oname) [(0, (-5)%Z); (1, 5%Z)]) "c" (Some ex_ren)
    = Some (render syc ex_rnames oname
              (dumps_bdd_as_code 2 ex_dag [(0, (-5)%Z); (1, 5%Z)])).
Proof.
  destruct (assoc_langs "c" languages) as [tbl|] eqn:A;
    [|vm_compute in A; discriminate].
  destruct (syntax_of tbl) as [sy|] eqn:S.
  2:{ vm_compute in A. injection A as <-. vm_compute in S. discriminate. }
  exists sy. split.
  { rewrite lang_syntax_assoc, A. exact S. }
  eapply (C13_emitter_is_translated_code_renamed _ _ _ _ _ _
            ex_dag ex_rnames ex_ren tbl sy S).
  - vm_compute in A. injection A as <-. vm_compute in S. injection S as <-.
    cbn. repeat split; discriminate.
  - intros u i F.
    unfold dag_term, dag_neg, dag_low, dag_high, dag_succ, dag_var.
    unfold ex_dag in *. cbn [find_info] in *.
    repeat (match type of F with
            | context [Z.eqb ?k u] => destruct (Z.eqb_spec k u) as [<-|]
            end;
            [injection F as <-; cbn; repeat split; try discriminate;
             try reflexivity; intros; try discriminate|]).
    discriminate.
  - exact A.
  - reflexivity.
  - vm_compute; reflexivity.
  - intros r [<-|[<-|[]]]; eexists;
      (split; [vm_compute; reflexivity|right; cbn; lia]).
  - vm_compute in A. injection A as <-. vm_compute in S. injection S as <-.
    vm_compute. reflexivity.
Qed.

Print Assumptions C13_int_bits_roundtrip.
Print Assumptions C13_straightline_correct.
Print Assumptions C13_latches_assigned_once.
Print Assumptions C13_step_correct.
Print Assumptions C13_step_through_program.
Print Assumptions C13_languages_same_keys_bounded.
Print Assumptions C13_rendered_text_evaluates_program.
Print Assumptions C13_rendered_text_evaluates_bdd.
Print Assumptions C13_rendered_text_tables_ok_bounded.
Print Assumptions C13_rendered_text_evaluates_extracted.
Print Assumptions C13_int_to_bits_is_translated_code.
Print Assumptions C13_translated_int_bits_roundtrip.
Print Assumptions C13_emitter_is_translated_code.
Print Assumptions C13_translated_text_evaluates_bdd.
Print Assumptions C13_translated_tables_ok_bounded.
Print Assumptions C13_twos_complement_is_translated_code.
Print Assumptions C13_list_bits_is_translated_code.
Print Assumptions C13_assign_bitvectors_is_translated_code.
Print Assumptions C13_decode_representable.
Print Assumptions C13_decode_injective.
Print Assumptions C13_bits_int_roundtrip.
Print Assumptions C13_step_outputs_encode_back.
Print Assumptions C13_assign_bitvectors_length.
Print Assumptions C13_emitter_is_translated_code_renamed.
Print Assumptions C13_step_outputs_written_back.
Print Assumptions C13_step_through_program_instance.
Print Assumptions C13_emitter_renamed_instance.
Print Assumptions C13_translated_instance.
