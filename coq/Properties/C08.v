(* C08 — a formula printed from a BDD is equivalent on the care set and
   re-parses.  Statements only; proofs in theories/L5Cover/ListExprProofs.v.

   The model (L5Cover/ListExpr.v) is at the level of the syntax tree that the
   formula parser returns for the printed text; the marker line
   `care expression` is read as TRUE (DESIGN C08).  That the text is accepted
   by the parser is established on every run with the REAL parser (tie H);
   the theorem [printed_reparses] of DESIGN (parser model of C16) is not
   proved here.  That the cover handed to the printer is a cover by
   implicants is C09 ([C09_minimize_sound]). *)
From Coq Require Import List ZArith Bool Lia.
Import ListNotations.
From Omega Require Import L5Cover.Boxes L5Cover.BoxesProofs L5Cover.ListExpr
  L5Cover.ListExprProofs.
From Coq Require Import Permutation.
From Omega Require Import L0Bits.Bits L5Cover.ListExprNorm L5Cover.ListExprTotal.
From OmegaGen Require Import BitsGen ListExprGen.
From OmegaGP Require Import ListExprBridge.
Open Scope Z_scope.

(* first sentence: for ANY cover K of f by boxes inside [f or outside care]
   and all display options, the printed formula agrees with f at every point
   of the care set (points range over the whole bit-field grid [limits]) *)
Theorem C08_dnf_equiv_on_care :
  forall limits doms f care K,
  length doms = length limits ->
  covers limits f K ->
  (forall b, In b K -> implicant limits f care b) ->
  forall care_is_true show_dom show_limits e,
  dumps_cover limits doms care care_is_true show_dom show_limits K = Some e ->
  forall p, in_ranges limits p -> care p = true -> eval p e = f p.
Proof. exact dnf_equiv_on_care. Qed.

(* clipping to the type hint keeps the members among the values of the hint,
   yields a non-empty interval inside the hint, and drops the conjunct only
   when every value of the hint is a member *)
Theorem C08_clip_preserves : forall a b u v r,
  clip_subrange (a, b) (u, v) = Some r ->
  match r with
  | None => forall x, u <= x <= v -> a <= x <= b
  | Some (a', b') =>
      a' <= b' /\ u <= a' /\ b' <= v /\
      forall x, u <= x <= v -> (a <= x <= b <-> a' <= x <= b')
  end.
Proof. exact clip_preserves. Qed.

(* it is defined exactly on non-empty intervals that meet *)
Theorem C08_clip_defined : forall a b u v,
  a <= b -> u <= v -> a <= v -> u <= b ->
  exists r, clip_subrange (a, b) (u, v) = Some r.
Proof. exact clip_subrange_total. Qed.

(* second sentence: a printed disjunct holds at no care point outside f, and
   the disjuncts together hold at every point of f (inside the type hints
   when clipping is on) *)
Theorem C08_disjuncts_sound :
  forall limits doms f care K,
  length doms = length limits ->
  covers limits f K ->
  (forall b, In b K -> implicant limits f care b) ->
  forall use_dom ds,
  list_expr use_dom doms K = Some ds ->
  (use_dom = true -> forall p, in_ranges limits p -> care p = true ->
                               containsb doms p = true) ->
  (forall d, In d ds ->
     forall p, in_ranges limits p -> care p = true -> eval p d = true -> f p = true) /\
  (forall p, in_ranges limits p -> f p = true ->
     (use_dom = true -> containsb doms p = true) ->
     exists d, In d ds /\ eval p d = true).
Proof. exact disjuncts_sound. Qed.

(* each printed disjunct is non-empty: it holds at a point of its box *)
Theorem C08_disjunct_nonempty_clipped : forall doms b c,
  box_atoms true O doms b = Some c -> length doms = length b ->
  exists p, containsb b p = true /\ eval p (conj c) = true.
Proof. exact disjunct_nonempty_clipped. Qed.

Theorem C08_disjunct_nonempty_plain : forall doms b c p,
  box_atoms false O doms b = Some c -> length doms = length b ->
  containsb b p = true -> eval p (conj c) = true.
Proof. exact disjunct_nonempty_plain. Qed.

(* the conjunction printed for a box denotes the box (at the points inside
   the hints when clipping is on) *)
Theorem C08_box_denotation : forall use_dom b doms c p,
  box_atoms use_dom O doms b = Some c ->
  length p = length b -> length doms = length b ->
  (use_dom = true -> containsb doms p = true) ->
  eval p (conj c) = containsb b p.
Proof. exact box_atoms_sem0. Qed.

(* meaning of the check that is evaluated on the REAL output *)
Theorem C08_printed_ok_correct : forall limits f care clipped e ds,
  printed_ok limits f care clipped e ds = true ->
  (forall p, in_ranges limits p -> care p = true -> eval p e = f p) /\
  (forall d, In d ds -> exists b,
      Forall (fun i => fst i <= snd i) b /\
      (forall p, in_ranges limits p -> eval p d = containsb b p) /\
      (forall p, contains b p -> care p = true -> f p = true)) /\
  (forall p, in_ranges limits p -> f p = true ->
      (clipped = true -> care p = true) ->
      exists d, In d ds /\ eval p d = true).
Proof. exact printed_ok_correct. Qed.

(* non-vacuity: an instance satisfying the hypotheses of the first theorem,
   with clipping and both kinds of range conjuncts switched on *)
Example C08_instance :
  let limits := [(0, 3); (0, 1)] in
  let doms := [(0, 2); (0, 1)] in
  let f := mem_pt [[0;0]; [0;1]; [2;1]] in
  let care := mem_pt [[0;0]; [0;1]; [1;0]; [1;1]; [2;0]; [2;1]] in
  let K := [[(0,0);(0,1)]; [(2,3);(1,1)]] in
  coversb limits f K = true /\
  forallb (fun b => mem_box (implicants limits f care) b) K = true /\
  exists e, dumps_cover limits doms care false true true K = Some e /\
            allb (fun p => if care p then Bool.eqb (eval p e) (f p) else true)
                 (grid limits) = true.
Proof. cbv zeta. split; [vm_compute; reflexivity|]. split; [vm_compute; reflexivity|].
  eexists. split; vm_compute; reflexivity. Qed.

(* ------------------------------------------------------------------ tie T
   The printing functions are TRANSLATED from the current source on every run
   (tools/py2coq_listexpr.py -> gen/ListExprGen.v: _clip_subrange,
   _check_type_hint, _format_range, _list_type_hints, _list_limits,
   vertical_op, list_expr, dumps_cover) and GenProofs/ListExprBridge.v proves
   the generated terms equal to the model the theorems above talk about.

   Reading of the model's data as arguments of the translated code: variable
   i of the model is the i-th name in natural sort order
   ([natsorted_names xvars = seq 0 n]); a box b is the product
   [prod_of b : i |-> nth i b]; the BDD `cover` is (its variables, its
   products); the table maps variable i to a type hint whose 'dom' is
   [nth i doms] and whose bit-field limits (translated _bitfield_limits of
   gen/BitsGen.v) are [nth i limits]; natsort on the printed disjuncts is any
   function returning a permutation of its argument.

   Equality: the generated dumps_cover and the model's have the same tree up
   to the association of /\ and \/ ([ListExprNorm.norm]; the code writes three
   conjuncts per line, the model one flat conjunction), for the model applied
   to the boxes in the order K' in which natsort lists the disjuncts. *)
Theorem C08_printer_is_translated_code :
  forall (natsorted_names : list var -> list var)
         (natsorted_forms : list expr -> list expr),
  (forall l, Permutation l (natsorted_forms l)) ->
  forall (xvars : list var) (vars : table) (limits doms : list ival),
  natsorted_names xvars = seq 0 (length limits) ->
  xvars <> [] ->
  length doms = length limits ->
  (forall i, (i < length limits)%nat ->
     bitfield_limits (vars i) = Some (nth i limits (0, 0))) ->
  (forall i, (i < length limits)%nat ->
     h_dom (vars i) = nth i doms (0, 0)) ->
  forall care care_is_true show_dom show_limits comment K,
  Forall (fun b => length b = length limits) K ->
  exists K', Permutation K K' /\
  option_map norm
    (cov_dumps_cover natsorted_names natsorted_forms
       (seq 0 (length limits), map prod_of K) vars
       show_dom show_limits comment xvars
       (care_implies_hints limits doms care) care_is_true) =
  option_map norm
    (dumps_cover limits doms care care_is_true show_dom show_limits K').
Proof. exact dumps_cover_is_translated_code. Qed.

(* [norm] only re-associates: equal normal forms denote the same predicate,
   and list the same conjuncts / disjuncts in the same order *)
Theorem C08_norm_preserves_meaning : forall p e, eval p (norm e) = eval p e.
Proof. exact eval_norm. Qed.
Theorem C08_norm_conj : forall l,
  norm (conj l) = conj (flat_map (fun e => conjuncts (norm e)) l).
Proof. exact norm_conj. Qed.
Theorem C08_norm_disj : forall l,
  norm (disj l) = disj (flat_map (fun e => disjuncts (norm e)) l).
Proof. exact norm_disj. Qed.

(* orthotopes.list_expr: disjunct by disjunct *)
Theorem C08_list_expr_is_translated_code :
  forall (natsorted_forms : list expr -> list expr),
  (forall l, Permutation l (natsorted_forms l)) ->
  forall (vars : table) (limits doms : list ival),
  length doms = length limits ->
  (forall i, (i < length limits)%nat ->
     bitfield_limits (vars i) = Some (nth i limits (0, 0))) ->
  (forall i, (i < length limits)%nat ->
     h_dom (vars i) = nth i doms (0, 0)) ->
  forall use_dom K,
  Forall (fun b => length b = length limits) K ->
  exists K', Permutation K K' /\
  match lat_list_expr natsorted_forms (seq 0 (length limits), map prod_of K)
          vars false use_dom,
        list_expr use_dom doms K' with
  | Some gs, Some ms => Forall2 (fun g m => norm g = norm m) gs ms
  | None, None => True
  | _, _ => False
  end.
Proof.
  intros nf Hp vars limits doms Hlen Hlim Hdom.
  exact (list_expr_is_translated_code nf Hp vars limits doms Hlen Hlim Hdom).
Qed.

(* Leibniz equalities *)
Theorem C08_clip_is_translated_code : forall ab dom x,
  tyh_clip_subrange ab dom x =
  match clip_subrange ab dom with
  | None => None
  | Some None => Some (None, None)
  | Some (Some (a, b)) => Some (Some a, Some b)
  end.
Proof. exact clip_subrange_is_translated_code. Qed.

Theorem C08_vertical_op_is_translated_code : forall c op spacing,
  stx_vertical_op c op spacing =
  Some (match op with JAnd => conj c | JOr => disj c end).
Proof. exact vertical_op_is_translated_code. Qed.

Theorem C08_list_limits_is_translated_code :
  forall natsorted_names xvars vars limits,
  natsorted_names xvars = seq 0 (length limits) -> xvars <> [] ->
  (forall i, (i < length limits)%nat ->
     bitfield_limits (vars i) = Some (nth i limits (0, 0))) ->
  tyh_list_limits natsorted_names xvars vars = Some (range_atoms 0 limits).
Proof.
  intros nn xvars vars limits Hs Hne Hl.
  exact (list_limits_is_translated_code nn xvars vars (length limits) Hs Hne
           limits eq_refl Hl).
Qed.

Theorem C08_list_type_hints_is_translated_code :
  forall natsorted_names xvars vars doms,
  natsorted_names xvars = seq 0 (length doms) -> xvars <> [] ->
  (forall i, (i < length doms)%nat -> h_dom (vars i) = nth i doms (0, 0)) ->
  tyh_list_type_hints natsorted_names xvars vars = Some (range_atoms 0 doms).
Proof.
  intros nn xvars vars doms Hs Hne Hd.
  exact (list_type_hints_is_translated_code nn xvars vars (length doms) Hs Hne
           doms eq_refl Hd).
Qed.

(* the main theorem restated for what the TRANSLATED printer returns *)
Theorem C08_translated_dnf_equiv_on_care :
  forall (natsorted_names : list var -> list var)
         (natsorted_forms : list expr -> list expr),
  (forall l, Permutation l (natsorted_forms l)) ->
  forall (xvars : list var) (vars : table) (limits doms : list ival),
  natsorted_names xvars = seq 0 (length limits) ->
  xvars <> [] ->
  length doms = length limits ->
  (forall i, (i < length limits)%nat ->
     bitfield_limits (vars i) = Some (nth i limits (0, 0))) ->
  (forall i, (i < length limits)%nat ->
     h_dom (vars i) = nth i doms (0, 0)) ->
  forall f care K care_is_true show_dom show_limits comment e,
  covers limits f K ->
  (forall b, In b K -> implicant limits f care b) ->
  cov_dumps_cover natsorted_names natsorted_forms
    (seq 0 (length limits), map prod_of K) vars
    show_dom show_limits comment xvars
    (care_implies_hints limits doms care) care_is_true = Some e ->
  forall p, in_ranges limits p -> care p = true -> eval p e = f p.
Proof. exact translated_dnf_equiv_on_care. Qed.

Theorem C08_translated_clip_preserves : forall a b u v x r,
  tyh_clip_subrange (a, b) (u, v) x = Some r ->
  match r with
  | (None, None) => forall z, u <= z <= v -> a <= z <= b
  | (Some a', Some b') =>
      a' <= b' /\ u <= a' /\ b' <= v /\
      forall z, u <= z <= v -> (a <= z <= b <-> a' <= z <= b')
  | _ => False
  end.
Proof. exact translated_clip_preserves. Qed.

(* ------------------------------------------------------------ totality
   Every semantic theorem above is conditional on the printer RETURNING
   ([... = Some e]).  It returns (no _check_type_hint / _clip_subrange
   exception) for every list of boxes that are [printable]: of the right
   length, with non-empty intervals and, when the boxes are clipped to the
   type hints (show_dom in effect), non-empty hints that every box meets.
   (A box of the cover that is disjoint from the hints makes the real code
   raise `assert not disjoint ranges`; such inputs are the `rejected` class of
   the correspondence.  OBSERVATION, not proved: in the sampled runs this
   happened only when f has points outside care.) *)
Theorem C08_dumps_cover_total :
  forall limits doms care care_is_true (show_dom : bool) show_limits K,
  Forall (printable (if show_dom then care_implies_hints limits doms care
                     else false) doms) K ->
  exists e, dumps_cover limits doms care care_is_true show_dom show_limits K
            = Some e.
Proof. exact dumps_cover_total. Qed.

(* and so does the TRANSLATED printer *)
Theorem C08_translated_printer_total :
  forall (natsorted_names : list var -> list var)
         (natsorted_forms : list expr -> list expr),
  (forall l, Permutation l (natsorted_forms l)) ->
  forall (xvars : list var) (vars : table) (limits doms : list ival),
  natsorted_names xvars = seq 0 (length limits) ->
  xvars <> [] ->
  length doms = length limits ->
  (forall i, (i < length limits)%nat ->
     bitfield_limits (vars i) = Some (nth i limits (0, 0))) ->
  (forall i, (i < length limits)%nat ->
     h_dom (vars i) = nth i doms (0, 0)) ->
  forall care care_is_true (show_dom : bool) show_limits comment K,
  Forall (printable (if show_dom then care_implies_hints limits doms care
                     else false) doms) K ->
  exists e,
    cov_dumps_cover natsorted_names natsorted_forms
      (seq 0 (length limits), map prod_of K) vars
      show_dom show_limits comment xvars
      (care_implies_hints limits doms care) care_is_true = Some e.
Proof.
  intros nn nf Hp xvars vars limits doms Hs Hne Hlen Hlim Hdom
    care cit show_dom show_limits comment K HK.
  assert (Forall (fun b => length b = length limits) K) as HL.
  { apply Forall_forall. intros b Hb. rewrite Forall_forall in HK.
    destruct (HK b Hb) as [E _]. rewrite E. exact Hlen. }
  destruct (dumps_cover_is_translated_code nn nf Hp xvars vars limits doms
              Hs Hne Hlen Hlim Hdom care cit show_dom show_limits comment K HL)
    as [K' [HP E]].
  destruct (dumps_cover_total limits doms care cit show_dom show_limits K'
              (printable_perm _ doms K K' HP HK)) as [e He].
  rewrite He in E.
  destruct (cov_dumps_cover nn nf _ vars show_dom show_limits comment xvars _ cit)
    as [g|]; [exists g; reflexivity|discriminate].
Qed.

(* non-vacuity of the hypotheses of the tie-T theorems *)
Example C08_translated_instance :
  let limits := [(0, 3); (0, 1)] in
  let doms := [(0, 2); (0, 1)] in
  let care := mem_pt [[0;0]; [0;1]; [1;0]; [1;1]; [2;0]; [2;1]] in
  let K := [[(0,0);(0,1)]; [(2,3);(1,1)]] in
  (forall i, (i < length limits)%nat ->
     bitfield_limits (ex_vars i) = Some (nth i limits (0, 0)) /\
     h_dom (ex_vars i) = nth i doms (0, 0)) /\
  care_implies_hints limits doms care = true /\
  option_map norm
    (cov_dumps_cover (fun l => l) (fun l => l) (seq 0 2, map prod_of K)
       ex_vars true true true [O; 1%nat]
       (care_implies_hints limits doms care) false) =
  option_map norm (dumps_cover limits doms care false true true K) /\
  option_map (map norm)
    (lat_list_expr (fun l => l)
       (seq 0 4, map prod_of [[(0,0);(0,1);(2,3);(1,1)]])
       (fun _ => mkHint 3 false (0,7)) false false) =
  Some [conj [ECmp CEq (TVar 0) (TNum 0); EIn (TVar 1) (TNum 0) (TNum 1);
              EIn (TVar 2) (TNum 2) (TNum 3); ECmp CEq (TVar 3) (TNum 1)]].
Proof. exact translated_instance. Qed.

(* non-vacuity of the totality theorems, in ONE example: for the table, care
   set and cover of C08_translated_instance, care implies the type hints (so
   show_dom = true puts clipping into effect), the boxes are printable with
   that flag, and C08_translated_printer_total - every hypothesis discharged
   - gives that the translated printer returns *)
Example C08_printable_instance :
  let limits := [(0, 3); (0, 1)] in
  let doms := [(0, 2); (0, 1)] in
  let care := mem_pt [[0;0]; [0;1]; [1;0]; [1;1]; [2;0]; [2;1]] in
  let K := [[(0,0);(0,1)]; [(2,3);(1,1)]] in
  care_implies_hints limits doms care = true /\
  Forall (printable (if true then care_implies_hints limits doms care else false)
                    doms) K /\
  exists e,
    cov_dumps_cover (fun l => l) (fun l => l) (seq 0 2, map prod_of K)
      ex_vars true true true [O; 1%nat]
      (care_implies_hints limits doms care) false = Some e.
Proof.
  cbv zeta.
  pose proof C08_translated_instance as T. cbv zeta in T.
  destruct T as (H1 & H2 & _).
  assert (Forall (printable true [(0, 2); (0, 1)])
            [[(0,0);(0,1)]; [(2,3);(1,1)]]) as HP.
  { repeat constructor; unfold proper, meets; cbn [fst snd]; try lia;
      intros _; repeat constructor; unfold proper, meets; cbn [fst snd]; lia. }
  split; [exact H2|]. split; [rewrite H2; exact HP|].
  apply (C08_translated_printer_total (fun l => l) (fun l => l)
           (fun l => Permutation_refl l)
           [O; 1%nat] ex_vars [(0, 3); (0, 1)] [(0, 2); (0, 1)]).
  - reflexivity.
  - discriminate.
  - reflexivity.
  - intros i Hi. apply (H1 i Hi).
  - intros i Hi. apply (H1 i Hi).
  - rewrite H2. exact HP.
Qed.

Print Assumptions C08_dnf_equiv_on_care.
Print Assumptions C08_clip_preserves.
Print Assumptions C08_clip_defined.
Print Assumptions C08_disjuncts_sound.
Print Assumptions C08_disjunct_nonempty_clipped.
Print Assumptions C08_disjunct_nonempty_plain.
Print Assumptions C08_box_denotation.
Print Assumptions C08_printed_ok_correct.
Print Assumptions C08_printer_is_translated_code.
Print Assumptions C08_norm_preserves_meaning.
Print Assumptions C08_norm_conj.
Print Assumptions C08_norm_disj.
Print Assumptions C08_list_expr_is_translated_code.
Print Assumptions C08_clip_is_translated_code.
Print Assumptions C08_vertical_op_is_translated_code.
Print Assumptions C08_list_limits_is_translated_code.
Print Assumptions C08_list_type_hints_is_translated_code.
Print Assumptions C08_translated_dnf_equiv_on_care.
Print Assumptions C08_translated_clip_preserves.
Print Assumptions C08_dumps_cover_total.
Print Assumptions C08_translated_printer_total.
Print Assumptions C08_printable_instance.
Print Assumptions C08_translated_instance.
Print Assumptions C08_instance.
