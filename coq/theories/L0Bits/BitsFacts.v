(* L0 / BitsFacts: facts about the bit-vector model of Bits.v. *)
From Coq Require Import ZArith List Bool Lia.
From Omega Require Import L0Bits.Bits.
Import ListNotations.
Open Scope Z_scope.

(* --- bit_length ------------------------------------------------------------ *)
Lemma bit_length_nonneg z : 0 <= bit_length z.
Proof.
  unfold bit_length. destruct (z =? 0); [lia|].
  pose proof (Z.log2_nonneg (Z.abs z)). lia.
Qed.

Lemma bit_length_zero z : bit_length z = 0 <-> z = 0.
Proof.
  unfold bit_length. destruct (Z.eqb_spec z 0); split; intros; try lia.
  pose proof (Z.log2_nonneg (Z.abs z)). lia.
Qed.

Lemma bit_length_abs z : bit_length (Z.abs z) = bit_length z.
Proof.
  unfold bit_length. rewrite Z.abs_involutive.
  destruct (Z.eqb_spec z 0), (Z.eqb_spec (Z.abs z) 0); lia.
Qed.

Lemma bit_length_opp z : bit_length (- z) = bit_length z.
Proof. rewrite <- bit_length_abs, Z.abs_opp. apply bit_length_abs. Qed.

Lemma bit_length_upper z : Z.abs z < 2 ^ bit_length z.
Proof.
  unfold bit_length. destruct (Z.eqb_spec z 0).
  - subst. simpl. lia.
  - assert (0 < Z.abs z) by lia.
    pose proof (Z.log2_spec (Z.abs z) H).
    replace (Z.log2 (Z.abs z) + 1) with (Z.succ (Z.log2 (Z.abs z))) by lia. lia.
Qed.

Lemma bit_length_lower z : z <> 0 -> 2 ^ (bit_length z - 1) <= Z.abs z.
Proof.
  intro n. unfold bit_length. destruct (Z.eqb_spec z 0); [lia|].
  assert (0 < Z.abs z) by lia.
  pose proof (Z.log2_spec (Z.abs z) H).
  replace (Z.log2 (Z.abs z) + 1 - 1) with (Z.log2 (Z.abs z)) by lia. lia.
Qed.

Lemma bit_length_mono a b : 0 <= a <= b -> bit_length a <= bit_length b.
Proof.
  intros [Ha Hab]. unfold bit_length.
  destruct (Z.eqb_spec a 0), (Z.eqb_spec b 0); try lia.
  - pose proof (Z.log2_nonneg (Z.abs b)). lia.
  - rewrite !Z.abs_eq by lia. pose proof (Z.log2_le_mono a b Hab). lia.
Qed.

(* --- uval / sval ----------------------------------------------------------- *)
Lemma b2z_range b : 0 <= Z.b2z b <= 1.
Proof. destruct b; simpl; lia. Qed.

Lemma uval_range l : 0 <= uval l < 2 ^ Z.of_nat (length l).
Proof.
  induction l as [|b r IH].
  - simpl. lia.
  - cbn [uval length]. rewrite Nat2Z.inj_succ, Z.pow_succ_r by lia.
    pose proof (b2z_range b). lia.
Qed.

Lemma uval_app l s :
  uval (l ++ [s]) = uval l + Z.b2z s * 2 ^ Z.of_nat (length l).
Proof.
  induction l as [|b r IH].
  - simpl. change (2 ^ 0) with 1. lia.
  - cbn [app uval length]. rewrite IH, Nat2Z.inj_succ, Z.pow_succ_r by lia. lia.
Qed.

Lemma sval_app_sign l s :
  sval (l ++ [s]) = uval l - Z.b2z s * 2 ^ Z.of_nat (length l).
Proof.
  unfold twos_complement_to_int.
  rewrite removelast_last, last_last, app_length. cbn [length].
  replace (Z.of_nat (length l + 1) - 1) with (Z.of_nat (length l)) by lia. lia.
Qed.

Lemma sval_single s : sval [s] = - Z.b2z s.
Proof. change [s] with ([] ++ [s]). rewrite sval_app_sign. simpl. change (2 ^ 0) with 1. lia. Qed.

Lemma sval_cons b r : r <> [] -> sval (b :: r) = Z.b2z b + 2 * sval r.
Proof.
  intro Hr. destruct (exists_last Hr) as [l [s ->]].
  change (b :: l ++ [s]) with ((b :: l) ++ [s]).
  rewrite !sval_app_sign. cbn [uval length].
  rewrite Nat2Z.inj_succ, Z.pow_succ_r by lia. lia.
Qed.

Lemma sval_range l : l <> [] ->
  - 2 ^ (Z.of_nat (length l) - 1) <= sval l < 2 ^ (Z.of_nat (length l) - 1).
Proof.
  intro Hl. destruct (exists_last Hl) as [r [s ->]].
  rewrite sval_app_sign, app_length. cbn [length].
  replace (Z.of_nat (length r + 1) - 1) with (Z.of_nat (length r)) by lia.
  pose proof (uval_range r). pose proof (b2z_range s).
  destruct s; simpl Z.b2z in *; lia.
Qed.

(* --- zbits ---------------------------------------------------------------- *)
Lemma zbits_length n z : length (zbits n z) = n.
Proof. revert z; induction n; intros; simpl; auto. Qed.

Lemma div2_odd z : z = 2 * Z.div2 z + Z.b2z (Z.odd z).
Proof. apply Z.div2_odd. Qed.

Lemma uval_zbits n z : uval (zbits n z) = z mod 2 ^ Z.of_nat n.
Proof.
  revert z; induction n; intros.
  - simpl. change (2 ^ 0) with 1. rewrite Z.mod_1_r. reflexivity.
  - cbn [zbits uval]. rewrite IHn, Nat2Z.inj_succ, Z.pow_succ_r by lia.
    assert (Hp : 0 < 2 ^ Z.of_nat n) by (apply Z.pow_pos_nonneg; lia).
    rewrite Z.rem_mul_r by lia.
    rewrite Z.div2_div.
    replace (z mod 2) with (Z.b2z (Z.odd z)).
    2:{ rewrite Zmod_odd. destruct (Z.odd z); reflexivity. }
    lia.
Qed.

Lemma zbits_nth n z i : (i < n)%nat ->
  nth i (zbits n z) false = Z.testbit z (Z.of_nat i).
Proof.
  revert z i; induction n; intros z i Hi; [lia|].
  destruct i.
  - simpl. symmetry. apply Z.bit0_odd.
  - cbn [zbits nth]. rewrite IHn by lia.
    rewrite Nat2Z.inj_succ, <- Z.div2_bits, Z.div2_div by lia. reflexivity.
Qed.

Lemma zbits_snoc n z :
  zbits (S n) z = zbits n z ++ [Z.testbit z (Z.of_nat n)].
Proof.
  revert z; induction n; intros.
  - cbn [zbits app Z.of_nat]. rewrite Z.bit0_odd. reflexivity.
  - change (zbits (S (S n)) z) with (Z.odd z :: zbits (S n) (Z.div2 z)).
    rewrite IHn. cbn [zbits app]. f_equal. f_equal. f_equal.
    rewrite Nat2Z.inj_succ, <- Z.div2_bits, Z.div2_div by lia. reflexivity.
Qed.

(* signed: the n low bits of z, read as two's complement, give back z *)
Lemma sval_zbits n z : (1 <= n)%nat ->
  - 2 ^ (Z.of_nat n - 1) <= z < 2 ^ (Z.of_nat n - 1) ->
  sval (zbits n z) = z.
Proof.
  revert z; induction n; intros z Hn Hz; [lia|].
  destruct n.
  - simpl in Hz. change (2 ^ 0) with 1 in Hz.
    cbn [zbits]. rewrite sval_single.
    assert (z = 0 \/ z = -1) as [-> | ->] by lia; reflexivity.
  - cbn [zbits]. rewrite sval_cons by discriminate.
    change (Z.odd (Z.div2 z) :: zbits n (Z.div2 (Z.div2 z)))
      with (zbits (S n) (Z.div2 z)).
    rewrite IHn; [symmetry; rewrite Z.add_comm; apply div2_odd | lia |].
    replace (Z.of_nat (S (S n)) - 1) with (Z.succ (Z.of_nat (S n) - 1)) in Hz by lia.
    rewrite Z.pow_succ_r in Hz by lia.
    pose proof (div2_odd z). pose proof (b2z_range (Z.odd z)). lia.
Qed.

Lemma zbits_sval l : l <> [] -> zbits (length l) (sval l) = l.
Proof.
  induction l as [|b r IH]; intro Hl; [congruence|].
  destruct r as [|c r'].
  - rewrite sval_single. destruct b; reflexivity.
  - rewrite sval_cons by discriminate.
    cbn [length zbits].
    assert (Ho : Z.odd (Z.b2z b + 2 * sval (c :: r')) = b).
    { rewrite Z.odd_add_mul_2. destruct b; reflexivity. }
    assert (Hd : Z.div2 (Z.b2z b + 2 * sval (c :: r')) = sval (c :: r')).
    { rewrite Z.div2_div. generalize (sval (c :: r')); intro x.
      replace (Z.b2z b + 2 * x) with (x * 2 + Z.b2z b) by lia.
      rewrite Z.div_add_l by lia.
      destruct b; [change (Z.b2z true / 2) with 0 | change (Z.b2z false / 2) with 0]; lia. }
    rewrite Ho, Hd. f_equal.
    change (Z.odd (sval (c :: r')) :: zbits (length r') (Z.div2 (sval (c :: r'))))
      with (zbits (length (c :: r')) (sval (c :: r'))).
    apply IH. discriminate.
Qed.

Lemma sval_inj l1 l2 : l1 <> [] -> length l1 = length l2 ->
  sval l1 = sval l2 -> l1 = l2.
Proof.
  intros H1 Hlen Hv.
  assert (H2 : l2 <> []) by (destruct l1, l2; simpl in *; congruence).
  rewrite <- (zbits_sval l1 H1), <- (zbits_sval l2 H2), Hlen, Hv. reflexivity.
Qed.

(* --- hints: the value map is a bijection from bit fields onto limits ------- *)
Lemma pow2_pos n : 0 <= n -> 0 < 2 ^ n.
Proof. intros; apply Z.pow_pos_nonneg; lia. Qed.

Lemma wnat_width h : wf_hint h -> Z.of_nat (wnat h) = h_width h.
Proof. intros [H _]. unfold wnat. lia. Qed.

Lemma append_sign_bit_signed {A} (z o : A) bits h :
  h_signed h = true -> (2 <= length bits)%nat ->
  append_sign_bit z o bits h = Some bits.
Proof.
  intros Hs Hl. unfold append_sign_bit. rewrite Hs.
  destruct (Nat.ltb_spec (length bits) 2); [lia|reflexivity].
Qed.

Lemma append_sign_bit_unsigned {A} (z o : A) bits h :
  wf_hint h -> h_signed h = false ->
  append_sign_bit z o bits h =
    Some (bits ++ [if fst (h_dom h) >=? 0 then z else o]).
Proof.
  intros (Hw & _ & Hd & Hle) Hs. specialize (Hd Hs).
  unfold append_sign_bit. rewrite Hs. destruct (h_dom h) as [mn mx].
  simpl in *.
  destruct (Z.ltb_spec (mn * mx) 0) as [Hm|Hm]; [nia|].
  destruct (Z.geb_spec mn 0); [reflexivity|].
  destruct (Z.ltb_spec mx 0); [reflexivity|lia].
Qed.

Lemma odd_b2z_2x b x : Z.odd (Z.b2z b + 2 * x) = b.
Proof. rewrite Z.odd_add_mul_2. destruct b; reflexivity. Qed.

Lemma div2_b2z_2x b x : Z.div2 (Z.b2z b + 2 * x) = x.
Proof.
  rewrite Z.div2_div. replace (Z.b2z b + 2 * x) with (x * 2 + Z.b2z b) by lia.
  rewrite Z.div_add_l by lia.
  destruct b; [change (Z.b2z true / 2) with 0 | change (Z.b2z false / 2) with 0]; lia.
Qed.

Lemma zbits_uval l k :
  zbits (length l) (uval l + k * 2 ^ Z.of_nat (length l)) = l.
Proof.
  revert k; induction l as [|b r IH]; intro k; [reflexivity|].
  cbn [length zbits uval]. rewrite Nat2Z.inj_succ, Z.pow_succ_r by lia.
  replace (Z.b2z b + 2 * uval r + k * (2 * 2 ^ Z.of_nat (length r)))
    with (Z.b2z b + 2 * (uval r + k * 2 ^ Z.of_nat (length r))) by lia.
  rewrite odd_b2z_2x, div2_b2z_2x, IH. reflexivity.
Qed.

(* every bit field of the declared width has a value, inside the limits, and
   the field is recovered from the value *)
Theorem decode_in_limits h bits : wf_hint h -> length bits = wnat h ->
  exists z, decode_val h bits = Some z /\ in_limits h z = true /\
            encode_val h z = bits.
Proof.
  intros Hwf Hlen. pose proof (wnat_width h Hwf) as Hw.
  pose proof Hwf as (Hw1 & Hs2 & Hd & Hle).
  unfold decode_val, in_limits, limits_of, encode_val.
  destruct (h_signed h) eqn:Hs.
  - specialize (Hs2 eq_refl).
    rewrite append_sign_bit_signed by (auto; lia).
    exists (sval bits). split; [reflexivity|].
    assert (Hne : bits <> []) by (destruct bits; simpl in *; [lia|discriminate]).
    pose proof (sval_range bits Hne) as Hr. rewrite Hlen, Hw in Hr.
    split.
    + cbn [fst snd]. apply andb_true_iff; split; apply Z.leb_le; lia.
    + rewrite <- Hlen. apply zbits_sval; auto.
  - rewrite append_sign_bit_unsigned by auto.
    specialize (Hd eq_refl).
    exists (sval (bits ++ [if fst (h_dom h) >=? 0 then false else true])).
    split; [reflexivity|].
    rewrite sval_app_sign. pose proof (uval_range bits) as Hr.
    pose proof (zbits_uval bits) as Hz.
    rewrite Hlen, Hw in *.
    destruct (Z.geb_spec (fst (h_dom h)) 0); cbn [fst snd Z.b2z].
    + split; [apply andb_true_iff; split; apply Z.leb_le; lia|].
      specialize (Hz 0). rewrite Z.mul_0_l, Z.add_0_r in Hz.
      rewrite Z.mul_0_l, Z.sub_0_r. exact Hz.
    + split; [apply andb_true_iff; split; apply Z.leb_le; lia|].
      specialize (Hz (-1)).
      replace (uval bits - 1 * 2 ^ h_width h) with (uval bits + -1 * 2 ^ h_width h) by lia.
      exact Hz.
Qed.

(* every value inside the limits is the value of its encoding *)
Theorem decode_encode h z : wf_hint h -> in_limits h z = true ->
  decode_val h (encode_val h z) = Some z.
Proof.
  intros Hwf Hin. pose proof (wnat_width h Hwf) as Hw.
  pose proof Hwf as (Hw1 & Hs2 & Hd & Hle).
  unfold decode_val, in_limits, limits_of, encode_val in *.
  apply andb_true_iff in Hin. destruct Hin as [H1 H2].
  apply Z.leb_le in H1. apply Z.leb_le in H2.
  destruct (h_signed h) eqn:Hs.
  - specialize (Hs2 eq_refl). cbn [fst snd] in *.
    rewrite append_sign_bit_signed by (auto; rewrite zbits_length; lia).
    rewrite sval_zbits; [reflexivity | lia | rewrite Hw; lia].
  - rewrite append_sign_bit_unsigned by auto. specialize (Hd eq_refl).
    rewrite sval_app_sign, uval_zbits, zbits_length, Hw.
    pose proof (pow2_pos (h_width h)) as Hp.
    destruct (Z.geb_spec (fst (h_dom h)) 0); cbn [fst snd Z.b2z] in *.
    + rewrite Z.mod_small by lia. f_equal. lia.
    + f_equal. rewrite <- (Z.mod_add z 1) by lia.
      rewrite Z.mod_small by lia. lia.
Qed.

Corollary encode_val_inj h z1 z2 : wf_hint h ->
  in_limits h z1 = true -> in_limits h z2 = true ->
  encode_val h z1 = encode_val h z2 -> z1 = z2.
Proof.
  intros Hwf H1 H2 He.
  pose proof (decode_encode h z1 Hwf H1) as D1.
  pose proof (decode_encode h z2 Hwf H2) as D2.
  rewrite He in D1. congruence.
Qed.

Lemma encode_val_length h z : length (encode_val h z) = wnat h.
Proof. apply zbits_length. Qed.

(* --- sign of bits above the width ------------------------------------------ *)
Lemma testbit_sign x m i : 0 <= m -> - 2 ^ m <= x < 2 ^ m -> m <= i ->
  Z.testbit x i = (x <? 0).
Proof.
  intros Hm Hx Hi.
  assert (Hpi : 2 ^ m <= 2 ^ i) by (apply Z.pow_le_mono_r; lia).
  destruct (Z.ltb_spec x 0) as [Hn|Hn].
  - destruct (Z.eq_dec x (-1)) as [->|Hx1]; [apply Z.bits_m1; lia|].
    apply Z.bits_above_log2_neg; [lia|].
    apply Z.log2_lt_pow2; lia.
  - destruct (Z.eq_dec x 0) as [->|Hx0]; [apply Z.bits_0|].
    apply Z.bits_above_log2; [lia|].
    apply Z.log2_lt_pow2; lia.
Qed.

Lemma zbits_extend n k x : (1 <= n)%nat ->
  - 2 ^ (Z.of_nat n - 1) <= x < 2 ^ (Z.of_nat n - 1) ->
  zbits (n + k) x = zbits n x ++ repeat (x <? 0) k.
Proof.
  intros Hn Hx. induction k.
  - rewrite Nat.add_0_r, app_nil_r. reflexivity.
  - rewrite Nat.add_succ_r, zbits_snoc, IHk.
    rewrite (testbit_sign x (Z.of_nat n - 1)) by lia.
    rewrite <- app_assoc. f_equal.
    change (repeat (x <? 0) k ++ [x <? 0]) with (repeat (x <? 0) k ++ repeat (x <? 0) 1).
    rewrite <- repeat_app. f_equal. lia.
Qed.

(* --- int_to_twos_complement ------------------------------------------------- *)
Lemma itc_length x :
  length (int_to_twos_complement x) = S (Z.to_nat (Z.max (bit_length x) 1)).
Proof.
  unfold int_to_twos_complement. rewrite app_length, zbits_length. simpl. lia.
Qed.

Theorem itc_sval x : sval (int_to_twos_complement x) = x.
Proof.
  unfold int_to_twos_complement.
  rewrite sval_app_sign, uval_zbits, zbits_length.
  pose proof (bit_length_nonneg x) as Hn. pose proof (bit_length_upper x) as Hu.
  rewrite Z2Nat.id by lia.
  assert (Hp : 2 ^ bit_length x <= 2 ^ Z.max (bit_length x) 1)
    by (apply Z.pow_le_mono_r; lia).
  destruct (Z.geb_spec x 0) as [Hx|Hx].
  - destruct (Z.ltb_spec x 0); [lia|]. cbn [Z.b2z].
    rewrite Z.mod_small by lia. lia.
  - destruct (Z.ltb_spec x 0); [|lia]. cbn [Z.b2z].
    assert (bit_length x <> 0) by (rewrite bit_length_zero; lia).
    rewrite Z.max_l by lia.
    rewrite Z.mod_small by lia. lia.
Qed.

Lemma itc_range x :
  let n := length (int_to_twos_complement x) in
  - 2 ^ (Z.of_nat n - 1) <= x < 2 ^ (Z.of_nat n - 1).
Proof.
  intro n. pose proof (sval_range (int_to_twos_complement x)) as H.
  rewrite itc_sval in H. apply H.
  unfold int_to_twos_complement. intro E. apply app_eq_nil in E. destruct E; discriminate.
Qed.

Lemma itc_zbits x :
  int_to_twos_complement x = zbits (length (int_to_twos_complement x)) x.
Proof.
  rewrite <- (itc_sval x) at 3. symmetry. apply zbits_sval.
  unfold int_to_twos_complement. intro E. apply app_eq_nil in E. destruct E; discriminate.
Qed.

Lemma itc_last x : last (int_to_twos_complement x) false = (x <? 0).
Proof. unfold int_to_twos_complement. apply last_last. Qed.

(* sign extension of the integer's vector = the n low bits of the integer *)
Lemma sign_extension_itc x n :
  (length (int_to_twos_complement x) <= n)%nat ->
  sign_extension false (int_to_twos_complement x) n = Some (zbits n x).
Proof.
  intro Hn. unfold sign_extension.
  pose proof (itc_length x) as Hl.
  destruct (Nat.ltb_spec (length (int_to_twos_complement x)) 2); [lia|].
  destruct (Nat.ltb_spec n (length (int_to_twos_complement x))); [lia|].
  f_equal. rewrite itc_last.
  replace n with (length (int_to_twos_complement x) +
                  (n - length (int_to_twos_complement x)))%nat at 2 by lia.
  rewrite zbits_extend; [rewrite <- itc_zbits; reflexivity | lia | apply itc_range].
Qed.

(* --- dictionaries ----------------------------------------------------------- *)
Lemma dict_set_fresh {V} k (v : V) d : ~ In k (map fst d) ->
  dict_set Nat.eqb k v d = d ++ [(k, v)].
Proof.
  induction d as [|[k' v'] r IH]; intro H; [reflexivity|].
  cbn [dict_set]. destruct (Nat.eqb_spec k k').
  - exfalso. apply H. left. auto.
  - cbn [app]. f_equal. apply IH. intro; apply H; right; auto.
Qed.

Lemma dict_set_same {V} k (v : V) d : dict_get Nat.eqb k d = Some v ->
  dict_set Nat.eqb k v d = d.
Proof.
  induction d as [|[k' v'] r IH]; intro H; [discriminate|].
  cbn [dict_set dict_get] in *. destruct (Nat.eqb_spec k k').
  - congruence.
  - f_equal. auto.
Qed.

Lemma dict_get_combine_seq {V} (vs : list V) i dflt : (i < length vs)%nat ->
  dict_get Nat.eqb i (combine (seq 0 (length vs)) vs) = Some (nth i vs dflt).
Proof.
  intro Hi.
  assert (G : forall (a : nat) (l : list V) (j : nat), (j < length l)%nat ->
     dict_get Nat.eqb (a + j)%nat (combine (seq a (length l)) l) = Some (nth j l dflt)).
  { intros a l; revert a; induction l as [|x l IH]; intros a j Hj; [simpl in Hj; lia|].
    cbn [length seq combine dict_get]. destruct j.
    - rewrite Nat.add_0_r, Nat.eqb_refl. reflexivity.
    - destruct (Nat.eqb_spec (a + S j) a); [lia|].
      replace (a + S j)%nat with (S a + j)%nat by lia. apply IH. simpl in Hj; lia. }
  apply (G 0%nat vs i Hi).
Qed.

Lemma map_fst_combine' {A B} (l : list A) (l' : list B) :
  length l = length l' -> map fst (combine l l') = l.
Proof.
  revert l'; induction l; destruct l'; simpl; intros; try congruence.
  f_equal; auto.
Qed.

Lemma map_snd_combine' {A B} (l : list A) (l' : list B) :
  length l = length l' -> map snd (combine l l') = l'.
Proof.
  revert l'; induction l; destruct l'; simpl; intros; try congruence.
  f_equal; auto.
Qed.

Lemma combine_app' {A B} (l1 l2 : list A) (m1 m2 : list B) :
  length l1 = length m1 ->
  combine (l1 ++ l2) (m1 ++ m2) = combine l1 m1 ++ combine l2 m2.
Proof.
  revert m1; induction l1; destruct m1; simpl; intros; try congruence.
  f_equal; auto.
Qed.

(* --- fol._int_to_bit_assignment -------------------------------------------- *)
Lemma zip_assign_names k : forall a vs l1 p' q',
  length vs = a -> length l1 = k ->
  zip_assign (map VName (seq a k) ++ p') (l1 ++ q') (combine (seq 0 a) vs) =
  zip_assign p' q' (combine (seq 0 (a + k)) (vs ++ l1)).
Proof.
  induction k; intros a vs l1 p' q' Hvs Hl1.
  - destruct l1; [|discriminate]. rewrite Nat.add_0_r, app_nil_r. reflexivity.
  - destruct l1 as [|v l1]; [discriminate|].
    cbn [seq map app zip_assign].
    rewrite dict_set_fresh.
    2:{ rewrite map_fst_combine' by (rewrite seq_length; auto). rewrite in_seq. lia. }
    replace (combine (seq 0 a) vs ++ [(a, v)])
      with (combine (seq 0 (S a)) (vs ++ [v])).
    2:{ rewrite seq_S, combine_app' by (rewrite seq_length; auto). reflexivity. }
    rewrite IHk; [|rewrite app_length; simpl; lia | simpl in Hl1; lia].
    rewrite <- app_assoc. cbn [app]. f_equal. f_equal. f_equal. lia.
Qed.

Lemma zip_assign_const_tail s k : forall q' acc,
  Forall (fun b => b = s) q' ->
  zip_assign (repeat (VConst s) k) q' acc = Some acc.
Proof.
  induction k; intros q' acc H; destruct q'; simpl; auto.
  inversion H; subst. rewrite eqb_reflx. auto.
Qed.

Lemma zip_assign_name_tail i v k : forall q' acc,
  Forall (fun b => b = v) q' -> dict_get Nat.eqb i acc = Some v ->
  zip_assign (repeat (VName i) k) q' acc = Some acc.
Proof.
  induction k; intros q' acc H G; destruct q'; simpl; auto.
  inversion H; subst. rewrite dict_set_same by auto. auto.
Qed.

Lemma zbits_extend' n k x : - 2 ^ Z.of_nat n <= x < 2 ^ Z.of_nat n ->
  zbits (n + k) x = zbits n x ++ repeat (x <? 0) k.
Proof.
  intros Hx. induction k.
  - rewrite Nat.add_0_r, app_nil_r. reflexivity.
  - rewrite Nat.add_succ_r, zbits_snoc, IHk.
    rewrite (testbit_sign x (Z.of_nat n)) by lia.
    rewrite <- app_assoc. f_equal.
    change (repeat (x <? 0) k ++ [x <? 0]) with (repeat (x <? 0) k ++ repeat (x <? 0) 1).
    rewrite <- repeat_app. f_equal. lia.
Qed.

Lemma Forall_repeat {A} (P : A -> Prop) x k : P x -> Forall P (repeat x k).
Proof. intro; induction k; simpl; constructor; auto. Qed.

(* a value inside the limits is assigned bit by bit: bit i gets the i-th
   two's-complement digit of the value; nothing else is assigned *)
Theorem int_to_bit_assignment_spec h z : wf_hint h -> in_limits h z = true ->
  int_to_bit_assignment h z = Some (combine (seq 0 (wnat h)) (encode_val h z)).
Proof.
  intros Hwf Hin. pose proof (wnat_width h Hwf) as Hw.
  pose proof Hwf as (Hw1 & Hs2 & Hd & Hle).
  unfold in_limits, limits_of in Hin.
  apply andb_true_iff in Hin. destruct Hin as [H1 H2].
  apply Z.leb_le in H1. apply Z.leb_le in H2.
  set (w := wnat h) in *.
  assert (Hw0 : (1 <= w)%nat) by lia.
  assert (Hrange : - 2 ^ Z.of_nat w <= z < 2 ^ Z.of_nat w).
  { rewrite Hw. pose proof (pow2_pos (h_width h)).
    destruct (h_signed h); cbn [fst snd] in *.
    - assert (2 ^ (h_width h - 1) <= 2 ^ h_width h) by (apply Z.pow_le_mono_r; lia). lia.
    - destruct (fst (h_dom h) >=? 0); cbn [fst snd] in *; lia. }
  unfold int_to_bit_assignment, var_to_twos_complement, equalize_width.
  fold w.
  set (q0 := int_to_twos_complement z).
  pose proof (itc_length z) as Hq0. fold q0 in Hq0.
  assert (Hseq : seq 0 w = seq 0 (w - 1) ++ [(w - 1)%nat]).
  { replace w with (S (w - 1)) at 1 by lia. rewrite seq_S. reflexivity. }
  destruct (h_signed h) eqn:Hs.
  - specialize (Hs2 eq_refl). cbn [fst snd] in *.
    rewrite append_sign_bit_signed by (auto; rewrite map_length, seq_length; lia).
    rewrite map_length, seq_length.
    set (n := Nat.max w (length q0)).
    unfold q0 at 1. rewrite sign_extension_itc by (fold q0; lia).
    unfold sign_extension. rewrite map_length, seq_length.
    destruct (Nat.ltb_spec w 2); [lia|].
    destruct (Nat.ltb_spec n w); [lia|].
    assert (Hlast : last (map VName (seq 0 w)) (VConst false) = VName (w - 1)).
    { rewrite Hseq, map_app. apply last_last. }
    rewrite Hlast.
    replace n with (w + (n - w))%nat at 2 by lia.
    rewrite zbits_extend' by auto.
    change (combine (seq 0 w) (encode_val h z))
      with (combine (seq 0 w) (zbits w z)).
    pose proof (zip_assign_names w 0%nat [] (zbits w z)
                  (repeat (VName (w - 1)) (n - w)) (repeat (z <? 0) (n - w))
                  eq_refl (zbits_length w z)) as Hz.
    cbn [combine seq app plus] in Hz. cbn [combine]. rewrite Hz.
    apply zip_assign_name_tail with (v := (z <? 0)).
    + apply Forall_repeat. reflexivity.
    + rewrite <- (zbits_length w z) at 2.
      rewrite (dict_get_combine_seq _ _ false) by (rewrite zbits_length; lia).
      rewrite zbits_nth by lia.
      rewrite (testbit_sign z (h_width h - 1)); [reflexivity | lia | lia | lia].
  - rewrite append_sign_bit_unsigned by auto. specialize (Hd eq_refl).
    set (s := if fst (h_dom h) >=? 0 then false else true).
    rewrite app_length, map_length, seq_length. cbn [length].
    set (n := Nat.max (w + 1) (length q0)).
    unfold q0 at 1. rewrite sign_extension_itc by (fold q0; lia).
    unfold sign_extension. rewrite app_length, map_length, seq_length. cbn [length].
    destruct (Nat.ltb_spec (w + 1) 2); [lia|].
    destruct (Nat.ltb_spec n (w + 1)); [lia|].
    rewrite last_last, <- app_assoc.
    replace (if fst (h_dom h) >=? 0 then VConst false else VConst true)
      with (VConst s) by (unfold s; destruct (fst (h_dom h) >=? 0); reflexivity).
    change ([VConst s] ++ repeat (VConst s) (n - (w + 1)))
      with (repeat (VConst s) (S (n - (w + 1)))).
    replace n with (w + (n - w))%nat at 2 by lia.
    rewrite zbits_extend' by auto.
    change (combine (seq 0 w) (encode_val h z))
      with (combine (seq 0 w) (zbits w z)).
    pose proof (zip_assign_names w 0%nat [] (zbits w z)
                  (repeat (VConst s) (S (n - (w + 1)))) (repeat (z <? 0) (n - w))
                  eq_refl (zbits_length w z)) as Hz.
    cbn [combine seq app plus] in Hz. cbn [combine]. rewrite Hz.
    apply zip_assign_const_tail. apply Forall_repeat.
    unfold s. destruct (Z.geb_spec (fst (h_dom h)) 0); cbn [fst snd] in *;
      destruct (Z.ltb_spec z 0); auto; lia.
Qed.

(* a signed variable's out-of-range value wraps (DESIGN C07 note): recorded
   behaviour, outside the quantifier of C07 *)
Example int_to_bit_assignment_wraps_signed :
  int_to_bit_assignment (mkHint 3 true (-3, 2)) 9 =
  Some (combine (seq 0 3) (encode_val (mkHint 3 true (-3, 2)) 1)).
Proof. vm_compute. reflexivity. Qed.

(* a sign-definite variable's out-of-range value is rejected *)
Example int_to_bit_assignment_rejects_unsigned :
  int_to_bit_assignment (mkHint 2 false (0, 3)) 5 = None /\
  int_to_bit_assignment (mkHint 2 false (0, 3)) (-1) = None /\
  int_to_bit_assignment (mkHint 2 false (-4, -1)) 0 = None.
Proof. vm_compute. auto. Qed.

(* --- enumeration._enumerate_int --------------------------------------------- *)
Lemma enumerate_int_from_cons j b c r :
  enumerate_int_from j (b :: c :: r) =
  flat_map (fun v => match b with
                     | None => [v; v + 2 ^ j]
                     | Some b => [v + 2 ^ j * Z.b2z b]
                     end) (enumerate_int_from (j + 1) (c :: r)).
Proof. reflexivity. Qed.

Lemma expand_cons b c r :
  expand (b :: c :: r) =
  flat_map (fun l => match b with
                     | None => [false :: l; true :: l]
                     | Some b => [b :: l]
                     end) (expand (c :: r)).
Proof. reflexivity. Qed.

Lemma expand_length bs l : In l (expand bs) -> length l = length bs.
Proof.
  revert l; induction bs as [|b rest IH]; intros l H; [destruct H|].
  destruct rest as [|c r].
  - destruct b as [b|]; simpl in H; intuition; subst; reflexivity.
  - rewrite expand_cons in H. apply in_flat_map in H. destruct H as [l' [Hl' H]].
    apply IH in Hl'. destruct b as [b|]; simpl in H; intuition; subst; simpl; auto.
Qed.

Lemma flat_map_map_pointwise {A B C} (f : B -> list C) (g : A -> B)
    (h : A -> list C) L :
  (forall x, In x L -> f (g x) = h x) -> flat_map f (map g L) = flat_map h L.
Proof.
  induction L; simpl; intros H; auto. rewrite H by auto. f_equal. auto.
Qed.

Lemma map_flat_map {A B C} (f : B -> C) (e : A -> list B) L :
  map f (flat_map e L) = flat_map (fun x => map f (e x)) L.
Proof. induction L; simpl; auto. rewrite map_app. f_equal; auto. Qed.

Lemma enumerate_expand bs : forall j, 0 <= j ->
  enumerate_int_from j bs = map (fun l => 2 ^ j * sval l) (expand bs).
Proof.
  induction bs as [|b rest IH]; intros j Hj; [reflexivity|].
  destruct rest as [|c r].
  - destruct b as [b|]; cbn [enumerate_int_from expand map]; rewrite ?sval_single.
    + f_equal. lia.
    + simpl Z.b2z. f_equal; [lia|]. f_equal. lia.
  - rewrite enumerate_int_from_cons, expand_cons, IH by lia.
    rewrite map_flat_map. apply flat_map_map_pointwise.
    intros l Hl. apply expand_length in Hl.
    assert (l <> []) by (destruct l; simpl in *; congruence).
    assert (Hp : 2 ^ (j + 1) = 2 * 2 ^ j) by (rewrite Z.pow_add_r by lia; lia).
    destruct b as [b|]; cbn [map]; rewrite !sval_cons by auto; rewrite Hp.
    + f_equal. destruct b; simpl Z.b2z; lia.
    + simpl Z.b2z. f_equal; [lia|]. f_equal. lia.
Qed.

Lemma in_expand bs l : bs <> [] -> (In l (expand bs) <-> agrees bs l).
Proof.
  unfold agrees. revert l; induction bs as [|b rest IH]; intros l Hne; [congruence|].
  destruct rest as [|c r].
  - split.
    + intro H. destruct b as [b|]; simpl in H; intuition; subst;
        (constructor; [auto|constructor]).
    + intro H. inversion H as [|? x ? l' Hb Hr]; subst. inversion Hr; subst.
      destruct b as [b|]; simpl.
      * destruct Hb as [|Hb]; [discriminate|]. inversion Hb; auto.
      * destruct x; auto.
  - rewrite expand_cons, in_flat_map. split.
    + intros [l' [Hl' H]]. apply IH in Hl'; [|discriminate].
      destruct b as [b|]; simpl in H; intuition; subst; constructor; auto.
    + intro H. inversion H as [|? x ? l' Hb Hr]; subst.
      exists l'. split; [apply IH; [discriminate|auto]|].
      destruct b as [b|]; simpl.
      * destruct Hb as [|Hb]; [discriminate|]. inversion Hb; auto.
      * destruct x; auto.
Qed.

Lemma NoDup_expand bs : NoDup (expand bs).
Proof.
  induction bs as [|b rest IH]; [constructor|].
  destruct rest as [|c r].
  - destruct b as [b|]; simpl; repeat constructor; simpl; intuition; discriminate.
  - rewrite expand_cons. revert IH. generalize (expand (c :: r)) as L.
    induction L as [|a L IHL]; intro ND; [constructor|].
    inversion ND; subst. cbn [flat_map].
    assert (G : forall x, ~ In (x :: a)
       (flat_map (fun l => match b with
                           | Some b0 => [b0 :: l]
                           | None => [false :: l; true :: l] end) L)).
    { intros x Hin. apply in_flat_map in Hin. destruct Hin as [l' [Hl' Hin]].
      destruct b; simpl in Hin; intuition; congruence. }
    destruct b as [b|]; cbn [app].
    + constructor; auto.
    + constructor.
      * simpl. intros [E|Hin]; [discriminate|]. eapply G; eauto.
      * constructor; auto.
Qed.

Lemma NoDup_map_inj_on {A B} (f : A -> B) l :
  (forall x y, In x l -> In y l -> f x = f y -> x = y) ->
  NoDup l -> NoDup (map f l).
Proof.
  induction l; intros Hinj ND; simpl; [constructor|].
  inversion ND; subst. constructor.
  - intro Hin. apply in_map_iff in Hin. destruct Hin as [y [Hy Hin]].
    assert (y = a) by (apply Hinj; simpl; auto). subst. auto.
  - apply IHl; auto. intros; apply Hinj; simpl; auto.
Qed.

(* the values enumerated from a partial bit vector are exactly the values of
   the total vectors that agree with it, each once *)
Theorem enumerate_int_spec bs : bs <> [] ->
  (forall v, In v (enumerate_int bs) <-> exists l, agrees bs l /\ sval l = v) /\
  NoDup (enumerate_int bs).
Proof.
  intro Hne. unfold enumerate_int. rewrite enumerate_expand by lia.
  change (2 ^ 0) with 1. split.
  - intro v. rewrite in_map_iff. split.
    + intros [l [Hv Hl]]. exists l. split; [apply in_expand; auto | lia].
    + intros [l [Ha Hv]]. exists l. split; [lia | apply in_expand; auto].
  - apply NoDup_map_inj_on; [|apply NoDup_expand].
    intros x y Hx Hy E.
    apply expand_length in Hx as Lx. apply expand_length in Hy.
    apply sval_inj; [destruct x, bs; simpl in *; congruence | congruence | lia].
Qed.

Lemma agrees_length bs l : agrees bs l -> length l = length bs.
Proof. unfold agrees. intro H. induction H; simpl; auto. Qed.

Lemma length_flat_map_const {A B} (e : A -> list B) k L :
  (forall l, length (e l) = k) -> length (flat_map e L) = (k * length L)%nat.
Proof. intros He. induction L; simpl; [lia|]. rewrite app_length, He. lia. Qed.

(* number of values = 2 ^ (number of unassigned bits) *)
Lemma expand_count bs : bs <> [] ->
  Z.of_nat (length (expand bs)) =
  2 ^ Z.of_nat (length (filter (fun b => match b with None => true | _ => false end) bs)).
Proof.
  induction bs as [|b rest IH]; intro Hne; [congruence|].
  destruct rest as [|c r].
  - destruct b; reflexivity.
  - specialize (IH ltac:(discriminate)).
    rewrite expand_cons. set (L := expand (c :: r)) in *.
    set (cr := c :: r) in *. clearbody L cr.
    destruct b as [b|].
    + rewrite (length_flat_map_const _ 1%nat) by reflexivity. cbn [filter]. rewrite <- IH. lia.
    + rewrite (length_flat_map_const _ 2%nat) by reflexivity.
      cbn [filter length]. rewrite Nat2Z.inj_succ, Z.pow_succ_r by lia.
      rewrite <- IH. lia.
Qed.
