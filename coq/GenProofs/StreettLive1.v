(* Classification of the steps the Streett transducer model allows when the
   environment keeps its action (arbitrary iterate lists): every such step is
   a goal switch (rho_1), a descent to an earlier layer (rho_2), or a stay in
   a persistence trap (rho_3), with the exact side conditions. *)
From Coq Require Import List Bool Arith Lia.
Import ListNotations.
From Omega Require Import L4.Arena L4.ArenaFacts L4.Kleene L4.GameSpec.
From OmegaGen Require Import FixpointGen Gr1Gen.
From OmegaGP Require Import TransducerModel CaSpec StreettTProofs StreettNB1 StreettClosure1.

Section Live1.
Variables nc nx ny G : nat.
Variables E S : bdd.
Variables holds goals : list bdd.
Variables moore plus_one : bool.
Variables (z : bdd) (yij : list (list bdd)) (xijk : list (list (list bdd))).

Local Notation nyE := (ny * G).
Local Notation band := (Arena.band nc nx nyE).
Local Notation bor := (Arena.bor nc nx nyE).
Local Notation bnot := (Arena.bnot nc nx nyE).
Local Notation inr := (inr nc nx nyE).
Local Notation ca := (Gr1Gen.controllable_action nc nx nyE E S moore plus_one 0).
Local Notation F2 := (F2 nc nx ny G E S moore plus_one).
Local Notation F3 := (F3 nc nx ny G E S moore plus_one).
Local Notation basin_of := (basin_of nc nx ny G).
Local Notation used_of := (used_of nc nx ny G).

(* under E, a controllable action reaches its target and implies its extra *)
Lemma ca_env_target T e v :
  inr v -> ca T e v = true -> E v = true ->
  T (nextpt v) = true /\ match e with Some e => e v = true | None => True end.
Proof.
  intros Hv Hc He. rewrite ca_is_spec in Hc. unfold ca_spec in Hc.
  assert (Hpsi : psi E S plus_one T e v = true).
  { destruct moore; [|exact Hc]. rewrite forallb_forall in Hc.
    specialize (Hc _ (inr_vxp' nc nx ny G v Hv)).
    replace (setg Envp v (vxp v)) with v in Hc by (destruct v; reflexivity). exact Hc. }
  unfold psi in Hpsi. fold (nextpt v) in Hpsi. rewrite He in Hpsi.
  destruct plus_one; cbn [negb orb] in Hpsi.
  - apply andb_true_iff in Hpsi. destruct Hpsi as [_ Hpsi].
    apply andb_true_iff in Hpsi. destruct Hpsi as [H1 H2]. split; [exact H1|].
    destruct e; [exact H2|exact I].
  - apply andb_true_iff in Hpsi. destruct Hpsi as [_ Hpsi].
    apply andb_true_iff in Hpsi. destruct Hpsi as [H1 H2]. split; [exact H1|].
    destruct e; [exact H2|exact I].
Qed.

(* converse of F2_member *)
Lemma F2_inv l : forall r0 b0 v,
  fst (fold_left F2 l (r0, b0)) v = true ->
  r0 v = true \/
  exists l1 y l2, l = l1 ++ y :: l2 /\ y v = true /\ basin_of b0 l1 v = false /\
                  ca (basin_of b0 l1) None v = true.
Proof.
  induction l as [|y l IH]; intros r0 b0 v; cbn [fold_left]; [auto|].
  unfold StreettNB1.F2 at 2. intros Hf. destruct (IH _ _ _ Hf) as [H|[l1 [y1 [l2 [Hl [H1 [H2 H3]]]]]]].
  - rewrite bor_spec in H. apply orb_true_iff in H. destruct H as [H|H]; [auto|].
    right. exists [], y, l. rewrite !band_spec, bnot_spec in H.
    apply andb_true_iff in H. destruct H as [H Hc]. apply andb_true_iff in H.
    destruct H as [Hy Hb]. apply negb_true_iff in Hb.
    cbn [app StreettNB1.basin_of fold_left]. auto.
  - right. exists (y :: l1), y1, l2. rewrite Hl. cbn [app StreettNB1.basin_of fold_left] in *. auto.
Qed.

Lemma F3_inv l : forall r0 u0 v,
  fst (fold_left F3 l (r0, u0)) v = true ->
  r0 v = true \/
  exists l1 x h l2, l = l1 ++ (x, h) :: l2 /\ x v = true /\ used_of u0 l1 v = false /\
                    ca x None v = true /\ h v = true.
Proof.
  induction l as [|[x h] l IH]; intros r0 u0 v; cbn [fold_left]; [auto|].
  unfold StreettNB1.F3 at 2. intros Hf.
  destruct (IH _ _ _ Hf) as [H|[l1 [x1 [h1 [l2 [Hl [H1 [H2 [H3 H4]]]]]]]]].
  - rewrite bor_spec in H. apply orb_true_iff in H. destruct H as [H|H]; [auto|].
    right. exists [], x, h, l. rewrite !band_spec, bnot_spec in H.
    apply andb_true_iff in H. destruct H as [H Hh]. apply andb_true_iff in H.
    destruct H as [H Hc]. apply andb_true_iff in H. destruct H as [Hx Hu].
    apply negb_true_iff in Hu. cbn [app StreettNB1.used_of fold_left]. auto 6.
  - right. exists ((x, h) :: l1), x1, h1, l2. rewrite Hl.
    cbn [app StreettNB1.used_of fold_left fst] in *. auto 6.
Qed.

Lemma outer_inv {A} (term : nat -> A -> bdd) l : forall k acc v,
  fold_left (fun acc '(i, a) => bor acc (term i a)) (enumerate k l) acc v = true ->
  acc v = true \/ exists j a, nth_error l j = Some a /\ term (k + j) a v = true.
Proof.
  induction l as [|a l IH]; intros k acc v; cbn [enumerate fold_left]; [auto|].
  intros Hf. destruct (IH _ _ _ Hf) as [H|[j [a' [Hj Ht]]]].
  - rewrite bor_spec in H. apply orb_true_iff in H. destruct H as [H|H]; [auto|].
    right. exists 0, a. rewrite Nat.add_0_r. auto.
  - right. exists (Datatypes.S j), a'. cbn [nth_error]. split; [exact Hj|].
    rewrite Nat.add_succ_r. exact Ht.
Qed.

(* the three kinds of steps *)
Inductive kind (v : V) : Prop :=
| k_switch i goal :
    nth_error goals i = Some goal -> cnt G v = i -> cntp G v = (i + 1) mod length goals ->
    goal v = true -> z (nextpt v) = true -> kind v
| k_descend i yj l1 y l2 :
    nth_error yij i = Some yj -> tl yj = l1 ++ y :: l2 ->
    cnt G v = i -> cntp G v = i ->
    y v = true -> basin_of (hd bfalse yj) l1 v = false ->
    basin_of (hd bfalse yj) l1 (nextpt v) = true -> kind v
| k_stay i xjk l1 x h l2 :
    nth_error xijk i = Some xjk -> flat3 holds xjk = l1 ++ (x, h) :: l2 ->
    cnt G v = i -> cntp G v = i ->
    x v = true -> used_of bfalse l1 v = false -> h v = true ->
    x (nextpt v) = true -> kind v.

Lemma count_eq_true i ip v :
  count_eq nc nx ny G i ip v = true -> cnt G v = i /\ cntp G v = ip.
Proof.
  unfold count_eq. rewrite memo_id, andb_true_iff, !Nat.eqb_eq. auto.
Qed.

Theorem streett_step_kinds v :
  inr v ->
  streett_action nc nx ny G E S holds goals moore plus_one z yij xijk v = true ->
  E v = true -> kind v.
Proof.
  intros Hv HA He.
  assert (Hu0 : (bor (bor (rho_1 nc nx ny G E S goals moore plus_one z)
                          (rho_2 nc nx ny G E S moore plus_one yij))
                     (rho_3 nc nx ny G E S holds moore plus_one xijk)) v = true).
  { unfold streett_action in HA. cbv zeta in HA. destruct plus_one; cbn [negb] in HA.
    - rewrite band_spec in HA. apply andb_true_iff in HA. apply HA.
    - destruct moore.
      + rewrite forall_spec in HA. cbn [forall_raw dom] in HA. rewrite forallb_forall in HA.
        specialize (HA _ (inr_vxp' nc nx ny G v Hv)).
        replace (setg Envp v (vxp v)) with v in HA by (destruct v; reflexivity).
        rewrite bor_spec, bnot_spec, He in HA. cbn [negb] in HA. rewrite orb_false_r in HA.
        rewrite band_spec in HA. apply andb_true_iff in HA. apply HA.
      + rewrite bor_spec, bnot_spec, He in HA. cbn [negb] in HA. rewrite orb_false_r in HA.
        rewrite band_spec in HA. apply andb_true_iff in HA. apply HA. }
  rewrite !bor_spec in Hu0. apply orb_true_iff in Hu0. destruct Hu0 as [Hu0|H3].
  apply orb_true_iff in Hu0. destruct Hu0 as [H1|H2].
  - (* rho_1 *)
    unfold rho_1 in H1. cbv zeta in H1.
    destruct (ca_env_target _ _ v Hv H1 He) as [Hz Htng].
    destruct (outer_inv (fun i goal => band (count_eq nc nx ny G i ((i + 1) mod length goals)) goal)
                goals 0 bfalse v Htng) as [Hf|[j [goal [Hj Ht]]]]; [discriminate|].
    cbn [Nat.add] in Ht. rewrite band_spec in Ht. apply andb_true_iff in Ht.
    destruct Ht as [Hc Hg]. destruct (count_eq_true _ _ _ Hc) as [C1 C2].
    apply (k_switch v j goal Hj C1 C2 Hg Hz).
  - (* rho_2 *)
    rewrite rho_2_alt in H2.
    destruct (outer_inv (fun i yj => band (fst (fold_left F2 (tl yj) (bfalse, hd bfalse yj)))
                                          (count_eq nc nx ny G i i)) yij 0 bfalse v H2)
      as [Hf|[j [yj [Hj Ht]]]]; [discriminate|].
    cbn [Nat.add] in Ht. rewrite band_spec in Ht. apply andb_true_iff in Ht.
    destruct Ht as [Hf Hc]. destruct (count_eq_true _ _ _ Hc) as [C1 C2].
    destruct (F2_inv _ _ _ _ Hf) as [Hb|[l1 [y [l2 [Hl [Hy [Hb Hca]]]]]]]; [discriminate|].
    destruct (ca_env_target _ _ v Hv Hca He) as [Ht _].
    apply (k_descend v j yj l1 y l2 Hj Hl C1 C2 Hy Hb Ht).
  - (* rho_3 *)
    rewrite rho_3_alt in H3.
    destruct (outer_inv (fun i xjk => band (fst (fold_left F3 (flat3 holds xjk) (bfalse, bfalse)))
                                           (count_eq nc nx ny G i i)) xijk 0 bfalse v H3)
      as [Hf|[j [xjk [Hj Ht]]]]; [discriminate|].
    cbn [Nat.add] in Ht. rewrite band_spec in Ht. apply andb_true_iff in Ht.
    destruct Ht as [Hf Hc]. destruct (count_eq_true _ _ _ Hc) as [C1 C2].
    destruct (F3_inv _ _ _ _ Hf) as [Hb|[l1 [x [h [l2 [Hl [Hx [Hu [Hca Hh]]]]]]]]]; [discriminate|].
    destruct (ca_env_target _ _ v Hv Hca He) as [Ht _].
    apply (k_stay v j xjk l1 x h l2 Hj Hl C1 C2 Hx Hu Hh Ht).
Qed.

End Live1.
