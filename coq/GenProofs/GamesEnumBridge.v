(* GenProofs / GamesEnumBridge: tie T for C12.

   gen/GamesEnumGen.v is regenerated on every run by
   tools/py2coq_games_enum.py from the CURRENT omega/games/enumeration.py
   (action_to_steps, _action_to_steps, _select_candidate_nodes,
   _primed_vars_per_quantifier, _init_search, the four initial-value
   searches, _find_node, _add_new_node, _node_tuple).  This file, re-checked
   on every run, proves

   1. each generated function EQUALS (Leibniz, for all arguments, by
      conversion) the function of the code-level model L4Enum/EnumCode.v;
      renaming a local or splitting an expression keeps the two convertible,
      a change of what is computed does not ([gen_is_code]);
   2. hence the theorems of L4Enum/EnumCodeProofs.v (the code-level model is
      simulated by the abstract worklist model EnumModel.v, for every `pick` /
      `pick_iter` meeting the contracts of EnumContracts.v) hold of the
      generated functions: whatever graph the generated action_to_steps
      returns passes the verified checker check_graph, its initial nodes are
      the first nodes, are those recorded in g.initial_nodes and follow the
      requested qinit pattern, and the fuel of `while queue:` is never what
      stops it. *)
From Coq Require Import List Bool Arith String.
Import ListNotations.
From Omega Require Import L4Enum.EnumModel L4Enum.EnumProofs L4Enum.EnumOrder
  L4Enum.EnumOrderProofs L4Enum.EnumArena L4Enum.EnumArenaProofs
  L4Enum.EnumContracts L4Enum.EnumCode L4Enum.EnumCodeProofs.
From OmegaGen Require Import GamesEnumGen.

(* ---- 1. generated code = code-level model ------------------------------------ *)
Section Eq.
Variables nx ny : nat.
Variable pick : bdd -> list var -> option asg.
Variable pick_iter : bdd -> list var -> list asg.

Lemma node_tuple_eq : forall d keys, node_tuple d keys = c_node_tuple d keys.
Proof. reflexivity. Qed.
Lemma find_node_eq : forall d um keys,
  GamesEnumGen.find_node d um keys = c_find_node d um keys.
Proof. reflexivity. Qed.
Lemma add_new_node_eq : forall d g q um keys,
  add_new_node d g q um keys = c_add_new_node d g q um keys.
Proof. reflexivity. Qed.
Lemma select_candidate_nodes_eq : forall u v a b,
  select_candidate_nodes nx ny u v a b = c_select_candidate_nodes nx ny u v a b.
Proof. reflexivity. Qed.
Lemma primed_vars_per_quantifier_eq : forall vl,
  primed_vars_per_quantifier vl = c_primed_vars_per_quantifier vl.
Proof. reflexivity. Qed.
Lemma forall_init_eq : forall g a um keys,
  forall_init nx ny pick_iter g a um keys = c_forall_init nx ny pick_iter g a um keys.
Proof. reflexivity. Qed.
Lemma exist_init_eq : forall g a um keys,
  exist_init nx ny pick g a um keys = c_exist_init nx ny pick g a um keys.
Proof. reflexivity. Qed.
Lemma forall_exist_init_eq : forall g a um keys,
  forall_exist_init nx ny pick pick_iter g a um keys =
  c_forall_exist_init nx ny pick pick_iter g a um keys.
Proof. reflexivity. Qed.
Lemma exist_forall_init_eq : forall g a um keys,
  exist_forall_init nx ny pick pick_iter g a um keys =
  c_exist_forall_init nx ny pick pick_iter g a um keys.
Proof. reflexivity. Qed.
Lemma init_search_eq : forall g a um keys q,
  init_search nx ny pick pick_iter g a um keys q =
  c_init_search nx ny pick pick_iter g a um keys q.
Proof. reflexivity. Qed.
Lemma action_to_steps__eq : forall fuel a q,
  action_to_steps_ nx ny pick pick_iter fuel a q =
  c_action_to_steps_ nx ny pick pick_iter fuel a q.
Proof. reflexivity. Qed.
Lemma action_to_steps_eq : forall fuel a e s q,
  action_to_steps nx ny pick pick_iter fuel a e s q =
  c_action_to_steps nx ny pick pick_iter fuel a e s q.
Proof. reflexivity. Qed.

Theorem gen_is_code :
  (forall d keys, node_tuple d keys = c_node_tuple d keys) /\
  (forall d um keys, GamesEnumGen.find_node d um keys = c_find_node d um keys) /\
  (forall d g q um keys, add_new_node d g q um keys = c_add_new_node d g q um keys) /\
  (forall u v a b,
     select_candidate_nodes nx ny u v a b = c_select_candidate_nodes nx ny u v a b) /\
  (forall vl, primed_vars_per_quantifier vl = c_primed_vars_per_quantifier vl) /\
  (forall g a um keys,
     forall_init nx ny pick_iter g a um keys = c_forall_init nx ny pick_iter g a um keys) /\
  (forall g a um keys,
     exist_init nx ny pick g a um keys = c_exist_init nx ny pick g a um keys) /\
  (forall g a um keys,
     forall_exist_init nx ny pick pick_iter g a um keys =
     c_forall_exist_init nx ny pick pick_iter g a um keys) /\
  (forall g a um keys,
     exist_forall_init nx ny pick pick_iter g a um keys =
     c_exist_forall_init nx ny pick pick_iter g a um keys) /\
  (forall g a um keys q,
     init_search nx ny pick pick_iter g a um keys q =
     c_init_search nx ny pick pick_iter g a um keys q) /\
  (forall fuel a q,
     action_to_steps_ nx ny pick pick_iter fuel a q =
     c_action_to_steps_ nx ny pick pick_iter fuel a q) /\
  (forall fuel a e s q,
     action_to_steps nx ny pick pick_iter fuel a e s q =
     c_action_to_steps nx ny pick pick_iter fuel a e s q).
Proof. repeat split; reflexivity. Qed.
End Eq.

(* ---- 2. the theorems, about the generated functions --------------------------- *)
(* the initial nodes of a returned graph: its first nodes, as recorded in
   g.initial_nodes *)
Definition initial_states (gf : nxgraph) (l : list state) : Prop :=
  exists extra, nodes (graph_of gf) = l ++ extra /\
                g_initial gf = Some (seq 0 (List.length l)).

Section Translated.
Variables nx ny : nat.
Hypothesis nx_pos : 0 < nx.
Hypothesis ny_pos : 0 < ny.
Variable pick : bdd -> list var -> option asg.
Variable pick_iter : bdd -> list var -> list asg.
Hypothesis pick_ok : pick_contract nx ny pick.
Hypothesis pick_iter_ok : pick_iter_contract nx ny pick_iter.
(* the arena: the two actions and the two initial conditions, by meaning;
   C12's domain: the environment's action does not read y' *)
Variable E : nat -> nat -> nat -> bool.
Variable S : nat -> nat -> nat -> nat -> bool.
Variable EI : nat -> bool.
Variable SI : nat -> nat -> bool.
(* the automaton passed to action_to_steps(aut, env, sys, qinit) *)
Variable a0 : automaton.
Variables env sys : string.
Hypothesis vl_env : dict_get String.eqb env (a_varlist a0) = Some [U Env].
Hypothesis vl_sys : dict_get String.eqb sys (a_varlist a0) = Some [U Sys].
Hypothesis act_env : dict_get String.eqb env (a_action a0) =
  Some (mkv nx ny (fun r => E (vx r) (vy r) (vxp r))).
Hypothesis act_sys : dict_get String.eqb sys (a_action a0) =
  Some (mkv nx ny (fun r => S (vx r) (vy r) (vxp r) (vyp r))).
Hypothesis init_env : dict_get String.eqb env (a_init a0) =
  Some (mkv nx ny (fun r => EI (vx r))).
Hypothesis init_sys : dict_get String.eqb sys (a_init a0) =
  Some (mkv nx ny (fun r => SI (vx r) (vy r))).

Local Notation run fuel q := (action_to_steps nx ny pick pick_iter fuel a0 env sys q).

Theorem translated_sound fuel qinit gf :
  run fuel qinit = Some gf ->
  check_graph nx ny E S (graph_of gf) = true /\
  exists l, initial_states gf l /\ NoDup l /\ (forall s, In s l -> in_range nx ny s) /\
            init_pattern nx ny EI SI qinit l.
Proof.
  rewrite action_to_steps_eq. intros H.
  destruct (code_action_to_steps_sound nx ny nx_pos ny_pos pick pick_iter pick_ok pick_iter_ok
              E S EI SI a0 env sys vl_env vl_sys act_env act_sys init_env init_sys
              fuel qinit gf H) as [Hc [l [extra [Hn [Hi [Hnd [Hr Hp]]]]]]].
  split; [exact Hc|]. exists l. split; [exists extra; auto|auto].
Qed.

Theorem translated_enumeration_sound fuel qinit gf :
  run fuel qinit = Some gf -> check_graph nx ny E S (graph_of gf) = true.
Proof. intros H. apply (translated_sound fuel qinit gf H). Qed.

Theorem translated_init_forall_forall fuel gf :
  run fuel "\A \A" = Some gf ->
  exists l, initial_states gf l /\ NoDup l /\
    forall s, In s l <->
      (fst s < nx /\ snd s < ny) /\ EI (fst s) = true /\ SI (fst s) (snd s) = true.
Proof.
  intros H. destruct (translated_sound _ _ _ H) as [_ [l [Hi [Hnd [_ Hp]]]]].
  exists l. split; [exact Hi|]. split; [exact Hnd|exact Hp].
Qed.

Theorem translated_init_exists_exists fuel gf :
  run fuel "\E \E" = Some gf ->
  exists x y, initial_states gf [(x, y)] /\ x < nx /\ y < ny /\ SI x y = true.
Proof.
  intros H. destruct (translated_sound _ _ _ H) as [_ [l [Hi [_ [_ Hp]]]]].
  destruct Hp as [x [y [-> Hxy]]]. exists x, y. split; [exact Hi|exact Hxy].
Qed.

Theorem translated_init_forall_exists fuel gf :
  run fuel "\A \E" = Some gf ->
  exists l, initial_states gf l /\ NoDup l /\
    (* exactly one initial node for each environment value with EnvInit *)
    NoDup (map fst l) /\ (forall x, In x (map fst l) <-> x < nx /\ EI x = true) /\
    forall s, In s l -> snd s < ny /\ EI (fst s) = true /\ SI (fst s) (snd s) = true.
Proof.
  intros H. destruct (translated_sound _ _ _ H) as [_ [l [Hi [Hnd [_ Hp]]]]].
  exists l. split; [exact Hi|]. split; [exact Hnd|exact Hp].
Qed.

Theorem translated_init_exists_forall fuel gf :
  run fuel "\E \A" = Some gf ->
  exists l y, initial_states gf l /\ NoDup l /\
    y < ny /\ (forall x, x < nx -> SI x y = true) /\ (forall s, In s l -> snd s = y) /\
    NoDup (map fst l) /\ (forall x, In x (map fst l) <-> x < nx /\ EI x = true).
Proof.
  intros H. destruct (translated_sound _ _ _ H) as [_ [l [Hi [Hnd [_ Hp]]]]].
  destruct Hp as [y Hy]. exists l, y. split; [exact Hi|]. split; [exact Hnd|exact Hy].
Qed.

Theorem translated_fuel_never_exhausted fuel k qinit :
  nx * ny <= fuel -> run (fuel + k) qinit = run fuel qinit.
Proof.
  intros Hf. rewrite !action_to_steps_eq.
  apply (code_action_to_steps_fuel nx ny nx_pos ny_pos pick pick_iter pick_ok pick_iter_ok
           E S EI SI a0 env sys vl_env vl_sys act_env act_sys init_env init_sys fuel k qinit Hf).
Qed.

(* every infinite path of a returned graph is a behaviour of the two actions *)
Theorem translated_paths_are_behaviours fuel qinit gf (path : nat -> nat) :
  run fuel qinit = Some gf ->
  (forall i, In (path i, path (Datatypes.S i)) (edges (graph_of gf))) ->
  let sigma := fun i => nth (path i) (nodes (graph_of gf)) (0, 0) in
  forall i, E (fst (sigma i)) (snd (sigma i)) (fst (sigma (Datatypes.S i))) = true /\
            S (fst (sigma i)) (snd (sigma i)) (fst (sigma (Datatypes.S i)))
              (snd (sigma (Datatypes.S i))) = true.
Proof.
  intros H Hp.
  exact (proj2 (paths_are_behaviours nx ny E S (graph_of gf) path
                  (translated_enumeration_sound fuel qinit gf H) Hp)).
Qed.

End Translated.

(* ---- non-vacuity ---------------------------------------------------------------- *)
(* the contracts are satisfiable (least-member pick, index-order pick_iter),
   and with them the GENERATED action_to_steps, evaluated here, returns a
   graph with several nodes that the checker accepts, for each qinit *)
Definition ex_E := fun x y x' : nat => negb (Nat.eqb x x') || Nat.eqb y 0.
Definition ex_S := fun x y x' y' : nat => Nat.eqb y' ((y + x') mod 3) || Nat.eqb y' 0.
Definition ex_aut : automaton := mkAut
  [("e"%string, [U Env]); ("s"%string, [U Sys])]
  [("e"%string, mkv 2 3 (fun r => Nat.eqb (vx r) 0));
   ("s"%string, mkv 2 3 (fun r => Nat.eqb (vy r) 1 || Nat.eqb (vx r) 1))]
  [("e"%string, mkv 2 3 (fun r => ex_E (vx r) (vy r) (vxp r)));
   ("s"%string, mkv 2 3 (fun r => ex_S (vx r) (vy r) (vxp r) (vyp r)))]
  false.
Example translated_example :
  forallb (fun q =>
    match action_to_steps 2 3 (pick0 2 3) (pick_iter0 2 3) 20 ex_aut "e" "s" q with
    | Some g => check_graph 2 3 ex_E ex_S (graph_of g) &&
                (2 <=? List.length (g_nodes g)) &&
                match g_initial g with Some (_ :: _) => true | _ => false end
    | None => false
    end) ["\A \A"; "\E \E"; "\A \E"; "\E \A"]%string = true.
Proof. vm_compute. reflexivity. Qed.

Example contracts_satisfiable :
  pick_contract 2 3 (pick0 2 3) /\ pick_iter_contract 2 3 (pick_iter0 2 3).
Proof. split; [apply pick0_ok|apply pick_iter0_ok]. Qed.
