"""Brute-force set-cover oracle for C08/C09/C10 (search only, not evidence).

Everything is explicit: points are tuples, boxes are tuples of (a, b).
"""
import itertools


def box_points(b):
    return set(itertools.product(*[range(a, c + 1) for a, c in b]))


def all_boxes(limits):
    ivs = [[(a, c) for a in range(lo, hi + 1) for c in range(a, hi + 1)]
           for lo, hi in limits]
    return list(itertools.product(*ivs))


def primes(limits, f, care):
    """Maximal boxes inside f | ~care.  f: set of points, care: set|None."""
    grid = set(itertools.product(*[range(a, b + 1) for a, b in limits]))
    ok = set(f) | (set() if care is None else grid - set(care))
    imps = []
    for b in all_boxes(limits):
        pts = box_points(b)
        if pts <= ok:
            imps.append((b, frozenset(pts)))
    out = []
    for b, pts in imps:
        if not any(pts < q for _, q in imps):
            out.append((b, pts))
    return out


def min_covers(limits, f, care, want_all=True, max_k=None):
    """(k, list of all minimum covers as frozensets of boxes)."""
    ps = primes(limits, f, care)
    target = frozenset(f)
    if not target:
        return 0, [frozenset()]
    # drop primes irrelevant to f
    useful = [(b, pts & target) for b, pts in ps if pts & target]
    for k in range(1, len(useful) + 1):
        if max_k is not None and k > max_k:
            return None, []
        sols = []
        for comb in itertools.combinations(useful, k):
            u = set()
            for _, pts in comb:
                u |= pts
            if u == target:
                sols.append(frozenset(b for b, _ in comb))
                if not want_all:
                    return k, sols
        if sols:
            return k, sols
    return None, []


def check_cover(limits, f, care, cover):
    """Return None if `cover` (iterable of boxes) is a minimum cover of f by
    primes of f | ~care, else a string saying what fails."""
    ps = primes(limits, f, care)
    pset = {b for b, _ in ps}
    cover = [tuple(map(tuple, b)) for b in cover]
    if len(set(cover)) != len(cover):
        return 'duplicate boxes in the cover'
    for b in cover:
        if any(a > c for a, c in b):
            return f'empty box {b}'
        if b not in pset:
            grid_ok = set(f) | (set() if care is None else
                                set(itertools.product(
                                    *[range(a, c + 1) for a, c in limits]))
                                - set(care))
            if not box_points(b) <= grid_ok:
                return f'box {b} contains a care point outside f'
            return f'box {b} is not maximal'
    u = set()
    for b in cover:
        u |= box_points(b)
    miss = set(f) - u
    if miss:
        return f'point {sorted(miss)[0]} of f is not covered'
    k, _ = min_covers(limits, f, care, want_all=False, max_k=len(cover) - 1)
    if k is not None and k < len(cover):
        return f'a cover with {k} < {len(cover)} maximal boxes exists'
    return None
