(* L6 / PastUntilClassical: the full statement for translate(..., until=True)
   over ARBITRARY infinite sequences.  Existence of the tester solution needs
   the truth values of the tracked formulas ([] <> U over an infinite
   sequence) as Booleans: this file uses the standard-library axioms of
   Coq.Logic.ClassicalDescription (excluded middle, Classical_Prop.classic,
   and Description.constructive_definite_description), through
   excluded_middle_informative.  Uniqueness and correctness are the
   axiom-free theorems of PastUntilProofs.v. *)
From Coq Require Import String List Bool NArith Lia ClassicalDescription.
From Omega Require Import L6Past.PastSyntax L6Past.PastModel L6Past.PastSpec
  L6Past.PastProofs L6Past.PastUntil L6Past.PastUntilProofs.

Theorem translate_until_full : forall f : form,
  let X := translate true true f in
  no_clash f (x_names X) ->
  forall sigma : nat -> env,
  exists alpha : nat -> env,
    is_solution_inf X sigma alpha /\
    (forall alpha', is_solution_inf X sigma alpha' ->
       forall i v, In v (x_names X) -> alpha' i v = alpha i v) /\
    (forall alpha', is_solution_inf X sigma alpha' ->
       forall i, eval (comb (x_names X) sigma alpha' i) (x_formula X) = true
                 <-> holds f sigma i).
Proof.
  intros f X NC sigma.
  destruct (translate_until_exists f NC sigma
              (fun g i => excluded_middle_informative (holds g sigma i))) as [alpha Ha].
  destruct (translate_until_partial f NC sigma) as [_ [H2 H3]].
  exists alpha. split; [exact Ha|]. split.
  - intros alpha' Ha' i v Hv. apply (H3 alpha' alpha Ha' Ha i v Hv).
  - intros alpha' Ha'. apply (H2 alpha' Ha').
Qed.
