(* C17 — results do not depend on BDD back end, variable order or context
   history.  Statements only; proofs in theories/L3History/*Proofs.v.

   What is a theorem here: the omega side — the two prefix translators
   agree (parsers_agree), the expression cache never shows an expression
   that is not equivalent to the node (fetch_sound), a context never
   changes a predicate or a declaration it handed out (frame,
   redeclare_guard), repeating an operation or adding a formula later gives
   the same meaning (idempotent, history_independent).

   What is NOT a theorem here: that dd.autoref and dd.cudd implement the
   same Boolean algebra and that dd's reordering and garbage collection
   preserve meaning.  dd is outside the model; [C17_full] states the
   property with that assumption as an explicit hypothesis (and is proved
   under it: C17_backend_independent_given_contract), and the
   correspondence run (tools/props/c17.py) validates the assumption
   differentially on every check (2 back ends x 2 translators against one
   model run). *)
From Coq Require Import List Bool String ZArith.
From Omega Require Import L4Steps.Mangle L4Steps.Stepper L4Steps.StepperProofs.
From Omega Require Import L3History.Prefix L3History.PrefixProofs
  L3History.PrefixInst L3History.History L3History.HistoryProofs
  L3History.Cache L3History.CacheProofs.
From OmegaGen Require PrefixGen PrefixRecGen.
From OmegaGP Require PrefixBridge PrefixRecBridge.
Import ListNotations.
Open Scope string_scope.

(* ------------------------------------------------------------ translators *)
Section Translators.
(* any BDD manager: nodes D, the operations the translators call; every
   exception is None *)
Variable D : Type.
Variable dtrue dfalse : D.
Variable var : string -> option D.
Variable node : Z -> option D.
Variable ap1 : D -> option D.
Variable ap2 : binop -> D -> D -> option D.
Variable ren : list D -> D -> option D.
(* dd.autoref.BDD and dd.cudd.BDD have no `rename` method and their
   `apply` has no operator \S (observed on every run, see PROBES) *)
Hypothesis ren_none : forall m u, ren m u = None.
Hypothesis ap2_rename_none : forall u v, ap2 Rename u v = None.

(* parsers_agree: on every token list without the token `@` the recursive
   translator (parse a tree, flatten it with memory buffers and registers)
   and the iterative one (one pass, explicit stack, `_reduce`) return the
   same node or both reject.  No bound on length, nesting or buffer sizes. *)
Theorem C17_parsers_agree : forall toks,
  no_at toks ->
  rec_add_expr D dtrue dfalse var node ap1 ap2 ren toks =
  iter_add_expr D dtrue dfalse var node ap1 ap2 toks.
Proof. exact (parsers_agree D dtrue dfalse var node ap1 ap2 ren ren_none ap2_rename_none). Qed.

(* both accept exactly the well-formed prefix expressions [E] and return
   their value *)
Theorem C17_translators_spec : forall toks v,
  (no_at toks ->
   (rec_add_expr D dtrue dfalse var node ap1 ap2 ren toks = Some v <->
    E D dtrue dfalse var node ap1 ap2 None toks v [])) /\
  (iter_add_expr D dtrue dfalse var node ap1 ap2 toks = Some v <->
   E D dtrue dfalse var node ap1 ap2 None toks v []).
Proof.
  intros toks v. split.
  - exact (rec_spec D dtrue dfalse var node ap1 ap2 ren ren_none ap2_rename_none toks v).
  - exact (iter_spec D dtrue dfalse var node ap1 ap2 toks v).
Qed.

(* ---- tie T: the iterative translator is the TRANSLATED code --------------
   gen/PrefixGen.v is regenerated from omega/symbolic/bdd_iterative.py (and
   the token rules of bdd.Lexer) on every run by tools/py2coq_prefix.py;
   GenProofs/PrefixBridge.v proves, on every run, that the translated
   `add_expr` computes what the model iter_add_expr computes.  Python tokens
   are (type, value) pairs of strings, [PrefixBridge.rel toks ptoks] says that
   ptoks is what the lexer delivers for the model tokens toks; the stack and
   the memory buffers of the code hold strings or nodes ([IVal]: a node);
   [stale] is whatever an earlier call left unread in the lexer. *)
Theorem C17_iterative_model_is_translated_code : forall fuel toks ptoks stale,
  PrefixBridge.rel toks ptoks -> (fuel >= 3 * List.length toks + 2)%nat ->
  PrefixGen.it_add_expr D dtrue dfalse var node ap1 ap2 fuel ptoks stale =
  option_map (fun v => (PrefixGen.IVal D v, []))
    (iter_add_expr D dtrue dfalse var node ap1 ap2 toks).
Proof. exact (PrefixBridge.iter_code_eq_model D dtrue dfalse var node ap1 ap2). Qed.

(* every list of tokens that the real lexer can deliver is covered *)
Theorem C17_translated_covers_lexer_tokens : forall fuel ptoks stale,
  forallb PrefixBridge.ptok_ok ptoks = true ->
  (fuel >= 3 * List.length ptoks + 2)%nat ->
  PrefixGen.it_add_expr D dtrue dfalse var node ap1 ap2 fuel ptoks stale =
  option_map (fun v => (PrefixGen.IVal D v, []))
    (iter_add_expr D dtrue dfalse var node ap1 ap2 (map PrefixBridge.abs ptoks)).
Proof.
  intros fuel ptoks stale OK Hf.
  apply C17_iterative_model_is_translated_code.
  - apply PrefixBridge.ptoks_ok_rel, OK.
  - rewrite map_length. exact Hf.
Qed.

(* parsers_agree for the translated code: the code of bdd_iterative.py and
   the recursive translator (model) return the same node or both reject *)
Theorem C17_translated_iterative_agrees_with_recursive :
  forall fuel toks ptoks stale,
  no_at toks ->
  PrefixBridge.rel toks ptoks -> (fuel >= 3 * List.length toks + 2)%nat ->
  PrefixGen.it_add_expr D dtrue dfalse var node ap1 ap2 fuel ptoks stale =
  option_map (fun v => (PrefixGen.IVal D v, []))
    (rec_add_expr D dtrue dfalse var node ap1 ap2 ren toks).
Proof.
  intros fuel toks ptoks stale NA R Hf.
  rewrite (C17_parsers_agree toks NA).
  exact (C17_iterative_model_is_translated_code fuel toks ptoks stale R Hf).
Qed.

(* translators_spec for the translated code: it accepts exactly the
   well-formed prefix expressions and returns their value *)
Theorem C17_translated_iterative_spec : forall fuel toks ptoks stale v,
  PrefixBridge.rel toks ptoks -> (fuel >= 3 * List.length toks + 2)%nat ->
  (PrefixGen.it_add_expr D dtrue dfalse var node ap1 ap2 fuel ptoks stale
     = Some (PrefixGen.IVal D v, [])
   <-> E D dtrue dfalse var node ap1 ap2 None toks v []).
Proof.
  intros fuel toks ptoks stale v R Hf.
  rewrite (C17_iterative_model_is_translated_code fuel toks ptoks stale R Hf).
  rewrite <- (iter_spec D dtrue dfalse var node ap1 ap2 toks v).
  destruct (iter_add_expr D dtrue dfalse var node ap1 ap2 toks) as [w|]; simpl.
  - split; intros H; [injection H as ->; reflexivity|injection H as ->; reflexivity].
  - split; discriminate.
Qed.

(* ---- tie T: the recursive translator is the TRANSLATED code --------------
   gen/PrefixRecGen.v is regenerated from omega/symbolic/bdd.py on every run
   (Parser.parse / _recurse, the node classes that `Parser(nodes=BDDNodes())`
   builds and their `flatten` methods with the keyword / **kw call protocol,
   add_expr); GenProofs/PrefixRecBridge.v proves that the translated
   `add_expr` computes what the model rec_add_expr computes, on every token
   list, `@` included.  [rp] is the abstract operation that stands for the
   block ending in `bdd.rename` (the back ends have no `rename`: it fails). *)
Variable rp : list D -> Z -> D -> option D.
Hypothesis rp_none : forall m n u, rp m n u = None.

Theorem C17_recursive_model_is_translated_code : forall fuel toks ptoks stale,
  PrefixBridge.rel toks ptoks -> (fuel > List.length toks)%nat ->
  PrefixRecGen.rc_add_expr D dtrue dfalse var node ap1 ap2 rp fuel ptoks stale =
  option_map (fun v => (v, []))
    (rec_add_expr D dtrue dfalse var node ap1 ap2 ren toks).
Proof.
  apply (PrefixRecBridge.rec_code_eq_model D dtrue dfalse var node ap1 ap2 ren rp).
  intros m n u. rewrite rp_none, ren_none. reflexivity.
Qed.

(* parsers_agree for the two TRANSLATED translators: the code of bdd.py and
   the code of bdd_iterative.py return the same node or both reject, on
   every token list without `@` *)
Theorem C17_translated_parsers_agree : forall fuel1 fuel2 toks ptoks stale1 stale2,
  no_at toks -> PrefixBridge.rel toks ptoks ->
  (fuel1 > List.length toks)%nat -> (fuel2 >= 3 * List.length toks + 2)%nat ->
  PrefixGen.it_add_expr D dtrue dfalse var node ap1 ap2 fuel2 ptoks stale2 =
  option_map (fun '(v, r) => (PrefixGen.IVal D v, r))
    (PrefixRecGen.rc_add_expr D dtrue dfalse var node ap1 ap2 rp fuel1 ptoks stale1).
Proof.
  intros fuel1 fuel2 toks ptoks stale1 stale2 NA R H1 H2.
  rewrite (C17_recursive_model_is_translated_code fuel1 toks ptoks stale1 R H1).
  rewrite (C17_translated_iterative_agrees_with_recursive fuel2 toks ptoks stale2 NA R H2).
  destruct (rec_add_expr D dtrue dfalse var node ap1 ap2 ren toks); reflexivity.
Qed.

(* translators_spec for the translated recursive code *)
Theorem C17_translated_recursive_spec : forall fuel toks ptoks stale v,
  no_at toks -> PrefixBridge.rel toks ptoks -> (fuel > List.length toks)%nat ->
  (PrefixRecGen.rc_add_expr D dtrue dfalse var node ap1 ap2 rp fuel ptoks stale
     = Some (v, [])
   <-> E D dtrue dfalse var node ap1 ap2 None toks v []).
Proof.
  intros fuel toks ptoks stale v NA R Hf.
  rewrite (C17_recursive_model_is_translated_code fuel toks ptoks stale R Hf).
  rewrite <- (rec_spec D dtrue dfalse var node ap1 ap2 ren ren_none ap2_rename_none toks v NA).
  destruct (rec_add_expr D dtrue dfalse var node ap1 ap2 ren toks) as [w|]; simpl.
  - split; intros H; [injection H as ->; reflexivity|injection H as ->; reflexivity].
  - split; discriminate.
Qed.
End Translators.

(* the hypotheses hold for the Boolean-function algebra the check runs, and
   the restriction to strings without `@` is necessary: the iterative
   translator rejects the token *)
Example C17_parsers_agree_instance :
  (forall names toks, no_at toks ->
     rec_model names toks = iter_model names toks) /\
  table_of ["x"] (rec_model ["x"] [TAt; TNum (Some 1%Z)]) = Some [true; true] /\
  table_of ["x"] (iter_model ["x"] [TAt; TNum (Some 1%Z)]) = None /\
  table_of ["x"; "y"]
    (rec_model ["x"; "y"]
       [TDollar; TNum (Some 3%Z); TBin And; TName "x"; TName "y"; TNot; TName "y";
        TBin Or; TQuestion; TNum (Some 0%Z); TQuestion; TNum (Some 1%Z)])
  = Some [true; false; true; true].
Proof.
  split; [|split; [|split]]; try reflexivity.
  intros names toks NA. unfold rec_model, iter_model.
  apply parsers_agree; [reflexivity|reflexivity|exact NA].
Qed.

(* ------------------------------------------------------- expression cache *)
(* fetch_sound: for any expressions X with meaning [sem] into denotations Dn
   compared by a reflexive [deq], in every state reachable by any sequence of
   cache / fetch / clear / collect / allocate events (identifiers chosen by
   an adversary, re-use after collection included), an expression returned
   by `_fetch_expr u` denotes what the live node u denotes *)
Theorem C17_fetch_sound :
  forall (X Dn : Type) (sem : X -> Dn) (deq : Dn -> Dn -> bool),
  (forall d, deq d d = true) ->
  forall evs s u f s' e,
  erun X Dn sem deq (empty X Dn) evs = Some s ->
  fetch X Dn sem deq s u f = Some (s', Some e) ->
  exists d, Cache.lookup u (live X Dn s') = Some d /\ deq (sem e) d = true.
Proof. exact fetch_sound. Qed.

(* the re-validation is what makes it true *)
Example C17_fetch_unchecked_refuted :
  exists s d,
    erun nat nat (fun e => e) Nat.eqb (empty nat nat) bad_run = Some s /\
    fetch_unchecked nat nat s 5%Z = Some 1 /\
    Cache.lookup 5%Z (live nat nat s) = Some d /\ Nat.eqb 1 d = false.
Proof. exact fetch_unchecked_unsound. Qed.

Example C17_fetch_sound_nonvacuous :
  exists s s',
    erun nat nat (fun e => e) Nat.eqb (empty nat nat) [ECache 1 5%Z; EAlloc 2 6%Z] = Some s /\
    fetch nat nat (fun e => e) Nat.eqb s 5%Z 9%Z = Some (s', Some 1).
Proof. exact fetch_returns_example. Qed.

(* -------------------------------------------------------------- contexts *)
(* frame: whatever is done afterwards in either context (declarations,
   add_expr, quantification, substitution, to_expr with its auxiliary
   declarations, reorder, collection, copies, synthesis), a predicate
   obtained earlier is the same stored table; the table reads only the
   identifiers it was built over *)
Theorem C17_frame : forall os w k h e,
  nth_error (c_store (get k w)) h = Some e ->
  nth_error (c_store (get k (fst (wrun w os)))) h = Some e /\
  reads_only (fst e) (denote e).
Proof.
  intros os w k h e H. split; [apply frame, H|apply entry_reads_own].
Qed.

(* redeclare_guard: a declaration that changes the type hint of a declared
   identifier is refused and changes nothing (also when it is one of
   several), the same declaration again changes nothing, and no later
   operation changes a declaration *)
Theorem C17_redeclare_guard :
  (forall c ds d old, In d ds ->
     find_var (vd_name d) (c_vars c) = Some old ->
     hint_eqb (vd_hint old) (vd_hint d) = false ->
     declare c ds = (c, Refused)) /\
  (forall c d old, find_var (vd_name d) (c_vars c) = Some old ->
     hint_eqb (vd_hint old) (vd_hint d) = true -> declare c [d] = (c, Done)) /\
  (forall os w k x d, find_var x (c_vars (get k w)) = Some d ->
     find_var x (c_vars (get k (fst (wrun w os)))) = Some d).
Proof.
  split; [exact declare_conflict_refused|split].
  - intros c d old F E. exact (proj2 (redeclare_guard c d old F) E).
  - exact declarations_stable.
Qed.

(* idempotent: an operation that returned a predicate returns the same
   stored table when it is repeated *)
Theorem C17_idempotent : forall c o c1 h1 c2 h2,
  step1 c o = (c1, Handle h1) -> step1 c1 o = (c2, Handle h2) ->
  nth_error (c_store c2) h2 = nth_error (c_store c1) h1.
Proof. exact idempotent. Qed.

(* the stored table of `add_expr f` denotes the integer semantics of f on
   every valuation within the declared ranges, and that semantics is the
   same in every later (grown) context: the result of add_expr does not
   depend on when it is called *)
Theorem C17_history_independent :
  (forall c f c' h v,
     NoDup (names (ctx_decls c)) ->
     (forall x, In x (fvars f) -> declared c x) ->
     step1 c (OAdd f) = (c', Handle h) ->
     in_dom (ctx_decls c) v ->
     exists e, nth_error (c_store c') h = Some e /\
               denote e v = sem (ranges c) v f) /\
  (forall c c' f v, extends c c' ->
     (forall x, In x (bvars f) -> declared c x) ->
     sem (ranges c') v f = sem (ranges c) v f) /\
  (forall os w k, extends (get k w) (get k (fst (wrun w os)))).
Proof.
  split; [exact add_faithful|split; [exact history_independent|]].
  intros os w k. apply wrun_extends.
Qed.

(* non-vacuity / worked run: a conflicting declaration is refused, to_expr
   declares 8 parameters, the predicate keeps its table, the formula added
   again gives the same table *)
Example C17_history_example :
  snd (wrun {| w0 := empty_ctx; w1 := empty_ctx |} ex_ops)
  = [Done; Handle 0; Refused; Done; Handle 1; Handle 2] /\
  let c := w0 (fst (wrun {| w0 := empty_ctx; w1 := empty_ctx |} ex_ops)) in
  nth_error (c_store c) 0 = nth_error (c_store c) 1 /\
  nth_error (c_store c) 0 = nth_error (c_store c) 2 /\
  List.length (c_vars c) = 10.
Proof. exact history_example. Qed.

(* ------------------------------------------------------------------ full *)
(* The full property, with the assumption about dd explicit: if two back
   ends implement the operations the translators call with the same meaning
   (there is a map from the nodes of one to the nodes of the other that
   commutes with every operation), then every prefix string is accepted by
   both through either translator, with corresponding results.  The
   hypothesis is NOT proved for dd.autoref / dd.cudd (outside the model); it
   is validated differentially. *)
Definition C17_full : Prop :=
  forall (D1 D2 : Type) (t1 f1 : D1) (t2 f2 : D2)
    (var1 : string -> option D1) (var2 : string -> option D2)
    (node1 : Z -> option D1) (node2 : Z -> option D2)
    (ap11 : D1 -> option D1) (ap12 : D2 -> option D2)
    (ap21 : binop -> D1 -> D1 -> option D1) (ap22 : binop -> D2 -> D2 -> option D2)
    (h : D1 -> D2),
  h t1 = t2 -> h f1 = f2 ->
  (forall s, var2 s = option_map h (var1 s)) ->
  (forall z, node2 z = option_map h (node1 z)) ->
  (forall u, ap12 (h u) = option_map h (ap11 u)) ->
  (forall op u v, ap22 op (h u) (h v) = option_map h (ap21 op u v)) ->
  (forall u v, ap21 Rename u v = None) ->
  forall toks, no_at toks ->
    iter_add_expr D2 t2 f2 var2 node2 ap12 ap22 toks =
    option_map h (rec_add_expr D1 t1 f1 var1 node1 ap11 ap21 (fun _ _ => None) toks).

(* ... and under that hypothesis the statement is a theorem: the contract
   about dd is the only thing the differential part of the check stands for *)
Theorem C17_backend_independent_given_contract : C17_full.
Proof.
  unfold C17_full. intros D1 D2 t1 f1 t2 f2 var1 var2 node1 node2 ap11 ap12 ap21 ap22 h
    Ht Hf Hv Hn H1 H2 HR toks NA.
  exact (backend_independent D1 D2 t1 f1 t2 f2 var1 var2 node1 node2 ap11 ap12 ap21 ap22 h
           Ht Hf Hv Hn H1 H2 HR toks NA).
Qed.

(* back-end independence for the translated code, under the same explicit
   contract about dd *)
Theorem C17_translated_backend_independent :
  forall (D1 D2 : Type) (t1 f1 : D1) (t2 f2 : D2)
    (var1 : string -> option D1) (var2 : string -> option D2)
    (node1 : Z -> option D1) (node2 : Z -> option D2)
    (ap11 : D1 -> option D1) (ap12 : D2 -> option D2)
    (ap21 : binop -> D1 -> D1 -> option D1) (ap22 : binop -> D2 -> D2 -> option D2)
    (h : D1 -> D2),
  h t1 = t2 -> h f1 = f2 ->
  (forall s, var2 s = option_map h (var1 s)) ->
  (forall z, node2 z = option_map h (node1 z)) ->
  (forall u, ap12 (h u) = option_map h (ap11 u)) ->
  (forall op u v, ap22 op (h u) (h v) = option_map h (ap21 op u v)) ->
  (forall u v, ap21 Rename u v = None) ->
  forall fuel toks ptoks stale, no_at toks ->
    PrefixBridge.rel toks ptoks -> (fuel >= 3 * List.length toks + 2)%nat ->
    PrefixGen.it_add_expr D2 t2 f2 var2 node2 ap12 ap22 fuel ptoks stale =
    option_map (fun v => (PrefixGen.IVal D2 (h v), []))
      (rec_add_expr D1 t1 f1 var1 node1 ap11 ap21 (fun _ _ => None) toks).
Proof.
  intros D1 D2 t1 f1 t2 f2 var1 var2 node1 node2 ap11 ap12 ap21 ap22 h
    Ht Hf Hv Hn H1 H2 HR fuel toks ptoks stale NA R Hfuel.
  rewrite (C17_iterative_model_is_translated_code D2 t2 f2 var2 node2 ap12 ap22
             fuel toks ptoks stale R Hfuel).
  rewrite (C17_backend_independent_given_contract D1 D2 t1 f1 t2 f2 var1 var2
             node1 node2 ap11 ap12 ap21 ap22 h Ht Hf Hv Hn H1 H2 HR toks NA).
  destruct (rec_add_expr D1 t1 f1 var1 node1 ap11 ap21 (fun _ _ => None) toks);
    reflexivity.
Qed.

(* non-vacuity: a token list of the lexer with buffers and registers, its
   model tokens, and the translated code run on it in the Boolean-function
   algebra of the check; the token rules of bdd.Lexer read on this run *)
Example C17_translated_instance :
  let ptoks :=
    [PrefixGen.mkTok "DOLLAR" "$"; PrefixGen.mkTok "NUMBER" "3";
     PrefixGen.mkTok "AND" "&"; PrefixGen.mkTok "NAME" "x"; PrefixGen.mkTok "NAME" "y";
     PrefixGen.mkTok "NOT" "!"; PrefixGen.mkTok "NAME" "y";
     PrefixGen.mkTok "OR" "|"; PrefixGen.mkTok "QUESTION" "?"; PrefixGen.mkTok "NUMBER" "0";
     PrefixGen.mkTok "QUESTION" "?"; PrefixGen.mkTok "NUMBER" "1"] in
  let toks :=
    [TDollar; TNum (Some 3%Z); TBin And; TName "x"; TName "y"; TNot; TName "y";
     TBin Or; TQuestion; TNum (Some 0%Z); TQuestion; TNum (Some 1%Z)] in
  PrefixBridge.rel toks ptoks /\
  forallb PrefixBridge.ptok_ok ptoks = true /\
  map PrefixBridge.abs ptoks = toks /\
  match PrefixGen.it_add_expr bfun itrue ifalse (ivar ["x"; "y"]) inode iap1
          (iap2 ["x"; "y"]) 38 ptoks [PrefixGen.mkTok "NOT" "!"] with
  | Some (PrefixGen.IVal _ d, []) => map d (all_asg 2) = [true; false; true; true]
  | _ => False
  end /\
  match PrefixRecGen.rc_add_expr bfun itrue ifalse (ivar ["x"; "y"]) inode iap1
          (iap2 ["x"; "y"]) (fun _ _ _ => None) 13 ptoks [PrefixGen.mkTok "NOT" "!"] with
  | Some (d, []) => map d (all_asg 2) = [true; false; true; true]
  | _ => False
  end /\
  PrefixGen.lexer_table =
  [("AT", "@"); ("NUMBER", "[-]*\d+"); ("NAME", "[A-Za-z_][A-Za-z0-9_']*");
   ("FORALL", "\\A"); ("EXISTS", "\\E"); ("RENAME", "\\S"); ("DIV", "/");
   ("NOT", "!"); ("AND", "\&"); ("OR", "\|"); ("XOR", "\^");
   ("DOLLAR", "\$"); ("QUESTION", "\?")].
Proof.
  cbv zeta.
  split; [|split; [reflexivity|split; [reflexivity|split; [reflexivity|split; [reflexivity|]]]]].
  - repeat constructor; simpl; eauto.
  - exact PrefixBridge.lexer_table_ok.
Qed.

Print Assumptions C17_parsers_agree.
Print Assumptions C17_iterative_model_is_translated_code.
Print Assumptions C17_translated_covers_lexer_tokens.
Print Assumptions C17_translated_iterative_agrees_with_recursive.
Print Assumptions C17_translated_iterative_spec.
Print Assumptions C17_translated_backend_independent.
Print Assumptions C17_translated_instance.
Print Assumptions C17_recursive_model_is_translated_code.
Print Assumptions C17_translated_parsers_agree.
Print Assumptions C17_translated_recursive_spec.
Print Assumptions C17_backend_independent_given_contract.
Print Assumptions C17_translators_spec.
Print Assumptions C17_parsers_agree_instance.
Print Assumptions C17_fetch_sound.
Print Assumptions C17_fetch_unchecked_refuted.
Print Assumptions C17_frame.
Print Assumptions C17_redeclare_guard.
Print Assumptions C17_idempotent.
Print Assumptions C17_history_independent.
Print Assumptions C17_history_example.
Print Assumptions C17_fetch_sound_nonvacuous.
