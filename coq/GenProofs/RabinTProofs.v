(* Properties of the Rabin transducer model that hold for ARBITRARY iterate
   lists: (a) refinement of the specified component action under the mode's
   causality rule; (b) Moore independence of the next environment values. *)
From Coq Require Import List Bool Arith Lia.
Import ListNotations.
From Omega Require Import L4.Arena L4.ArenaFacts L4.Kleene L4.GameSpec.
From OmegaGen Require Import FixpointGen Gr1Gen.
From OmegaGP Require Import TransducerModel StreettTProofs.

Section RabinTP.
Variables nc nx ny H G : nat.
Variables E S : bdd.
Variables holds goals : list bdd.
Variables moore plus_one : bool.

Local Notation M := (H * G).
Local Notation nyE := (ny * M).
Local Notation band := (Arena.band nc nx nyE).
Local Notation bor := (Arena.bor nc nx nyE).
Local Notation bnot := (Arena.bnot nc nx nyE).
Local Notation ca := (Gr1Gen.controllable_action nc nx nyE E S moore plus_one 0).
Local Notation Sub := (Sub).
Local Notation obm := (oblig_mode nx E S moore plus_one).

Lemma ca_sub' t e : Sub obm (ca t e).
Proof. apply (ca_sub nc nx ny M E S moore plus_one). Qed.

Local Notation Sub_bor := (Sub_bor nc nx ny M).
Local Notation Sub_band_l := (Sub_band_l nc nx ny M).
Local Notation Sub_band_r := (Sub_band_r nc nx ny M).

Theorem rabin_action_refines zk yki xkijr :
  Sub obm (rabin_action nc nx ny H G E S holds goals moore plus_one zk yki xkijr).
Proof.
  unfold rabin_action, rabin_action_k. cbv beta zeta.
  (* rho_1 *)
  match goal with |- context [fold_left ?f zk ?a] =>
    assert (H1 : Sub obm (fst (fold_left f zk a))) end.
  { apply (fold_left_inv (fun p : bdd * bdd => Sub obm (fst p))); [apply Sub_bfalse|].
    intros [r basin] z Hr. cbn [fst]. apply Sub_bor; [exact Hr|].
    apply Sub_band_l, Sub_band_r, ca_sub'. }
  destruct (fold_left _ zk _) as [rho_1 b1]. cbn [fst] in H1.
  (* rho_2..4 *)
  match goal with |- context [fold_left ?f (combine (combine zk yki) xkijr) ?a] =>
    assert (H2 : let p := fold_left f (combine (combine zk yki) xkijr) a in
                 Sub obm (fst (fst (fst p))) /\ Sub obm (snd (fst (fst p))) /\
                 Sub obm (snd (fst p))) end.
  { apply (fold_left_inv (fun p : bdd * bdd * bdd * bdd =>
             Sub obm (fst (fst (fst p))) /\ Sub obm (snd (fst (fst p))) /\
             Sub obm (snd (fst p)))).
    - cbn [fst snd]. repeat split; apply Sub_bfalse.
    - intros [[[r2 r3] r4] basin] [[z yi] xijr] [Hr2 [Hr3 Hr4]]. cbn [fst snd].
      repeat split.
      + apply Sub_bor; [exact Hr2|]. apply Sub_band_r.
        apply fold_left_inv; [apply Sub_bfalse|].
        intros acc [i y] Hacc. apply Sub_bor; [exact Hacc|]. apply Sub_band_r, ca_sub'.
      + apply Sub_bor; [exact Hr3|]. apply Sub_band_r.
        apply fold_left_inv; [apply Sub_bfalse|].
        intros acc [i xjr] Hacc.
        apply fold_left_inv; [exact Hacc|].
        intros acc2 [j [xr goal]] Hacc2.
        match goal with |- context [fold_left ?f (tl xr) ?a] =>
          assert (Hp : Sub obm (fst (fold_left f (tl xr) a))) end.
        { apply (fold_left_inv (fun p : bdd * bdd => Sub obm (fst p)));
            [apply Sub_bfalse|].
          intros [p xb] x Hp. cbn [fst]. apply Sub_bor; [exact Hp|].
          apply Sub_band_l, Sub_band_l, ca_sub'. }
        destruct (fold_left _ (tl xr) _) as [p xb]. cbn [fst] in Hp.
        apply Sub_bor; [exact Hacc2|]. apply Sub_band_l, Sub_band_l, Hp.
      + apply Sub_bor; [exact Hr4|]. apply Sub_band_l, ca_sub'. }
  destruct (fold_left _ (combine (combine zk yki) xkijr) _) as [[[rho_2 rho_3] rho_4] b2].
  cbn [fst snd] in H2. destruct H2 as [Hr2 [Hr3 Hr4]].
  set (lim := mp nc nx ny H G _).
  assert (H0 : Sub obm (band (bor (bor (bor rho_1 rho_2) rho_3) rho_4) lim)).
  { apply Sub_band_l. repeat apply Sub_bor; assumption. }
  set (u0 := band _ lim) in *.
  destruct plus_one eqn:Ep; cbn [negb]; [exact H0|].
  destruct moore eqn:Em.
  - intros v. rewrite forall_spec. cbn [forall_raw dom].
    unfold oblig_mode. apply forallb_mono. intros x' Hx'.
    rewrite bor_spec, bnot_spec, orb_true_iff. intros [Hu|Hu].
    + specialize (H0 _ Hu). unfold oblig_mode in H0. rewrite forallb_forall in H0.
      specialize (H0 x' Hx').
      replace (setg Envp (setg Envp v x') x') with (setg Envp v x') in H0
        by (destruct v; reflexivity). exact H0.
    + unfold oblig. cbn [setg] in *. rewrite Hu. reflexivity.
  - intros v. rewrite bor_spec, bnot_spec, orb_true_iff. intros [Hu|Hu].
    + apply (H0 _ Hu).
    + unfold oblig_mode, oblig. rewrite Hu. reflexivity.
Qed.

End RabinTP.
