(* L6Graph / LogicizerProofs: the four formulas of the model of
   `graph_to_logic` mean exactly what GraphSpec says, for every transition
   system, every pair of valuations and every combination of flags. *)
From Coq Require Import List Bool ZArith Arith Lia.
Import ListNotations.
From Omega Require Import L6Graph.Formula L6Graph.FormulaProofs
  L6Graph.Logicizer L6Graph.GraphSpec.

Section Proofs.
Variables EL NL : Type.
Variable esem : EL -> val -> val -> bool.
Variable nsem : NL -> val -> bool.
Local Notation form := (form EL NL).
Local Notation tsys := (tsys EL NL).
Local Notation eval := (@eval EL NL esem nsem).
Local Notation eval_item := (@eval_item EL NL esem nsem).
Local Notation eval_item_or := (@eval_item_or EL NL esem nsem).
Local Notation conj_sem := (@conj_sem EL NL esem nsem).
Local Notation disj_sem := (@disj_sem EL NL esem nsem).

(* ---------------------------------------------------------------- lists *)
Lemma existsb_filter {A} (p f : A -> bool) l :
  existsb f (filter p l) = existsb (fun x => p x && f x) l.
Proof.
  induction l as [|x l IH]; cbn; [reflexivity|].
  destruct (p x); cbn; now rewrite IH.
Qed.

Lemma forallb_map {A B} (f : B -> bool) (g : A -> B) l :
  forallb f (map g l) = forallb (fun x => f (g x)) l.
Proof. induction l; cbn; [reflexivity|]. now rewrite IHl. Qed.

Lemma existsb_map {A B} (f : B -> bool) (g : A -> B) l :
  existsb f (map g l) = existsb (fun x => f (g x)) l.
Proof. induction l; cbn; [reflexivity|]. now rewrite IHl. Qed.

Lemma forallb_flat_map {A B} (f : B -> bool) (g : A -> list B) l :
  forallb f (flat_map g l) = forallb (fun x => forallb f (g x)) l.
Proof.
  induction l; cbn; [reflexivity|]. now rewrite forallb_app, IHl.
Qed.

Lemma forallb_ext' {A} (f g : A -> bool) l :
  (forall x, f x = g x) -> forallb f l = forallb g l.
Proof. intros H. induction l; cbn; [reflexivity|]. now rewrite H, IHl. Qed.

Lemma existsb_ext' {A} (f g : A -> bool) l :
  (forall x, f x = g x) -> existsb f l = existsb g l.
Proof. intros H. induction l; cbn; [reflexivity|]. now rewrite H, IHl. Qed.

(* at most the entries with id [a] matter, and they all see X a *)
Lemma forallb_guard {A} (key : A -> Z) (X : Z -> bool) (a : Z) l :
  forallb (fun n => implb (Z.eqb a (key n)) (X (key n))) l
  = implb (existsb (fun n => Z.eqb (key n) a) l) (X a).
Proof.
  induction l as [|n l IH]; cbn; [reflexivity|]. rewrite IH.
  rewrite (Z.eqb_sym (key n) a).
  destruct (Z.eqb_spec a (key n)) as [->|]; cbn.
  - now destruct (X (key n)), (existsb _ l).
  - reflexivity.
Qed.

(* ---------------------------------------------------------- _to_action *)
Lemma assign_sem a s s' : eval (assign a) s s' = asg_holds s s' a.
Proof. destruct a as [[p k] v]. reflexivity. Qed.

Lemma asgs_sem (dv : asg -> bool) asgs s s' :
  forallb (eval_item s s')
          (map (fun a => Some (assign a)) (filter dv asgs))
  = forallb (fun a => implb (dv a) (asg_holds s s' a)) asgs.
Proof.
  induction asgs as [|a r IH]; cbn; [reflexivity|].
  destruct (dv a); cbn; rewrite IH; [|reflexivity].
  now rewrite assign_sem.
Qed.

Lemma to_action_sem dv f asgs s s' :
  eval (to_action dv f asgs) s s'
  = match f with None => true | Some it => eval_item s s' it end
    && forallb (fun a => implb (dv a) (asg_holds s s' a)) asgs.
Proof.
  unfold to_action. rewrite conj_sem, forallb_app, asgs_sem.
  destruct f; cbn; [now rewrite andb_true_r|reflexivity].
Qed.

Lemma e_item_sem (l : elabel EL) s s' :
  match e_item l with None => true | Some it => eval_item s s' it end
  = fstr_holds (fun x => esem x s s') (e_formula l).
Proof. unfold e_item. destruct (e_formula l) as [[| | |x]|]; reflexivity. Qed.

Lemma n_item_sem (l : nlabel NL) s s' :
  match n_item l with None => true | Some it => eval_item s s' it end
  = fstr_holds (fun x => nsem x s) (n_formula l).
Proof. unfold n_item. destruct (n_formula l) as [[| | |x]|]; reflexivity. Qed.

Lemma edge_action_sem dv (l : elabel EL) extra s s' :
  eval (to_action dv (e_item l) (e_asg l ++ extra)) s s'
  = elabel_holds esem dv l s s'
    && forallb (fun a => implb (dv a) (asg_holds s s' a)) extra.
Proof.
  rewrite to_action_sem, e_item_sem, forallb_app. unfold elabel_holds.
  now rewrite andb_assoc.
Qed.

Lemma node_action_sem nd (g : tsys) (l : nlabel NL) s s' :
  eval (to_action (in_dvars nd g) (n_item l) (n_asgs l)) s s'
  = nlabel_holds nsem nd g l s.
Proof.
  rewrite to_action_sem, n_item_sem. unfold nlabel_holds, n_asgs.
  now rewrite forallb_map.
Qed.

Lemma in_dvars_nd nd (g : tsys) p v : in_dvars nd g (p, nd, v) = true.
Proof. unfold in_dvars. now rewrite Nat.eqb_refl. Qed.

(* ---------------------------------------------- _sys_trans, _env_trans *)
Definition step_from nd (g : tsys) (u : Z) (s s' : val) : bool :=
  existsb (fun e => Z.eqb (fst (fst e)) u
                    && (Z.eqb (s' nd) (snd (fst e))
                        && elabel_holds esem (in_dvars nd g) (snd e) s s'))
          (ts_edges g).

Lemma post_sem nd (g : tsys) es s s' :
  existsb (eval_item_or s s')
    (map (fun e : Z * Z * elabel EL =>
        let '(_, v, d) := e in
        Some (to_action (in_dvars nd g) (e_item d)
                        (e_asg d ++ [(true, nd, v)]))) es)
  = existsb (fun e => Z.eqb (s' nd) (snd (fst e))
                      && elabel_holds esem (in_dvars nd g) (snd e) s s') es.
Proof.
  rewrite existsb_map. apply existsb_ext'. intros [[u0 v] d]. cbn [eval_item_or].
  unfold FormulaProofs.eval_item_or.
  rewrite edge_action_sem. cbn [forallb fst snd].
  rewrite in_dvars_nd. cbn [implb asg_holds]. rewrite andb_true_r.
  apply andb_comm.
Qed.

Lemma node_trans_sem nd (g : tsys) u s s' :
  eval (node_trans nd g u) s s'
  = implb (Z.eqb (s nd) u) (step_from nd g u s s').
Proof.
  unfold node_trans, step_from.
  rewrite <- (existsb_filter (fun e => Z.eqb (fst (fst e)) u)).
  fold (out_edges g u).
  destruct (out_edges g u) as [|e es] eqn:E.
  - reflexivity.
  - cbn [eval assign]. rewrite disj_sem, post_sem. reflexivity.
Qed.

Lemma env_node_trans_eq nd (g : tsys) u :
  env_node_trans nd g u = node_trans nd g u.
Proof. reflexivity. Qed.

Lemma env_trans_eq nd (g : tsys) : env_trans nd g = sys_trans nd g.
Proof. reflexivity. Qed.

Lemma step_from_edge_step nd (g : tsys) s s' :
  step_from nd g (s nd) s s' = edge_step esem nd g s s'.
Proof. reflexivity. Qed.

Lemma sys_trans_sem nd (g : tsys) s s' :
  eval (sys_trans nd g) s s'
  = implb (is_node g (s nd)) (edge_step esem nd g s s').
Proof.
  unfold sys_trans. rewrite conj_sem, forallb_map.
  rewrite (forallb_ext' _
    (fun n => implb (Z.eqb (s nd) (fst n)) (step_from nd g (fst n) s s'))).
  2:{ intros n. cbn [FormulaProofs.eval_item]. apply node_trans_sem. }
  rewrite (forallb_guard fst (fun u => step_from nd g u s s')).
  reflexivity.
Qed.

(* ------------------------------------------------------ _node_var_trans *)
Lemma node_var_trans_init_sem nd (g : tsys) s s' :
  forallb (fun f => eval f s s') (fst (node_var_trans nd g))
  = node_labels_hold nsem nd g s.
Proof.
  unfold node_var_trans, node_labels_hold. cbn [fst].
  rewrite forallb_map, forallb_flat_map. apply forallb_ext'.
  intros [u d]. cbn [fst snd].
  pose proof (node_action_sem nd g d s s') as H.
  destruct (is_FTrue _) eqn:E.
  - apply is_FTrue_sem with (esem := esem) (nsem := nsem) (s := s) (s' := s')
      in E. rewrite E in H. rewrite <- H. cbn. now rewrite implb_true_r.
  - cbn [forallb fst snd eval assign]. rewrite H, andb_true_r.
    now destruct (Z.eqb (s nd) u), (nlabel_holds nsem nd g d s).
Qed.

Lemma node_var_trans_trans_sem nd (g : tsys) s s' :
  forallb (fun f => eval f s s') (snd (node_var_trans nd g))
  = node_labels_hold nsem nd g s'.
Proof.
  unfold node_var_trans, node_labels_hold. cbn [snd].
  rewrite forallb_map, forallb_flat_map. apply forallb_ext'.
  intros [u d]. cbn [fst snd].
  pose proof (node_action_sem nd g d s' s') as H.
  destruct (is_FTrue _) eqn:E.
  - apply is_FTrue_sem with (esem := esem) (nsem := nsem) (s := s') (s' := s')
      in E. rewrite E in H. rewrite <- H. cbn. now rewrite implb_true_r.
  - cbn [forallb fst snd eval assign]. rewrite H, andb_true_r. reflexivity.
Qed.

(* -------------------------------------------------------- _init_from_ts *)
Lemma init_from_ts_sem nd (g : tsys) ign s s' :
  forallb (fun f => eval f s s') (init_from_ts nd g ign)
  = ign || existsb (Z.eqb (s nd)) (ts_initial g).
Proof.
  unfold init_from_ts. destruct ign; [reflexivity|].
  cbn [forallb orb]. rewrite disj_sem, existsb_map, andb_true_r.
  apply existsb_ext'. intros u. reflexivity.
Qed.

(* ----------------------------------------------- _env_trans_from_sys_ts *)
Lemma has_succ_out_edges (g : tsys) u :
  has_succ g u = negb (match out_edges g u with [] => true | _ => false end).
Proof.
  unfold has_succ, out_edges.
  induction (ts_edges g) as [|e l IH]; cbn; [reflexivity|].
  destruct (Z.eqb (fst (fst e)) u); cbn; [reflexivity|exact IH].
Qed.

Lemma env_trans_from_sys_ts_sem nd (g : tsys) s s' :
  eval (env_trans_from_sys_ts nd g) s s' = receptive_sem esem nd g s s'.
Proof.
  unfold env_trans_from_sys_ts, receptive_sem.
  rewrite conj_sem, forallb_flat_map.
  set (R := fun u => existsb
    (fun e : Z * Z * elabel EL => Z.eqb (fst (fst e)) u
       && elabel_holds esem (in_denv nd g) (snd e) s s') (ts_edges g)).
  rewrite (forallb_ext' _
    (fun n => implb (Z.eqb (s nd) (fst n))
                    (implb (has_succ g (fst n)) (R (fst n))))).
  - rewrite (forallb_guard fst (fun u => implb (has_succ g u) (R u))).
    subst R. cbn beta. fold (is_node g (s nd)).
    now destruct (is_node g (s nd)), (has_succ g (s nd)).
  - intros [u d]. cbn [fst].
    assert (HR : R u = existsb
      (fun e => elabel_holds esem (in_denv nd g) (snd e) s s')
      (out_edges g u)).
    { unfold R, out_edges. now rewrite existsb_filter. }
    assert (HS : has_succ g u = negb (match out_edges g u with
                                      | [] => true | _ => false end)).
    { apply has_succ_out_edges. }
    rewrite HR, HS.
    destruct (out_edges g u) as [|e es].
    + cbn. now rewrite implb_true_r.
    + cbn [forallb FormulaProofs.eval_item eval assign negb implb].
      rewrite andb_true_r, disj_sem, existsb_map.
      f_equal. apply existsb_ext'. intros [[u0 v] l].
      cbn [FormulaProofs.eval_item_or snd].
      rewrite to_action_sem, e_item_sem. reflexivity.
Qed.

(* ------------------------------------------------------- graph_to_logic *)
Lemma add_expr_sem c s s' :
  eval (add_expr c) s s' = forallb (fun f => eval f s s') c.
Proof.
  unfold add_expr. rewrite conj_sem, forallb_map. reflexivity.
Qed.

Lemma tran_sem nd (self_loops : bool) (g : tsys) r s s' :
  eval r s s' = implb (is_node g (s nd)) (edge_step esem nd g s s') ->
  forallb (fun f => eval f s s')
    ((if self_loops then FOr r (FStutter nd) else r)
     :: snd (node_var_trans nd g))
  = owner_action_sem esem nsem nd self_loops g s s'.
Proof.
  intros Hr. cbn [forallb]. rewrite node_var_trans_trans_sem.
  unfold owner_action_sem. f_equal.
  destruct self_loops; cbn [eval andb]; rewrite Hr;
    [reflexivity|now rewrite orb_false_r].
Qed.

(* the owner's action, for EVERY pair of valuations *)
Theorem owner_action_exact nd ign rec sl (g : tsys) s s' :
  eval (owner_action (graph_to_logic nd ign rec sl g) g) s s'
  = owner_action_sem esem nsem nd sl g s s'.
Proof.
  unfold owner_action, graph_to_logic, graph_to_formulas.
  destruct (node_var_trans nd g) as [ti np] eqn:En.
  assert (Hnp : np = snd (node_var_trans nd g)) by now rewrite En.
  destruct (ts_owner_sys g); cbn [sys_action env_action]; rewrite add_expr_sem;
    subst np; apply tran_sem.
  - apply sys_trans_sem.
  - rewrite env_trans_eq. apply sys_trans_sem.
Qed.

(* the owner's initial condition *)
Theorem owner_init_exact nd ign rec sl (g : tsys) s s' :
  eval (owner_init (graph_to_logic nd ign rec sl g) g) s s'
  = owner_init_sem nsem nd ign g s.
Proof.
  unfold owner_init, graph_to_logic, graph_to_formulas.
  destruct (node_var_trans nd g) as [ti np] eqn:En.
  assert (Hti : ti = fst (node_var_trans nd g)) by now rewrite En.
  destruct (ts_owner_sys g); cbn [sys_init env_init]; rewrite add_expr_sem;
    subst ti; rewrite forallb_app, init_from_ts_sem, node_var_trans_init_sem;
    reflexivity.
Qed.

(* the other player's initial condition is TRUE *)
Theorem other_init_true nd ign rec sl (g : tsys) s s' :
  eval (other_init (graph_to_logic nd ign rec sl g) g) s s' = true.
Proof.
  unfold other_init, graph_to_logic, graph_to_formulas.
  destruct (node_var_trans nd g) as [ti np].
  destruct (ts_owner_sys g); reflexivity.
Qed.

(* the other player's action: TRUE, unless the component owns the graph and
   receptiveness was requested *)
Theorem other_action_exact nd ign rec sl (g : tsys) s s' :
  eval (other_action (graph_to_logic nd ign rec sl g) g) s s'
  = if ts_owner_sys g && rec then receptive_sem esem nd g s s' else true.
Proof.
  unfold other_action, graph_to_logic, graph_to_formulas.
  destruct (node_var_trans nd g) as [ti np].
  destruct (ts_owner_sys g); [|reflexivity].
  destruct rec; cbn [env_action andb]; [|reflexivity].
  rewrite add_expr_sem. cbn [forallb].
  now rewrite env_trans_from_sys_ts_sem, andb_true_r.
Qed.

(* --------------------------------------- the property's own formulation *)
Lemma is_node_In (g : tsys) u :
  is_node g u = true <-> In u (map fst (ts_nodes g)).
Proof.
  unfold is_node. rewrite existsb_exists, in_map_iff. split.
  - intros (n & Hin & He). apply Z.eqb_eq in He. eauto.
  - intros (n & He & Hin). exists n. split; [exact Hin|now apply Z.eqb_eq].
Qed.

Lemma edge_step_iff nd (g : tsys) s s' :
  edge_step esem nd g s s' = true <->
  exists u v l, In (u, v, l) (ts_edges g) /\ u = s nd /\ v = s' nd
                /\ elabel_holds esem (in_dvars nd g) l s s' = true.
Proof.
  unfold edge_step. rewrite existsb_exists. split.
  - intros ([[u v] l] & Hin & H). cbn [fst snd] in H.
    apply andb_true_iff in H as [H1 H2]. apply andb_true_iff in H2 as [H2 H3].
    apply Z.eqb_eq in H1, H2. exists u, v, l. auto.
  - intros (u & v & l & Hin & -> & -> & H). exists (s nd, s' nd, l).
    split; [exact Hin|]. cbn [fst snd]. now rewrite !Z.eqb_refl, H.
Qed.

(* with distinct node ids (networkx), "the labels of the entries with id
   s(nd)" is "the label of node s(nd)" *)
Lemma node_labels_hold_nodup nd (g : tsys) s :
  NoDup (map fst (ts_nodes g)) ->
  node_labels_hold nsem nd g s
  = match node_label g (s nd) with
    | Some l => nlabel_holds nsem nd g l s
    | None => true
    end.
Proof.
  unfold node_labels_hold, node_label.
  induction (ts_nodes g) as [|[u d] l IH]; intros Hnd; [reflexivity|].
  cbn [map fst] in Hnd. inversion Hnd as [|? ? Hnotin Hnd']; subst.
  cbn [forallb find fst snd]. rewrite (Z.eqb_sym u (s nd)).
  destruct (Z.eqb_spec (s nd) u) as [E|E]; cbn [implb option_map snd].
  - assert (Hrest : forallb (fun n => implb (Z.eqb (s nd) (fst n))
        (nlabel_holds nsem nd g (snd n) s)) l = true).
    { apply forallb_forall. intros [w dw] Hin. cbn [fst snd].
      destruct (Z.eqb_spec (s nd) w) as [E'|]; [|reflexivity].
      exfalso. apply Hnotin. rewrite <- E, E'.
      apply in_map_iff. exists (w, dw). auto. }
    rewrite Hrest. apply andb_true_r.
  - apply IH, Hnd'.
Qed.

Theorem owner_action_spec nd ign rec sl (g : tsys) s s' :
  In (s nd) (map fst (ts_nodes g)) ->
  eval (owner_action (graph_to_logic nd ign rec sl g) g) s s' = true <->
  ((exists u v l, In (u, v, l) (ts_edges g) /\ u = s nd /\ v = s' nd
                  /\ elabel_holds esem (in_dvars nd g) l s s' = true)
   \/ (sl = true /\ s' nd = s nd))
  /\ node_labels_hold nsem nd g s' = true.
Proof.
  intros Hin. rewrite owner_action_exact. unfold owner_action_sem.
  apply is_node_In in Hin. rewrite Hin. cbn [implb].
  rewrite andb_true_iff, orb_true_iff, andb_true_iff, edge_step_iff,
    Z.eqb_eq.
  reflexivity.
Qed.

(* a node without successors admits no step (unless stuttering was asked) *)
Theorem dead_end_no_step nd ign rec (g : tsys) s s' :
  In (s nd) (map fst (ts_nodes g)) ->
  has_succ g (s nd) = false ->
  eval (owner_action (graph_to_logic nd ign rec false g) g) s s' = false.
Proof.
  intros Hin Hdead. rewrite owner_action_exact. unfold owner_action_sem.
  apply is_node_In in Hin. rewrite Hin. cbn [implb andb orb].
  rewrite orb_false_r.
  assert (E : edge_step esem nd g s s' = false).
  { unfold edge_step, has_succ in *.
    induction (ts_edges g) as [|e l IH]; [reflexivity|].
    cbn [existsb] in *. apply orb_false_iff in Hdead as [H1 H2].
    rewrite H1, (IH H2). reflexivity. }
  now rewrite E.
Qed.

Theorem init_spec nd ign rec sl (g : tsys) s s' :
  eval (owner_init (graph_to_logic nd ign rec sl g) g) s s' = true <->
  (ign = true \/ In (s nd) (ts_initial g))
  /\ node_labels_hold nsem nd g s = true.
Proof.
  rewrite owner_init_exact. unfold owner_init_sem.
  rewrite andb_true_iff, orb_true_iff, existsb_exists.
  split; intros [H1 H2]; (split; [|exact H2]).
  - destruct H1 as [H1|(u & Hu & He)]; [now left|].
    right. apply Z.eqb_eq in He. now rewrite He.
  - destruct H1 as [H1|H1]; [now left|].
    right. exists (s nd). split; [exact H1|apply Z.eqb_refl].
Qed.

Theorem other_player_unconstrained nd ign rec sl (g : tsys) s s' :
  ts_owner_sys g && rec = false ->
  eval (other_action (graph_to_logic nd ign rec sl g) g) s s' = true
  /\ eval (other_init (graph_to_logic nd ign rec sl g) g) s s' = true.
Proof.
  intros H. rewrite other_action_exact, other_init_true, H. auto.
Qed.

Theorem receptive_spec nd ign sl (g : tsys) s s' :
  ts_owner_sys g = true ->
  eval (env_action (graph_to_logic nd ign true sl g)) s s'
  = receptive_sem esem nd g s s'.
Proof.
  intros H. pose proof (other_action_exact nd ign true sl g s s') as E.
  unfold other_action in E. rewrite H in E. exact E.
Qed.

(* ---------------------------------------------- declarations of the result *)
Lemma fold_min_le r : forall u, (fold_left Z.min r u <= u)%Z /\
  Forall (fun w => fold_left Z.min r u <= w)%Z r /\
  In (fold_left Z.min r u) (u :: r).
Proof.
  induction r as [|w r IH]; intros u; cbn [fold_left].
  - repeat split; [lia|constructor|now left].
  - destruct (IH (Z.min u w)) as (H1 & H2 & H3). repeat split.
    + lia.
    + constructor; [lia|exact H2].
    + destruct H3 as [H3|H3]; [|now right; right].
      rewrite <- H3. destruct (Z.min_spec u w) as [[_ ->]|[_ ->]];
        [now left|now right; left].
Qed.

Lemma fold_max_ge r : forall u, (u <= fold_left Z.max r u)%Z /\
  Forall (fun w => w <= fold_left Z.max r u)%Z r /\
  In (fold_left Z.max r u) (u :: r).
Proof.
  induction r as [|w r IH]; intros u; cbn [fold_left].
  - repeat split; [lia|constructor|now left].
  - destruct (IH (Z.max u w)) as (H1 & H2 & H3). repeat split.
    + lia.
    + constructor; [lia|exact H2].
    + destruct H3 as [H3|H3]; [|now right; right].
      rewrite <- H3. destruct (Z.max_spec u w) as [[_ ->]|[_ ->]];
        [now right; left|now left].
Qed.

(* the declared range of the node variable is the tight range of the ids *)
Theorem nodevar_dom_spec (g : tsys) :
  ts_nodes g <> [] ->
  let '(lo, hi) := nodevar_dom g in
  (forall u, In u (node_ids g) -> (lo <= u <= hi)%Z)
  /\ In lo (node_ids g) /\ In hi (node_ids g).
Proof.
  unfold nodevar_dom, node_ids. intros Hne.
  destruct (map fst (ts_nodes g)) as [|u r] eqn:E.
  { destruct (ts_nodes g); [contradiction|discriminate]. }
  destruct (fold_min_le r u) as (A1 & A2 & A3).
  destruct (fold_max_ge r u) as (B1 & B2 & B3).
  repeat split; auto.
  - destruct H as [<-|H]; [exact A1|].
    rewrite Forall_forall in A2. now apply A2.
  - destruct H as [<-|H]; [exact B1|].
    rewrite Forall_forall in B2. now apply B2.
Qed.

Lemma mem_In k l : mem k l = true <-> In k l.
Proof.
  unfold mem. rewrite existsb_exists. split.
  - intros (x & Hx & He). apply Nat.eqb_eq in He. now subst.
  - intros H. exists k. split; [exact H|apply Nat.eqb_refl].
Qed.

(* the node variable belongs to the owner; the other variables are split by
   env_vars *)
Theorem varlists_spec nd (g : tsys) :
  let '(env, sys) := varlists nd g in
  (if ts_owner_sys g then In nd sys else In nd env)
  /\ (forall k, k <> nd ->
        (In k env <-> In k (ts_env_vars g)) /\
        (In k sys <-> In k (ts_vars g) /\ ~ In k (ts_env_vars g))).
Proof.
  unfold varlists.
  assert (F : forall k, In k (filter (fun k => negb (mem k (ts_env_vars g)))
                                     (ts_vars g))
              <-> In k (ts_vars g) /\ ~ In k (ts_env_vars g)).
  { intros k. rewrite filter_In, negb_true_iff, <- not_true_iff_false, mem_In.
    reflexivity. }
  destruct (ts_owner_sys g); split.
  - apply in_or_app. right. now left.
  - intros k Hk. split; [reflexivity|]. rewrite in_app_iff, F. cbn.
    intuition congruence.
  - apply in_or_app. right. now left.
  - intros k Hk. split; [|apply F]. rewrite in_app_iff. cbn.
    intuition congruence.
Qed.

(* ------------------------------------------------------------------ runs *)
(* finite runs of the symbolic automaton that start at a node of the graph
   are exactly the labelled paths of the graph (with stuttering steps when
   self-loops were requested), and they never leave the graph *)
Theorem runs_are_paths nd ign rec sl (g : tsys) :
  wf_graph g ->
  forall rest s0,
  In (s0 nd) (node_ids g) ->
  chain (fun s t => eval (owner_action (graph_to_logic nd ign rec sl g) g) s t
                    = true) s0 rest
  <-> chain (graph_step esem nsem nd sl g) s0 rest
      /\ Forall (fun s => In (s nd) (node_ids g)) rest.
Proof.
  intros [_ Hwf]. induction rest as [|t r IH]; intros s0 Hin.
  - cbn. intuition.
  - cbn [chain]. rewrite (owner_action_spec nd ign rec sl g s0 t Hin).
    fold (graph_step esem nsem nd sl g s0 t).
    assert (Ht : graph_step esem nsem nd sl g s0 t -> In (t nd) (node_ids g)).
    { intros [[(u & v & l & He & _ & Hv & _)|[_ Hst]] _].
      - rewrite <- Hv. apply (Hwf u v l He).
      - now rewrite Hst. }
    split.
    + intros [Hs Hc]. specialize (Ht Hs). apply (IH t Ht) in Hc as [Hc Hf].
      split; [split; [exact Hs|exact Hc]|constructor; assumption].
    + intros [[Hs Hc] Hf]. split; [exact Hs|].
      apply (IH t (Ht Hs)). split; [exact Hc|]. now inversion Hf.
Qed.

(* from an initial state (initial nodes taken into account) *)
Corollary initial_runs_are_paths nd rec sl (g : tsys) :
  wf_graph g ->
  forall rest s0 s0',
  (eval (owner_init (graph_to_logic nd false rec sl g) g) s0 s0' = true /\
   chain (fun s t => eval (owner_action (graph_to_logic nd false rec sl g) g)
                          s t = true) s0 rest)
  <-> (graph_init nsem nd false g s0 /\
       chain (graph_step esem nsem nd sl g) s0 rest /\
       Forall (fun s => In (s nd) (node_ids g)) (s0 :: rest)).
Proof.
  intros Hwf rest s0 s0'. rewrite init_spec. fold (graph_init nsem nd false g s0).
  split.
  - intros [Hi Hc].
    assert (Hin : In (s0 nd) (node_ids g)).
    { destruct Hi as [[Hf|Hi] _]; [discriminate|]. now apply (proj1 Hwf). }
    apply (runs_are_paths nd false rec sl g Hwf rest s0 Hin) in Hc as [Hc Hf].
    split; [exact Hi|]. split; [exact Hc|]. constructor; assumption.
  - intros (Hi & Hc & Hf). split; [exact Hi|].
    inversion Hf as [|? ? Hin Hf']; subst.
    apply (runs_are_paths nd false rec sl g Hwf rest s0 Hin). auto.
Qed.

End Proofs.
