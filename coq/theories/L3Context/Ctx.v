(* L3 / Ctx: model of omega.symbolic.fol.Context (no proofs).

   A context is a declaration table [tbl] (Python: Context.vars after
   bitblast_table): each identifier is Boolean or an integer with a [hint].
   A bit is identified by the pair (identifier, index in "bitnames"); the bit
   of a Boolean variable is (x, 0).  (The concrete names "x_0", "x_0'" are
   an injective printing of these pairs, checked by the correspondence.)

   A BDD is modelled by its meaning: a predicate on bit assignments
   [pred := (bit -> bool) -> bool].  The dd operations used by the context
   (apply, exist, let = cofactor / rename, cube, support, count) are defined by
   meaning (DESIGN §8.3: dd is outside the model); dd.pick_iter enters as a
   list of cubes with a measured contract [cube_contract_b].

   On top: the omega wrappers
     bitvector.bit_table, map_bits_to_integers
     fol._refine_vars, _refine_assignment, _refine_renaming
     Context.support / let / replace / exist / forall / count / pick_iter /
             assign_from / apply
     enumeration._bitfields_to_int_iter, _take_product_iter
   following the structure of the code. *)
From Coq Require Import ZArith List Bool String Ascii.
From Omega Require Import L0Bits.Bits.
Import ListNotations.
Open Scope Z_scope.

Definition ident := string.
Definition bit := (ident * nat)%type.

(* index first and short-circuit: cheaper under call-by-value evaluation *)
Definition bit_eqb (a b : bit) : bool :=
  if Nat.eqb (snd a) (snd b) then String.eqb (fst a) (fst b) else false.

Inductive vdecl := DBool | DInt (h : hint).
Definition tbl := list (ident * vdecl).

Definition tlookup (x : ident) (t : tbl) : option vdecl :=
  dict_get String.eqb x t.

Inductive val := VB (b : bool) | VZ (z : Z).

Definition val_eqb (a b : val) : bool :=
  match a, b with
  | VB x, VB y => Bool.eqb x y
  | VZ x, VZ y => x =? y
  | _, _ => false
  end.

(* "bitnames" of a table entry ([var] itself for a Boolean) *)
Definition bitnames (x : ident) (d : vdecl) : list bit :=
  match d with
  | DBool => [(x, 0%nat)]
  | DInt h => map (fun i => (x, i)) (seq 0 (wnat h))
  end.

Definition all_bits (t : tbl) : list bit :=
  flat_map (fun xd => bitnames (fst xd) (snd xd)) t.

(* ---- BDDs by meaning ------------------------------------------------------- *)
Definition bitasg := bit -> bool.
Definition pred := bitasg -> bool.

Definition upd (a : bitasg) (b : bit) (v : bool) : bitasg :=
  fun b' => if bit_eqb b' b then v else a b'.

Definition zero_asg : bitasg := fun _ => false.

(* all assignments to [bits] (other bits as in [base]), first bit most
   significant, False before True: the order of itertools.product *)
Fixpoint asgs_from (base : bitasg) (bits : list bit) : list bitasg :=
  match bits with
  | [] => [base]
  | b :: r => asgs_from (upd base b false) r ++ asgs_from (upd base b true) r
  end.
Definition all_asgs (bits : list bit) : list bitasg := asgs_from zero_asg bits.

Definition btrue : pred := fun _ => true.
Definition bfalse : pred := fun _ => false.
Definition bnot (p : pred) : pred := fun a => negb (p a).
Definition band (p q : pred) : pred := fun a => p a && q a.
Definition bor (p q : pred) : pred := fun a => p a || q a.
Definition bxor (p q : pred) : pred := fun a => xorb (p a) (q a).
Definition bimp (p q : pred) : pred := fun a => implb (p a) (q a).
Definition bequiv (p q : pred) : pred := fun a => Bool.eqb (p a) (q a).
Definition bdiff (p q : pred) : pred := fun a => p a && negb (q a).
Definition bite (g p q : pred) : pred := fun a => if g a then p a else q a.

(* dd.BDD.apply operator classes (the synonyms are mapped by the harness) *)
Inductive bop := OpNot | OpAnd | OpOr | OpXor | OpImplies | OpEquiv | OpDiff | OpIte.

Definition bapply (op : bop) (u : pred) (v w : option pred) : option pred :=
  match op, v, w with
  | OpNot, None, None => Some (bnot u)
  | OpAnd, Some v, None => Some (band u v)
  | OpOr, Some v, None => Some (bor u v)
  | OpXor, Some v, None => Some (bxor u v)
  | OpImplies, Some v, None => Some (bimp u v)
  | OpEquiv, Some v, None => Some (bequiv u v)
  | OpDiff, Some v, None => Some (bdiff u v)
  | OpIte, Some v, Some w => Some (bite u v w)
  | _, _, _ => None
  end.

Definition bexist1 (b : bit) (p : pred) : pred :=
  fun a => p (upd a b false) || p (upd a b true).
Definition bexist (bs : list bit) (p : pred) : pred := fold_right bexist1 p bs.

(* dd let with Boolean values: cofactor *)
Definition blet_vals (d : list (bit * bool)) (p : pred) : pred :=
  fun a => p (fun b => match dict_get bit_eqb b d with
                       | Some v => v
                       | None => a b
                       end).
(* dd let with variable names: simultaneous renaming *)
Definition blet_ren (d : list (bit * bit)) (p : pred) : pred :=
  fun a => p (fun b => match dict_get bit_eqb b d with
                       | Some b' => a b'
                       | None => a b
                       end).
(* dd let with BDDs: composition (Context.replace_with_bdd) *)
Definition bcompose (d : list (bit * pred)) (p : pred) : pred :=
  fun a => p (fun b => match dict_get bit_eqb b d with
                       | Some q => q a
                       | None => a b
                       end).
Definition bcube (d : list (bit * bool)) : pred :=
  fun a => forallb (fun bv => Bool.eqb (a (fst bv)) (snd bv)) d.

(* semantic dependence on a bit, decided over the declared universe *)
Definition depends_b (univ : list bit) (p : pred) (b : bit) : bool :=
  existsb (fun a => xorb (p (upd a b true)) (p (upd a b false))) (all_asgs univ).
Definition bsupport (univ : list bit) (p : pred) : list bit :=
  filter (depends_b univ p) univ.

Definition countZ (p : pred) (l : list bitasg) : Z :=
  fold_left (fun acc a => if p a then acc + 1 else acc) l 0.

(* dd count(u, n): models over the support, times 2^(n - |support|);
   ValueError (None) if n < |support| *)
Definition bcount (univ : list bit) (p : pred) (n : Z) : option Z :=
  let s := bsupport univ p in
  let k := Z.of_nat (List.length s) in
  if n <? k then None else Some (countZ p (all_asgs s) * 2 ^ (n - k)).

Definition beq (univ : list bit) (p q : pred) : bool :=
  forallb (fun a => Bool.eqb (p a) (q a)) (all_asgs univ).

(* ---- containers ------------------------------------------------------------ *)
Fixpoint mem {K} (keq : K -> K -> bool) (k : K) (l : list K) : bool :=
  match l with
  | [] => false
  | x :: r => keq k x || mem keq k r
  end.
Definition set_add {K} (keq : K -> K -> bool) (k : K) (l : list K) : list K :=
  if mem keq k l then l else l ++ [k].
Definition set_union {K} (keq : K -> K -> bool) (a b : list K) : list K :=
  fold_left (fun acc k => set_add keq k acc) b a.
Definition subset {K} (keq : K -> K -> bool) (a b : list K) : bool :=
  forallb (fun k => mem keq k b) a.
Definition dict_update {K V} (keq : K -> K -> bool) (d e : list (K * V))
    : list (K * V) :=
  fold_left (fun acc kv => dict_set keq (fst kv) (snd kv) acc) e d.

(* ---- bitvector.bit_table / map_bits_to_integers ----------------------------- *)
(* the keys of bit_table(variables, table); None = KeyError *)
Fixpoint bit_table (vars : list ident) (t : tbl) : option (list bit) :=
  match vars with
  | [] => Some []
  | x :: r =>
    match tlookup x t, bit_table r t with
    | Some d, Some rest => Some (set_union bit_eqb (bitnames x d) rest)
    | _, _ => None
    end
  end.

(* fol._refine_vars *)
Definition refine_vars (vars : list ident) (t : tbl) : option (list bit) :=
  match vars with [] => Some [] | _ => bit_table vars t end.

Definition map_bits_to_integers (t : tbl) : list (bit * ident) :=
  fold_left (fun acc xd =>
    dict_update bit_eqb acc
      (map (fun b => (b, fst xd)) (bitnames (fst xd) (snd xd)))) t [].

(* ---- Context.support -------------------------------------------------------- *)
Fixpoint map_opt {A B} (f : A -> option B) (l : list A) : option (list B) :=
  match l with
  | [] => Some []
  | x :: r => match f x, map_opt f r with
              | Some y, Some ys => Some (y :: ys)
              | _, _ => None
              end
  end.

Definition ctx_support (t : tbl) (p : pred) : option (list ident) :=
  let supp := bsupport (all_bits t) p in
  let bit2int := map_bits_to_integers t in
  match map_opt (fun b => dict_get bit_eqb b bit2int) supp with
  | Some xs => Some (set_union String.eqb [] xs)
  | None => None
  end.

(* ---- fol._refine_assignment / _refine_renaming ------------------------------ *)
Fixpoint refine_assignment_from (t : tbl) (m : list (ident * val))
    (acc : list (bit * bool)) : option (list (bit * bool)) :=
  match m with
  | [] => Some acc
  | (x, v) :: r =>
    match tlookup x t, v with
    | Some DBool, VB b => refine_assignment_from t r (dict_set bit_eqb (x, 0%nat) b acc)
    | Some (DInt h), VZ z =>
      match int_to_bit_assignment h z with
      | Some d =>
        refine_assignment_from t r
          (dict_update bit_eqb acc (map (fun ib => ((x, fst ib), snd ib)) d))
      | None => None
      end
    | _, _ => None
    end
  end.
Definition refine_assignment (t : tbl) (m : list (ident * val)) :=
  refine_assignment_from t m [].

Definition dom_eqb (a b : Z * Z) : bool := (fst a =? fst b) && (snd a =? snd b).

Fixpoint refine_renaming_from (t : tbl) (ren : list (ident * ident))
    (acc : list (bit * bit)) : option (list (bit * bit)) :=
  match ren with
  | [] => Some acc
  | (old, new) :: r =>
    match tlookup old t, tlookup new t with
    | Some DBool, Some DBool =>
      refine_renaming_from t r (dict_set bit_eqb (old, 0%nat) (new, 0%nat) acc)
    | Some (DInt ho), Some (DInt hn) =>
      let ob := bitnames old (DInt ho) in
      let nb := bitnames new (DInt hn) in
      if negb (dom_eqb (h_dom ho) (h_dom hn)) then None
      else if negb (Nat.eqb (List.length ob) (List.length nb)) then None
      else if existsb (fun b => mem bit_eqb b nb) ob then None
      else refine_renaming_from t r (dict_update bit_eqb acc (combine ob nb))
    | _, _ => None
    end
  end.
Definition refine_renaming (t : tbl) (ren : list (ident * ident)) :=
  refine_renaming_from t ren [].

(* ---- Context.let / replace -------------------------------------------------- *)
Definition ctx_let_vals (t : tbl) (defs : list (ident * val)) (u : pred)
    : option pred :=
  match defs with
  | [] => Some u
  | _ => match refine_assignment t defs with
         | Some d => Some (blet_vals d u)
         | None => None
         end
  end.

Definition ctx_let_vars (t : tbl) (defs : list (ident * ident)) (u : pred)
    : option pred :=
  match defs with
  | [] => Some u
  | _ => match refine_renaming t defs with
         | Some d => Some (blet_ren d u)
         | None => None
         end
  end.

(* ---- Context.exist / forall -------------------------------------------------- *)
Definition ctx_exist (t : tbl) (qvars : list ident) (u : pred) : option pred :=
  match qvars with
  | [] => Some u
  | _ => match bit_table qvars t with
         | Some qbits => Some (bexist qbits u)
         | None => None
         end
  end.

Definition ctx_forall (t : tbl) (qvars : list ident) (u : pred) : option pred :=
  match ctx_exist t qvars (bnot u) with
  | Some r => Some (bnot r)
  | None => None
  end.

(* ---- Context.assign_from ----------------------------------------------------- *)
Definition ctx_assign_from (t : tbl) (m : list (ident * val)) : option pred :=
  match refine_assignment t m with
  | Some d => Some (bcube d)
  | None => None
  end.

(* ---- Context.count ------------------------------------------------------------ *)
Definition ctx_count (t : tbl) (u : pred) (care_vars : option (list ident))
    : option Z :=
  match ctx_support t u with
  | None => None
  | Some support =>
    let care := match care_vars with None => support | Some c => c end in
    if negb (subset String.eqb support care) then None   (* AssertionError *)
    else match refine_vars care t with
         | None => None
         | Some bits => bcount (all_bits t) u (Z.of_nat (List.length bits))
         end
  end.

(* ---- enumeration._bitfields_to_int_iter --------------------------------------- *)
Definition cube := list (bit * bool).
Definition fasgn := list (ident * val).

Fixpoint take_product (sets : list (ident * list Z)) (model : fasgn)
    : list fasgn :=
  match sets with
  | [] => [model]
  | (x, vals) :: r =>
    flat_map (fun m => map (fun v => m ++ [(x, VZ v)]) vals)
             (take_product r model)
  end.

Definition bool_model (t : tbl) (c : cube) : fasgn :=
  flat_map (fun xd =>
    match snd xd with
    | DBool => match dict_get bit_eqb (fst xd, 0%nat) c with
               | Some v => [(fst xd, VB v)]
               | None => []
               end
    | DInt _ => []
    end) t.

Fixpoint int_sets (t : tbl) (c : cube) : option (list (ident * list Z)) :=
  match t with
  | [] => Some []
  | (x, DBool) :: r => int_sets r c
  | (x, DInt h) :: r =>
    let names := bitnames x (DInt h) in
    if negb (existsb (fun b => mem bit_eqb b (map fst c)) names)
    then int_sets r c
    else
      let bitvalues := map (fun b => dict_get bit_eqb b c) names in
      match append_sign_bit (Some false) (Some true) bitvalues h, int_sets r c with
      | Some bv, Some rest => Some ((x, enumerate_int bv) :: rest)
      | _, _ => None
      end
  end.

Definition bitfields_to_int_iter (t : tbl) (c : cube) : option (list fasgn) :=
  if negb (subset bit_eqb (map fst c) (all_bits t)) then None   (* missing bits *)
  else match int_sets t c with
       | Some sets => Some (take_product sets (bool_model t c))
       | None => None
       end.

(* ---- Context.pick_iter --------------------------------------------------------- *)
(* the care_vars argument handed to dd.pick_iter *)
Definition care_bits_of (t : tbl) (care_vars : option (list ident))
    : option (option (list bit)) :=
  match care_vars with
  | None => Some None
  | Some [] => Some (Some [])
  | Some c => match bit_table c t with
              | Some bits => Some (Some bits)
              | None => None
              end
  end.

Fixpoint concat_opt {A} (l : list (option (list A))) : option (list A) :=
  match l with
  | [] => Some []
  | Some x :: r => match concat_opt r with
                   | Some y => Some (x ++ y)
                   | None => None
                   end
  | None :: _ => None
  end.

(* [cubes]: what dd.pick_iter(u, care_bits) yielded *)
Definition ctx_pick_iter (t : tbl) (u : pred) (care_vars : option (list ident))
    (cubes : list cube) : option (list fasgn) :=
  match ctx_support t u with
  | None => None
  | Some support =>
    let vrs := set_union String.eqb support
                 (match care_vars with Some c => c | None => [] end) in
    match concat_opt (map (bitfields_to_int_iter t) cubes) with
    | None => None
    | Some ds =>
      if forallb (fun d => subset String.eqb (map fst d) vrs) ds
      then Some ds else None     (* assert set(d).issubset(vrs) *)
    end
  end.

(* Context.pick: next(self.pick_iter(u, care_vars), None) *)
Definition ctx_pick (t : tbl) (u : pred) (care_vars : option (list ident))
    (cubes : list cube) : option (option fasgn) :=
  match ctx_pick_iter t u care_vars cubes with
  | Some (d :: _) => Some (Some d)
  | Some [] => Some None
  | None => None
  end.

(* Context.replace_with_bdd: dd let with BDDs for Boolean-valued variables *)
Definition ctx_replace_with_bdd (subs : list (ident * pred)) (u : pred) : pred :=
  bcompose (map (fun xq => ((fst xq, 0%nat), snd xq)) subs) u.

(* the measured contract of dd.pick_iter(u, care_bits) over the universe of
   declared bits: the cubes are pairwise disjoint (two cubes disagree on some
   bit both assign), their union is the set of models of u, every cube assigns
   at least the care bits (default: the support), only declared bits, and only
   bits of the support or the care set *)
Definition cube_holds (c : cube) (a : bitasg) : bool :=
  forallb (fun bv => Bool.eqb (a (fst bv)) (snd bv)) c.

Definition cubes_conflict (c1 c2 : cube) : bool :=
  existsb (fun bv => match dict_get bit_eqb (fst bv) c2 with
                     | Some v => negb (Bool.eqb v (snd bv))
                     | None => false
                     end) c1.

Fixpoint pairwise {A} (r : A -> A -> bool) (l : list A) : bool :=
  match l with
  | [] => true
  | x :: rest => forallb (r x) rest && pairwise r rest
  end.

Fixpoint nodup_keys {K V} (keq : K -> K -> bool) (d : list (K * V)) : bool :=
  match d with
  | [] => true
  | (k, _) :: r => negb (mem keq k (map fst r)) && nodup_keys keq r
  end.

Definition cube_contract_b (univ : list bit) (u : pred)
    (care : option (list bit)) (cubes : list cube) : bool :=
  let care_bits := match care with Some c => c | None => bsupport univ u end in
  pairwise cubes_conflict cubes &&
  forallb (fun a => Bool.eqb (u a) (existsb (fun c => cube_holds c a) cubes))
          (all_asgs univ) &&
  forallb (fun c => nodup_keys bit_eqb c &&
                    subset bit_eqb care_bits (map fst c) &&
                    subset bit_eqb (map fst c) univ &&
                    subset bit_eqb (map fst c)
                      (set_union bit_eqb (bsupport univ u) care_bits)) cubes.

(* ---- first-order meaning -------------------------------------------------------- *)
(* total first-order assignments, and the bit assignment that refines one *)
Definition fasg := ident -> val.

Definition encode (t : tbl) (f : fasg) : bitasg :=
  fun b => match tlookup (fst b) t with
           | Some DBool => match f (fst b) with VB v => v | VZ _ => false end
           | Some (DInt h) => match f (fst b) with
                              | VZ z => Z.testbit z (Z.of_nat (snd b))
                              | VB _ => false
                              end
           | None => false
           end.

Definition decode (t : tbl) (a : bitasg) : fasg :=
  fun x => match tlookup x t with
           | Some DBool => VB (a (x, 0%nat))
           | Some (DInt h) =>
             match decode_val h (map a (bitnames x (DInt h))) with
             | Some z => VZ z
             | None => VZ 0
             end
           | None => VB false
           end.

Definition val_in_range (d : vdecl) (v : val) : bool :=
  match d, v with
  | DBool, VB _ => true
  | DInt h, VZ z => in_limits h z
  | _, _ => false
  end.

(* all representable values of a declared variable *)
Definition values_of (d : vdecl) : list val :=
  match d with
  | DBool => [VB false; VB true]
  | DInt h => map VZ (zrange (fst (limits_of h)) (snd (limits_of h)))
  end.

Definition fupd (f : fasg) (x : ident) (v : val) : fasg :=
  fun y => if String.eqb y x then v else f y.

(* the predicate on first-order assignments denoted by a BDD *)
Definition sem (t : tbl) (u : pred) : fasg -> bool := fun f => u (encode t f).

(* ---- executable helpers for the correspondence cases ---------------------------- *)
(* a truth table as a decision tree over an ordered list of bits *)
Inductive tt := Leaf (b : bool) | Node (lo hi : tt) | Skip (t : tt).

Fixpoint eval_tt (bits : list bit) (t : tt) (a : bitasg) {struct t} : bool :=
  match t with
  | Leaf b => b
  | Node lo hi =>
    match bits with
    | [] => false
    | b :: r => if a b then eval_tt r hi a else eval_tt r lo a
    end
  | Skip t' =>
    match bits with
    | [] => false
    | _ :: r => eval_tt r t' a
    end
  end.

Definition of_tt (bits : list bit) (t : tt) : pred := eval_tt bits t.

Definition eq_tt (bits : list bit) (p : pred) (t : tt) : bool :=
  forallb (fun a => Bool.eqb (p a) (eval_tt bits t a)) (all_asgs bits).

Definition eq_opt_tt (bits : list bit) (p : option pred) (t : option tt) : bool :=
  match p, t with
  | Some p, Some t => eq_tt bits p t
  | None, None => true
  | _, _ => false
  end.

Definition fasgn_eqb (a b : fasgn) : bool :=
  let inc x y := forallb (fun kv =>
      match dict_get String.eqb (fst kv) y with
      | Some v => val_eqb v (snd kv)
      | None => false
      end) x in
  inc a b && inc b a.

Definition count_occ_b {A} (keq : A -> A -> bool) (x : A) (l : list A) : Z :=
  fold_left (fun acc y => if keq x y then acc + 1 else acc) l 0.

(* equality of two lists as multisets *)
Definition multiset_eqb {A} (keq : A -> A -> bool) (a b : list A) : bool :=
  (Nat.eqb (List.length a) (List.length b)) &&
  forallb (fun x => count_occ_b keq x a =? count_occ_b keq x b) a.

Definition set_eqb {A} (keq : A -> A -> bool) (a b : list A) : bool :=
  subset keq a b && subset keq b a.

Definition eq_opt {A} (keq : A -> A -> bool) (a b : option A) : bool :=
  match a, b with
  | Some x, Some y => keq x y
  | None, None => true
  | _, _ => false
  end.
