(* The functions TRANSLATED from omega/symbolic/functions.py
   (gen/FunctionsGen.v, tools/py2coq_fn.py, tie T) are the hand-written model
   L7Codegen/Synth.v that the C14 theorems talk about.  Leibniz equalities
   for all arguments (number of bits, `restrict`, relation, variables,
   iteration orders), re-proved on every run: a change of functions.py that
   alters the translated term breaks these lemmas; a rewrite that leaves it
   convertible (renamed locals, an expression split over two assignments)
   does not.

   The proofs do not follow the statement structure of the generated code:
   they unfold, replace the loop bodies by the model's step functions through
   extensionality of fold_left (the generated bodies destructure their state
   with patterns, the model uses projections, so the bodies are equal only
   pointwise), and close the rest by conversion. *)
From Coq Require Import List Bool Arith.
Import ListNotations.
From Omega Require Import L7Codegen.Pred L7Codegen.PredFacts L7Codegen.Synth
  L7Codegen.SynthProofs.
From OmegaGen Require FunctionsGen.

Lemma fold_left_ext {A B : Type} (f g : A -> B -> A) :
  (forall a b, f a b = g a b) ->
  forall l a, fold_left f l a = fold_left g l a.
Proof.
  intros H l. induction l as [|b l IH]; intro a; cbn [fold_left].
  - reflexivity.
  - rewrite H. apply IH.
Qed.

Lemma is_nil_filter {A : Type} (p : A -> bool) (l : list A) :
  FunctionsGen.is_nil (filter p l) = forallb (fun v => negb (p v)) l.
Proof.
  induction l as [|x l IH]; cbn [filter forallb]; [reflexivity|].
  destruct (p x); cbn [negb andb FunctionsGen.is_nil]; [reflexivity|exact IH].
Qed.

Section Bridge.
Variable n : nat.
Variable restrict : var -> pred -> pred -> pred.

Local Notation EF := (Synth.extract_function n restrict).

(* --- extract_function --------------------------------------------------- *)
Theorem extract_function_generated_is_model f yp outputs zs :
  FunctionsGen.extract_function n restrict f yp outputs zs
  = Synth.extract_function n restrict f yp outputs zs.
Proof.
  unfold FunctionsGen.extract_function.
  rewrite fold_left_ext with (g := widen_step n)
    by (intros [p q] z; unfold widen_step; cbn [fst snd Pred.exist fold_right];
        repeat match goal with
               | |- context [if ?c then _ else _] => destruct c
               end; reflexivity).
  unfold Synth.extract_function, final_cofactors, widen, care_of, cofactors.
  cbv zeta.
  match goal with
  | |- context [fold_left (widen_step n) zs ?I] =>
      destruct (fold_left (widen_step n) zs I) as [p q]
  end.
  reflexivity.
Qed.

(* the set the widening loop iterates over (support(p) | support(n)), as
   translated, is the model's [inputs_of] *)
Theorem extract_function_domain_is_model f yp outputs :
  filter (FunctionsGen.extract_function_domain_1 n f yp outputs) (seq 0 n)
  = inputs_of n (cofactors n f yp outputs).
Proof. reflexivity. Qed.

(* --- make_functions ----------------------------------------------------- *)
(* the set the extraction loop iterates over (set(vrs) & support(r)) *)
Theorem make_functions_domain_is_model r vrs :
  FunctionsGen.make_functions_domain_1 n r vrs = outputs_of n r vrs.
Proof. reflexivity. Qed.

(* where the extraction loop leaves `outputs` and `r` (not observable) *)
Fixpoint loop_end (r : pred) (order : list (var * list var))
    (outputs : list var) : list var * pred :=
  match order with
  | [] => (outputs, r)
  | (yp, zs) :: rest =>
      let outputs' := remove_var yp outputs in
      loop_end (subst n r yp (fst (EF r yp outputs' zs))) rest outputs'
  end.

Definition loop_state : Type :=
  (list var * pred * list (var * (pred * pred)) * bool)%type.

(* any step function that does what one iteration of the model does, on a
   state (outputs, r, functions, ok), folds to the model's loop *)
Lemma loop_shape (step : loop_state -> var * list var -> loop_state) :
  (forall outs r acc ok yp zs,
     step (outs, r, acc, ok) (yp, zs) =
     let outs' := remove_var yp outs in
     let gc := EF r yp outs' zs in
     let r' := subst n r yp (fst gc) in
     (outs', r', acc ++ [(yp, gc)],
      ok && (negb (depends n r' yp) && negb (depends n (fst gc) yp)))) ->
  forall order outs r acc ok,
    fold_left step order (outs, r, acc, ok) =
    (fst (loop_end r order outs), snd (loop_end r order outs),
     acc ++ make_loop n restrict r order outs,
     ok && asserts_loop n restrict r order outs).
Proof.
  intros H order.
  induction order as [|[yp zs] rest IH]; intros outs r acc ok;
    cbn [fold_left loop_end make_loop asserts_loop fst snd].
  - rewrite app_nil_r, andb_true_r. reflexivity.
  - rewrite H. cbv zeta. rewrite IH. rewrite <- app_assoc, <- andb_assoc.
    reflexivity.
Qed.

(* the final loop over functions.values() *)
Lemma check_shape (c : pred * pred -> bool)
    (step : bool -> pred * pred -> bool) :
  (forall ok d, step ok d = ok && c d) ->
  forall (fs : list (var * (pred * pred))) ok,
    fold_left step (map snd fs) ok = ok && forallb (fun e => c (snd e)) fs.
Proof.
  intros H fs. induction fs as [|e fs IH]; intro ok;
    cbn [map fold_left forallb].
  - rewrite andb_true_r. reflexivity.
  - rewrite H, IH, andb_assoc. reflexivity.
Qed.

Lemma make_functions_run_is_model r vrs order :
  FunctionsGen.make_functions_run n restrict r vrs order
  = (Synth.make_functions n restrict r vrs order,
     Synth.asserts_ok n restrict r vrs order).
Proof.
  unfold FunctionsGen.make_functions_run.
  rewrite loop_shape.
  2:{ intros outs r0 acc ok yp zs. cbv beta iota zeta.
      rewrite extract_function_generated_is_model.
      fold (remove_var yp outs).
      destruct (EF r0 yp (remove_var yp outs) zs) as [g c].
      cbn [fst snd].
      f_equal.
      destruct ok, (depends n (subst n r0 yp g) yp), (depends n g yp);
        reflexivity. }
  cbv beta iota zeta.
  rewrite check_shape
    with (c := fun d => forallb (fun v => negb (depends n (fst d) v)) vrs).
  2:{ intros ok d. cbv beta zeta. rewrite is_nil_filter. reflexivity. }
  reflexivity.
Qed.

Theorem make_functions_generated_is_model r vrs order :
  FunctionsGen.make_functions n restrict r vrs order
  = Synth.make_functions n restrict r vrs order.
Proof.
  unfold FunctionsGen.make_functions.
  rewrite make_functions_run_is_model. reflexivity.
Qed.

(* the conjunction of the assertions executed by make_functions *)
Theorem make_functions_asserts_generated_is_model r vrs order :
  FunctionsGen.make_functions_asserts n restrict r vrs order
  = Synth.asserts_ok n restrict r vrs order.
Proof.
  unfold FunctionsGen.make_functions_asserts.
  rewrite make_functions_run_is_model. reflexivity.
Qed.

(* all of the above in one statement *)
Theorem model_is_translated_code :
  (forall f yp outputs zs,
     FunctionsGen.extract_function n restrict f yp outputs zs
     = Synth.extract_function n restrict f yp outputs zs) /\
  (forall r vrs order,
     FunctionsGen.make_functions n restrict r vrs order
     = Synth.make_functions n restrict r vrs order) /\
  (forall r vrs order,
     FunctionsGen.make_functions_asserts n restrict r vrs order
     = Synth.asserts_ok n restrict r vrs order) /\
  (forall f yp outputs,
     filter (FunctionsGen.extract_function_domain_1 n f yp outputs) (seq 0 n)
     = inputs_of n (cofactors n f yp outputs)) /\
  (forall r vrs,
     FunctionsGen.make_functions_domain_1 n r vrs = outputs_of n r vrs).
Proof.
  split; [exact extract_function_generated_is_model|].
  split; [exact make_functions_generated_is_model|].
  split; [exact make_functions_asserts_generated_is_model|].
  split; [exact extract_function_domain_is_model
         |exact make_functions_domain_is_model].
Qed.

(* --- the C14 theorems, stated about the translated code ---------------- *)
Section Translated.
Hypothesis restrict_agrees_on_care : restrict_agrees n restrict.
Hypothesis restrict_adds_no_variable : restrict_support n restrict.

Theorem translated_functions_realize r vrs order a :
  order_ok n r vrs order ->
  length a = n ->
  (exists b, agree_out vrs a b /\ r b = true) ->
  r (apply_functions (FunctionsGen.make_functions n restrict r vrs order) a)
  = true.
Proof.
  rewrite make_functions_generated_is_model.
  apply functions_realize; assumption.
Qed.

Theorem translated_functions_independent r vrs order y g care v :
  In (y, (g, care)) (FunctionsGen.make_functions n restrict r vrs order) ->
  In v vrs ->
  (forall a b, length a = n -> g (upd a v b) = g a) /\
  (forall a b, length a = n -> care (upd a v b) = care a).
Proof.
  rewrite make_functions_generated_is_model.
  apply functions_independent; assumption.
Qed.

Theorem translated_assertions_hold r vrs order :
  FunctionsGen.make_functions_asserts n restrict r vrs order = true.
Proof.
  rewrite make_functions_asserts_generated_is_model.
  apply asserts_hold; assumption.
Qed.

End Translated.
End Bridge.
