"""Regenerate gen/ from $OMEGA_REPO and compile a GenProofs/Properties file
with everything it depends on (developer helper).  usage: gp.py <relpath>"""
import sys
sys.path.insert(0, '/verif/tools')
from vlib import core, gen_games
ctx = core.Ctx('DEV', 'quick', 0)
try:
    with ctx.coq_lock():
        gen_games.ensure_gr1(ctx)
        for f in sys.argv[1:]:
            ctx.prove_with_deps(f)
    print('ok', len(ctx.obligations), 'obligations')
except core.Broken as b:
    print('BROKEN', b)
    sys.exit(1)
