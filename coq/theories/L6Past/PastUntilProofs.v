(* L6Past / PastUntilProofs: translate(..., until=True) on the whole language
   (past and future operators), over infinite sequences with the recurrence
   goals as fairness.  Proved: every fair solution of the testers gives every
   auxiliary variable the truth value of the formula it tracks (so any two
   fair solutions coincide) and the translated formula the truth value of the
   original; and every sequence of auxiliary values that reflects the
   semantics is a fair solution.  Not proved: that such a sequence exists for
   every sigma (it needs excluded middle to turn `holds` into Booleans). *)
From Coq Require Import String List Bool NArith Arith Lia.
Import ListNotations.
From Omega Require Import L6Past.PastSyntax L6Past.PastModel L6Past.PastSpec
  L6Past.PastProofs L6Past.PastUntil.
Open Scope string_scope.

(* ------------------------------------------------------------ Bool / Prop *)
Lemma bool_iff_eq : forall (a b : bool) (P : Prop),
  (a = true <-> P) -> (b = true <-> P) -> a = b.
Proof.
  intros [] [] P Ha Hb; auto.
  - assert (false = true) by tauto. discriminate.
  - assert (false = true) by tauto. discriminate.
Qed.

Lemma eqb_iff : forall (a b : bool) (P : Prop),
  (a = true <-> P) -> (b = true <-> P) -> eqb a b = true.
Proof. intros. rewrite (bool_iff_eq a b P); auto. apply eqb_reflx. Qed.

Lemma eqb_iff_inv : forall (a b : bool) (P : Prop),
  eqb a b = true -> (b = true <-> P) -> (a = true <-> P).
Proof. intros a b P H. apply eqb_prop in H. now subst. Qed.

(* --------------------------------------------- expansion laws of `holds` *)
Lemma holds_prev_0 : forall s x rho, holds (Fprev s x) rho 0 <-> s = false.
Proof.
  intros [] x rho; simpl; split; intros H.
  - destruct H as [j [H _]]. discriminate.
  - discriminate.
  - reflexivity.
  - intros j Hj. discriminate.
Qed.

Lemma holds_prev_S : forall s x rho i,
  holds (Fprev s x) rho (S i) <-> holds x rho i.
Proof.
  intros [] x rho i; simpl; split.
  - intros [j [Hj H]]. injection Hj as <-. auto.
  - intros H. eauto.
  - intros H. now apply H.
  - intros H j Hj. injection Hj as <-. auto.
Qed.

Lemma holds_since_0 : forall f g rho,
  holds (FSince f g) rho 0 <-> holds g rho 0.
Proof.
  intros. simpl. split.
  - intros [j [Hj [H _]]]. replace j with 0 in H by lia. auto.
  - intros H. exists 0. repeat split; auto. intros; lia.
Qed.

Lemma holds_since_S : forall f g rho i,
  holds (FSince f g) rho (S i) <->
  holds g rho (S i) \/ (holds f rho (S i) /\ holds (FSince f g) rho i).
Proof.
  intros. simpl. split.
  - intros [j [Hj [Hg Hf]]]. destruct (Nat.eq_dec j (S i)) as [->|]; auto.
    right. split; [apply Hf; lia|]. exists j. split; [lia|]. split; [exact Hg|].
    intros k Hk1 Hk2. apply Hf; lia.
  - intros [H|[H1 [j [Hj [Hg Hf]]]]].
    + exists (S i). repeat split; auto. intros; lia.
    + exists j. split; [lia|]. split; [exact Hg|]. intros k Hk1 Hk2.
      destruct (Nat.eq_dec k (S i)) as [->|]; auto. apply Hf; lia.
Qed.

Lemma holds_until_unfold : forall f g rho i,
  holds (FUntil f g) rho i <->
  holds g rho i \/ (holds f rho i /\ holds (FUntil f g) rho (S i)).
Proof.
  intros. simpl. split.
  - intros [j [Hj [Hg Hf]]]. destruct (Nat.eq_dec j i) as [->|]; auto.
    right. split; [apply Hf; lia|]. exists j. split; [lia|]. split; [exact Hg|].
    intros k Hk1 Hk2. apply Hf; lia.
  - intros [H|[H1 [j [Hj [Hg Hf]]]]].
    + exists i. repeat split; auto. intros; lia.
    + exists j. split; [lia|]. split; [exact Hg|]. intros k Hk1 Hk2.
      destruct (Nat.eq_dec k i) as [->|]; auto. apply Hf; lia.
Qed.

(* ------------------------------------------------ solutions, per tester *)
Definition track1I (rho : nat -> env) (t : tester) : Prop :=
  forall i, rho i (t_name t) = true <-> holds (t_tracks t) rho i.

Definition sat1I (rho : nat -> env) (t : tester) : Prop :=
  eval (rho 0) (t_init t) = true /\
  (forall i, evalA (rho i) (rho (S i)) (t_trans t) = true) /\
  (forall w, t_win t = Some w ->
     forall i, exists j, i <= j /\ eval (rho j) w = true).

Definition tracksI (rho : nat -> env) (T : list tester) : Prop :=
  forall t, In t T -> track1I rho t.
Definition satI (rho : nat -> env) (T : list tester) : Prop :=
  forall t, In t T -> sat1I rho t.

Lemma tracksI_app : forall rho T E,
  tracksI rho (T ++ E)%list <-> tracksI rho T /\ tracksI rho E.
Proof.
  unfold tracksI. intros. split.
  - intros H. split; intros; apply H; apply in_or_app; auto.
  - intros [H1 H2] t Ht. apply in_app_or in Ht. destruct Ht; auto.
Qed.

Lemma satI_app : forall rho T E,
  satI rho (T ++ E)%list <-> satI rho T /\ satI rho E.
Proof.
  unfold satI. intros. split.
  - intros H. split; intros; apply H; apply in_or_app; auto.
  - intros [H1 H2] t Ht. apply in_app_or in Ht. destruct Ht; auto.
Qed.

(* ---- previous ---- *)
Lemma prev_soundI : forall rho s name e x,
  state_formula e = true ->
  (forall i, eval (rho i) e = true <-> holds x rho i) ->
  (forall i, rho i name = true <-> holds (Fprev s x) rho i) ->
  sat1I rho (prev_tester s name e (Fprev s x)).
Proof.
  intros rho s name e x Hs He Hn. split; [|split]; simpl.
  - unfold eval. pose proof (Hn 0) as H0. rewrite holds_prev_0 in H0.
    destruct s; simpl.
    + destruct (rho 0 name); auto. assert (true = false) by tauto. discriminate.
    + tauto.
  - intros i. rewrite (state_evalA e) by auto. fold (eval (rho i) e).
    apply (eqb_iff _ _ (holds x rho i)); auto.
    rewrite Hn. apply holds_prev_S.
  - intros w Hw. discriminate.
Qed.

Lemma prev_uniqueI : forall rho s name e x,
  state_formula e = true ->
  (forall i, eval (rho i) e = true <-> holds x rho i) ->
  sat1I rho (prev_tester s name e (Fprev s x)) ->
  forall i, rho i name = true <-> holds (Fprev s x) rho i.
Proof.
  intros rho s name e x Hs He (H0 & Ht & _) [|i].
  - rewrite holds_prev_0. unfold eval in H0. destruct s; simpl in H0.
    + apply negb_true_iff in H0. rewrite H0. split; discriminate.
    + rewrite H0. tauto.
  - specialize (Ht i). simpl in Ht. rewrite (state_evalA e) in Ht by auto.
    fold (eval (rho i) e) in Ht. rewrite holds_prev_S.
    apply (eqb_iff_inv _ _ _ Ht). apply He.
Qed.

(* ---- since ---- *)
Lemma orb_andb_iff : forall (q p s : bool) (Q P S : Prop),
  (q = true <-> Q) -> (p = true <-> P) -> (s = true <-> S) ->
  (q || (p && s) = true <-> Q \/ (P /\ S)).
Proof.
  intros q p s Q P S Hq Hp Hs.
  rewrite orb_true_iff, andb_true_iff. tauto.
Qed.

Lemma since_soundI : forall rho name p q f g,
  (forall i, eval (rho i) p = true <-> holds f rho i) ->
  (forall i, eval (rho i) q = true <-> holds g rho i) ->
  (forall i, rho i name = true <-> holds (FSince f g) rho i) ->
  sat1I rho (since_tester name p q (FSince f g)).
Proof.
  intros rho name p q f g Hp Hq Hn. split; [|split]; simpl.
  - unfold eval. simpl. fold (eval (rho 0) q).
    apply (eqb_iff _ _ (holds g rho 0)); auto.
    rewrite Hn. apply holds_since_0.
  - intros i. fold (eval (rho (S i)) q). fold (eval (rho (S i)) p).
    apply (eqb_iff _ _ (holds (FSince f g) rho (S i))); auto.
    rewrite holds_since_S. apply orb_andb_iff; auto.
  - intros w Hw. discriminate.
Qed.

Lemma since_uniqueI : forall rho name p q f g,
  (forall i, eval (rho i) p = true <-> holds f rho i) ->
  (forall i, eval (rho i) q = true <-> holds g rho i) ->
  sat1I rho (since_tester name p q (FSince f g)) ->
  forall i, rho i name = true <-> holds (FSince f g) rho i.
Proof.
  intros rho name p q f g Hp Hq (H0 & Ht & _). induction i.
  - unfold eval in H0. simpl in H0. fold (eval (rho 0) q) in H0.
    rewrite holds_since_0. apply (eqb_iff_inv _ _ _ H0). apply Hq.
  - specialize (Ht i). simpl in Ht.
    fold (eval (rho (S i)) q) in Ht. fold (eval (rho (S i)) p) in Ht.
    rewrite holds_since_S. apply (eqb_iff_inv _ _ _ Ht).
    apply orb_andb_iff; auto.
Qed.

(* ---- until (prophecy) ---- *)
Lemma until_soundI : forall rho name p q f g,
  state_formula p = true -> state_formula q = true ->
  (forall i, eval (rho i) p = true <-> holds f rho i) ->
  (forall i, eval (rho i) q = true <-> holds g rho i) ->
  (forall i, rho i name = true <-> holds (FUntil f g) rho i) ->
  sat1I rho (until_tester name p q (FUntil f g)).
Proof.
  intros rho name p q f g Sp Sq Hp Hq Hn. split; [|split]; simpl.
  - reflexivity.
  - intros i. rewrite (state_evalA p), (state_evalA q) by auto.
    fold (eval (rho i) q). fold (eval (rho i) p).
    apply (eqb_iff _ _ (holds (FUntil f g) rho i)); auto.
    rewrite holds_until_unfold. apply orb_andb_iff; auto.
  - intros w Hw i. injection Hw as <-. unfold eval. simpl.
    fold (eval (rho i) q).
    destruct (rho i name) eqn:E.
    + apply Hn in E. destruct E as [j [Hj [Hg _]]].
      exists j. split; auto. apply Hq in Hg. unfold eval in Hg. now rewrite Hg.
    + exists i. split; auto. rewrite E. apply orb_true_r.
Qed.

Lemma until_uniqueI : forall rho name p q f g,
  state_formula p = true -> state_formula q = true ->
  (forall i, eval (rho i) p = true <-> holds f rho i) ->
  (forall i, eval (rho i) q = true <-> holds g rho i) ->
  sat1I rho (until_tester name p q (FUntil f g)) ->
  forall i, rho i name = true <-> holds (FUntil f g) rho i.
Proof.
  intros rho name p q f g Sp Sq Hp Hq (_ & Ht & Hw).
  assert (STEP : forall i, rho i name = eval (rho i) q || (eval (rho i) p && rho (S i) name)).
  { intros i. specialize (Ht i). simpl in Ht.
    rewrite (state_evalA p), (state_evalA q) in Ht by auto.
    now apply eqb_prop in Ht. }
  assert (FAIR : forall i, exists j, i <= j /\
                   (eval (rho j) q = true \/ rho j name = false)).
  { intros i. destruct (Hw _ eq_refl i) as [j [Hj H]]. exists j. split; auto.
    unfold eval in H. simpl in H. fold (eval (rho j) q) in H.
    apply orb_true_iff in H. destruct H; auto. right. now apply negb_true_iff. }
  (* a true prophecy is fulfilled at the next fair position at the latest *)
  assert (FWD : forall d i, rho i name = true ->
            (eval (rho (i + d)) q = true \/ rho (i + d) name = false) ->
            holds (FUntil f g) rho i).
  { induction d; intros i Hi Hd.
    - rewrite Nat.add_0_r in Hd. apply holds_until_unfold. left. apply Hq.
      destruct Hd as [?|Hd]; auto. congruence.
    - rewrite STEP in Hi. apply orb_true_iff in Hi.
      apply holds_until_unfold. destruct Hi as [Hi|Hi].
      + left. now apply Hq.
      + apply andb_true_iff in Hi. destruct Hi as [Hi1 Hi2].
        right. split; [now apply Hp|]. apply IHd; auto.
        now replace (S i + d) with (i + S d) by lia. }
  (* a fulfilled until makes the prophecy true *)
  assert (BWD : forall d i, holds g rho (i + d) ->
            (forall k, i <= k -> k < i + d -> holds f rho k) ->
            rho i name = true).
  { induction d; intros i Hg Hf.
    - rewrite Nat.add_0_r in Hg. rewrite STEP. apply Hq in Hg. now rewrite Hg.
    - rewrite STEP. apply orb_true_iff. right. apply andb_true_iff. split.
      + apply Hp. apply Hf; lia.
      + apply IHd.
        * now replace (S i + d) with (i + S d) by lia.
        * intros k Hk1 Hk2. apply Hf; lia. }
  intros i. split.
  - intros Hi. destruct (FAIR i) as [j [Hj H]].
    apply (FWD (j - i) i Hi). now replace (i + (j - i)) with j by lia.
  - intros [j [Hj [Hg Hf]]]. apply (BWD (j - i) i).
    + now replace (i + (j - i)) with j by lia.
    + intros k Hk1 Hk2. apply Hf; lia.
Qed.

(* =========================================================== specification *)
Definition sspecI (V : list string) (T T' : list tester) : Prop :=
  wf T' /\
  (exists E, T' = (T ++ E)%list /\
             forall t, In t E -> incl (vars (t_tracks t)) V) /\
  (forall rho, tracksI rho T' -> satI rho T -> satI rho T') /\
  (forall rho, satI rho T' -> tracksI rho T -> tracksI rho T').

Definition fspecI (f : form) (r : tform) (T' : list tester) : Prop :=
  state_formula r = true /\
  forall rho, tracksI rho T' ->
    forall i, eval (rho i) r = true <-> holds f rho i.

Lemma sspecI_refl : forall V T, wf T -> sspecI V T T.
Proof.
  intros V T H. split; [auto|]. split; [|split; auto].
  exists []. rewrite app_nil_r. split; auto. simpl. tauto.
Qed.

Lemma sspecI_trans : forall V T T1 T2,
  sspecI V T T1 -> sspecI V T1 T2 -> sspecI V T T2.
Proof.
  intros V T T1 T2 (W1 & (E1 & -> & V1) & S1 & U1) (W2 & (E2 & -> & V2) & S2 & U2).
  split; [auto|]. split; [|split].
  - exists (E1 ++ E2)%list. rewrite app_assoc. split; auto.
    intros t Ht. apply in_app_or in Ht. destruct Ht; auto.
  - intros rho Htr Hs. apply S2; auto. apply S1; auto.
    apply tracksI_app in Htr. tauto.
  - intros rho Hs Htr. apply U2; auto. apply U1; auto.
    apply satI_app in Hs. tauto.
Qed.

Lemma sspecI_mono : forall V V' T T', incl V V' -> sspecI V T T' -> sspecI V' T T'.
Proof.
  intros V V' T T' Hi (W & (E & -> & HV) & S & U).
  split; [auto|]. split; [|split; auto].
  exists E. split; auto. intros t Ht. eapply incl_tran; eauto.
Qed.

Lemma sspecI_snoc : forall V T t,
  wf T -> wf (T ++ [t])%list -> incl (vars (t_tracks t)) V ->
  (forall rho, tracksI rho (T ++ [t])%list -> sat1I rho t) ->
  (forall rho, sat1I rho t -> tracksI rho T -> track1I rho t) ->
  sspecI V T (T ++ [t])%list.
Proof.
  intros V T t W W' HV Hs Hu. split; [auto|]. split; [|split].
  - exists [t]. split; auto. intros u [<-|[]]. auto.
  - intros rho Htr Hsat. apply satI_app. split; auto.
    intros u [<-|[]]. auto.
  - intros rho Hsat Htr. apply tracksI_app. split; auto.
    intros u [<-|[]]. apply Hu; auto. apply Hsat. apply in_or_app. simpl. auto.
Qed.

Lemma fspecI_mono : forall f r T E, fspecI f r T -> fspecI f r (T ++ E)%list.
Proof.
  intros f r T E [Hs H]. split; auto. intros rho Htr. apply H.
  apply tracksI_app in Htr. tauto.
Qed.

Lemma fspecI_sspecI : forall f r V T T',
  fspecI f r T -> sspecI V T T' -> fspecI f r T'.
Proof. intros f r V T T' H (_ & (E & -> & _) & _). now apply fspecI_mono. Qed.

Lemma fspecI_entry : forall t T,
  In t T -> fspecI (t_tracks t) (TVar (t_name t)) T.
Proof.
  intros t T Hin. split; auto. intros rho Htr i.
  unfold eval. simpl. now apply Htr.
Qed.

Lemma fspecI_true : forall T, fspecI (FConst true) (TConst true) T.
Proof. intros T. split; auto. intros rho _ i. unfold eval. simpl. tauto. Qed.

Lemma fspecI_not : forall f a T, fspecI f a T -> fspecI (FNot f) (TNot a) T.
Proof.
  intros f a T [Hs H]. split; auto. intros rho Htr i. unfold eval in *. simpl.
  rewrite <- (H rho Htr i). destruct (evalA (rho i) (rho i) a); simpl;
    intuition congruence.
Qed.

(* ---- the three kinds of `_aux` testers ---- *)
Lemma prev_aux_specI : forall s x e T1,
  wf T1 -> fspecI x e T1 ->
  let name := aux_name (len T1) in
  let t := prev_tester s name e (Fprev s x) in
  upd t T1 = (T1 ++ [t])%list /\
  sspecI (vars x) T1 (T1 ++ [t])%list /\
  fspecI (Fprev s x) (TVar name) (T1 ++ [t])%list.
Proof.
  intros s x e T1 W [Hst He] name t.
  assert (Hf : find (t_name t) T1 = None) by (apply aux_fresh; auto).
  split; [now apply upd_fresh|].
  assert (W' : wf (T1 ++ [t])%list).
  { apply wf_snoc; auto. now apply find_none. }
  split.
  - apply sspecI_snoc; auto.
    + destruct s; simpl; apply incl_refl.
    + intros rho Htr. apply tracksI_app in Htr. destruct Htr as [H1 H2].
      apply prev_soundI;
        [exact Hst | intros i; apply (He rho); auto
         | intros i; apply (H2 t); simpl; auto].
    + intros rho Hsat Htr. unfold track1I. simpl.
      apply (prev_uniqueI rho s name e x); auto;
        intros i; apply (He rho); auto.
  - apply (fspecI_entry t). apply in_or_app. simpl. auto.
Qed.

Lemma since_case_specI : forall p q f g T r T',
  wf T -> fspecI f p T -> fspecI g q T ->
  since_case p q (FSince f g) T = (r, T') ->
  sspecI (vars f ++ vars g) T T' /\ fspecI (FSince f g) r T'.
Proof.
  intros p q f g T r T' W [Hsp Hp] [Hsq Hq] H. unfold since_case in H.
  set (name := aux_name (len T)) in *.
  set (t := since_tester name p q (FSince f g)) in *.
  assert (Hf : find (t_name t) T = None) by (apply aux_fresh; auto).
  rewrite (upd_fresh t T Hf) in H. injection H as <- <-.
  assert (W' : wf (T ++ [t])%list).
  { apply wf_snoc; auto. now apply find_none. }
  split.
  - apply sspecI_snoc; auto.
    + simpl. apply incl_refl.
    + intros rho Htr. apply tracksI_app in Htr. destruct Htr as [H1 H2].
      apply since_soundI;
        [intros i; apply (Hp rho); auto | intros i; apply (Hq rho); auto
         | intros i; apply (H2 t); simpl; auto].
    + intros rho Hsat Htr. unfold track1I. simpl.
      apply (since_uniqueI rho name p q f g); auto;
        intros i; first [apply (Hp rho); now auto | apply (Hq rho); now auto].
  - apply (fspecI_entry t). apply in_or_app. simpl. auto.
Qed.

Lemma until_case_specI : forall p q f g T r T',
  wf T -> fspecI f p T -> fspecI g q T ->
  until_case p q (FUntil f g) T = (r, T') ->
  sspecI (vars f ++ vars g) T T' /\ fspecI (FUntil f g) r T'.
Proof.
  intros p q f g T r T' W [Hsp Hp] [Hsq Hq] H. unfold until_case in H.
  set (name := aux_name (len T)) in *.
  set (t := until_tester name p q (FUntil f g)) in *.
  assert (Hf : find (t_name t) T = None) by (apply aux_fresh; auto).
  rewrite (upd_fresh t T Hf) in H. injection H as <- <-.
  assert (W' : wf (T ++ [t])%list).
  { apply wf_snoc; auto. now apply find_none. }
  split.
  - apply sspecI_snoc; auto.
    + simpl. apply incl_refl.
    + intros rho Htr. apply tracksI_app in Htr. destruct Htr as [H1 H2].
      apply until_soundI; auto;
        intros i; first [apply (Hp rho); now auto | apply (Hq rho); now auto
                        | apply (H2 t); simpl; now auto].
    + intros rho Hsat Htr. unfold track1I. simpl.
      apply (until_uniqueI rho name p q f g); auto;
        intros i; first [apply (Hp rho); now auto | apply (Hq rho); now auto].
  - apply (fspecI_entry t). apply in_or_app. simpl. auto.
Qed.

Lemma prev_case_specI : forall s x e T T1 r T',
  wf T -> sspecI (vars x) T T1 -> fspecI x e T1 ->
  (forall v, x = FVar v -> e = TVar v /\ T1 = T) ->
  prev_case true s x (Fprev s x) (e, T1) T = (r, T') ->
  sspecI (vars x) T T' /\ fspecI (Fprev s x) r T'.
Proof.
  intros s x e T T1 r T' W SS FS Hvar H.
  assert (W1 : wf T1) by apply SS.
  assert (AUX : (let (e0, T0) := (e, T1) in
                 (TVar (aux_name (len T0)),
                  upd (prev_tester s (aux_name (len T0)) e0 (Fprev s x)) T0)) = (r, T') ->
                sspecI (vars x) T T' /\ fspecI (Fprev s x) r T').
  { intros H'. destruct (prev_aux_specI s x e T1 W1 FS) as (Hu & S1 & F1).
    rewrite Hu in H'. injection H' as <- <-. split; auto.
    eapply sspecI_trans; eauto. }
  destruct x; simpl in H; auto.
  destruct (Hvar v eq_refl) as [-> ->].
  destruct (can_share s v T) eqn:Hc; auto.
  injection H as <- <-. unfold can_share in Hc.
  fold (var_tester s v).
  destruct (find (prev_name v) T) as [t0|] eqn:Hf.
  - pose proof (share_same T s v t0 W Hf Hc) as ->.
    rewrite upd_same by exact Hf.
    split; [now apply sspecI_refl|].
    apply (fspecI_entry (var_tester s v)). apply find_some in Hf. tauto.
  - rewrite (upd_fresh (var_tester s v) T Hf).
    assert (W' : wf (T ++ [var_tester s v])%list).
    { apply wf_snoc; auto. now apply find_none. left. now exists v, s. }
    assert (HV : forall rho i, eval (rho i) (TVar v) = true <-> holds (FVar v) rho i)
      by (intros; unfold eval; simpl; tauto).
    split.
    + apply sspecI_snoc; auto.
      * destruct s; simpl; apply incl_refl.
      * intros rho Htr. apply tracksI_app in Htr. destruct Htr as [H1 H2].
        apply (prev_soundI rho s (prev_name v) (TVar v) (FVar v));
          [reflexivity | apply HV
           | intros i; apply (H2 (var_tester s v)); simpl; auto].
      * intros rho Hsat Htr. unfold track1I.
        apply (prev_uniqueI rho s (prev_name v) (TVar v) (FVar v)); auto.
    + apply (fspecI_entry (var_tester s v)). apply in_or_app. simpl. auto.
Qed.

(* --------------------------------- derived operators, given decidability *)
Lemma bool_dec_of_iff : forall (b : bool) (P : Prop), (b = true <-> P) -> P \/ ~ P.
Proof. intros [] P H; [left|right]; [tauto|]. intros HP. apply H in HP. discriminate. Qed.

Lemma holds_hist_since : forall f rho i,
  (forall j, holds f rho j \/ ~ holds f rho j) ->
  (holds (FHist f) rho i <-> ~ holds (FSince (FConst true) (FNot f)) rho i).
Proof.
  intros f rho i D. simpl. split.
  - intros H [j [Hj [Hn _]]]. apply Hn. now apply H.
  - intros H j Hj. destruct (D j) as [?|Hn]; auto. exfalso. apply H.
    exists j. repeat split; auto.
Qed.

Lemma holds_once_since : forall f rho i,
  holds (FOnce f) rho i <-> holds (FSince (FConst true) f) rho i.
Proof.
  intros. simpl. split.
  - intros [j [Hj H]]. exists j. repeat split; auto.
  - intros [j [Hj [H _]]]. eauto.
Qed.

Lemma holds_always_until : forall f rho i,
  (forall j, holds f rho j \/ ~ holds f rho j) ->
  (holds (FAlways f) rho i <-> ~ holds (FUntil (FConst true) (FNot f)) rho i).
Proof.
  intros f rho i D. simpl. split.
  - intros H [j [Hj [Hn _]]]. apply Hn. now apply H.
  - intros H j Hj. destruct (D j) as [?|Hn]; auto. exfalso. apply H.
    exists j. repeat split; auto.
Qed.

Lemma holds_event_until : forall f rho i,
  holds (FEvent f) rho i <-> holds (FUntil (FConst true) f) rho i.
Proof.
  intros. simpl. split.
  - intros [j [Hj H]]. exists j. repeat split; auto.
  - intros [j [Hj [H _]]]. eauto.
Qed.

Lemma negb_iff : forall (b : bool) (P : Prop), (b = true <-> P) -> (negb b = true <-> ~ P).
Proof. intros [] P H; simpl; intuition congruence. Qed.

(* ================================================= the flattener, until=true *)
Theorem tr_specI : forall f T r T',
  wf T -> tr true true f T = (r, T') ->
  sspecI (vars f) T T' /\ fspecI f r T'.
Proof.
  induction f; intros T r T' W H.
  - (* FVar *) simpl in H. injection H as <- <-. split; [now apply sspecI_refl|].
    split; auto. intros rho _ i. unfold eval. simpl. tauto.
  - (* FAtom *) simpl in H. injection H as <- <-. split; [now apply sspecI_refl|].
    split; auto. intros rho _ i. unfold eval. simpl. tauto.
  - (* FConst *) simpl in H. injection H as <- <-. split; [now apply sspecI_refl|].
    split; auto. intros rho _ i. unfold eval. simpl. tauto.
  - (* FNot *) simpl in H. destruct (tr true true f T) as [a T1] eqn:E1.
    injection H as <- <-. destruct (IHf _ _ _ W E1) as [S1 F1].
    split; auto. now apply fspecI_not.
  - (* FBin *) simpl in H.
    destruct (tr true true f1 T) as [a T1] eqn:E1.
    destruct (tr true true f2 T1) as [b T2] eqn:E2. injection H as <- <-.
    destruct (IHf1 _ _ _ W E1) as [S1 F1].
    destruct (IHf2 _ _ _ (proj1 S1) E2) as [S2 F2].
    pose proof (fspecI_sspecI _ _ _ _ _ F1 S2) as [Hs1 F1'].
    destruct F2 as [Hs2 F2]. simpl vars. split.
    + eapply sspecI_trans;
        [eapply sspecI_mono; [|exact S1]; apply incl_app_l
        |eapply sspecI_mono; [|exact S2]; apply incl_app_r].
    + split; [simpl; now rewrite Hs1, Hs2|].
      intros rho Htr i. unfold eval in *. simpl. rewrite bop_bopP.
      apply bopP_iff; auto.
  - (* FIte *) simpl in H.
    destruct (tr true true f1 T) as [a T1] eqn:E1.
    destruct (tr true true f2 T1) as [b T2] eqn:E2.
    destruct (tr true true f3 T2) as [d T3] eqn:E3. injection H as <- <-.
    destruct (IHf1 _ _ _ W E1) as [S1 F1].
    destruct (IHf2 _ _ _ (proj1 S1) E2) as [S2 F2].
    destruct (IHf3 _ _ _ (proj1 S2) E3) as [S3 F3].
    pose proof (fspecI_sspecI _ _ _ _ _ (fspecI_sspecI _ _ _ _ _ F1 S2) S3) as [Hs1 F1'].
    pose proof (fspecI_sspecI _ _ _ _ _ F2 S3) as [Hs2 F2'].
    destruct F3 as [Hs3 F3]. simpl vars. split.
    + eapply sspecI_trans; [eapply sspecI_mono; [|exact S1]|
        eapply sspecI_trans; [eapply sspecI_mono; [|exact S2]|
                              eapply sspecI_mono; [|exact S3]]].
      * apply incl_app_l.
      * eapply incl_tran; [apply incl_app_l|apply incl_app_r].
      * eapply incl_tran; [apply incl_app_r|apply incl_app_r].
    + split; [simpl; now rewrite Hs1, Hs2, Hs3|].
      intros rho Htr i. unfold eval in *. simpl.
      rewrite <- (F1' rho Htr i), <- (F2' rho Htr i), <- (F3 rho Htr i).
      destruct (evalA (rho i) (rho i) a); intuition congruence.
  - (* FPrevW *) cbn [tr] in H. destruct (tr true true f T) as [e T1] eqn:E1.
    destruct (IHf _ _ _ W E1) as [S1 F1].
    apply (prev_case_specI false f e T T1 r T' W S1 F1); auto.
    intros v ->. simpl in E1. injection E1 as <- <-. auto.
  - (* FPrevS *) cbn [tr] in H. destruct (tr true true f T) as [e T1] eqn:E1.
    destruct (IHf _ _ _ W E1) as [S1 F1].
    apply (prev_case_specI true f e T T1 r T' W S1 F1); auto.
    intros v ->. simpl in E1. injection E1 as <- <-. auto.
  - (* FHist *) cbn [tr] in H. destruct (tr true true f T) as [a T1] eqn:E1.
    destruct (since_case (TConst true) (TNot a)
                (FSince (FConst true) (FNot f)) T1) as [r2 T2] eqn:E2.
    injection H as <- <-. destruct (IHf _ _ _ W E1) as [S1 F1].
    destruct (since_case_specI _ _ _ _ _ _ _ (proj1 S1) (fspecI_true T1)
                (fspecI_not _ _ _ F1) E2) as [S2 [Hs2 F2]].
    simpl vars in S2. simpl app in S2. split; [exact (sspecI_trans _ _ _ _ S1 S2)|].
    split; [simpl; exact Hs2|]. intros rho Htr i.
    change (eval (rho i) (TNot r2)) with (negb (eval (rho i) r2)).
    rewrite holds_hist_since.
    + apply negb_iff. apply (F2 rho Htr i).
    + intros j. destruct (fspecI_sspecI _ _ _ _ _ F1 S2) as [_ F1'].
      apply (bool_dec_of_iff _ _ (F1' rho Htr j)).
  - (* FOnce *) cbn [tr] in H. destruct (tr true true f T) as [a T1] eqn:E1.
    destruct (IHf _ _ _ W E1) as [S1 F1].
    destruct (since_case_specI _ _ _ _ _ _ _ (proj1 S1) (fspecI_true T1) F1 H)
      as [S2 [Hs2 F2]].
    simpl vars in S2. simpl app in S2. split; [exact (sspecI_trans _ _ _ _ S1 S2)|].
    split; [exact Hs2|]. intros rho Htr i.
    rewrite holds_once_since. apply (F2 rho Htr i).
  - (* FSince *) cbn [tr] in H.
    destruct (tr true true f1 T) as [p T1] eqn:E1.
    destruct (tr true true f2 T1) as [q T2] eqn:E2.
    destruct (IHf1 _ _ _ W E1) as [S1 F1].
    destruct (IHf2 _ _ _ (proj1 S1) E2) as [S2 F2].
    pose proof (fspecI_sspecI _ _ _ _ _ F1 S2) as F1'.
    destruct (since_case_specI _ _ _ _ _ _ _ (proj1 S2) F1' F2 H) as [S3 F3].
    split; auto. simpl vars.
    eapply sspecI_trans; [eapply sspecI_mono; [|exact S1]|
      eapply sspecI_trans; [eapply sspecI_mono; [|exact S2]|exact S3]];
      auto using incl_app_l, incl_app_r.
  - (* FAlways *) cbn [tr] in H. destruct (tr true true f T) as [a T1] eqn:E1.
    destruct (until_case (TConst true) (TNot a)
                (FUntil (FConst true) (FNot f)) T1) as [r2 T2] eqn:E2.
    injection H as <- <-. destruct (IHf _ _ _ W E1) as [S1 F1].
    destruct (until_case_specI _ _ _ _ _ _ _ (proj1 S1) (fspecI_true T1)
                (fspecI_not _ _ _ F1) E2) as [S2 [Hs2 F2]].
    simpl vars in S2. simpl app in S2. split; [exact (sspecI_trans _ _ _ _ S1 S2)|].
    split; [simpl; exact Hs2|]. intros rho Htr i.
    change (eval (rho i) (TNot r2)) with (negb (eval (rho i) r2)).
    rewrite holds_always_until.
    + apply negb_iff. apply (F2 rho Htr i).
    + intros j. destruct (fspecI_sspecI _ _ _ _ _ F1 S2) as [_ F1'].
      apply (bool_dec_of_iff _ _ (F1' rho Htr j)).
  - (* FEvent *) cbn [tr] in H. destruct (tr true true f T) as [a T1] eqn:E1.
    destruct (IHf _ _ _ W E1) as [S1 F1].
    destruct (until_case_specI _ _ _ _ _ _ _ (proj1 S1) (fspecI_true T1) F1 H)
      as [S2 [Hs2 F2]].
    simpl vars in S2. simpl app in S2. split; [exact (sspecI_trans _ _ _ _ S1 S2)|].
    split; [exact Hs2|]. intros rho Htr i.
    rewrite holds_event_until. apply (F2 rho Htr i).
  - (* FUntil *) cbn [tr] in H.
    destruct (tr true true f1 T) as [p T1] eqn:E1.
    destruct (tr true true f2 T1) as [q T2] eqn:E2.
    destruct (IHf1 _ _ _ W E1) as [S1 F1].
    destruct (IHf2 _ _ _ (proj1 S1) E2) as [S2 F2].
    pose proof (fspecI_sspecI _ _ _ _ _ F1 S2) as F1'.
    destruct (until_case_specI _ _ _ _ _ _ _ (proj1 S2) F1' F2 H) as [S3 F3].
    split; auto. simpl vars.
    eapply sspecI_trans; [eapply sspecI_mono; [|exact S1]|
      eapply sspecI_trans; [eapply sspecI_mono; [|exact S2]|exact S3]];
      auto using incl_app_l, incl_app_r.
Qed.

(* ============================================================== translate *)
Lemma wins_In : forall T w,
  In w (wins T) <-> exists t, In t T /\ t_win t = Some w.
Proof.
  induction T as [|u T IH]; simpl; intros w.
  - split; [tauto|]. intros [t [[] _]].
  - destruct (t_win u) as [w'|] eqn:E; simpl; rewrite IH; split.
    + intros [<-|[t [Ht Hw]]]; eauto.
    + intros [t [[<-|Ht] Hw]]; [left; congruence|right; eauto].
    + intros [t [Ht Hw]]; eauto.
    + intros [t [[<-|Ht] Hw]]; [congruence|eauto].
Qed.

Lemma solves_inf_satI : forall fx unt f rho,
  solves_inf (translate fx unt f) rho <->
  satI rho (x_testers (translate fx unt f)).
Proof.
  intros fx unt f rho. unfold translate.
  destruct (tr fx unt f []) as [r T]. unfold solves_inf, satI, sat1I, eval. simpl.
  setoid_rewrite conj_eval. setoid_rewrite forallb_forall.
  setoid_rewrite wins_In. split.
  - intros (H0 & Ht & Hw) t Hin. split; [|split].
    + apply H0. now apply in_map.
    + intros i. apply Ht. now apply in_map.
    + intros w Hw'. apply Hw. eauto.
  - intros H. split; [|split].
    + intros x Hx. apply in_map_iff in Hx. destruct Hx as [t [<- Hin]].
      now apply H.
    + intros i x Hx. apply in_map_iff in Hx. destruct Hx as [t [<- Hin]].
      now apply H.
    + intros w [t [Hin Hw]]. now apply (H t Hin).
Qed.

Lemma tracksI_nil : forall rho, tracksI rho [].
Proof. intros rho t []. Qed.
Lemma satI_nil : forall rho, satI rho [].
Proof. intros rho t []. Qed.

Theorem translate_tracksI : forall f,
  let X := translate true true f in
  wf (x_testers X) /\
  x_names X = map t_name (x_testers X) /\
  state_formula (x_formula X) = true /\
  (forall t, In t (x_testers X) -> incl (vars (t_tracks t)) (vars f)) /\
  forall rho,
    (solves_inf X rho <-> tracksI rho (x_testers X)) /\
    (tracksI rho (x_testers X) ->
     forall i, eval (rho i) (x_formula X) = true <-> holds f rho i).
Proof.
  intros f X.
  pose proof (solves_inf_satI true true f) as HS. fold X in HS.
  unfold X, translate in *. destruct (tr true true f []) as [r T] eqn:E.
  simpl in *.
  destruct (tr_specI f [] r T wf_nil E)
    as [(W & (E0 & HE & HV) & S & U) [Hst F]].
  simpl in HE. subst E0.
  split; [exact W|]. split; [reflexivity|]. split; [exact Hst|].
  split; [exact HV|]. intros rho. split; [split|].
  - intros H. apply U; [now apply HS|apply tracksI_nil].
  - intros H. apply HS. apply S; auto. apply satI_nil.
  - apply F.
Qed.

(* `holds` depends only on the variables of the formula *)
Lemma holds_ext : forall g r1 r2,
  (forall j v, In v (vars g) -> r1 j v = r2 j v) ->
  forall i, holds g r1 i <-> holds g r2 i.
Proof.
  induction g; simpl vars; intros r1 r2 H i; simpl.
  - rewrite (H i v); simpl; tauto.
  - rewrite (H i a); simpl; tauto.
  - tauto.
  - rewrite (IHg r1 r2 H i). tauto.
  - apply bopP_iff; [apply IHg1|apply IHg2]; intros; apply H; apply in_or_app; auto.
  - rewrite (IHg1 r1 r2), (IHg2 r1 r2), (IHg3 r1 r2); try tauto;
      intros; apply H; apply in_or_app; auto; right; apply in_or_app; auto.
  - split; intros Hh j Hj; apply (IHg r1 r2 H j); auto.
  - split; intros [j [Hj Hh]]; exists j; split; auto; apply (IHg r1 r2 H j); auto.
  - split; intros Hh j Hj; apply (IHg r1 r2 H j); auto.
  - split; intros [j [Hj Hh]]; exists j; split; auto; apply (IHg r1 r2 H j); auto.
  - assert (H1 : forall j, holds g1 r1 j <-> holds g1 r2 j)
      by (apply IHg1; intros; apply H; apply in_or_app; auto).
    assert (H2 : forall j, holds g2 r1 j <-> holds g2 r2 j)
      by (apply IHg2; intros; apply H; apply in_or_app; auto).
    split; intros [j [Hj [Hg Hf]]]; exists j; (split; [exact Hj|]);
      (split; [now apply H2|]); intros k Hk1 Hk2; apply H1; auto.
  - split; intros Hh j Hj; apply (IHg r1 r2 H j); auto.
  - split; intros [j [Hj Hh]]; exists j; split; auto; apply (IHg r1 r2 H j); auto.
  - assert (H1 : forall j, holds g1 r1 j <-> holds g1 r2 j)
      by (apply IHg1; intros; apply H; apply in_or_app; auto).
    assert (H2 : forall j, holds g2 r1 j <-> holds g2 r2 j)
      by (apply IHg2; intros; apply H; apply in_or_app; auto).
    split; intros [j [Hj [Hg Hf]]]; exists j; (split; [exact Hj|]);
      (split; [now apply H2|]); intros k Hk1 Hk2; apply H1; auto.
Qed.

(* ------------------------------ user sequence sigma + auxiliary sequence *)
Theorem translate_until_partial : forall f,
  let X := translate true true f in
  no_clash f (x_names X) ->
  forall sigma,
    (* every sequence of auxiliary values that reflects the semantics of the
       tracked formulas is a fair solution *)
    (forall alpha, reflects (x_testers X) sigma alpha ->
                   is_solution_inf X sigma alpha) /\
    (* every fair solution reflects the semantics, and gives the translated
       formula the truth value of f at every position *)
    (forall alpha, is_solution_inf X sigma alpha ->
       reflects (x_testers X) sigma alpha /\
       forall i, eval (comb (x_names X) sigma alpha i) (x_formula X) = true
                 <-> holds f sigma i) /\
    (* hence any two fair solutions coincide *)
    (forall alpha1 alpha2,
       is_solution_inf X sigma alpha1 -> is_solution_inf X sigma alpha2 ->
       forall i v, In v (x_names X) -> alpha1 i v = alpha2 i v).
Proof.
  intros f X NC sigma.
  destruct (translate_tracksI f) as (W & HN & Hst & HV & H).
  fold X in W, HN, Hst, HV, H. unfold is_solution_inf.
  assert (SE : forall alpha g, incl (vars g) (vars f) ->
            forall i, holds g (comb (x_names X) sigma alpha) i <-> holds g sigma i).
  { intros alpha g Hg. apply holds_ext. intros j v Hv. apply comb_user.
    apply NC. now apply Hg. }
  assert (R1 : forall alpha, reflects (x_testers X) sigma alpha <->
                 tracksI (comb (x_names X) sigma alpha) (x_testers X)).
  { intros alpha. unfold reflects, tracksI, track1I. split; intros HR t Ht i.
    - rewrite comb_aux by (rewrite HN; now apply in_map).
      rewrite SE by (now apply HV). now apply HR.
    - rewrite <- (SE alpha) by (now apply HV).
      rewrite <- (HR t Ht i). rewrite comb_aux; [tauto|].
      rewrite HN. now apply in_map. }
  assert (P2 : forall alpha, solves_inf X (comb (x_names X) sigma alpha) ->
       reflects (x_testers X) sigma alpha /\
       forall i, eval (comb (x_names X) sigma alpha i) (x_formula X) = true
                 <-> holds f sigma i).
  { intros alpha Hs. apply (proj1 (H _)) in Hs. split; [now apply R1|].
    intros i. rewrite (proj2 (H _) Hs i). apply SE. apply incl_refl. }
  split; [|split].
  - intros alpha HR. apply (proj1 (H _)). now apply R1.
  - exact P2.
  - intros a1 a2 H1 H2 i v Hv.
    destruct (P2 a1 H1) as [R_1 _]. destruct (P2 a2 H2) as [R_2 _].
    rewrite HN in Hv. apply in_map_iff in Hv. destruct Hv as [t [<- Ht]].
    apply (bool_iff_eq _ _ (holds (t_tracks t) sigma i)); auto.
Qed.

(* existence, for sequences on which the semantics is decidable *)
Theorem translate_until_exists : forall f,
  let X := translate true true f in
  no_clash f (x_names X) ->
  forall sigma,
    (forall g i, {holds g sigma i} + {~ holds g sigma i}) ->
    exists alpha, is_solution_inf X sigma alpha.
Proof.
  intros f X NC sigma D.
  destruct (translate_tracksI f) as (W & _). fold X in W.
  exists (fun i v => match find v (x_testers X) with
                     | Some t => if D (t_tracks t) i then true else false
                     | None => false
                     end).
  apply (proj1 (translate_until_partial f NC sigma)).
  intros t Ht i. rewrite (find_in_nodup _ t (proj1 W) Ht).
  destruct (D (t_tracks t) i); intuition congruence.
Qed.
