(* Proofs about the name mangling of omega/steps.py (model: Mangle.v). *)
From Coq Require Import List Bool String Ascii ZArith Lia.
From Omega Require Import L4Steps.Mangle.
Import ListNotations.
Open Scope string_scope.

(* ---------------------------------------------------------------- strings *)
Lemma strip_app : forall p s, strip p (p ++ s) = Some s.
Proof.
  induction p as [|a p IH]; intros s; simpl; [reflexivity|].
  rewrite Ascii.eqb_refl. apply IH.
Qed.

Lemma strip_Some : forall p s r, strip p s = Some r -> s = p ++ r.
Proof.
  induction p as [|a p IH]; intros s r H; simpl in *.
  - congruence.
  - destruct s as [|b s]; [discriminate|].
    destruct (Ascii.eqb a b) eqn:E; [|discriminate].
    apply Ascii.eqb_eq in E. subst b. f_equal. apply IH, H.
Qed.

Lemma append_assoc : forall a b c : string, (a ++ b) ++ c = a ++ (b ++ c).
Proof. induction a; intros; simpl; [reflexivity|]. f_equal. apply IHa. Qed.

Lemma append_inj_l : forall p a b : string, p ++ a = p ++ b -> a = b.
Proof.
  induction p; simpl; intros a0 b H; [exact H|].
  injection H as H. apply IHp, H.
Qed.

Lemma is_hidden_spec : forall k, is_hidden k = true <-> exists r, k = "_" ++ r.
Proof.
  intros k; split.
  - destruct k as [|c k]; simpl; [discriminate|].
    intros H. apply Ascii.eqb_eq in H. subst c. exists k. reflexivity.
  - intros [r ->]. reflexivity.
Qed.

Lemma omit1_mangled : forall p k, is_hidden k = true -> omit1 (p ++ k) p = k.
Proof.
  intros p k H. apply is_hidden_spec in H. destruct H as [r ->].
  unfold omit1. rewrite <- append_assoc, strip_app. reflexivity.
Qed.

(* the repaired function either strips exactly "p" from "p_..." or is the
   identity *)
Lemma omit1_cases : forall s p,
  (is_hidden (omit1 s p) = true /\ s = p ++ omit1 s p) \/
  (omit1 s p = s /\ strip (p ++ "_") s = None).
Proof.
  intros s p. unfold omit1. destruct (strip (p ++ "_") s) as [r|] eqn:E.
  - left. split; [reflexivity|].
    apply strip_Some in E. rewrite E, append_assoc. reflexivity.
  - right. split; reflexivity.
Qed.

Lemma omit1_visible_fix : forall s p,
  strip (p ++ "_") s = None -> omit1 s p = s.
Proof. intros s p H. unfold omit1. rewrite H. reflexivity. Qed.

Lemma omit1_inj_visible : forall p g1 g2,
  is_hidden g1 = false -> is_hidden g2 = false ->
  omit1 g1 p = omit1 g2 p -> g1 = g2.
Proof.
  intros p g1 g2 H1 H2 E.
  destruct (omit1_cases g1 p) as [[A1 B1]|[A1 _]];
  destruct (omit1_cases g2 p) as [[A2 B2]|[A2 _]].
  - rewrite B1, B2, E. reflexivity.
  - rewrite E, A2 in A1. congruence.
  - rewrite <- E, A1 in A2. congruence.
  - congruence.
Qed.

(* ------------------------------------------------------------ dictionaries *)
Lemma mem_In : forall k ks, mem k ks = true <-> In k ks.
Proof.
  intros k ks. unfold mem. rewrite existsb_exists. split.
  - intros [x [Hx E]]. apply String.eqb_eq in E. subst. exact Hx.
  - intros H. exists k. split; [exact H|apply String.eqb_refl].
Qed.

Lemma mem_false : forall k ks, mem k ks = false <-> ~ In k ks.
Proof.
  intros k ks. rewrite <- mem_In. destruct (mem k ks); split; intros H.
  - discriminate.
  - exfalso. apply H. reflexivity.
  - intros F. discriminate.
  - reflexivity.
Qed.

Lemma keys_app : forall a b : dict, keys (a ++ b)%list = (keys a ++ keys b)%list.
Proof. intros; unfold keys; apply map_app. Qed.

Lemma lookup_None : forall k d, lookup k d = None <-> ~ In k (keys d).
Proof.
  induction d as [|[k' v] d IH]; simpl.
  - split; auto.
  - destruct (String.eqb k k') eqn:E.
    + apply String.eqb_eq in E. subst. split; [discriminate|].
      intros H. exfalso. apply H. left. reflexivity.
    + apply String.eqb_neq in E. rewrite IH. split; intros H.
      * intros [F|F]; [congruence|auto].
      * intros F. apply H. right. exact F.
Qed.

Lemma lookup_In : forall k v d, lookup k d = Some v -> In (k, v) d.
Proof.
  induction d as [|[k' v'] d IH]; simpl; [discriminate|].
  destruct (String.eqb k k') eqn:E.
  - apply String.eqb_eq in E. subst. intros H. injection H as ->. left. reflexivity.
  - intros H. right. apply IH, H.
Qed.

Lemma In_lookup : forall k v d, NoDup (keys d) -> In (k, v) d -> lookup k d = Some v.
Proof.
  induction d as [|[k' v'] d IH]; simpl; intros ND H; [contradiction|].
  inversion ND as [|? ? Hn ND']; subst.
  destruct H as [H|H].
  - injection H as -> ->. rewrite String.eqb_refl. reflexivity.
  - destruct (String.eqb k k') eqn:E.
    + apply String.eqb_eq in E. subst. exfalso. apply Hn.
      change k' with (fst (k', v)). apply in_map, H.
    + apply IH; assumption.
Qed.

Lemma lookup_app : forall k a b,
  lookup k (a ++ b)%list =
  match lookup k a with Some v => Some v | None => lookup k b end.
Proof.
  induction a as [|[k' v] a IH]; intros b; simpl; [reflexivity|].
  destruct (String.eqb k k'); [reflexivity|apply IH].
Qed.

Lemma lookup_filter_key : forall (f : string -> bool) k d,
  lookup k (filter (fun kv => f (fst kv)) d) =
  if f k then lookup k d else None.
Proof.
  induction d as [|[k' v] d IH]; simpl.
  - destruct (f k); reflexivity.
  - destruct (f k') eqn:F; simpl.
    + destruct (String.eqb k k') eqn:E.
      * apply String.eqb_eq in E. subst. rewrite F. reflexivity.
      * exact IH.
    + destruct (String.eqb k k') eqn:E.
      * apply String.eqb_eq in E. subst. rewrite F in *. exact IH.
      * exact IH.
Qed.

Lemma keys_filter_incl : forall (f : string * Z -> bool) d k,
  In k (keys (filter f d)) -> In k (keys d).
Proof.
  intros f d k H. unfold keys in *. apply in_map_iff in H.
  destruct H as [x [E Hx]]. apply filter_In in Hx. destruct Hx as [Hx _].
  apply in_map_iff. exists x. auto.
Qed.

Lemma NoDup_keys_filter : forall (f : string * Z -> bool) d,
  NoDup (keys d) -> NoDup (keys (filter f d)).
Proof.
  induction d as [|[k v] d IH]; simpl; intros ND; [constructor|].
  inversion ND as [|? ? Hn ND']; subst.
  destruct (f (k, v)); simpl.
  - constructor; [|apply IH, ND'].
    intros H. apply Hn. eapply keys_filter_incl, H.
  - apply IH, ND'.
Qed.

Lemma NoDup_map_inj_in : forall (A B : Type) (f : A -> B) l,
  (forall x y, In x l -> In y l -> f x = f y -> x = y) ->
  NoDup l -> NoDup (map f l).
Proof.
  induction l as [|a l IH]; simpl; intros Hinj ND; [constructor|].
  inversion ND as [|? ? Hn ND']; subst. constructor.
  - intros H. apply in_map_iff in H. destruct H as [y [E Hy]].
    assert (y = a) by (apply Hinj; auto). subst. contradiction.
  - apply IH; [|exact ND']. intros x y Hx Hy. apply Hinj; auto.
Qed.

Lemma NoDup_snoc : forall (A : Type) (l : list A) a,
  NoDup l -> ~ In a l -> NoDup (l ++ [a])%list.
Proof.
  induction l as [|b l IH]; simpl; intros a ND H.
  - constructor; [intros []|constructor].
  - inversion ND as [|? ? Hn ND']; subst. constructor.
    + intros F. apply in_app_or in F. destruct F as [F|[F|[]]]; [auto|].
      subst. apply H. left. reflexivity.
    + apply IH; [exact ND'|]. intros F. apply H. right. exact F.
Qed.

Lemma overlap_false : forall a b,
  overlap a b = false <-> (forall k, In k (keys a) -> ~ In k (keys b)).
Proof.
  intros a b. unfold overlap. split.
  - intros H k Ha Hb.
    assert (existsb (fun k0 => mem k0 (keys b)) (keys a) = true).
    { apply existsb_exists. exists k. split; [exact Ha|apply mem_In, Hb]. }
    congruence.
  - intros H. destruct (existsb _ _) eqn:E; [|reflexivity].
    apply existsb_exists in E. destruct E as [k [Ha Hb]].
    apply mem_In in Hb. exfalso. eapply H; eauto.
Qed.

Lemma overlap_true : forall a b,
  overlap a b = true <-> exists k, In k (keys a) /\ In k (keys b).
Proof.
  intros a b. unfold overlap. rewrite existsb_exists. split.
  - intros [k [Ha Hb]]. exists k. split; [exact Ha|apply mem_In, Hb].
  - intros [k [Ha Hb]]. exists k. split; [exact Ha|apply mem_In, Hb].
Qed.

(* --------------------------------------------------------- omit_prefix *)
Definition ren (om : string -> string -> string) (p : string) (d : dict) : dict :=
  map (fun kv => (om (fst kv) p, snd kv)) d.

Lemma keys_ren : forall om p d, keys (ren om p d) = map (fun k => om k p) (keys d).
Proof. intros. unfold keys, ren. rewrite !map_map. reflexivity. Qed.

Lemma omit_prefix_acc_ok : forall om p d acc,
  NoDup (keys acc ++ keys (ren om p d))%list ->
  omit_prefix_acc om d p acc = Ok (acc ++ ren om p d)%list.
Proof.
  induction d as [|[k v] d IH]; intros acc ND; simpl.
  - rewrite app_nil_r. reflexivity.
  - simpl in ND.
    destruct (mem (om k p) (keys acc)) eqn:M.
    + apply mem_In in M. exfalso.
      apply NoDup_remove_2 in ND. apply ND. apply in_or_app. left. exact M.
    + rewrite IH.
      * rewrite <- app_assoc. reflexivity.
      * rewrite keys_app. simpl. rewrite <- app_assoc. simpl. exact ND.
Qed.

Lemma omit_prefix_acc_inv : forall om p d acc r,
  omit_prefix_acc om d p acc = Ok r ->
  r = (acc ++ ren om p d)%list /\
  (NoDup (keys acc) -> NoDup (keys r)).
Proof.
  induction d as [|[k v] d IH]; intros acc r H; simpl in *.
  - injection H as <-. rewrite app_nil_r. auto.
  - destruct (mem (om k p) (keys acc)) eqn:M; [discriminate|].
    apply IH in H. destruct H as [-> H2]. split.
    + rewrite <- app_assoc. reflexivity.
    + intros ND. apply H2. rewrite keys_app. simpl.
      apply mem_false in M. apply NoDup_snoc; assumption.
Qed.

Lemma omit_prefix_acc_total : forall om p d acc,
  (exists r, omit_prefix_acc om d p acc = Ok r) \/
  omit_prefix_acc om d p acc = Err Collision.
Proof.
  induction d as [|[k v] d IH]; intros acc; simpl.
  - left. eauto.
  - destruct (mem (om k p) (keys acc)); [right; reflexivity|apply IH].
Qed.

(* a collision of unmangled names is always signalled: the function never
   returns a dictionary in which an entry was overwritten *)
Theorem omit_prefix_collision_signalled : forall om p d,
  ~ NoDup (keys (ren om p d)) -> omit_prefix_with om d p = Err Collision.
Proof.
  intros om p d H. unfold omit_prefix_with.
  destruct (omit_prefix_acc_total om p d []) as [[r E]|E]; [|exact E].
  exfalso. apply H. apply omit_prefix_acc_inv in E. destruct E as [-> ND].
  apply ND. constructor.
Qed.

(* ------------------------------------------------------------ to_local *)
(* the view of the global state that a component with name [n] that declares
   [mvars] has, by specification: a hidden variable k is the global
   "n ++ k"; a visible variable is the global variable of the same name,
   unless that name is one of the component's own mangled names *)
Definition spec_local (G : dict) (n k : string) : option Z :=
  if is_hidden k then lookup (n ++ k) G
  else match strip (n ++ "_") k with
       | None => lookup k G
       | Some _ => None
       end.

Definition no_hidden_keys (G : dict) : Prop :=
  forall g, In g (keys G) -> is_hidden g = false.

Lemma lookup_ren_omit1 : forall n G k,
  no_hidden_keys G -> lookup k (ren omit1 n G) = spec_local G n k.
Proof.
  intros n G k. unfold spec_local.
  induction G as [|[g v] G IH]; intros NH; simpl.
  - destruct (is_hidden k); [reflexivity|]. destruct (strip _ k); reflexivity.
  - assert (Hg : is_hidden g = false) by (apply NH; left; reflexivity).
    assert (NH' : no_hidden_keys G) by (intros x Hx; apply NH; right; exact Hx).
    specialize (IH NH').
    destruct (is_hidden k) eqn:HK.
    + (* hidden: matches exactly the mangled key *)
      destruct (String.eqb k (omit1 g n)) eqn:E.
      * apply String.eqb_eq in E.
        destruct (omit1_cases g n) as [[A B]|[A _]].
        -- rewrite <- E in B. rewrite B, String.eqb_refl. reflexivity.
        -- rewrite A in E. congruence.
      * destruct (String.eqb (n ++ k) g) eqn:E2.
        -- apply String.eqb_eq in E2. subst g.
           rewrite omit1_mangled in E by exact HK.
           rewrite String.eqb_refl in E. discriminate.
        -- exact IH.
    + destruct (strip (n ++ "_") k) eqn:S.
      * (* a visible name of the form n_... is never produced *)
        destruct (String.eqb k (omit1 g n)) eqn:E; [|exact IH].
        apply String.eqb_eq in E.
        destruct (omit1_cases g n) as [[A B]|[A C]].
        -- rewrite <- E in A. congruence.
        -- rewrite A in E. subst g. congruence.
      * destruct (String.eqb k (omit1 g n)) eqn:E.
        -- apply String.eqb_eq in E.
           destruct (omit1_cases g n) as [[A B]|[A C]].
           ++ rewrite <- E in A. congruence.
           ++ rewrite A in E. subst g. rewrite String.eqb_refl. reflexivity.
        -- destruct (String.eqb k g) eqn:E2; [|exact IH].
           apply String.eqb_eq in E2. subst g.
           rewrite (omit1_visible_fix k n S), String.eqb_refl in E. discriminate.
Qed.

Theorem to_local_exact : forall G n mvars,
  NoDup (keys G) -> no_hidden_keys G ->
  exists L, to_local G n mvars = Ok L /\ NoDup (keys L) /\
    forall k, lookup k L = if mem k mvars then spec_local G n k else None.
Proof.
  intros G n mvars ND NH.
  assert (NDr : NoDup (keys (ren omit1 n G))).
  { rewrite keys_ren. apply NoDup_map_inj_in; [|exact ND].
    intros x y Hx Hy. apply omit1_inj_visible; auto. }
  unfold to_local, to_local_with, omit_prefix_with.
  rewrite omit_prefix_acc_ok by (simpl; exact NDr). simpl.
  eexists. split; [reflexivity|]. split.
  - apply NoDup_keys_filter, NDr.
  - intros k.
    rewrite (lookup_filter_key (fun k => mem k mvars)).
    rewrite lookup_ren_omit1 by exact NH. reflexivity.
Qed.

(* ----------------------------------------------------------- to_global *)
Definition mangle (n : string) (d : dict) : dict :=
  map (fun kv => ((n ++ fst kv)%string, snd kv)) d.

Lemma all_hidden_hidden_vars : forall d kv,
  In kv (hidden_vars d) -> is_hidden (fst kv) = true.
Proof. intros d kv H. apply filter_In in H. tauto. Qed.

Lemma add_prefix_acc_hidden : forall n d acc,
  (forall kv, In kv d -> is_hidden (fst kv) = true) ->
  NoDup (keys acc ++ keys (mangle n d))%list ->
  add_prefix_acc d n acc = Ok (acc ++ mangle n d)%list.
Proof.
  induction d as [|[k v] d IH]; intros acc AH ND; simpl.
  - rewrite app_nil_r. reflexivity.
  - assert (HK : is_hidden k = true) by (apply (AH (k, v)); left; reflexivity).
    rewrite HK. simpl in ND.
    destruct (mem (n ++ k) (keys acc)) eqn:M.
    + apply mem_In in M. exfalso.
      apply NoDup_remove_2 in ND. apply ND, in_or_app. left. exact M.
    + rewrite IH.
      * rewrite <- app_assoc. reflexivity.
      * intros kv H. apply AH. right. exact H.
      * rewrite keys_app. simpl. rewrite <- app_assoc. simpl. exact ND.
Qed.

Lemma keys_mangle : forall n d, keys (mangle n d) = map (append n) (keys d).
Proof. intros. unfold keys, mangle. rewrite !map_map. reflexivity. Qed.

Lemma NoDup_keys_mangle : forall n d, NoDup (keys d) -> NoDup (keys (mangle n d)).
Proof.
  intros n d ND. rewrite keys_mangle. apply NoDup_map_inj_in; [|exact ND].
  intros x y _ _ E. eapply append_inj_l, E.
Qed.

Theorem to_global_exact : forall s n,
  NoDup (keys s) ->
  to_global s n =
  if overlap (visible_vars s) (mangle n (hidden_vars s)) then Err Collision
  else Ok (visible_vars s ++ mangle n (hidden_vars s))%list.
Proof.
  intros s n ND. unfold to_global, add_prefix.
  rewrite add_prefix_acc_hidden.
  - reflexivity.
  - apply all_hidden_hidden_vars.
  - simpl. apply NoDup_keys_mangle, NoDup_keys_filter, ND.
Qed.

(* ------------------------------------------------------- round trip *)
(* hygiene of one component: none of its visible variables is named like
   one of its own mangled hidden variables *)
Definition own_names_clean (n : string) (ks : list string) : Prop :=
  forall k, In k ks -> is_hidden k = false -> strip (n ++ "_") k = None.

Lemma strip_mangled_hidden : forall n k,
  is_hidden k = true -> strip (n ++ "_") (n ++ k) <> None.
Proof.
  intros n k H. apply is_hidden_spec in H. destruct H as [r ->].
  rewrite <- append_assoc, strip_app. discriminate.
Qed.

Lemma ren_visible_id : forall n d,
  (forall k, In k (keys d) -> strip (n ++ "_") k = None) ->
  ren omit1 n d = d.
Proof.
  induction d as [|[k v] d IH]; intros H; simpl; [reflexivity|].
  rewrite omit1_visible_fix by (apply H; left; reflexivity).
  f_equal. apply IH. intros x Hx. apply H. right. exact Hx.
Qed.

Lemma ren_mangle_hidden : forall n d,
  (forall kv, In kv d -> is_hidden (fst kv) = true) ->
  ren omit1 n (mangle n d) = d.
Proof.
  induction d as [|[k v] d IH]; intros H; simpl; [reflexivity|].
  rewrite omit1_mangled by (apply (H (k, v)); left; reflexivity).
  f_equal. apply IH. intros x Hx. apply H. right. exact Hx.
Qed.

Lemma ren_app : forall om n a b, ren om n (a ++ b)%list = (ren om n a ++ ren om n b)%list.
Proof. intros. unfold ren. apply map_app. Qed.

Lemma filter_all : forall (A : Type) (f : A -> bool) l,
  (forall x, In x l -> f x = true) -> filter f l = l.
Proof.
  induction l as [|a l IH]; simpl; intros H; [reflexivity|].
  rewrite H by (left; reflexivity). f_equal. apply IH. intros; apply H; right; assumption.
Qed.

Lemma NoDup_vis_hid : forall s,
  NoDup (keys s) -> NoDup (keys (visible_vars s) ++ keys (hidden_vars s))%list.
Proof.
  induction s as [|[k v] s IH]; simpl; intros ND; [constructor|].
  inversion ND as [|? ? Hn ND']; subst. specialize (IH ND').
  unfold visible_vars, hidden_vars in *. simpl.
  destruct (is_hidden k); simpl.
  - apply NoDup_Add with (a := k)
      (l := (keys (filter (fun kv => negb (is_hidden (fst kv))) s) ++
             keys (filter (fun kv => is_hidden (fst kv)) s))%list).
    + apply Add_app.
    + split; [exact IH|].
      intros H. apply in_app_or in H. apply Hn.
      destruct H as [H|H]; eapply keys_filter_incl, H.
  - constructor; [|exact IH].
    intros H. apply in_app_or in H. apply Hn.
    destruct H as [H|H]; eapply keys_filter_incl, H.
Qed.

(* mangle_roundtrip: what a component puts into the global state under its
   name, it reads back unchanged (visible entries first, then hidden ones) *)
Theorem mangle_roundtrip : forall s n mvars,
  NoDup (keys s) ->
  (forall k, In k (keys s) -> In k mvars) ->
  own_names_clean n (keys s) ->
  exists g, to_global s n = Ok g /\
    to_local g n mvars = Ok (visible_vars s ++ hidden_vars s)%list.
Proof.
  intros s n mvars ND DECL CLEAN.
  assert (VIS : forall k, In k (keys (visible_vars s)) -> strip (n ++ "_") k = None).
  { intros k H. unfold visible_vars, keys in H. apply in_map_iff in H.
    destruct H as [[k' v] [E H]]. simpl in E. subst k'.
    apply filter_In in H. destruct H as [H1 H2]. simpl in H2.
    apply CLEAN.
    - change k with (fst (k, v)). apply in_map, H1.
    - destruct (is_hidden k); [discriminate|reflexivity]. }
  rewrite to_global_exact by exact ND.
  destruct (overlap (visible_vars s) (mangle n (hidden_vars s))) eqn:OV.
  { exfalso. apply overlap_true in OV. destruct OV as [k [Hv Hm]].
    rewrite keys_mangle in Hm. apply in_map_iff in Hm.
    destruct Hm as [h [E Hh]]. subst k.
    assert (HH : is_hidden h = true).
    { unfold keys in Hh. apply in_map_iff in Hh. destruct Hh as [kv [E Hkv]].
      subst h. eapply all_hidden_hidden_vars, Hkv. }
    apply (strip_mangled_hidden n h HH). apply VIS, Hv. }
  eexists. split; [reflexivity|].
  unfold to_local, to_local_with, omit_prefix_with.
  assert (R : ren omit1 n (visible_vars s ++ mangle n (hidden_vars s))%list
              = (visible_vars s ++ hidden_vars s)%list).
  { rewrite ren_app, ren_visible_id by exact VIS.
    rewrite ren_mangle_hidden by apply all_hidden_hidden_vars. reflexivity. }
  rewrite omit_prefix_acc_ok.
  - simpl. rewrite R. f_equal. apply filter_all.
    intros [k v] H. simpl. apply mem_In, DECL.
    apply in_app_or in H. destruct H as [H|H]; apply filter_In in H;
      destruct H as [H _]; change k with (fst (k, v)); apply in_map, H.
  - simpl. rewrite R, keys_app. apply NoDup_vis_hid, ND.
Qed.

(* ----------------------------------------------------- the old function *)
(* F9 on the unrepaired code: component "a" declares a visible "b_y" and is
   handed the hidden "_y" of component "ab" ... *)
Example omit_prefix_old_leaks :
  to_local_old [("ab_y", 7%Z); ("u", 1%Z)] "a" ["b_y"; "u"]
  = Ok [("b_y", 7%Z); ("u", 1%Z)].
Proof. reflexivity. Qed.

(* ... and component "foo" loses its visible variable "foobar" *)
Example omit_prefix_old_loses :
  to_local_old [("foobar", 3%Z)] "foo" ["foobar"] = Ok [].
Proof. reflexivity. Qed.

(* the repaired function on the same inputs *)
Example omit_prefix_new_no_leak :
  to_local [("ab_y", 7%Z); ("u", 1%Z)] "a" ["b_y"; "u"] = Ok [("u", 1%Z)]
  /\ to_local [("foobar", 3%Z)] "foo" ["foobar"] = Ok [("foobar", 3%Z)].
Proof. split; reflexivity. Qed.

(* the pinned test tests/steps_test.py::test_omit_prefix *)
Example test_omit_prefix_model :
  omit_prefix [("a", 1%Z); ("foo_mem", 3%Z)] "foo" = Ok [("a", 1%Z); ("_mem", 3%Z)]
  /\ omit_prefix [("a", 1%Z); ("_mem", 2%Z); ("foo_mem", 3%Z)] "foo" = Err Collision.
Proof. split; reflexivity. Qed.
