(* C02 — the synthesized Streett(1) implementation.  Statements only.

   Model: the construction TRANSLATED from gr1.make_streett_transducer on
   every run (gen/TransducerGen.v, tie T).  C02_construction_is_translated
   shows that whenever the translated construction succeeds, the action it
   stores is [streett_action] (GenProofs/TransducerModel.v, the same
   construction with its three parts rho_1, rho_2, rho_3 named, over the
   GENERATED _controllable_action), its initial condition is the generated
   _make_init of "counter = 0", and the generated is_realizable holds; the
   theorems below are about [streett_action].  What remains compared rather
   than translated is the arena: how the memory variable is laid out in the
   component's valuations (correspondence check).  The theorems hold for
   ARBITRARY iterate lists, hence for whatever the solver returns:

   (a) every step the synthesized action allows satisfies the specified
       component action under the mode's causality rule (sys_action if
       plus_one; env_action => sys_action otherwise; for every next
       environment value if Moore);
   (b) a Moore implementation does not depend on the next environment values;
   (c) when the environment keeps its action the goal counter is within
       0..n-1 before and after the step; with strict causality it is in range
       before every allowed step.
   Initial states: C03_init_sound applied to the counter's initial value.

   (e) ABSENCE OF BLOCKING, for the model composed with the GENERATED solver:
       at every winning valuation, with the goal counter j in range, the
       synthesized action allows a step - for every next environment value if
       Mealy, with one choice good for all next environment values if Moore
       (C02_never_blocks).  The proof establishes the "onion" structure of the
       iterates the generated solver records (StreettIter1/2) and shows that
       rho_1, rho_2 or rho_3 always offers a step (StreettNB1-4).

   (d) CLOSURE: whenever the environment keeps its action, every step the
       synthesized action allows leads to a winning valuation
       (C02_region_closed); hence, by induction over the behaviour, every
       state reachable from a winning state is winning
       (C02_reachable_states_winning), where (e) then gives a next step and
       (a), (c) constrain it.  Uses the spec-level fact that at the fixpoint
       the attractor of every recurrence goal equals the region
       (L4/GR1Closure.v).

   (g) LIVENESS: every infinite closed-loop behaviour in which the environment
       keeps its action, started with the goal counter in range, satisfies
       "some persistence predicate holds from some point on, or every
       recurrence predicate holds infinitely often" (C02_liveness).  The proof
       classifies every allowed step as goal switch / descent / stay
       (StreettLive1), shows that descents strictly lower and stays never
       raise the position of the first trap containing the state
       (StreettLive2/3, from the onion structure), and concludes with a
       counter/rank argument on infinite sequences (L4/LiveLemma.v), which
       uses excluded middle: C02_liveness depends on the standard-library
       axiom Classical_Prop.classic (see Print Assumptions below); all other
       theorems of this file are axiom-free.

   Together (a)-(g) are the statement of C02 for the translated
   construction over the translated solver. *)
From Coq Require Import List Bool Arith Lia.
From Omega Require Import L4.Arena L4.Kleene.
From OmegaGen Require Import FixpointGen Gr1Gen TransducerGen.
From Coq Require Import ZArith.
From Coq Require String.
From OmegaGen Require BitsGen.
From OmegaGP Require Import CounterWidth.
From Omega Require Import L4.Plays.
From OmegaGP Require Import TransducerModel TransducerBridge StreettTProofs StreettNB2 StreettNB4 StreettIter2
  StreettClosure1 StreettClosure2 StreettLive4 StreettWins MooreIndepSolver.

Theorem C02_construction_is_translated :
  forall nc nx ny G (E S EI SI : bdd) (holds goals : list bdd) (moore plus_one : bool)
         qinit fuel z yij xijk a i,
  StreettGen.make_streett_transducer nc nx ny G E S EI SI holds goals moore
    plus_one qinit fuel z yij xijk = Some (a, i) ->
  a = streett_action nc nx ny G E S holds goals moore plus_one z yij xijk /\
  Gr1Gen.make_init nc nx (ny * G) EI SI plus_one qinit fuel
    (streett_init_count nc nx ny G) z = Some i /\
  Gr1Gen.is_realizable nc nx (ny * G) EI SI plus_one qinit fuel z = Some true /\
  1 <= length goals /\
  beq nc nx (ny * G) a bfalse = false.
Proof.
  intros nc nx ny G E S EI SI holds goals moore plus_one qinit fuel z yij xijk a i.
  exact (streett_generated_some nc nx ny E S EI SI holds goals moore plus_one qinit G
           fuel z yij xijk a i).
Qed.

(* The goal counter is declared by the construction with the range
   0 .. (number of goals - 1); through the TRANSLATED width computation of
   the declaration code (C18) its bit field has at least as many values as
   there are goals: the hypothesis `length goals <= G` of the theorems below
   holds for the G the real declaration produces. *)
Theorem C02_counter_field_fits : forall goals : list bdd,
  1 <= length goals ->
  forall name lo hi,
  In (name, lo, hi) (StreettGen.make_streett_transducer_declares goals) ->
  lo = 0 /\
  exists h, BitsGen.declared_hint 0 (Z.of_nat hi) = Some h /\ Bits.h_signed h = false /\
    BitsGen.bitfield_limits h = Some (0, 2 ^ Bits.h_width h - 1)%Z /\
    length goals <= Z.to_nat (2 ^ Bits.h_width h).
Proof. exact goal_counter_fits. Qed.

Section C02.
Variables nc nx ny G : nat.
Variables E S : bdd.
Variables holds goals : list bdd.
Local Notation action := (streett_action nc nx ny G E S holds goals).

Theorem C02_refines_component_action : forall moore plus_one z yij xijk v,
  action moore plus_one z yij xijk v = true ->
  oblig_mode nx E S moore plus_one v = true.
Proof.
  intros moore plus_one z yij xijk.
  exact (streett_action_refines nc nx ny G E S holds goals moore plus_one z yij xijk).
Qed.

Theorem C02_obligation_at_the_step : forall moore plus_one v,
  inr nc nx (ny * G) v -> oblig_mode nx E S moore plus_one v = true ->
  oblig E S plus_one v = true.
Proof. exact (oblig_mode_oblig nc nx ny G E S). Qed.

Theorem C02_moore_independent_of_next_env : forall plus_one z yij xijk,
  indep z -> Forall (Forall indep) yij -> Forall (Forall (Forall indep)) xijk ->
  Forall indep goals -> Forall indep holds ->
  indep (action true plus_one z yij xijk).
Proof. exact (streett_action_moore_indep nc nx ny G E S holds goals). Qed.

Theorem C02_counter_in_range : forall moore plus_one z yij xijk v,
  inr nc nx (ny * G) v ->
  action moore plus_one z yij xijk v = true ->
  (E v = true -> cnt G v <= length goals - 1 /\ cntp G v <= length goals - 1) /\
  (plus_one = true -> cnt G v <= length goals - 1).
Proof. exact (streett_counter_range nc nx ny G E S holds goals). Qed.

End C02.

Import ListNotations.
Theorem C02_never_blocks :
  forall nc nx ny (E S : bdd) (holds goals : list bdd) (moore plus_one : bool) fuel G c x yb j,
  NV nc nx ny <= fuel ->
  Forall spred holds -> Forall spred goals ->      (* state predicates *)
  0 < G -> length goals <= G ->                    (* G = 2^width of `_goal` *)
  c < nc -> x < nx -> yb < ny -> j < length goals ->
  let sol := Gr1Gen.solve_streett_game nc nx ny E S holds goals moore plus_one fuel in
  fst (fst sol) (sv c x yb) = true ->               (* a winning valuation *)
  let L := lift nc nx ny G in
  let A := streett_action nc nx ny G (L E) (L S) (map L holds) (map L goals) moore plus_one
             (L (fst (fst sol))) (map (map L) (snd (fst sol))) (map (map (map L)) (snd sol)) in
  exists m', m' < G /\
    if moore
    then exists yb', yb' < ny /\ forall x', x' < nx -> A (ev G c x yb j x' yb' m') = true
    else forall x', x' < nx -> exists yb', yb' < ny /\ A (ev G c x yb j x' yb' m') = true.
Proof.
  intros nc nx ny E S holds goals moore plus_one fuel G c x yb j
         Hf Sh Sg HG HnG Hc Hx Hyb Hj sol Hz L A.
  exact (streett_impl_nonblocking nc nx ny E S holds goals moore plus_one fuel Hf Sh Sg
           G HG HnG c x yb j Hc Hx Hyb Hj Hz).
Qed.

(* the precondition asserted inside the construction's innermost loop
   (`len(xk) == len(holds)`; the translator lists it as a dropped
   precondition) holds for every list the translated solver records *)
Theorem C02_asserted_lengths_hold :
  forall nc nx ny (E S : bdd) (holds goals : list bdd) (moore plus_one : bool) fuel,
  NV nc nx ny <= fuel -> Forall spred holds -> Forall spred goals ->
  forall xjk xk,
  In xjk (snd (Gr1Gen.solve_streett_game nc nx ny E S holds goals moore plus_one fuel)) ->
  In xk xjk -> length xk = length holds.
Proof.
  intros nc nx ny E S holds goals moore plus_one fuel Hf Sh Sg.
  exact (solve_trap_lists_complete nc nx ny E S holds goals moore plus_one fuel Hf Sh Sg).
Qed.

Theorem C02_region_closed :
  forall nc nx ny (E S : bdd) (holds goals : list bdd) (moore plus_one : bool) fuel G v,
  NV nc nx ny <= fuel -> Forall spred holds -> Forall spred goals -> 0 < G ->
  let sol := Gr1Gen.solve_streett_game nc nx ny E S holds goals moore plus_one fuel in
  let L := lift nc nx ny G in
  let A := streett_action nc nx ny G (L E) (L S) (map L holds) (map L goals) moore plus_one
             (L (fst (fst sol))) (map (map L) (snd (fst sol))) (map (map (map L)) (snd sol)) in
  inr nc nx (ny * G) v ->
  A v = true ->           (* an allowed step ... *)
  L E v = true ->         (* ... in which the environment keeps its action *)
  fst (fst sol) (bv G (nextpt v)) = true.   (* ... reaches a winning valuation *)
Proof.
  intros nc nx ny E S holds goals moore plus_one fuel G v Hf Sh Sg HG sol L A.
  exact (streett_impl_closed nc nx ny E S holds goals moore plus_one fuel Hf Sh Sg G HG v).
Qed.

Theorem C02_reachable_states_winning :
  forall nc nx ny (E S : bdd) (holds goals : list bdd) (moore plus_one : bool) fuel G c x ye x' ye',
  NV nc nx ny <= fuel -> Forall spred holds -> Forall spred goals -> 0 < G ->
  c < nc -> x < nx -> ye < ny * G ->
  reach nc nx ny E S holds goals moore plus_one fuel G c x ye x' ye' ->
  fst (fst (Gr1Gen.solve_streett_game nc nx ny E S holds goals moore plus_one fuel))
    (st_of G c x ye) = true ->
  x' < nx /\ ye' < ny * G /\
  fst (fst (Gr1Gen.solve_streett_game nc nx ny E S holds goals moore plus_one fuel))
    (st_of G c x' ye') = true.
Proof.
  intros nc nx ny E S holds goals moore plus_one fuel G c x ye x' ye' Hf Sh Sg HG.
  exact (streett_impl_reachable_winning nc nx ny E S holds goals moore plus_one fuel Hf Sh Sg
           G HG c x ye x' ye').
Qed.

Theorem C02_liveness :
  forall nc nx ny (E S : bdd) (holds goals : list bdd) (moore plus_one : bool) fuel G
         (sigma : nat -> V),
  NV nc nx ny <= fuel -> Forall spred holds -> Forall spred goals -> 0 < G ->
  behaviour nc nx ny E S holds goals moore plus_one fuel G sigma ->
  cnt G (sigma 0) < length goals ->
  (* persistence: some <>[] predicate holds from some point on *)
  (exists P, In P holds /\ exists N, forall i, N <= i -> P (bv G (sigma i)) = true) \/
  (* recurrence: every []<> predicate holds infinitely often *)
  (forall j R, nth_error goals j = Some R ->
     forall N, exists i, N <= i /\ R (bv G (sigma i)) = true).
Proof.
  intros nc nx ny E S holds goals moore plus_one fuel G sigma Hf Sh Sg HG Hb Hc0.
  exact (streett_impl_live nc nx ny E S holds goals moore plus_one fuel Hf Sh Sg G HG sigma Hb Hc0).
Qed.

(* (h) IN GAME TERMS (theories/L4/Plays.v): the synthesized implementation,
   read as a strategy - [StreettWins.impl_strategy ...]: at every step the
   component takes the first step the translated construction's action
   allows, with the goal counter as memory (a function of the history) - is a
   WINNING STRATEGY from every state of the region: it is a valid strategy of
   the mode (values in range; Moore: independent of the next environment
   value) and EVERY play from s consistent with IT keeps the component's
   action as the mode obliges and, if the environment keeps its action
   forever, satisfies persistence or recurrence.  (a)-(g) combined into the
   notion of winning of C01.  The statement NAMES the strategy; the weaker
   "some strategy wins" (which also follows from the exactness of the region,
   C01) is the corollary C02_implementation_wins_the_game_exists.  Depends on
   Classical_Prop.classic. *)
Theorem C02_implementation_wins_the_game :
  forall nc nx ny (E S : bdd) (holds goals : list bdd) (moore plus_one : bool) fuel G c s,
  NV nc nx ny <= fuel -> Forall spred holds -> Forall spred goals ->
  0 < G -> length goals <= G -> 0 < length goals -> c < nc ->
  fst s < nx -> snd s < ny ->
  fst (fst (Gr1Gen.solve_streett_game nc nx ny E S holds goals moore plus_one fuel))
    (stv c s) = true ->
  let f := StreettWins.impl_strategy nc nx ny E S holds goals moore plus_one fuel G c in
  cvalid ny moore f /\
  forall p, inrange nx ny p -> p 0 = s -> cconsistent f p ->
            win_streett c E S holds goals plus_one p.
Proof.
  intros nc nx ny E S holds goals moore plus_one fuel G c s Hf Sh Sg HG HnG Hg Hc H1 H2 Hz f.
  exact (implementation_is_winning_strategy nc nx ny E S holds goals moore plus_one fuel
           Hf Sh Sg G HG HnG Hg c Hc s H1 H2 Hz).
Qed.

Theorem C02_implementation_wins_the_game_exists :
  forall nc nx ny (E S : bdd) (holds goals : list bdd) (moore plus_one : bool) fuel G c s,
  NV nc nx ny <= fuel -> Forall spred holds -> Forall spred goals ->
  0 < G -> length goals <= G -> 0 < length goals -> c < nc ->
  fst s < nx -> snd s < ny ->
  fst (fst (Gr1Gen.solve_streett_game nc nx ny E S holds goals moore plus_one fuel))
    (stv c s) = true ->
  comp_wins nx ny moore (win_streett c E S holds goals plus_one) s.
Proof.
  intros nc nx ny E S holds goals moore plus_one fuel G c s Hf Sh Sg HG HnG Hg Hc.
  exact (implementation_wins nc nx ny E S holds goals moore plus_one fuel Hf Sh Sg G HG HnG Hg
           c Hc s).
Qed.

(* non-vacuity: a game with a non-trivial winning region and two goals *)
Example C02_never_blocks_example :
  let E : bdd := fun v => true in
  let S : bdd := fun v => Nat.leb (vyp v) (vy v + 1) in
  let P : bdd := fun v => Nat.eqb (vy v) 3 in
  let R1 : bdd := fun v => Nat.eqb (vy v) 2 in
  let R2 : bdd := fun v => Nat.eqb (vy v) 0 in
  let sol := Gr1Gen.solve_streett_game 1 2 4 E S [P] [R1; R2] false true 70 in
  map (fun y => fst (fst sol) (sv 0 0 y)) [0; 1; 2; 3] = [true; true; true; true]
  /\ NV 1 2 4 <= 70 /\ Forall spred [P] /\ Forall spred [R1; R2].
Proof.
  vm_compute. repeat split; try (repeat constructor; fail).
  all: repeat constructor; intros v; reflexivity.
Qed.

(* Moore independence for what the construction is really applied to: the
   hypotheses of C02_moore_independent_of_next_env (iterates, goals and
   persistence predicates independent of the next environment values) hold
   for the output of the GENERATED solver on state predicates, lifted to the
   arena with the goal counter - everything the solver records is a state
   predicate (GenProofs/MooreIndepSolver.v) *)
Theorem C02_moore_independent_of_next_env_solver :
  forall nc nx ny (E S : bdd) (holds goals : list bdd) (plus_one : bool) fuel G,
  NV nc nx ny <= fuel -> Forall spred holds -> Forall spred goals ->
  let sol := Gr1Gen.solve_streett_game nc nx ny E S holds goals true plus_one fuel in
  let L := lift nc nx ny G in
  indep (streett_action nc nx ny G (L E) (L S) (map L holds) (map L goals) true plus_one
           (L (fst (fst sol))) (map (map L) (snd (fst sol))) (map (map (map L)) (snd sol))).
Proof.
  intros nc nx ny E S holds goals plus_one fuel G Hf Sh Sg.
  exact (streett_impl_moore_indep nc nx ny E S holds goals plus_one fuel Hf Sh Sg G).
Qed.

Print Assumptions C02_construction_is_translated.
Print Assumptions C02_counter_field_fits.
Print Assumptions C02_asserted_lengths_hold.
Print Assumptions C02_never_blocks.
Print Assumptions C02_region_closed.
Print Assumptions C02_reachable_states_winning.
Print Assumptions C02_liveness.
Print Assumptions C02_implementation_wins_the_game.
Print Assumptions C02_implementation_wins_the_game_exists.
Print Assumptions C02_refines_component_action.
Print Assumptions C02_obligation_at_the_step.
Print Assumptions C02_moore_independent_of_next_env.
Print Assumptions C02_moore_independent_of_next_env_solver.
Print Assumptions C02_counter_in_range.
