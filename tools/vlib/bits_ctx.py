"""Helpers shared by the C18 / C07 checks: real omega contexts, bit-level truth
tables read off the BDDs with dd primitives only (cofactors), and writers of
Gallina literals for the L3 model (coq/theories/L3Context/Ctx.v).

Nothing here calls the omega code under check to *interpret* a BDD: integers
are encoded/decoded by `own_encode` / `own_decode` (plain two's complement
written for the harness), truth tables come from `bdd.let` cofactors.
"""
import itertools
import logging

logging.disable(logging.CRITICAL)

import omega.symbolic.fol as _fol  # noqa: E402
import omega.symbolic.temporal as trl  # noqa: E402

from vlib import coqlit as cl  # noqa: E402


KINDS = ['bool', 'bool', (0, 1), (0, 2), (-1, 1), (-2, -1), (0, 5), (-3, 2),
         (-4, -2), (3, 3), (0, 0), (1, 2), (-1, 0), (-5, -5), (-2, 5), (2, 7)]


def kind_width(k):
    if k == 'bool':
        return 1
    lo, hi = k
    w = max(abs(lo), abs(hi)).bit_length() or 1
    return w + 1 if lo < 0 <= hi else w


def set_backend(ctx, backend):
    if backend == 'autoref':
        import dd.autoref as _bdd
    elif backend == 'cudd':
        import dd.cudd as _bdd
    else:
        raise ValueError(backend)
    ctx.bdd = _bdd.BDD()


def make_context(decl, backend):
    """decl: list of (name, kind) in declaration order."""
    ctx = _fol.Context()
    set_backend(ctx, backend)
    for name, kind in decl:
        ctx.declare(**{name: kind})
    return ctx


def warm_up(aut):
    """Use the context between two declarations (history independence: a
    result must not depend on what was asked before later declarations):
    classification, priming and type-hint queries on a predicate over the
    variables declared so far; results are discarded."""
    import omega.symbolic.prime as prm
    names = [n for n in aut.vars if not n.endswith("'")]
    if not names:
        return
    u = aut.true
    for n in names:
        u &= aut.bdd.var(var_bitnames(n, aut.vars[n])[0])
    for f in (prm.prime, prm.flexible_support, prm.rigid_support,
              prm.vars_in_support, prm.split_support, prm.unprimed_support,
              prm.primed_support):
        try:
            r = f(u, aut)
            if f is prm.prime:
                prm.unprime(r, aut)
        except Exception:
            pass
    for n in names:
        try:
            prm.is_variable(n, aut)
            prm.is_constant(n, aut)
        except Exception:
            pass
    try:
        aut.implies_type_hints(u)
    except Exception:
        pass


def make_automaton(flex, rigid, backend, staged=True):
    """flex, rigid: lists of (name, kind).  staged: the context is used
    (warm_up) between the declarations."""
    aut = trl.Automaton()
    set_backend(aut, backend)
    for name, kind in rigid:
        aut.declare_constants(**{name: kind})
        if staged:
            warm_up(aut)
    for name, kind in flex:
        aut.declare_variables(**{name: kind})
        if staged:
            warm_up(aut)
    return aut


# ---------------------------------------------------------------- bits
def var_bitnames(name, d):
    return [name] if d['type'] == 'bool' else list(d['bitnames'])


def bit_pairs(ctx):
    """Ordered [(bitname, (var, index))] over the table, table order."""
    out = []
    for name, d in ctx.vars.items():
        for i, b in enumerate(var_bitnames(name, d)):
            out.append((b, (name, i)))
    return out


def expected_bitname(name, i):
    if name.endswith("'"):
        return f"{name[:-1]}_{i}'"
    return f'{name}_{i}'


def naming_ok(ctx):
    """The printing of (var, index) pairs as bit names is as expected and
    injective (assumption of the L3 model, checked on every context)."""
    names = []
    for name, d in ctx.vars.items():
        if d['type'] == 'bool':
            names.append(name)
            continue
        for i, b in enumerate(d['bitnames']):
            if b != expected_bitname(name, i):
                return False
            names.append(b)
    if len(set(names)) != len(names):
        return False
    return set(names) == set(ctx.bdd.vars)


# ----------------------------------------------------- truth tables of BDDs
# decision tree over an ordered list of bits:
#   bool | ('n', lo, hi)  split on the current bit | ('s', sub)  bit irrelevant
def _node(lo, hi):
    if lo == hi:
        return lo if isinstance(lo, bool) else ('s', lo)
    return ('n', lo, hi)


def tt_tree(u, bdd, bitnames):
    """Decision tree of u over the ordered bitnames, by dd cofactors."""
    memo = {}

    def rec(v, i):
        if v == bdd.true:
            return True
        if v == bdd.false:
            return False
        if i == len(bitnames):
            raise AssertionError('BDD depends on bits outside the table: '
                                 + str(bdd.support(v)))
        key = (v, i)
        if key in memo:
            return memo[key]
        b = bitnames[i]
        if b in bdd.support(v):
            r = _node(rec(bdd.let({b: False}, v), i + 1),
                      rec(bdd.let({b: True}, v), i + 1))
        else:
            r = rec(v, i + 1)
            r = r if isinstance(r, bool) else ('s', r)
        memo[key] = r
        return r
    return rec(u, 0)


def tree_eval(t, vals):
    """vals: sequence of bools aligned with the bit order."""
    i = 0
    while not isinstance(t, bool):
        if t[0] == 's':
            t = t[1]
        else:
            t = t[2] if vals[i] else t[1]
        i += 1
    return t


def tree_table(t, n):
    """Flat truth table (first bit most significant, False before True)."""
    if isinstance(t, bool):
        return [t] * (2 ** n)
    if t[0] == 's':
        x = tree_table(t[1], n - 1)
        return x + x
    return tree_table(t[1], n - 1) + tree_table(t[2], n - 1)


def table_tree(tab):
    """Inverse of tree_table."""
    if len(tab) == 1:
        return tab[0]
    h = len(tab) // 2
    return _node(table_tree(tab[:h]), table_tree(tab[h:]))


def bdd_of_tree(t, bdd, bitnames, i=0):
    if isinstance(t, bool):
        return bdd.true if t else bdd.false
    if t[0] == 's':
        return bdd_of_tree(t[1], bdd, bitnames, i + 1)
    lo = bdd_of_tree(t[1], bdd, bitnames, i + 1)
    hi = bdd_of_tree(t[2], bdd, bitnames, i + 1)
    return bdd.ite(bdd.var(bitnames[i]), hi, lo)


def random_tree(rng, n, dens, depend=None):
    """Random function of n ordered bits; `depend`: indices it may depend on."""
    dep = set(range(n)) if depend is None else set(depend)

    def rec(i):
        if i == n:
            return rng.random() < dens
        if i not in dep:
            r = rec(i + 1)
            return r if isinstance(r, bool) else ('s', r)
        return _node(rec(i + 1), rec(i + 1))
    return rec(0)


# ------------------------------------------------- own integer encoding
def limits(d):
    """Representable range of a table entry (harness's own arithmetic)."""
    w = d['width']
    if d['signed']:
        return -2 ** (w - 1), 2 ** (w - 1) - 1
    lo, hi = d['dom']
    return (0, 2 ** w - 1) if lo >= 0 else (-2 ** w, -1)


def var_values(d):
    if d['type'] == 'bool':
        return [False, True]
    lo, hi = limits(d)
    return list(range(lo, hi + 1))


def own_encode(d, val):
    """Bits (list of bool, LSB first) storing `val` for entry d."""
    if d['type'] == 'bool':
        return [bool(val)]
    w = d['width']
    return [bool((val >> i) & 1) for i in range(w)]   # Python >> is arithmetic


def own_decode(d, bits):
    if d['type'] == 'bool':
        return bool(bits[0])
    w = d['width']
    u = sum((1 << i) for i, b in enumerate(bits) if b)
    if d['signed']:
        return u - (1 << w) if bits[-1] else u
    lo, hi = d['dom']
    return u if lo >= 0 else u - (1 << w)


def all_fo_assignments(ctx, names):
    doms = [var_values(ctx.vars[n]) for n in names]
    for c in itertools.product(*doms):
        yield dict(zip(names, c))


def bitvals_of(ctx, asg, pairs):
    """Tuple of bools aligned with `pairs` for a TOTAL first-order assignment
    (all variables of the table)."""
    enc = {n: own_encode(ctx.vars[n], v) for n, v in asg.items()}
    return tuple(enc[v][i] for _, (v, i) in pairs)


def fo_truth(ctx, tree, pairs, asg):
    return tree_eval(tree, bitvals_of(ctx, asg, pairs))


# ------------------------------------------------------ Gallina literals
def q(s):
    return '"' + s.replace('"', '""') + '"'


def coq_hint(d):
    lo, hi = d['dom']
    return (f'(mkHint {cl.z(d["width"])} {cl.b(d["signed"])} '
            f'({cl.z(lo)}, {cl.z(hi)}))')


def coq_decl(d):
    return 'DBool' if d['type'] == 'bool' else f'(DInt {coq_hint(d)})'


def coq_tbl(ctx):
    return cl.lst([f'({q(n)}, {coq_decl(d)})' for n, d in ctx.vars.items()])


def coq_bit(p):
    return f'({q(p[0])}, {p[1]}%nat)'


def coq_bits(ps):
    return cl.lst([coq_bit(p) for p in ps])


def coq_tree(t):
    if isinstance(t, bool):
        return 'Leaf true' if t else 'Leaf false'
    if t[0] == 's':
        return f'Skip ({coq_tree(t[1])})'
    return f'Node ({coq_tree(t[1])}) ({coq_tree(t[2])})'


def coq_val(v):
    if isinstance(v, bool):
        return f'(VB {cl.b(v)})'
    return f'(VZ {cl.z(v)})'


def coq_fasgn(d):
    return cl.lst([f'({q(k)}, {coq_val(v)})' for k, v in d.items()])


def coq_idents(xs):
    return cl.lst([q(x) for x in xs])


def coq_ren(d):
    return cl.lst([f'({q(k)}, {q(v)})' for k, v in d.items()])


def coq_cube(c, name2pair):
    return cl.lst([f'({coq_bit(name2pair[k])}, {cl.b(bool(v))})'
                   for k, v in c.items()])


def coq_opt(x, f):
    return 'None' if x is None else f'(Some {f(x)})'


def chunk_groups(defs, terms, max_bytes=40000):
    """Split one instance's terms into several groups (each repeating the
    shared definitions) of bounded text size, so that case files are balanced
    and compiled in parallel."""
    groups, cur, size = [], [], 0
    for t in terms:
        if cur and size + len(t) > max_bytes:
            groups.append((defs, cur))
            cur, size = [], 0
        cur.append(t)
        size += len(t)
    if cur:
        groups.append((defs, cur))
    return groups
