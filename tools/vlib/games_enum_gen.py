"""Regenerate coq/gen/GamesEnumGen.v from omega/games/enumeration.py (tie T
for C12; translator tools/py2coq_games_enum.py).

Translated on every run: action_to_steps, _action_to_steps,
_select_candidate_nodes, _primed_vars_per_quantifier, _init_search,
_forall_init, _exist_init, _forall_exist_init, _exist_forall_init, _find_node,
_add_new_node, _node_tuple.  coq/GenProofs/GamesEnumBridge.v proves, on every
run, that each generated function equals the function of the code-level model
coq/theories/L4Enum/EnumCode.v, whose simulation by the abstract worklist
model (L4Enum/EnumCodeProofs.v) carries C12's theorems over to the generated
definitions.  Not translated (stays tie H): _add_to_visited (a formula built
as a string and parsed by aut.add_expr), enumerate_state_machine (not used by
action_to_steps).
"""
import os
import sys

sys.path.insert(0, os.path.join(os.path.dirname(__file__), '..'))
import py2coq  # noqa: E402
import py2coq_games_enum  # noqa: E402
from vlib.core import Broken, REPO  # noqa: E402

SRC = py2coq_games_enum.SRC
FUNCTIONS = [s[0] for s in py2coq_games_enum.SIGNATURES]
NOT_TRANSLATED = list(py2coq_games_enum.NOT_TRANSLATED) + [
    'enumerate_state_machine']
GENERATED = 'gen/GamesEnumGen.v'


def games_enum_text():
    """(text of gen/GamesEnumGen.v, translator notes)."""
    return py2coq_games_enum.file_text(os.path.join(REPO, SRC))


def ensure_games_enum(ctx):
    try:
        t, notes = games_enum_text()
    except py2coq.Refuse as e:
        raise Broken('translator', f'{SRC}: {e}')
    except (SyntaxError, OSError) as e:
        raise Broken('translator', f'{SRC}: {e}')
    ctx.write_gen(GENERATED, t)
    return notes


if __name__ == '__main__':
    print(games_enum_text()[0])
