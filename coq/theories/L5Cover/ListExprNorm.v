(* L5Cover / ListExprNorm: formula trees up to the association of /\ and \/.

   The printed text groups the conjuncts of a box three to a line and lists
   the lines as a junction list; the model (ListExpr.v) writes one flat
   conjunction.  [norm] re-associates every maximal /\-chain and \/-chain to
   the right (nothing else: no unit, idempotence or commutativity law), so
   that two trees with the same normal form list the same conjuncts /
   disjuncts in the same order.  Used by GenProofs/ListExprBridge.v (tie T
   for C08).  New file: the definitions of ListExpr.v are unchanged. *)
From Coq Require Import List ZArith Bool Lia Arith Permutation.
Import ListNotations.
From Omega Require Import L5Cover.Boxes L5Cover.ListExpr L5Cover.ListExprProofs.
Open Scope Z_scope.

Fixpoint norm (e : expr) : expr :=
  match e with
  | EAnd a b => conj (conjuncts (norm a) ++ conjuncts (norm b))
  | EOr a b => disj (disjuncts (norm a) ++ disjuncts (norm b))
  | ENot a => ENot (norm a)
  | EImp a b => EImp (norm a) (norm b)
  | EIff a b => EIff (norm a) (norm b)
  | _ => e
  end.

Definition nand (e : expr) : Prop :=
  match e with EAnd _ _ => False | _ => True end.
Definition nor (e : expr) : Prop :=
  match e with EOr _ _ => False | _ => True end.

(* ------------------------------------------------------------ semantics *)
Lemma eval_conjuncts p e : forallb (eval p) (conjuncts e) = eval p e.
Proof.
  induction e; cbn [conjuncts forallb]; try apply andb_true_r.
  rewrite forallb_app, IHe1, IHe2. cbn. destruct (eval p e1); reflexivity.
Qed.

Lemma eval_disjuncts p e : existsb (eval p) (disjuncts e) = eval p e.
Proof.
  induction e; cbn [disjuncts existsb]; try apply orb_false_r.
  rewrite existsb_app, IHe1, IHe2. cbn. destruct (eval p e1); reflexivity.
Qed.

Theorem eval_norm p e : eval p (norm e) = eval p e.
Proof.
  induction e; cbn [norm]; try reflexivity.
  - cbn. rewrite IHe. reflexivity.
  - rewrite eval_conj, forallb_app, !eval_conjuncts, IHe1, IHe2. cbn.
    destruct (eval p e1); reflexivity.
  - rewrite eval_disj, existsb_app, !eval_disjuncts, IHe1, IHe2. cbn.
    destruct (eval p e1); reflexivity.
  - cbn. rewrite IHe1, IHe2. reflexivity.
  - cbn. rewrite IHe1, IHe2. reflexivity.
Qed.

(* ------------------------------------------------------------ structure *)
Lemma conjuncts_nand e : Forall nand (conjuncts e).
Proof.
  induction e; cbn [conjuncts]; try (constructor; [exact I|constructor]).
  apply Forall_app. split; assumption.
Qed.
Lemma disjuncts_nor e : Forall nor (disjuncts e).
Proof.
  induction e; cbn [disjuncts]; try (constructor; [exact I|constructor]).
  apply Forall_app. split; assumption.
Qed.
Lemma conjuncts_nonempty e : conjuncts e <> [].
Proof.
  induction e; cbn [conjuncts]; try discriminate.
  intros H. apply app_eq_nil in H. tauto.
Qed.
Lemma disjuncts_nonempty e : disjuncts e <> [].
Proof.
  induction e; cbn [disjuncts]; try discriminate.
  intros H. apply app_eq_nil in H. tauto.
Qed.

Lemma conjuncts_conj l : Forall nand l -> l <> [] -> conjuncts (conj l) = l.
Proof.
  induction l as [|e l IH]; [congruence|]. intros HF _.
  inversion HF as [|? ? He Hl]; subst.
  destruct l as [|e' l'].
  - cbn [conj]. destruct e; cbn in He |- *; try reflexivity. contradiction.
  - change (conj (e :: e' :: l')) with (EAnd e (conj (e' :: l'))).
    cbn [conjuncts]. rewrite IH by (assumption || discriminate).
    destruct e; cbn in He |- *; try reflexivity. contradiction.
Qed.
Lemma disjuncts_disj l : Forall nor l -> l <> [] -> disjuncts (disj l) = l.
Proof.
  induction l as [|e l IH]; [congruence|]. intros HF _.
  inversion HF as [|? ? He Hl]; subst.
  destruct l as [|e' l'].
  - cbn [disj]. destruct e; cbn in He |- *; try reflexivity. contradiction.
  - change (disj (e :: e' :: l')) with (EOr e (disj (e' :: l'))).
    cbn [disjuncts]. rewrite IH by (assumption || discriminate).
    destruct e; cbn in He |- *; try reflexivity. contradiction.
Qed.

(* a conjunction of two or more is an EAnd, hence no EOr (and conversely) *)
Lemma conj_two_nor a b l : nor (conj (a :: b :: l)).
Proof. exact I. Qed.
Lemma disj_two_nand a b l : nand (disj (a :: b :: l)).
Proof. exact I. Qed.

(* re-assembling the conjuncts of a normal form gives it back *)
Lemma conj_conjuncts_norm e : conj (conjuncts (norm e)) = norm e.
Proof.
  destruct e; try reflexivity.
  - cbn [norm]. rewrite conjuncts_conj; [reflexivity| |].
    + apply Forall_app. split; apply conjuncts_nand.
    + intros H. apply app_eq_nil in H. destruct H as [H _].
      exact (conjuncts_nonempty _ H).
  - cbn [norm].
    pose proof (disjuncts_nonempty (norm e1)) as H1.
    pose proof (disjuncts_nonempty (norm e2)) as H2.
    destruct (disjuncts (norm e1)) as [|x xs]; [congruence|].
    destruct (disjuncts (norm e2)) as [|y ys]; [congruence|].
    destruct xs; reflexivity.
Qed.
Lemma disj_disjuncts_norm e : disj (disjuncts (norm e)) = norm e.
Proof.
  destruct e; try reflexivity.
  - cbn [norm].
    pose proof (conjuncts_nonempty (norm e1)) as H1.
    pose proof (conjuncts_nonempty (norm e2)) as H2.
    destruct (conjuncts (norm e1)) as [|x xs]; [congruence|].
    destruct (conjuncts (norm e2)) as [|y ys]; [congruence|].
    destruct xs; reflexivity.
  - cbn [norm]. rewrite disjuncts_disj; [reflexivity| |].
    + apply Forall_app. split; apply disjuncts_nor.
    + intros H. apply app_eq_nil in H. destruct H as [H _].
      exact (disjuncts_nonempty _ H).
Qed.

Definition cparts (l : list expr) : list expr :=
  flat_map (fun e => conjuncts (norm e)) l.
Definition dparts (l : list expr) : list expr :=
  flat_map (fun e => disjuncts (norm e)) l.

Lemma cparts_nand l : Forall nand (cparts l).
Proof.
  induction l; cbn; [constructor|]. apply Forall_app.
  split; [apply conjuncts_nand | assumption].
Qed.
Lemma dparts_nor l : Forall nor (dparts l).
Proof.
  induction l; cbn; [constructor|]. apply Forall_app.
  split; [apply disjuncts_nor | assumption].
Qed.
Lemma cparts_nonempty l : l <> [] -> cparts l <> [].
Proof.
  destruct l; [congruence|]. intros _ H. cbn in H.
  apply app_eq_nil in H. destruct H as [H _]. exact (conjuncts_nonempty _ H).
Qed.
Lemma dparts_nonempty l : l <> [] -> dparts l <> [].
Proof.
  destruct l; [congruence|]. intros _ H. cbn in H.
  apply app_eq_nil in H. destruct H as [H _]. exact (disjuncts_nonempty _ H).
Qed.
Lemma cparts_app l1 l2 : cparts (l1 ++ l2) = cparts l1 ++ cparts l2.
Proof. apply flat_map_app. Qed.
Lemma dparts_app l1 l2 : dparts (l1 ++ l2) = dparts l1 ++ dparts l2.
Proof. apply flat_map_app. Qed.

(* the normal form of a conjunction lists the conjuncts of the normal forms
   of its members *)
Theorem norm_conj l : norm (conj l) = conj (cparts l).
Proof.
  induction l as [|e l IH]; [reflexivity|].
  destruct l as [|e' l'].
  - cbn [conj cparts flat_map]. rewrite app_nil_r.
    symmetry. apply conj_conjuncts_norm.
  - change (conj (e :: e' :: l')) with (EAnd e (conj (e' :: l'))).
    cbn [norm]. rewrite IH.
    rewrite (conjuncts_conj (cparts (e' :: l')));
      [reflexivity | apply cparts_nand | apply cparts_nonempty; discriminate].
Qed.
Theorem norm_disj l : norm (disj l) = disj (dparts l).
Proof.
  induction l as [|e l IH]; [reflexivity|].
  destruct l as [|e' l'].
  - cbn [disj dparts flat_map]. rewrite app_nil_r.
    symmetry. apply disj_disjuncts_norm.
  - change (disj (e :: e' :: l')) with (EOr e (disj (e' :: l'))).
    cbn [norm]. rewrite IH.
    rewrite (disjuncts_disj (dparts (e' :: l')));
      [reflexivity | apply dparts_nor | apply dparts_nonempty; discriminate].
Qed.

(* congruence: member-wise equal normal forms *)
Lemma cparts_ext l l' :
  Forall2 (fun x y => norm x = norm y) l l' -> cparts l = cparts l'.
Proof. unfold cparts. induction 1; cbn; congruence. Qed.
Lemma dparts_ext l l' :
  Forall2 (fun x y => norm x = norm y) l l' -> dparts l = dparts l'.
Proof. unfold dparts. induction 1; cbn; congruence. Qed.
Theorem norm_conj_ext l l' :
  Forall2 (fun x y => norm x = norm y) l l' -> norm (conj l) = norm (conj l').
Proof. intros H. rewrite !norm_conj, (cparts_ext _ _ H). reflexivity. Qed.
Theorem norm_disj_ext l l' :
  Forall2 (fun x y => norm x = norm y) l l' -> norm (disj l) = norm (disj l').
Proof. intros H. rewrite !norm_disj, (dparts_ext _ _ H). reflexivity. Qed.

(* grouping the members of a conjunction into non-empty sub-conjunctions
   (the "three conjuncts per line" layout) does not change the normal form *)
Lemma cparts_conj t : t <> [] -> cparts [conj t] = cparts t.
Proof.
  intros Ht. cbn [cparts flat_map]. rewrite app_nil_r, norm_conj.
  apply conjuncts_conj; [apply cparts_nand | apply cparts_nonempty, Ht].
Qed.
Theorem norm_conj_groups (G : list (list expr)) :
  Forall (fun t => t <> []) G ->
  norm (conj (map conj G)) = norm (conj (concat G)).
Proof.
  intros HG. rewrite !norm_conj. f_equal.
  induction HG as [|t G Ht _ IH]; [reflexivity|].
  cbn [map concat]. rewrite cparts_app, <- IH.
  change (conj t :: map conj G) with ([conj t] ++ map conj G).
  rewrite cparts_app, (cparts_conj t Ht). reflexivity.
Qed.

Lemma norm_idem e : norm (norm e) = norm e.
Proof.
  induction e; cbn [norm]; try reflexivity; try congruence.
  - rewrite norm_conj. f_equal. unfold cparts. rewrite flat_map_app.
    f_equal.
    + rewrite <- (conj_conjuncts_norm e1) in IHe1 at 1.
      rewrite norm_conj in IHe1.
      apply (f_equal conjuncts) in IHe1.
      rewrite conjuncts_conj in IHe1;
        [exact IHe1 | apply cparts_nand
         | apply cparts_nonempty, conjuncts_nonempty].
    + rewrite <- (conj_conjuncts_norm e2) in IHe2 at 1.
      rewrite norm_conj in IHe2.
      apply (f_equal conjuncts) in IHe2.
      rewrite conjuncts_conj in IHe2;
        [exact IHe2 | apply cparts_nand
         | apply cparts_nonempty, conjuncts_nonempty].
  - rewrite norm_disj. f_equal. unfold dparts. rewrite flat_map_app.
    f_equal.
    + rewrite <- (disj_disjuncts_norm e1) in IHe1 at 1.
      rewrite norm_disj in IHe1.
      apply (f_equal disjuncts) in IHe1.
      rewrite disjuncts_disj in IHe1;
        [exact IHe1 | apply dparts_nor
         | apply dparts_nonempty, disjuncts_nonempty].
    + rewrite <- (disj_disjuncts_norm e2) in IHe2 at 1.
      rewrite norm_disj in IHe2.
      apply (f_equal disjuncts) in IHe2.
      rewrite disjuncts_disj in IHe2;
        [exact IHe2 | apply dparts_nor
         | apply dparts_nonempty, disjuncts_nonempty].
Qed.

(* trees with equal normal forms denote the same predicate *)
Corollary norm_eq_eval e1 e2 p : norm e1 = norm e2 -> eval p e1 = eval p e2.
Proof.
  intros H. rewrite <- (eval_norm p e1), <- (eval_norm p e2), H. reflexivity.
Qed.

(* ------------------------------------------ one variable of box_atoms *)
(* the conjuncts printed for variable i with interval ab and type hint dom *)
Definition atoms1 (use_dom : bool) (i : nat) (ab dom : ival)
  : option (list expr) :=
  if snd ab <? fst ab then None
  else if use_dom then
    match clip_subrange ab dom with
    | None => None
    | Some None => Some []
    | Some (Some ab') => Some [atom i ab']
    end
  else Some [atom i ab].

Lemma box_atoms_cons use_dom i dom doms ab b :
  box_atoms use_dom i (dom :: doms) (ab :: b) =
  match atoms1 use_dom i ab dom, box_atoms use_dom (S i) doms b with
  | Some l, Some r => Some (l ++ r)
  | _, _ => None
  end.
Proof.
  cbn [box_atoms]. unfold atoms1.
  destruct (snd ab <? fst ab).
  - reflexivity.
  - destruct (box_atoms use_dom (S i) doms b) as [rest|].
    + destruct use_dom; [|reflexivity].
      destruct (clip_subrange ab dom) as [[ab'|]|]; reflexivity.
    + destruct use_dom; [|reflexivity].
      destruct (clip_subrange ab dom) as [[ab'|]|]; reflexivity.
Qed.

(* every printed conjunct of a box is a comparison, not a conjunction *)
Lemma atom_norm i ab : norm (atom i ab) = atom i ab.
Proof. unfold atom. destruct (fst ab =? snd ab); reflexivity. Qed.
Lemma atom_nand i ab : nand (atom i ab).
Proof. unfold atom. destruct (fst ab =? snd ab); exact I. Qed.
