import sys
from vlib import core
sys.exit(core.main(sys.argv[1:]))
