(* Bridge for C06 (tie T), second part: the flatten methods of
   bitvector.Nodes that thread the memory buffer (Arithmetic, Comparator,
   the ite branch of Operator, the priming branch of Unary), translated on
   every run into [g_flatten] of coq/gen/BitvectorGen.v, compute the
   threading model of theories/L2Compile/Thread.v on every arithmetic-scope
   tree.  The hypothesis [leaves_ok] says what flatten returns on the LEAVES
   of the tree: bits, memory untouched.  It is discharged for numerals and
   for variables without a definition by the translated Num / Var .flatten
   (BitvectorLeafBridge.v, [leaf_num], [leaf_var]); for a node of an
   untranslated class (Binary, the opaque branches) it is a hypothesis on
   the Section variable [ext_flatten] ([leaves_ext]). *)
From Coq Require Import String ZArith List Bool Lia.
From Omega Require Import L1Circuits.Circuits L1Circuits.Deep L1Circuits.PyBits
  L1Circuits.PyBitsProofs L1Circuits.PyStr L2Compile.Expr L2Compile.Emit L2Compile.Thread
  L2Compile.Leaf.
From OmegaGen Require Import BitvectorGen.
From OmegaGP Require Import BitvectorBridge BitvectorLeafBridge.
Import ListNotations.
Open Scope Z_scope.

Section FlatBridge.
Variable defs : Type.
Variable defs_mem : defs -> string -> bool.
Variable var_id : string -> nat.
Variable ext_flatten def_flatten : pnode -> option (list bx) -> kwargs defs
                                   -> option (fres * option (list bx)).

Notation flat := (g_flatten defs defs_mem var_id ext_flatten def_flatten).
Notation kwargs := (kwargs defs).

(* classes whose flatten is not translated *)
Definition is_ext (u : pnode) : bool :=
  match u with
  | PNode cls _ _ =>
      negb (existsb (String.eqb cls)
              ["Arithmetic"%string; "Comparator"%string; "Operator"%string; "Unary"%string;
               "Binary"%string; "Var"%string; "Num"%string; "Bool"%string])
  end.

Fixpoint leaves_ok (e : anode) (kw : kwargs) : Prop :=
  match e with
  | ALeaf u bits =>
      forall fuel mem r st, flat fuel u (Some mem) kw = Some (r, st) ->
        r = RBits bits /\ st = Some mem
  | APrime op a =>
      (op = "X"%string \/ op = "'"%string) /\ leaves_ok a (kw_set_prime kw)
  | AArith o op a b =>
      aop_of_string op = Some o /\ leaves_ok a kw /\ leaves_ok b kw
  | AIte g gb a b =>
      (forall fuel r st, flat fuel g None kw = Some (r, st) -> r = RStr gb) /\
      leaves_ok a kw /\ leaves_ok b kw
  end.

Ltac eval_strings_in H :=
  repeat match type of H with context [String.eqb ?a ?b] =>
    let v := eval vm_compute in (String.eqb a b) in
    match v with
    | true => change (String.eqb a b) with true in H
    | false => change (String.eqb a b) with false in H
    end end.

Lemma flat_ext : forall fuel u mem kw, is_ext u = true ->
  flat (S fuel) u mem kw = ext_flatten u mem kw.
Proof.
  intros fuel [cls op args] mem kw H. cbn [is_ext existsb] in H.
  apply negb_true_iff in H. repeat (apply orb_false_elim in H; destruct H as [? H]).
  cbn [g_flatten].
  repeat match goal with E : String.eqb cls _ = false |- _ => rewrite E; clear E end.
  reflexivity.
Qed.

Lemma aop_spellings : forall op o, aop_of_string op = Some o ->
  op = "+"%string \/ op = "-"%string \/ op = "*"%string \/ op = "/"%string \/ op = "%"%string.
Proof.
  intros op o H. unfold aop_of_string in H.
  repeat match type of H with (if String.eqb ?a ?b then _ else _) = _ =>
    destruct (String.eqb_spec a b); [tauto|] end. discriminate.
Qed.

Theorem flatten_is_threading_model : forall e fuel kw mem r st,
  leaves_ok e kw ->
  flat fuel (node_of e) (Some mem) kw = Some (r, st) ->
  r = RBits (fst (d_aflat e mem)) /\ st = Some (snd (d_aflat e mem)).
Proof.
  induction e as [u bits|op a IH|o op a IHa b IHb|g gb a IHa b IHb];
    intros fuel kw mem r st L H; (destruct fuel as [|fuel]; [discriminate|]); cbn [node_of] in H.
  - exact (L _ _ _ _ H).
  - destruct L as [Hop L]. cbn [g_flatten] in H. eval_strings_in H. cbv beta iota in H.
    assert (T : (String.eqb op "X" || String.eqb op "'")%bool = true)
      by (destruct Hop as [-> | ->]; reflexivity).
    rewrite T in H. cbv zeta in H. cbn [py_index] in H.
    change (py_index [node_of a] 0) with (Some (node_of a)) in H. cbv beta iota in H.
    destruct (flat fuel (node_of a) (Some mem) (kw_set_prime kw)) as [[r1 st1]|] eqn:E; [|discriminate].
    injection H as <- <-. cbn [d_aflat]. eapply IH; eassumption.
  - destruct L as (Ho & La & Lb). cbn [g_flatten] in H. eval_strings_in H. cbv beta iota in H.
    assert (T : String.eqb op "<<>>" = false).
    { destruct (aop_spellings _ _ Ho) as [-> | [-> | [-> | [-> | ->]]]]; reflexivity. }
    rewrite T in H.
    change (py_index [node_of a; node_of b] 0) with (Some (node_of a)) in H.
    change (py_index [node_of a; node_of b] 1) with (Some (node_of b)) in H.
    cbv beta iota zeta in H.
    destruct (flat fuel (node_of a) (Some mem) kw) as [[r1 st1]|] eqn:E1; [|discriminate].
    destruct (IHa _ _ _ _ _ La E1) as [-> ->]. cbv beta iota zeta in H.
    destruct (flat fuel (node_of b) (Some (snd (d_aflat a mem))) kw) as [[r2 st2]|] eqn:E2; [|discriminate].
    destruct (IHb _ _ _ _ _ Lb E2) as [-> ->]. cbv beta iota zeta in H.
    minv H. injection H as <- <-.
    match goal with E : g_flatten_arithmetic _ _ _ _ _ = Some _ |- _ =>
      apply g_flatten_arithmetic_ok in E; destruct E as (o' & Ho' & E) end.
    assert (o' = o) by congruence. subst o'. injection E as -> ->.
    cbn [d_aflat]. destruct (d_aflat a mem) as [p m1]. cbn [fst snd].
    destruct (d_aflat b m1) as [q m2]. cbn [fst snd].
    destruct (d_flatten_arithmetic o p q (length m2)) as [rr cells]. auto.
  - destruct L as (Lg & La & Lb). cbn [g_flatten] in H. cbn [existsb] in H. eval_strings_in H.
    cbn [orb negb] in H. cbv beta iota in H.
    change (py_index [g; node_of a; node_of b] 0) with (Some g) in H.
    change (py_index [g; node_of a; node_of b] 1) with (Some (node_of a)) in H.
    change (py_index [g; node_of a; node_of b] 2) with (Some (node_of b)) in H.
    cbv beta iota zeta in H.
    destruct (flat fuel g None kw) as [[rg stg]|] eqn:Eg; [|discriminate].
    rewrite (Lg _ _ _ Eg) in H. cbv beta iota zeta in H.
    destruct (flat fuel (node_of a) (Some mem) kw) as [[r1 st1]|] eqn:E1; [|discriminate].
    destruct (IHa _ _ _ _ _ La E1) as [-> ->]. cbv beta iota zeta in H.
    destruct (flat fuel (node_of b) (Some (snd (d_aflat a mem))) kw) as [[r2 st2]|] eqn:E2; [|discriminate].
    destruct (IHb _ _ _ _ _ Lb E2) as [-> ->]. cbv beta iota zeta in H.
    minv H. injection H as <- <-.
    match goal with E : g_equalize_width _ _ _ = Some _ |- _ =>
      apply g_equalize_width_ok in E; destruct E as [E _] end.
    match goal with E : g_ite_function _ _ _ _ = Some _ |- _ =>
      apply g_ite_function_ok in E; destruct E as [E _] end.
    change (nz 0) with 0%nat in *. unfold nz in *. rewrite py_len_to_nat in *.
    cbn [d_aflat]. destruct (d_aflat a mem) as [y m1]. cbn [fst snd] in *.
    destruct (d_aflat b m1) as [z m2]. cbn [fst snd] in *.
    match goal with E : _ = d_equalize_width _ _ _ |- _ => rewrite <- E end.
    match goal with E : _ = d_ite_function _ _ _ _ |- _ => rewrite <- E end. auto.
Qed.

(* Comparator.flatten on two arithmetic operands *)
Theorem comparator_flatten_is_model : forall op a b fuel kw r st,
  leaves_ok a kw -> leaves_ok b kw ->
  flat fuel (PNode "Comparator" op [node_of a; node_of b]) None kw = Some (r, st) ->
  exists o, cmp_of_string op = Some o /\
    r = RBuf (FBuf (py_len (d_cmp_flat o a b)) (d_cmp_flat o a b)) /\ st = None.
Proof.
  intros op a b fuel kw r st La Lb H. destruct fuel as [|fuel]; [discriminate|].
  cbn [g_flatten] in H. eval_strings_in H. cbv beta iota in H.
  change (py_index [node_of a; node_of b] 0) with (Some (node_of a)) in H.
  change (py_index [node_of a; node_of b] 1) with (Some (node_of b)) in H.
  cbv beta iota zeta in H.
  destruct (flat fuel (node_of a) (Some []) kw) as [[r1 st1]|] eqn:E1; [|discriminate].
  destruct (flatten_is_threading_model _ _ _ _ _ _ La E1) as [-> ->]. cbv beta iota zeta in H.
  destruct (flat fuel (node_of b) (Some (snd (d_aflat a []))) kw) as [[r2 st2]|] eqn:E2; [|discriminate].
  destruct (flatten_is_threading_model _ _ _ _ _ _ Lb E2) as [-> ->]. cbv beta iota zeta in H.
  cbn [is_bits andb] in H. cbv beta iota in H. minv H. injection H as <- <-.
  match goal with E : g_flatten_comparator _ _ _ _ = Some _ |- _ =>
    apply g_flatten_comparator_ok in E; destruct E as (o & Ho & E) end.
  injection E as -> _. exists o. split; [exact Ho|]. unfold d_cmp_flat.
  destruct (d_aflat a []) as [p m1]. cbn [fst snd]. destruct (d_aflat b m1) as [q m2]. auto.
Qed.

(* ---- the leaf hypothesis, discharged *)
(* a node of an untranslated class *)
Lemma leaf_ext : forall u bits kw, is_ext u = true ->
  (forall mem, ext_flatten u (Some mem) kw = Some (RBits bits, Some mem)) ->
  leaves_ok (ALeaf u bits) kw.
Proof.
  intros u bits kw X L fuel mem r st H. destruct fuel as [|fuel]; [discriminate|].
  rewrite flat_ext, L in H by exact X. injection H as <- <-. auto.
Qed.

(* a numeral: translated Num.flatten + int_to_twos_complement *)
Lemma leaf_num : forall v z kw, py_int v = Some z ->
  leaves_ok (ALeaf (PNode "Num" v []) (num_bits z)) kw.
Proof.
  intros v z kw Hz fuel mem r st H. destruct fuel as [|fuel]; [discriminate|].
  apply num_flatten_is_model in H. destruct H as (z' & Hz' & -> & ->).
  rewrite Hz in Hz'. injection Hz' as <-. auto.
Qed.

(* a variable without a definition: translated Var.flatten,
   var_to_twos_complement, _append_sign_bit, _is_bool_var *)
Lemma leaf_var : forall name t bits kw, k_t kw = Some t ->
  nodef defs defs_mem kw name = true ->
  d_var_flatten var_id t name (py_truth (k_prime kw)) = Some (RBits bits) ->
  leaves_ok (ALeaf (PNode "Var" name []) bits) kw.
Proof.
  intros name t bits kw Ht Hd Hv fuel mem r st H. destruct fuel as [|fuel]; [discriminate|].
  rewrite (var_flatten_is_model defs defs_mem var_id ext_flatten def_flatten
             fuel name (Some mem) kw t Ht Hd), Hv in H.
  injection H as <- <-. auto.
Qed.

(* a Boolean variable as the guard of an ite *)
Lemma guard_var : forall name t gb kw fuel r st, k_t kw = Some t ->
  nodef defs defs_mem kw name = true ->
  d_var_flatten var_id t name (py_truth (k_prime kw)) = Some (RStr gb) ->
  flat fuel (PNode "Var" name []) None kw = Some (r, st) -> r = RStr gb.
Proof.
  intros name t gb kw fuel r st Ht Hd Hv H. destruct fuel as [|fuel]; [discriminate|].
  rewrite (var_flatten_is_model defs defs_mem var_id ext_flatten def_flatten
             fuel name None kw t Ht Hd), Hv in H.
  now injection H as <- _.
Qed.

(* an ite in arithmetic scope whose guard is a declared Boolean variable *)
Lemma leaf_ite_guard : forall name t gb a b kw, k_t kw = Some t ->
  nodef defs defs_mem kw name = true ->
  d_var_flatten var_id t name (py_truth (k_prime kw)) = Some (RStr gb) ->
  leaves_ok a kw -> leaves_ok b kw ->
  leaves_ok (AIte (PNode "Var" name []) gb a b) kw.
Proof.
  intros name t gb a b kw Ht Hd Hv La Lb. cbn [leaves_ok]. repeat split; auto.
  intros fuel r st H. exact (guard_var name t gb kw fuel r st Ht Hd Hv H).
Qed.
End FlatBridge.
