(* L5Cover / MinCoverFull: the model of cover.minimize (as repaired by
   fixes/F13.patch and fixes/F16.patch) returns a MINIMUM cover, for every
   instance and every pick function.

   Structure:
   - CyclicCoreOpt.cyclic_core_opt: the cyclic-core reduction does not lose
     optimal covers; MinCoverProofs.cyclic_core_sound: a cover of the core
     plus the essential elements covers X;
   - BoundsProofs.indep_size_lower_bound: the independent-set bound is valid;
   - [traverse_inv]: the invariants of the branch and bound
       (a) the returned lower bound is valid,
       (b) a returned cover costs at most the new upper bound,
       (c) the upper bound does not increase,
       (d) the new upper bound is at most path cost + any cover of the node
           (the exploration guarantee: pruning loses nothing),
       (e) if nothing is returned the upper bound is unchanged;
   - [minimize_xy_min], [minimize_min]. *)
From Coq Require Import List ZArith Bool Lia Arith.
Import ListNotations.
From Omega Require Import L5Cover.Boxes L5Cover.BoxesProofs L5Cover.MinCover
  L5Cover.MinCoverProofs L5Cover.BoundsProofs L5Cover.CyclicCoreOpt.
Open Scope Z_scope.

Section BB.
Variable rs : ranges.
Variable pick : list box -> option box.
Hypothesis pick_ok : forall s b, pick s = Some b -> In b s.

(* a list whose elements lie below elements of Y can be replaced, element by
   element, by elements of Y *)
Lemma choose_above C Y :
  sub C Y ->
  exists C', incl C' Y /\ length C' = length C /\
             forall c, In c C -> exists c', In c' C' /\ box_le c c'.
Proof.
  induction C as [|c C IH]; intros H.
  - exists []. split; [apply incl_nil_l|]. split; [reflexivity|]. intros c [].
  - destruct IH as [C' [A [B D]]]; [intros z Hz; apply H; right; exact Hz|].
    destruct (H c (or_introl eq_refl)) as [y [Hy Hle]].
    exists (y :: C'). split; [|split].
    + intros z [<-|Hz]; [exact Hy | apply A, Hz].
    + cbn. rewrite B. reflexivity.
    + intros z [<-|Hz].
      * exists y. split; [left; reflexivity | exact Hle].
      * destruct (D z Hz) as [c' [Hc' Hle']]. exists c'. split; [right; exact Hc' | exact Hle'].
Qed.

Lemma lift_cover C X Y :
  sub C Y -> cov C X -> exists C', incl C' Y /\ cov C' X /\ length C' = length C.
Proof.
  intros HS Hcov. destruct (choose_above C Y HS) as [C' [A [B D]]].
  exists C'. split; [exact A|]. split; [|exact B].
  intros x Hx. destruct (Hcov x Hx) as [c [Hc Hle]]. destruct (D c Hc) as [c' [Hc' Hle']].
  exists c'. split; [exact Hc' | apply box_le_trans with c; assumption].
Qed.

Lemma indep_size_nil fuel Y : indep_size pick fuel [] Y = O.
Proof. destruct fuel; reflexivity. Qed.

(* the invariants of one call of _traverse *)
Definition tr_inv (X Y : list box) (pc ub : nat)
  (res : option (list box) * nat * nat) : Prop :=
  let '(r, lb, ub') := res in
  (forall C, incl C Y -> cov C X -> (lb <= length C)%nat) /\
  (forall Cr, r = Some Cr -> sub Cr Y /\ (pc + length Cr <= ub')%nat) /\
  (ub' <= ub)%nat /\
  (forall C, incl C Y -> cov C X -> (ub' <= pc + length C)%nat) /\
  (r = None -> ub' = ub).

Lemma remove_cover (C Xc : list box) d :
  In d C -> cov C Xc ->
  cov (remove box_eq_dec d C) (filter (fun p => negb (box_leb p d)) Xc).
Proof.
  intros Hd Hcov x Hx. apply filter_In in Hx. destruct Hx as [Hx Hn].
  destruct (Hcov x Hx) as [c [Hc Hle]]. exists c. split; [|exact Hle].
  apply in_in_remove; [|exact Hc]. intros ->.
  apply box_leb_true in Hle. rewrite Hle in Hn. discriminate.
Qed.

Theorem traverse_inv fuel : forall X Y pc ub res,
  traverse rs pick fuel X Y pc ub = Some res ->
  below_top rs X -> above_bot rs Y -> antichain Y ->
  tr_inv X Y pc ub res.
Proof.
  induction fuel as [|n IH]; intros X Y pc ub res H HX HY HA; [discriminate|].
  cbn [traverse] in H.
  destruct (cyclic_core rs X Y) as [[[Xc Yc] E]|] eqn:Ecc; [|discriminate].
  destruct (cyclic_core_opt rs _ _ _ _ _ Ecc HX HY HA)
    as [HXc [HYc [HAc [HSY [HSE Opt]]]]].
  (* validity of the lower bound of this node *)
  assert (LB : forall C, incl C Y -> cov C X ->
            (length E + indep_size pick (S (length Xc)) Xc Yc <= length C)%nat).
  { intros C HC Hcov. destruct (Opt C HC Hcov) as [C' [A [B D]]].
    pose proof (indep_size_lower_bound pick pick_ok (S (length Xc)) Xc Yc C' A B). lia. }
  set (core_lb := indep_size pick (S (length Xc)) Xc Yc) in *.
  destruct Xc as [|x0 Xc'].
  - (* leaf *)
    destruct (ub <=? pc + (length E + core_lb))%nat eqn:Eub.
    + apply Nat.leb_le in Eub. inversion H; subst res. cbn.
      split; [exact LB|]. split; [intros Cr Hr; discriminate|]. split; [lia|].
      split; [|reflexivity]. intros C HC Hcov. specialize (LB C HC Hcov). lia.
    + apply Nat.leb_gt in Eub. inversion H; subst res. cbn.
      assert (Ez : core_lb = O) by (unfold core_lb; apply indep_size_nil).
      split; [exact LB|]. split; [|split; [lia|split]].
      * intros Cr Hr. inversion Hr; subst Cr. split; [exact HSE | lia].
      * intros C HC Hcov. specialize (LB C HC Hcov). lia.
      * intros Hr. discriminate.
  - remember (x0 :: Xc') as Xc eqn:EXc. clear EXc.
    destruct (ub <=? pc + (length E + core_lb))%nat eqn:Eub.
    + (* prune *)
      apply Nat.leb_le in Eub. inversion H; subst res. cbn.
      split; [exact LB|]. split; [intros Cr Hr; discriminate|]. split; [lia|].
      split; [|reflexivity]. intros C HC Hcov. specialize (LB C HC Hcov). lia.
    + apply Nat.leb_gt in Eub.
      destruct (pick Yc) as [d|] eqn:Ed; [|discriminate].
      apply pick_ok in Ed.
      set (Ynew := diff Yc [d]) in *.
      set (Xm := filter (fun p => negb (box_leb p d)) Xc) in *.
      set (pc' := (pc + length E)%nat) in *.
      assert (HYnew_incl : incl Ynew Yc).
      { intros y Hy. apply diff_In in Hy. apply Hy. }
      assert (HXm : below_top rs Xm).
      { intros x Hx. apply filter_In in Hx. apply HXc, Hx. }
      assert (HYn : above_bot rs Ynew) by (apply (above_bot_incl rs Yc); assumption).
      assert (HAn : antichain Ynew) by (apply (antichain_incl Yc); assumption).
      assert (HSn : sub Ynew Y).
      { apply sub_trans with Yc; [apply sub_incl; exact HYnew_incl | exact HSY]. }
      (* a cover of the core without d lies in Ynew *)
      assert (NoD : forall C', incl C' Yc -> ~ In d C' -> incl C' Ynew).
      { intros C' HC' Hn c Hc. apply diff_In. split; [apply HC', Hc|].
        intros [<-|[]]. apply Hn, Hc. }
      assert (RmD : forall C', incl C' Yc -> incl (remove box_eq_dec d C') Ynew).
      { intros C' HC' c Hc. apply in_remove in Hc. destruct Hc as [Hc Hne].
        apply diff_In. split; [apply HC', Hc|]. intros [<-|[]]. apply Hne. reflexivity. }
      assert (CovM : forall C', cov C' Xc -> cov C' Xm).
      { intros C' Hc x Hx. apply filter_In in Hx. apply Hc, Hx. }
      destruct (traverse rs pick n Xm Ynew (S pc') ub) as [[[e0 left_lb] ub1]|] eqn:EL;
        [|discriminate].
      pose proof (IH _ _ _ _ _ EL HXm HYn HAn) as InvL. cbn in InvL.
      destruct InvL as [La [Lb [Lc [Ld Le]]]].
      (* exploration guarantee after the left branch, for covers that use d *)
      assert (LeftD : forall (C C' : list box), incl C' Yc -> cov C' Xc ->
                (length E + length C' <= length C)%nat -> In d C' ->
                (ub1 <= pc + length C)%nat).
      { intros C C' A B D Hd.
        pose proof (Ld (remove box_eq_dec d C') (RmD C' A) (remove_cover C' Xc d Hd B)) as Hub.
        pose proof (remove_length_lt box_eq_dec C' d Hd). unfold pc' in Hub. lia. }
      destruct (ub1 <=? pc' + left_lb)%nat eqn:Epb.
      * (* both branches pruned *)
        apply Nat.leb_le in Epb. inversion H; subst res. cbn.
        split; [exact LB|]. split; [intros Cr Hr; discriminate|]. split; [lia|]. split.
        -- intros C HC Hcov. destruct (Opt C HC Hcov) as [C' [A [B D]]].
           destruct (in_dec box_eq_dec d C') as [Hd|Hd].
           ++ apply (LeftD C C' A B D Hd).
           ++ pose proof (La C' (NoD C' A Hd) (CovM C' B)). unfold pc' in Epb. lia.
        -- intros _. destruct e0 as [c0|]; [|apply Le; reflexivity]. exfalso.
           destruct (Lb c0 eq_refl) as [Hs Hl].
           pose proof (traverse_sound rs pick _ _ _ _ _ _ _ _ EL HXm) as Hc0.
           destruct (lift_cover c0 Xm Ynew Hs Hc0) as [C1 [A1 [B1 D1]]].
           pose proof (La C1 A1 B1). lia.
      * apply Nat.leb_gt in Epb.
        destruct (traverse rs pick n Xc Ynew pc' ub1) as [[[e1 lb1] ub2]|] eqn:ER;
          [|discriminate].
        pose proof (IH _ _ _ _ _ ER HXc HYn HAn) as InvR. cbn in InvR.
        destruct InvR as [Ra [Rb [Rc [Rd Re]]]].
        inversion H; subst res. cbn. clear H.
        split; [exact LB|]. split; [|split; [lia|split]].
        -- (* a returned cover costs at most ub2 *)
           intros Cr Hr. destruct (lt_cost e0 e1) eqn:Elt.
           ++ destruct e0 as [c0|]; [|discriminate]. cbn [option_map] in Hr. inversion Hr; subst Cr.
              destruct (Lb c0 eq_refl) as [Hs Hl]. split.
              ** intros z Hz. apply union_In in Hz. destruct Hz as [[<-|Hz]|Hz].
                 --- apply HSY, Ed.
                 --- apply (sub_trans c0 Ynew Y Hs HSn z Hz).
                 --- apply HSE, Hz.
              ** pose proof (union_length_le (d :: c0) E) as HU. cbn [length] in HU.
                 destruct e1 as [c1|].
                 --- destruct (Rb c1 eq_refl) as [_ Hl1]. cbn in Elt.
                     apply Nat.ltb_lt in Elt. unfold pc' in *. lia.
                 --- rewrite (Re eq_refl). unfold pc' in *. lia.
           ++ destruct e1 as [c1|]; [|discriminate]. cbn [option_map] in Hr. inversion Hr; subst Cr.
              destruct (Rb c1 eq_refl) as [Hs Hl]. split.
              ** intros z Hz. apply union_In in Hz. destruct Hz as [Hz|Hz].
                 --- apply (sub_trans c1 Ynew Y Hs HSn z Hz).
                 --- apply HSE, Hz.
              ** pose proof (union_length_le c1 E) as HU. unfold pc' in *. lia.
        -- (* exploration guarantee *)
           intros C HC Hcov. destruct (Opt C HC Hcov) as [C' [A [B D]]].
           destruct (in_dec box_eq_dec d C') as [Hd|Hd].
           ++ pose proof (LeftD C C' A B D Hd). lia.
           ++ pose proof (Rd C' (NoD C' A Hd) B). unfold pc' in *. lia.
        -- (* nothing returned: both branches returned nothing *)
           intros Hr. destruct (lt_cost e0 e1) eqn:Elt.
           ++ destruct e0 as [c0|]; [cbn in Hr; discriminate | discriminate].
           ++ destruct e1 as [c1|]; [cbn in Hr; discriminate|].
              destruct e0 as [c0|]; [discriminate|].
              rewrite (Re eq_refl). apply Le. reflexivity.
Qed.

Lemma unfloors_length C Y K :
  unfloors pick C Y = Some K -> (length K <= length C)%nat.
Proof.
  revert K. induction C as [|z C IH]; intros K H; cbn [unfloors] in H.
  - inversion H; subst. cbn. lia.
  - destruct (pick (those_over Y z)) as [y|]; [|discriminate].
    destruct (unfloors pick C Y) as [K0|]; [|discriminate].
    inversion H; subst. specialize (IH K0 eq_refl).
    pose proof (union_length_le [y] K0) as HU. cbn [length] in *. lia.
Qed.

(* cover.minimize on a covering problem: no cover of X by elements of Y is
   shorter than the result *)
Theorem minimize_xy_min X Y K :
  minimize_xy rs pick X Y = Some K ->
  below_top rs X -> above_bot rs Y -> antichain Y ->
  forall C, incl C Y -> cov C X -> (length K <= length C)%nat.
Proof.
  unfold minimize_xy. intros H HX HY HA C HC Hcov.
  destruct (some_cover pick _ X Y) as [c0|] eqn:Ec; [|discriminate].
  destruct (traverse rs pick _ X Y 0 (length c0)) as [[[r lb] ub']|] eqn:ET; [|discriminate].
  pose proof (traverse_inv _ _ _ _ _ _ ET HX HY HA) as Inv. cbn in Inv.
  destruct Inv as [_ [Ib [_ [Id Ie]]]]. specialize (Id C HC Hcov).
  destruct r as [Cr|].
  - apply unfloors_length in H. destruct (Ib Cr eq_refl) as [_ Hl]. lia.
  - apply unfloors_length in H. rewrite (Ie eq_refl) in Id. lia.
Qed.
End BB.

(* ------------------------------------------------------------ instances *)
Lemma contains_singleton_le b p : contains b p -> box_le (map (fun x => (x, x)) p) b.
Proof.
  unfold contains, box_le. intros H. induction H as [|i x b p Hi Hc IH]; cbn; constructor;
    [|exact IH].
  unfold ival_le, in_ival in *. cbn. lia.
Qed.

Lemma box_in_above_bot rs b : box_in rs b -> box_le (bot rs) b.
Proof.
  unfold box_in, box_le, bot. intros H. induction H as [|r i rs b Hi Hb IH]; cbn; constructor;
    [|exact IH].
  unfold ival_in, ival_le in *. cbn. lia.
Qed.

Lemma primes_above_bot rs f care : above_bot rs (primes rs f care).
Proof.
  intros y Hy. apply primes_In in Hy. destruct Hy as [[Hin _] _].
  apply box_in_above_bot, Hin.
Qed.

Lemma primes_antichain rs f care : antichain (primes rs f care).
Proof.
  intros a b Ha Hb Hab. apply primes_In in Ha. apply primes_In in Hb.
  destruct Ha as [_ Ha]. destruct Hb as [Hb _]. symmetry. apply Ha; assumption.
Qed.

Lemma embed_below_top rs f : below_top rs (embed rs f).
Proof.
  intros x Hx. apply embed_In in Hx. destruct Hx as [p [Hp [_ ->]]].
  apply singleton_below_top, Hp.
Qed.

Lemma prime_cover_cov rs f care K :
  prime_cover rs f care K -> incl K (primes rs f care) /\ cov K (embed rs f).
Proof.
  intros [HK Hcov]. split.
  - intros b Hb. apply primes_In, HK, Hb.
  - intros x Hx. apply embed_In in Hx. destruct Hx as [p [Hp [Hf ->]]].
    destruct (Hcov p Hp Hf) as [b [Hb Hc]]. exists b. split; [exact Hb|].
    apply contains_singleton_le, Hc.
Qed.

(* C09, all instances, all picks: the model of cover.minimize returns a
   minimum-cardinality cover of f by primes of f \/ ~care *)
Theorem minimize_min rs pick f care K :
  (forall s b, pick s = Some b -> In b s) ->
  minimize rs pick f care = Some K ->
  min_prime_cover rs f care K.
Proof.
  intros Hpick H. destruct (minimize_sound rs pick f care K Hpick H) as [HN HP].
  split; [exact HN|]. split; [exact HP|].
  intros K' HK'. destruct (prime_cover_cov rs f care K' HK') as [A B].
  unfold minimize in H.
  apply (minimize_xy_min rs pick Hpick _ _ _ H (embed_below_top rs f)
           (primes_above_bot rs f care) (primes_antichain rs f care) K' A B).
Qed.
