"""Fail-closed translator (tie T), one level below cover_bbgen.py: the
functions of omega/symbolic/cover.py that cover_bbgen treats as PRIMITIVES

    _cyclic_core_fixpoint, cyclic_core        (model: cc_loop / cyclic_core)
    _independent_set, _lower_bound            (model: indep_size)
    _some_cover, _upper_bound                 (model: some_cover)
    unfloors                                  (model: unfloors)
    _max_transpose                            (model: max_ceilings, max_floors)

are read from the source text of the working tree with `ast` and emitted as
Gallina (coq/gen/CoverCCGen.v) over the set primitives of the hand model
L5Cover/MinCover.v: inter, diff, union, filter, anyb, box_leb, pick,
same_setb, length, maxima, dedup, ceil, floor, embed, primes.
coq/GenProofs/CoverCCBridge.v proves the generated functions equal to the hand
model on every run, so a change of the control structure in /repo (order of
the two _max_transpose calls, a dropped or altered set operation, the loop
test, the `only_size` flag, what is returned) breaks an obligation
independently of the sampled inputs.

What is translated: every statement of the functions above -- `while` loops
become a Fixpoint on a fuel argument (None = out of fuel) whose parameters
are the variables the loop carries, `for dz in fol.pick_iter(S)` becomes a
Fixpoint on the list S, `fol.pick` of an empty set is None.  BDD-level
expressions are typed (set over p / over q, element, predicate, the order
relation p_leq_q, renamings) and mapped to list operations by the fixed
table in `Fn.expr`; anything not in the table raises `Refuse`.

What is table-driven (trusted as stated): the meaning of the dd/fol
operations in the table; `_floor`, `_maxima`, `_contains_covered` are PINNED
by their exact normalised source text (PINNED below) to the primitives
floor_prim (= dedup (map ceil/floor)) and maxima -- any change of their text
refuses; statements that only log, time or re-check invariants are listed
with their exact source text in SKIP / ASSERTS with a justification; a
statement or assertion that is not listed refuses.  A skipped assignment
does not define its target, so any later use of it refuses.

The translator never imports omega.
"""
import ast
import os
import re


class Refuse(Exception):
    """The source left the supported subset."""


def _src(n):
    return ast.unparse(n)


# --------------------------------------------------------------------- tables
# exact parameter lists (with defaults)
PARAMS = {
    '_cyclic_core_fixpoint': 'x, y, bab, fol',
    'cyclic_core': 'f, care, fol',
    '_independent_set': 'x, y, p_leq_q, p_to_q, fol, only_size=False',
    '_some_cover': 'x, y, p_leq_q, p_to_q, fol, only_size=False',
    '_lower_bound': 'x, y, p_leq_q, p_to_q, fol',
    '_upper_bound': 'x, y, p_leq_q, p_to_q, fol',
    'unfloors': 'cover, y, fol, bab',
    '_max_transpose': 'p_is_signature, p_is_prime, bab, fol, signatures=False',
}
SP, SQ, SU = ('set', 'p'), ('set', 'q'), ('set', '?')
PARAM_TYPES = {
    'x': SP, 'y': SP, 'cover': SP, 'p_is_signature': SP, 'p_is_prime': SP,
    'p_leq_q': 'rel', 'p_to_q': 'ren_pq', 'only_size': 'bool',
    'signatures': 'bool', 'bab': 'ctx', 'fol': 'ctx', 'f': 'fn', 'care': 'fn',
}
T3 = ('tuple', SP, SP, SP)
RET = {
    '_cyclic_core_fixpoint': T3, 'cyclic_core': T3,
    '_independent_set': ('tuple', 'oset', 'nat'),
    '_some_cover': ('tuple', 'oset', 'nat'),
    '_lower_bound': 'nat', '_upper_bound': 'nat',
    'unfloors': SP, '_max_transpose': SP,
}
GEN_NAME = {
    '_cyclic_core_fixpoint': 'cyclic_core_fixpoint', 'cyclic_core': 'cyclic_core',
    '_independent_set': 'independent_set', '_some_cover': 'some_cover',
    '_lower_bound': 'lower_bound', '_upper_bound': 'upper_bound',
    'unfloors': 'unfloors', '_max_transpose': 'max_transpose',
}
PURE = {'_max_transpose'}            # total functions: no option, no fuel
NO_FUEL = {'_max_transpose', 'unfloors'}

LOG = 'logging only'
TIME = 'timing, read only by log messages'
CNT = 'iteration counter, read only by log messages'
VARIANT = ('feeds only the skipped variant assertion `n < nold` '
           '(the fuel of the generated loop plays the role of the variant)')
# statements skipped by EXACT source text (ast.unparse), with justification
SKIP = {
    '_cyclic_core_fixpoint': {
        "log.debug('\\n\\n---- cyclic core fixpoint ----')": LOG,
        "log.debug(f'starting iteration {i}')": LOG,
        "log.debug(f'iteration {i} took {dt:1.2f} sec')": LOG,
        "log.debug('==== cyclic core fixpoint ====\\n')": LOG,
        'i = 0': CNT, 'i += 1': CNT,
        't0 = time.perf_counter()': TIME, 't1 = time.perf_counter()': TIME,
        'dt = t1 - t0': TIME,
        '_assert_fixpoint(x, y, xold, yold, essential, bab.p_vars, fol)':
            'assert-only helper (checked: its body contains only assert '
            'statements and assignments to locals): x == xold, y == yold, '
            'disjointness and supports -- invariants proved of the model in '
            'CyclicCoreOpt.v / MinCoverProofs.v',
    },
    'cyclic_core': {
        "log.info('cyclic core computation')": LOG,
        't0 = time.perf_counter()': TIME,
        'prm = lat.setup_aux_vars(f, care, fol)':
            'declares the parameter variables a_x, b_x: the lattice [rs] of the model',
        'lat.setup_lattice(prm, fol)':
            'declares the order relations of the lattice (box_leb of the model)',
        'bab = _BranchAndBound(prm, fol)':
            'record of the lattice relations and renamings (table of `bab.*`)',
        'if xcore == fol.false:\n    assert _covers(essential, f, prm, fol)':
            're-checks an invariant (essentials cover f when the core is '
            'empty: C09_cyclic_core_preserves_minimum)',
        '_print_cyclic_core(x, y, xcore, ycore, essential, t0, bab.prm, fol)':
            'logging and support assertions only',
    },
    '_independent_set': {
        "log.debug('---- independent set ----')": LOG,
        "log.debug('==== independent set ====')": LOG,
        'n = fol.count(rem)': VARIANT, 'nold = n': VARIANT,
        '_assert_possible_cover_size(k, x, fol)':
            'assert-only helper (checked): k >= 0 and (k == 0) is (x == false)',
    },
    '_some_cover': {
        "log.debug('---- some cover ----')": LOG,
        "log.debug('==== some cover ====')": LOG,
        'n = fol.count(rem)': VARIANT, 'nold = n': VARIANT,
        '_assert_possible_cover_size(k, x, fol)':
            'assert-only helper (checked): k >= 0 and (k == 0) is (x == false)',
    },
    '_lower_bound': {
        "log.debug('---- lower bound ----')": LOG,
        "log.info(f'lower bound = {n}')": LOG,
        "log.debug('==== lower bound ====')": LOG,
        '_assert_possible_cover_size(n, x, fol)':
            'assert-only helper (checked): n >= 0 and (n == 0) is (x == false)',
    },
    '_upper_bound': {
        "log.debug('---- upper bound ----')": LOG,
        "log.info(f'upper bound = {n}')": LOG,
        "log.debug('==== upper bound ====')": LOG,
        '_assert_possible_cover_size(n, x, fol)':
            'assert-only helper (checked): n >= 0 and (n == 0) is (x == false)',
    },
    'unfloors': {},
    '_max_transpose': {
        "log.info('---- max transpose ----')": LOG,
        "log.info('==== max transpose ====')": LOG,
    },
}
SUPP = 'support check: a type fact of the BDD (sets of the model are lists of boxes)'
TYPE = 'type fact of dd (the value is a node of this manager)'
PRE = ('precondition on the inputs of the public entry point; the model is '
       'stated for (f, care) without it and the check only calls it on '
       'instances that satisfy it')
ELEM = ('dd.pick returned a total assignment: elements of the model are '
        'whole boxes')
# assertions skipped by EXACT source text of the test, with justification
ASSERTS = {
    '_cyclic_core_fixpoint': {
        'x in fol.bdd': TYPE, 'y in fol.bdd': TYPE,
        'support_issubset(x, bab.p_vars, fol)': SUPP,
        'support_issubset(y, bab.p_vars, fol)': SUPP,
    },
    'cyclic_core': {
        'f in fol.bdd': TYPE, 'care in fol.bdd': TYPE,
        'care != fol.false': PRE, 'f != fol.false': PRE,
        'f != fol.true or care != fol.true': PRE,
        'x != fol.false': 're-checks feasibility (follows from f != false)',
        'y != fol.false': 're-checks feasibility (follows from f != false)',
        '_covers(y, f, prm, fol)':
            're-checks that the primes cover f (C09_primes_cover)',
    },
    '_independent_set': {
        'support_issubset(x, p, fol)': SUPP, 'support_issubset(y, p, fol)': SUPP,
        '_cover_refines(x, yq, p_leq_q, p, q, fol)':
            'feasibility precondition (every x below some y): hypothesis '
            '`cov Y X` of the totality lemmas, not tested by the model',
        'n >= 0': 'a count is non-negative',
        'set(x0) == p': ELEM,
        'support_issubset(r, p, fol)': SUPP,
        'n < nold': 'loop variant; the generated loop terminates by fuel and '
                    'the bridge shows when the fuel suffices',
        'fol.count(rem) == 0': 're-checks the negated loop test',
        'k == k_': 're-checks that z has k distinct elements (the picked '
                   'elements are pairwise distinct)',
    },
    '_some_cover': {
        'support_issubset(x, p, fol)': SUPP, 'support_issubset(y, p, fol)': SUPP,
        '_cover_refines(x, yq, p_leq_q, p, q, fol)':
            'feasibility precondition (every x below some y): hypothesis '
            '`cov Y X` of the totality lemmas, not tested by the model',
        'n >= 0': 'a count is non-negative',
        'set(x0) == p': ELEM, 'set(y0) == q': ELEM,
        'n < nold': 'loop variant; the generated loop terminates by fuel and '
                    'the bridge shows when the fuel suffices',
        'fol.count(rem) == 0': 're-checks the negated loop test',
        'k == k_': 're-checks that z has k distinct elements (proved: '
                   'some_cover_gen_false_is_model needs exactly this)',
    },
    '_lower_bound': {}, '_upper_bound': {},
    'unfloors': {
        'set(dz) == bab.p_vars': ELEM, 'set(dy) == bab.q_vars': ELEM,
    },
    '_max_transpose': {
        'support_issubset(p_is_prime, bab.p_vars, fol)': SUPP,
        'support_issubset(p_is_signature, bab.p_vars, fol)': SUPP,
        'support_issubset(r, bab.p_vars, fol)': SUPP,
    },
}
# helpers whose calls are skipped above: their bodies must contain nothing
# but assertions, assignments to local names and a docstring
ASSERT_ONLY = ('_assert_fixpoint', '_assert_possible_cover_size')

# functions tied by their exact normalised text to a primitive of the model
# (docstrings, bare string literals and log.* calls removed, ast.unparse)
PINNED = {
    '_maxima': (
        'maxima',
        'def _maxima(u, bab, fol):\n'
        '    assert support_issubset(u, bab.p_vars, fol)\n'
        '    v = fol.let(bab.p_to_q, u)\n'
        '    r = v & bab.p_leq_q\n'
        '    r = ~r | bab.p_eq_q\n'
        '    r = fol.forall(bab.q_vars, r)\n'
        '    r &= u\n'
        '    assert support_issubset(r, bab.p_vars, fol)\n'
        '    return r'),
    '_contains_covered': (
        '(used by _floor)',
        'def _contains_covered(u_is_signature, u_leq_p, bab, fol):\n'
        '    pq_vars = bab.p_vars.union(bab.q_vars)\n'
        '    pu_vars = bab.p_vars.union(bab.u_vars)\n'
        '    assert support_issubset(u_is_signature, bab.u_vars, fol)\n'
        '    assert support_issubset(u_leq_p, pu_vars, fol)\n'
        '    u_leq_q = fol.let(bab.p_to_q, u_leq_p)\n'
        '    r = u_is_signature & u_leq_q\n'
        '    r = ~r | u_leq_p\n'
        '    r = fol.forall(bab.u_vars, r)\n'
        '    assert support_issubset(r, pq_vars, fol)\n'
        '    return r'),
    '_floor': (
        'floor_prim',
        'def _floor(p_is_signature, p_is_prime, bab, fol, signatures=False):\n'
        '    p_leq_u = bab.p_leq_u\n'
        '    u_leq_p = bab.u_leq_p\n'
        '    if signatures:\n'
        '        p_is_signature, p_is_prime = p_is_prime, p_is_signature\n'
        '        u_leq_p, p_leq_u = p_leq_u, u_leq_p\n'
        '    assert support_issubset(p_is_prime, bab.p_vars, fol)\n'
        '    assert support_issubset(p_is_signature, bab.p_vars, fol)\n'
        '    u_is_signature = fol.let(bab.p_to_u, p_is_signature)\n'
        '    p_like_q = _contains_covered(u_is_signature, u_leq_p, bab, fol)\n'
        '    u_like_q = fol.let(bab.p_to_u, p_like_q)\n'
        '    q_is_prime = fol.let(bab.p_to_q, p_is_prime)\n'
        '    r = ~u_like_q | p_leq_u\n'
        '    r = fol.forall(bab.u_vars, r)\n'
        '    r &= p_like_q\n'
        '    r &= q_is_prime\n'
        '    r = fol.exist(bab.q_vars, r)\n'
        '    assert support_issubset(r, bab.p_vars, fol)\n'
        '    return r'),
}

# the tables are written as source text; canonicalise them with the running
# interpreter's ast.unparse (its layout differs between Python versions)
SKIP = {f: {_src(ast.parse(k).body[0]): v for k, v in d.items()}
        for f, d in SKIP.items()}
ASSERTS = {f: {_src(ast.parse(k, mode='eval').body): v for k, v in d.items()}
           for f, d in ASSERTS.items()}

RESERVED = {
    'pick', 'rs', 'fuel', 'fuel_', 'items_', 'union', 'diff', 'inter',
    'filter', 'length', 'box_leb', 'anyb', 'maxima', 'dedup', 'ceil', 'floor',
    'map', 'embed', 'primes', 'negb', 'is_nil', 'same_setb', 'set_eq_opt',
    'floor_prim', 'true', 'false', 'None', 'Some', 'box', 'list', 'nat',
    'bool', 'option', 'fst', 'snd', 'S', 'O', 'p_', 'q_', 'b_', 'if', 'then',
    'else', 'let', 'in', 'match', 'with', 'end', 'fun', 'fix', 'at', 'as',
} | {g + s for g in GEN_NAME.values() for s in ('_gen', '_loop')}


def is_set(t):
    return isinstance(t, tuple) and t[0] == 'set'


def is_elem(t):
    return isinstance(t, tuple) and t[0] == 'elem'


def is_pred(t):
    return isinstance(t, tuple) and t[0] == 'pred'


def coq_type(t):
    if is_set(t):
        return 'list box'
    if t == 'oset':
        return 'option (list box)'
    if is_elem(t):
        return 'box'
    if t in ('nat', 'bool'):
        return t
    if t == 'fn':
        return 'point -> bool'
    if isinstance(t, tuple) and t[0] == 'tuple':
        return '(' + ' * '.join(coq_type(x) for x in t[1:]) + ')'
    raise Refuse(f'no Gallina type for {t}')


def gallina_valued(t):
    try:
        coq_type(t)
        return True
    except Refuse:
        return False


def unify(a, b, where):
    """Join of two set types that may differ by an unknown space."""
    if is_set(a) and is_set(b):
        if a[1] == '?':
            return b
        if b[1] == '?' or a[1] == b[1]:
            return a
    if a == b:
        return a
    raise Refuse(f'{where}: types {a} / {b}')


def _indent(text, n=2):
    return '\n'.join(' ' * n + ln for ln in text.splitlines())


# ------------------------------------------------------------------ translator
class Fn:
    def __init__(self, name, node, tree_defaults):
        self.name = name
        self.node = node
        self.defaults = tree_defaults   # callee -> {kw: bool default}
        self.env = {}                   # python name -> (coq name | None, type)
        self.order = []                 # python names in definition order
        self.used = set()
        self.accessed = None            # set of coq names read (inside loops)
        self.loops = []                 # emitted Fixpoints (text)
        self.nloops = 0
        self.partial = name not in PURE

    # ---------------------------------------------------------------- names
    def fresh(self, base):
        base = re.sub(r'\W', '_', base)
        nm, k = base, 0
        while nm in self.used or nm in RESERVED:
            k += 1
            nm = f'{base}{k}'
        self.used.add(nm)
        return nm

    def bind(self, pyname, ty):
        """New Gallina name for an assignment to a Python name."""
        nm = self.fresh(pyname)
        self.setenv(pyname, nm, ty)
        return nm

    def setenv(self, pyname, term, ty):
        if pyname not in self.env:
            self.order.append(pyname)
        self.env[pyname] = (term, ty)

    def var(self, name):
        if name not in self.env:
            raise Refuse(f'{self.name}: unknown (or skipped) variable {name}')
        term, ty = self.env[name]
        if self.accessed is not None:
            if term is not None:
                self.accessed.add(term)
            if isinstance(ty, tuple) and ty[0] == 'relset':
                self.accessed.add(ty[1])
        return term, ty

    # ---------------------------------------------------------------- monad
    def ret(self, v):
        return f'Some {v}' if self.partial else v

    def fail(self):
        if not self.partial:
            raise Refuse(f'{self.name}: partial operation in a total function')
        return 'None'

    def bind_opt(self, term, pat, body):
        self.fail()
        return (f'match {term} with\n| None => None\n| Some {pat} =>\n'
                f'{_indent(body)}\nend')

    # ---------------------------------------------------------------- exprs
    def const_bool(self, e):
        if isinstance(e, ast.Constant) and e.value is True:
            return 'true'
        if isinstance(e, ast.Constant) and e.value is False:
            return 'false'
        return None

    def expr(self, e):
        """(Gallina term | None, type) of a pure expression."""
        s = _src(e)
        w = f'{self.name}: `{s}`'
        if isinstance(e, ast.Constant):
            if e.value is None:
                return 'None', 'none'
            if e.value is True or e.value is False:
                return self.const_bool(e), 'bool'
            if isinstance(e.value, int) and 0 <= e.value < 100:
                return f'{e.value}%nat', 'nat'
            raise Refuse(f'{w}: constant')
        if isinstance(e, ast.Name):
            return self.var(e.id)
        if s == 'fol.false':
            return '[]', SU
        if s == 'bab.p_leq_q':
            return None, 'rel'
        if s == 'bab.p_to_q':
            return None, 'ren_pq'
        if s == 'bab.q_to_p':
            return None, 'ren_qp'
        if s == 'bab.p_vars':
            return None, 'vars_p'
        if s == 'bab.q_vars':
            return None, 'vars_q'
        if s == _src(ast.parse('~ care | f').body[0].value) and \
                self.name == 'cyclic_core':
            self.var('care'), self.var('f')
            return None, 'fcare'
        if isinstance(e, ast.Tuple):
            parts = [self.expr(x) for x in e.elts]
            if any(p[0] is None for p in parts):
                raise Refuse(f'{w}: tuple of symbolic values')
            return ('(' + ', '.join(p[0] for p in parts) + ')',
                    ('tuple',) + tuple(p[1] for p in parts))
        if isinstance(e, ast.UnaryOp) and isinstance(e.op, ast.Not):
            a, ta = self.expr(e.operand)
            if ta == 'bool':
                return f'(negb {a})', 'bool'
            raise Refuse(f'{w}: not on {ta}')
        if isinstance(e, ast.BoolOp) and len(e.values) == 2:
            a, b = self.test(e.values[0]), self.test(e.values[1])
            if isinstance(e.op, ast.Or):
                return f'(if {a} then true else {b})', 'bool'
            return f'(if {a} then {b} else false)', 'bool'
        if isinstance(e, ast.Compare):
            return self.test(e), 'bool'
        if isinstance(e, ast.BinOp):
            return self.binop(e, w)
        if isinstance(e, ast.DictComp) and \
                s == _src(ast.parse('{v: k for k, v in p_to_q.items()}').body[0].value):
            if self.var('p_to_q')[1] == 'ren_pq':
                return None, 'ren_qp'
        if isinstance(e, ast.Call):
            return self.call(e, w)
        raise Refuse(f'{w}: expression not in the table')

    def binop(self, e, w):
        if isinstance(e.op, ast.Add):
            a, ta = self.expr(e.left)
            b, tb = self.expr(e.right)
            if ta == tb == 'nat':
                return f'({a} + {b})%nat', 'nat'
            raise Refuse(f'{w}: + on {ta}, {tb}')
        if isinstance(e.op, ast.BitAnd):
            neg = (isinstance(e.right, ast.UnaryOp)
                   and isinstance(e.right.op, ast.Invert))
            a, ta = self.expr(e.left)
            b, tb = self.expr(e.right.operand if neg else e.right)
            if is_set(ta) and is_set(tb):
                t = unify(ta, tb, w)
                return (f'(diff {a} {b})' if neg else f'(inter {a} {b})'), t
            if is_set(ta) and is_pred(tb):
                unify(ta, ('set', tb[1]), w)
                if neg:
                    return (f'(filter (fun b_ => negb ({b} b_)) {a})',
                            ('set', tb[1]))
                return f'(filter {b} {a})', ('set', tb[1])
            if not neg:
                # the set { (p, q) : q in S /\ p <= q } for S over q
                if is_set(ta) and tb == 'rel':
                    unify(ta, SQ, w)
                    return None, ('relset', self.named_set(e.left, a))
                if ta == 'rel' and is_set(tb):
                    unify(tb, SQ, w)
                    return None, ('relset', self.named_set(e.right, b))
            raise Refuse(f'{w}: & on {ta}, {tb}')
        if isinstance(e.op, ast.BitOr):
            a, ta = self.expr(e.left)
            b, tb = self.expr(e.right)
            if is_set(ta) and is_set(tb):
                return f'(union {a} {b})', unify(ta, tb, w)
            raise Refuse(f'{w}: | on {ta}, {tb}')
        raise Refuse(f'{w}: operator')

    def named_set(self, node, term):
        if not isinstance(node, ast.Name):
            raise Refuse(f'{self.name}: `{_src(node)}` & p_leq_q: the set must '
                         'be a variable')
        return term

    def kw_bool(self, e, kw, callee):
        """Boolean keyword argument of a call (or the callee's default)."""
        for k in e.keywords:
            if k.arg != kw:
                raise Refuse(f'{self.name}: keyword {k.arg} in `{_src(e)}`')
        for k in e.keywords:
            t, ty = self.expr(k.value)
            if ty != 'bool':
                raise Refuse(f'{self.name}: {kw}={_src(k.value)} : {ty}')
            return t
        return self.defaults[callee][kw]

    def call(self, e, w):
        f = _src(e.func)
        args = e.args
        if any(isinstance(a, ast.Starred) for a in args):
            raise Refuse(f'{w}: starred argument')
        if f == '_max_transpose' and len(args) == 4 and \
                [_src(a) for a in args[2:]] == ['bab', 'fol']:
            a, ta = self.expr(args[0])
            b, tb = self.expr(args[1])
            unify(ta, SP, w), unify(tb, SP, w)
            sg = self.kw_bool(e, 'signatures', '_max_transpose')
            return f'(max_transpose_gen {a} {b} {sg})', SP
        if e.keywords:
            raise Refuse(f'{w}: keyword arguments')
        if f == 'fol.let' and len(args) == 2:
            d, td = self.expr(args[0])
            v, tv = self.expr(args[1])
            if td == 'ren_pq' and is_set(tv):
                unify(tv, SP, w)
                return v, SQ
            if td == 'ren_qp' and is_set(tv):
                unify(tv, SQ, w)
                return v, SP
            if is_elem(td) and tv == 'rel':
                if td[1] == 'p':      # { q : d <= q }
                    return f'(fun q_ => box_leb {d} q_)', ('pred', 'q')
                if td[1] == 'q':      # { p : p <= d }
                    return f'(fun p_ => box_leb p_ {d})', ('pred', 'p')
            if is_elem(td) and td[1] == 'p' and isinstance(tv, tuple) \
                    and tv[0] == 'relset':   # { q in S : d <= q }
                return f'(filter (fun q_ => box_leb {d} q_) {tv[1]})', SQ
            raise Refuse(f'{w}: let on {td}, {tv}')
        if f == 'fol.exist' and len(args) == 2:
            q, tq = self.expr(args[0])
            r, tr = self.expr(args[1])
            if tq == 'vars_q' and isinstance(tr, tuple) and tr[0] == 'relset':
                return (f'(fun p_ => anyb (fun q_ => box_leb p_ q_) {tr[1]})',
                        ('pred', 'p'))
            raise Refuse(f'{w}: exist on {tq}, {tr}')
        if f == 'fol.assign_from' and len(args) == 1:
            d, td = self.expr(args[0])
            if is_elem(td):
                return f'[{d}]', ('set', td[1])
            raise Refuse(f'{w}: assign_from on {td}')
        if f == 'fol.count' and len(args) == 1:
            a, ta = self.expr(args[0])
            if is_set(ta):
                return f'(length {a})', 'nat'
        if f == 'set' and len(args) == 1:
            if _src(args[0]) == 'p_to_q' and self.var('p_to_q')[1] == 'ren_pq':
                return None, 'vars_p'
            if _src(args[0]) == 'p_to_q.values()' and \
                    self.var('p_to_q')[1] == 'ren_pq':
                return None, 'vars_q'
        if self.name == 'cyclic_core':
            if f == 'lat.embed_as_implicants' and \
                    [_src(a) for a in args] == ['f', 'prm', 'fol']:
                self.var('f')
                return '(embed rs f)', SP
            if f == 'lat.prime_implicants' and len(args) == 3 and \
                    [_src(a) for a in args[1:]] == ['prm', 'fol']:
                if self.expr(args[0])[1] == 'fcare':
                    return '(primes rs f care)', SP
        if self.name == '_max_transpose':
            if f == '_maxima' and len(args) == 3 and \
                    [_src(a) for a in args[1:]] == ['bab', 'fol']:
                a, ta = self.expr(args[0])
                unify(ta, SP, w)
                return f'(maxima {a})', SP
        raise Refuse(f'{w}: call not in the table')

    def test(self, e):
        """Gallina boolean of a condition."""
        s = _src(e)
        w = f'{self.name}: `{s}`'
        if isinstance(e, ast.Compare) and len(e.ops) == 1:
            op = e.ops[0]
            a, ta = self.expr(e.left)
            b, tb = self.expr(e.comparators[0])
            if isinstance(op, (ast.Eq, ast.NotEq)):
                pre = 'negb ' if isinstance(op, ast.NotEq) else ''
                if is_set(ta) and b == '[]':
                    t = f'is_nil {a}'
                elif is_set(ta) and tb == 'oset':
                    t = f'set_eq_opt {a} {b}'
                elif is_set(ta) and is_set(tb):
                    unify(ta, tb, w)
                    t = f'same_setb {a} {b}'
                else:
                    raise Refuse(f'{w}: comparison of {ta}, {tb}')
                return f'({pre}({t}))' if pre else f'({t})'
            raise Refuse(f'{w}: comparison operator')
        a, ta = self.expr(e)
        if ta == 'bool':
            return a
        raise Refuse(f'{w}: condition of type {ta}')

    # ---------------------------------------------------------------- stmts
    def skipped(self, st):
        """Is the statement ignorable (docstring, bare string, SKIP table,
        skipped assertion)?  Raises on an unknown assertion."""
        if isinstance(st, ast.Expr) and isinstance(st.value, ast.Constant) \
                and isinstance(st.value.value, str):
            return True
        if _src(st) in SKIP.get(self.name, {}):
            return True
        if isinstance(st, ast.Assert):
            key = _src(st.test)
            if key not in ASSERTS.get(self.name, {}):
                raise Refuse(f'{self.name}: assertion `{key}` is not in the table')
            return True
        return False

    @staticmethod
    def targets(t):
        if isinstance(t, ast.Name):
            return [t.id]
        if isinstance(t, ast.Tuple):
            return [n for x in t.elts for n in Fn.targets(x)]
        raise Refuse(f'assignment target {_src(t)}')

    def assigned(self, body):
        out = []
        for st in body:
            if self.skipped(st):
                continue
            if isinstance(st, ast.Assign):
                for t in st.targets:
                    out += self.targets(t)
            elif isinstance(st, ast.AugAssign):
                out += self.targets(st.target)
            elif isinstance(st, ast.If):
                out += self.assigned(st.body) + self.assigned(st.orelse)
            elif isinstance(st, (ast.While, ast.For)):
                raise Refuse(f'{self.name}: nested loop')
        return out

    @staticmethod
    def reads(node):
        return {n.id for n in ast.walk(node)
                if isinstance(n, ast.Name) and isinstance(n.ctx, ast.Load)}

    def live_before_assigned(self, body, done):
        """Names read in `body` before they are definitely assigned in it;
        `done` (definitely assigned so far) is updated."""
        live = set()
        for st in body:
            if self.skipped(st):
                continue
            if isinstance(st, ast.Assign):
                live |= self.reads(st.value) - done
                for t in st.targets:
                    done |= set(self.targets(t))
            elif isinstance(st, ast.AugAssign):
                live |= (self.reads(st.value) | set(self.targets(st.target))) - done
            elif isinstance(st, ast.If):
                live |= self.reads(st.test) - done
                d1, d2 = set(done), set(done)
                live |= self.live_before_assigned(st.body, d1)
                live |= self.live_before_assigned(st.orelse, d2)
                done |= d1 & d2
            else:
                live |= self.reads(st) - done
        return live

    def stmts(self, body, tail):
        """Gallina term of a statement list; `tail()` gives the term when the
        control reaches the end (None: it must not)."""
        if not body:
            if tail is None:
                raise Refuse(f'{self.name}: control reaches the end without return')
            return tail()
        st, rest = body[0], body[1:]
        src = _src(st)
        if self.skipped(st):
            return self.stmts(rest, tail)
        if isinstance(st, ast.Return):
            if rest:
                raise Refuse(f'{self.name}: code after return')
            if st.value is None:
                raise Refuse(f'{self.name}: bare return')
            return self.ret(self.coerce(st.value, RET[self.name]))
        if isinstance(st, ast.While):
            return self.do_loop(st, rest, tail, None)
        if isinstance(st, ast.For):
            return self.do_loop(st, rest, tail, st.target)
        if isinstance(st, ast.If):
            return self.do_if(st, rest, tail)
        if isinstance(st, ast.AugAssign) and isinstance(st.target, ast.Name):
            val = ast.BinOp(left=ast.Name(id=st.target.id, ctx=ast.Load()),
                            op=st.op, right=st.value)
            return self.do_assign(st.target, val, rest, tail)
        if isinstance(st, ast.Assign) and len(st.targets) == 1:
            return self.do_assign(st.targets[0], st.value, rest, tail)
        raise Refuse(f'{self.name}: statement `{src.splitlines()[0]}` is not '
                     'supported and not in the SKIP table')

    def coerce(self, e, want):
        if isinstance(want, tuple) and want[0] == 'tuple':
            if not (isinstance(e, ast.Tuple) and len(e.elts) == len(want) - 1):
                raise Refuse(f'{self.name}: return {_src(e)}: expected {want}')
            return '(' + ', '.join(self.coerce(x, w_) for x, w_
                                   in zip(e.elts, want[1:])) + ')'
        v, tv = self.expr(e)
        return self.coerce_term(v, tv, want, _src(e))

    def coerce_term(self, v, tv, want, what):
        if v is None:
            raise Refuse(f'{self.name}: {what} : {tv} is not a value')
        if want == 'oset':
            if tv == 'none':
                return 'None'
            if is_set(tv):
                return f'(Some {v})'
            if tv == 'oset':
                return v
        if is_set(want) and is_set(tv):
            unify(tv, want, f'{self.name}: {what}')
            return v
        if tv == want:
            return v
        raise Refuse(f'{self.name}: {what} : {tv}, expected {want}')

    def bind_value(self, target, v, tv):
        """(pattern, [lets]) binding a value of type tv to a target."""
        if isinstance(target, ast.Name):
            if target.id == '_':
                return '_'
            old = self.env.get(target.id)
            if old is not None and old[1] == 'oset':
                raise Refuse(f'{self.name}: option variable {target.id} as '
                             'pattern')
            if tv == 'none':
                tv = 'oset'
            return self.bind(target.id, tv)
        if isinstance(target, ast.Tuple) and isinstance(tv, tuple) \
                and tv[0] == 'tuple' and len(tv) - 1 == len(target.elts):
            return '(' + ', '.join(self.bind_value(t, None, ty) for t, ty
                                   in zip(target.elts, tv[1:])) + ')'
        raise Refuse(f'{self.name}: target {_src(target)} : {tv}')

    def do_assign(self, target, value, rest, tail):
        # ---- calls of translated (partial, fuelled) functions and pick
        if isinstance(value, ast.Call):
            f = _src(value.func)
            args = value.args
            if f == 'fol.pick' and len(args) == 1:
                a, ta = self.expr(args[0])
                if not is_set(ta) or ta[1] == '?':
                    raise Refuse(f'{self.name}: pick of {ta}')
                pat = self.bind_value(target, None, ('elem', ta[1]))
                return self.bind_opt(f'pick {a}', pat, self.stmts(rest, tail))
            if f in ('_independent_set', '_some_cover', '_cyclic_core_fixpoint') \
                    and self.accessed is not None:
                raise Refuse(f'{self.name}: fuelled call inside a loop')
            if f in ('_independent_set', '_some_cover') and len(args) == 5:
                x, tx = self.expr(args[0])
                y, ty = self.expr(args[1])
                w = f'{self.name}: `{_src(value)}`'
                unify(tx, SP, w), unify(ty, SP, w)
                if self.expr(args[2])[1] != 'rel' or \
                        self.expr(args[3])[1] != 'ren_pq' or _src(args[4]) != 'fol':
                    raise Refuse(f'{w}: arguments')
                os_ = self.kw_bool(value, 'only_size', f)
                pat = self.bind_value(target, None, RET[f])
                return self.bind_opt(
                    f'{GEN_NAME[f]}_gen fuel {x} {y} {os_}', pat,
                    self.stmts(rest, tail))
            if f == '_cyclic_core_fixpoint' and len(args) == 4 and \
                    not value.keywords and \
                    [_src(a) for a in args[2:]] == ['bab', 'fol']:
                x, tx = self.expr(args[0])
                y, ty = self.expr(args[1])
                w = f'{self.name}: `{_src(value)}`'
                unify(tx, SP, w), unify(ty, SP, w)
                pat = self.bind_value(target, None, RET[f])
                return self.bind_opt(
                    f'cyclic_core_fixpoint_gen fuel {x} {y}', pat,
                    self.stmts(rest, tail))
            if self.name == '_max_transpose' and f == '_floor' and \
                    len(args) == 4 and [_src(a) for a in args[2:]] == ['bab', 'fol'] \
                    and len(value.keywords) == 1 \
                    and value.keywords[0].arg == 'signatures':
                a, ta = self.expr(args[0])
                b, tb = self.expr(args[1])
                w = f'{self.name}: `{_src(value)}`'
                unify(ta, SP, w), unify(tb, SP, w)
                sg, ts = self.expr(value.keywords[0].value)
                if ts != 'bool':
                    raise Refuse(f'{w}: signatures : {ts}')
                nm = self.bind_value(target, None, SP)
                return (f'let {nm} := floor_prim rs {sg} {a} {b} in\n'
                        + self.stmts(rest, tail))
        # ---- simultaneous assignment  a, b = e1, e2
        if isinstance(target, ast.Tuple) and isinstance(value, ast.Tuple) \
                and len(target.elts) == len(value.elts) \
                and all(isinstance(t, ast.Name) for t in target.elts):
            vals = [self.expr(v) for v in value.elts]     # old environment
            lets = ''
            for t, (v, tv) in zip(target.elts, vals):
                lets += self.let(t.id, v, tv, _src(value))
            return lets + self.stmts(rest, tail)
        if not isinstance(target, ast.Name):
            raise Refuse(f'{self.name}: target {_src(target)}')
        v, tv = self.expr(value)
        return self.let(target.id, v, tv, _src(value)) + self.stmts(rest, tail)

    def let(self, pyname, v, tv, what):
        """`let` for an assignment of a pure value (nothing for symbolic
        values); a variable that holds an option keeps holding options."""
        old = self.env.get(pyname)
        if old is not None and old[1] == 'oset' or tv == 'none':
            v = self.coerce_term(v, tv, 'oset', what)
            tv = 'oset'
        if v is None:
            self.setenv(pyname, None, tv)
            return ''
        if not gallina_valued(tv) and not is_pred(tv):
            raise Refuse(f'{self.name}: {what} : {tv}')
        nm = self.bind(pyname, tv)
        if v in ('[]', 'None'):
            return f'let {nm} : {coq_type(tv)} := {v} in\n'
        return f'let {nm} := {v} in\n'

    # ---- if
    def do_if(self, st, rest, tail):
        cond = self.test(st.test)
        returns = bool(st.body) and isinstance(st.body[-1], ast.Return)
        if returns and not st.orelse:
            snap = (dict(self.env), list(self.order))
            then = self.stmts(st.body, None)
            self.env, self.order = dict(snap[0]), list(snap[1])
            els = self.stmts(rest, tail)
            return f'if {cond}\nthen {then}\nelse\n{_indent(els)}'
        if not returns and not st.orelse:
            # conditional update of variables that already have a value
            names = []
            for n in self.assigned(st.body):
                if n not in names:
                    names.append(n)
            for n in names:
                if n not in self.env or self.env[n][0] is None:
                    raise Refuse(f'{self.name}: `if {_src(st.test)}` assigns '
                                 f'{n}, which has no value before')
            before = {n: self.env[n] for n in names}
            snap = (dict(self.env), list(self.order))

            def end():
                parts = []
                for n in names:
                    v, tv = self.env[n]
                    unify(tv, before[n][1], f'{self.name}: {n} in a branch')
                    parts.append((v, tv))
                end.types = [p[1] for p in parts]
                vs = [p[0] for p in parts]
                return vs[0] if len(vs) == 1 else '(' + ', '.join(vs) + ')'
            then = self.stmts(st.body, end)
            if 'match ' in then:
                raise Refuse(f'{self.name}: partial operation under `if '
                             f'{_src(st.test)}`')
            self.env, self.order = dict(snap[0]), list(snap[1])
            olds = [before[n][0] for n in names]
            old = olds[0] if len(olds) == 1 else '(' + ', '.join(olds) + ')'
            nms = [self.bind(n, unify(before[n][1], t, self.name))
                   for n, t in zip(names, end.types)]
            pat = nms[0] if len(nms) == 1 else "'(" + ', '.join(nms) + ')'
            return (f'let {pat} :=\n  if {cond}\n  then\n{_indent(then, 4)}\n'
                    f'  else {old} in\n' + self.stmts(rest, tail))
        raise Refuse(f'{self.name}: shape of `if {_src(st.test)}`')

    # ---- loops
    def do_loop(self, st, rest, tail, for_target):
        if st.orelse:
            raise Refuse(f'{self.name}: loop with else')
        is_for = for_target is not None
        if is_for:
            if not isinstance(for_target, ast.Name):
                raise Refuse(f'{self.name}: for target {_src(for_target)}')
            it = st.iter
            if not (isinstance(it, ast.Call) and _src(it.func) == 'fol.pick_iter'
                    and len(it.args) == 1 and not it.keywords):
                raise Refuse(f'{self.name}: for over `{_src(it)}`')
            items, titems = self.expr(it.args[0])
            if not is_set(titems) or titems[1] == '?':
                raise Refuse(f'{self.name}: pick_iter of {titems}')
        assigned = set(self.assigned(st.body))
        if is_for and for_target.id in assigned:
            raise Refuse(f'{self.name}: loop variable assigned in the loop')
        done = {for_target.id} if is_for else set()
        live = self.live_before_assigned(st.body, done)
        if not is_for:
            live |= self.reads(st.test)
        for s in rest:
            live |= self.reads(s)
        state = [v for v in self.order if v in assigned and v in live]
        for v in state:
            if self.env[v][0] is None:
                raise Refuse(f'{self.name}: loop variable {v} : {self.env[v][1]}')
        dead = [v for v in assigned if v not in state]
        self.nloops += 1
        lname = GEN_NAME[self.name] + '_loop' + ('' if self.nloops == 1
                                                 else str(self.nloops))
        outer = (dict(self.env), list(self.order), set(self.used), self.accessed)
        entry = {v: self.env[v][1] for v in state}
        for _ in range(4):
            self.env, self.order, self.used = \
                dict(outer[0]), list(outer[1]), set(outer[2])
            self.accessed = set()
            for v in state:
                self.env[v] = (self.env[v][0], entry[v])
            if is_for:
                elem = self.bind(for_target.id, ('elem', titems[1]))
                tl = self.fresh('items_tl')
            else:
                cond = self.test(st.test)
            params_state = [self.env[v][0] for v in state]
            exit_types = {}

            def again():
                args = []
                for v in state:
                    t, ty = self.var(v)
                    exit_types[v] = unify(ty, entry[v],
                                          f'{self.name}: loop variable {v}')
                    args.append(t)
                return '@CALL@ ' + ' '.join(args)
            body = self.stmts(st.body, again)
            if exit_types == entry:
                break
            entry = exit_types
        else:
            raise Refuse(f'{self.name}: loop variable types do not settle')
        accessed = self.accessed
        # invariants: names of the enclosing scope read in the loop
        inv = []
        for v in outer[1]:
            t = outer[0][v][0]
            ty = outer[0][v][1]
            for nm in ([t] if t is not None else []) + \
                    ([ty[1]] if isinstance(ty, tuple) and ty[0] == 'relset' else []):
                if nm in accessed and nm not in params_state and nm not in inv \
                        and nm in outer[2]:
                    inv.append(nm)
        ctype = {}
        for v in outer[1]:
            t, ty = outer[0][v]
            if t is not None:
                ctype[t] = ty
        sig = ''.join(f' ({nm} : {coq_type(ctype[nm])})' for nm in inv)
        sig += ''.join(f' ({nm} : {coq_type(entry[v])})'
                       for nm, v in zip(params_state, state))
        rty = ' * '.join(coq_type(entry[v]) for v in state)
        tup = params_state[0] if len(state) == 1 \
            else '(' + ', '.join(params_state) + ')'
        if not state:
            raise Refuse(f'{self.name}: loop without carried variables')
        if is_for:
            call = f'{lname} {tl}' + ''.join(f' {n}' for n in inv)
            body = body.replace('@CALL@', call)
            text = (f'Fixpoint {lname} (items_ : list box){sig} {{struct items_}}\n'
                    f'  : option ({rty}) :=\n'
                    f'  match items_ with\n  | [] => Some {tup}\n'
                    f'  | {elem} :: {tl} =>\n{_indent(body, 6)}\n  end.')
            start = f'{lname} {items}'
        else:
            call = f'{lname} fuel_' + ''.join(f' {n}' for n in inv)
            body = body.replace('@CALL@', call)
            text = (f'Fixpoint {lname} (fuel : nat){sig} {{struct fuel}}\n'
                    f'  : option ({rty}) :=\n'
                    f'  match fuel with\n  | O => None\n  | S fuel_ =>\n'
                    f'      if {cond}\n      then\n{_indent(body, 8)}\n'
                    f'      else Some {tup}\n  end.')
            start = f'{lname} fuel'
        self.loops.append(text)
        # back in the enclosing scope
        self.env, self.order, self.used, self.accessed = \
            dict(outer[0]), list(outer[1]), set(outer[2]), outer[3]
        if self.accessed is not None:
            raise Refuse(f'{self.name}: nested loop')
        start += ''.join(f' {n}' for n in inv)
        start += ''.join(f' {outer[0][v][0]}' for v in state)
        for v in dead:           # values of the last iteration: not modelled
            if v in self.env:
                del self.env[v]
                self.order.remove(v)
        new = [self.bind(v, entry[v]) for v in state]
        pat = new[0] if len(new) == 1 else '(' + ', '.join(new) + ')'
        return self.bind_opt(start, pat, self.stmts(rest, tail))


# ------------------------------------------------------------------- driver
def _function(tree, name):
    found = [n for n in tree.body
             if isinstance(n, ast.FunctionDef) and n.name == name]
    if len(found) != 1:
        raise Refuse(f'function {name}: {len(found)} definitions')
    if found[0].decorator_list:
        raise Refuse(f'function {name}: decorated')
    return found[0]


def _normalised(node):
    """Source of a function without docstrings, bare strings, log.* calls."""
    class Strip(ast.NodeTransformer):
        def visit_Expr(self, n):
            if isinstance(n.value, ast.Constant) and isinstance(n.value.value, str):
                return None
            if isinstance(n.value, ast.Call) and \
                    re.fullmatch(r"log\.(info|debug)\('[^'{}()]*'\)", _src(n.value)):
                return None
            return n
    import copy
    return Strip().visit(copy.deepcopy(node))


def _check_pinned(tree):
    for name, (_, text) in PINNED.items():
        got = ast.dump(_normalised(_function(tree, name)))
        if got != ast.dump(ast.parse(text).body[0]):
            raise Refuse(f'{name}: the source differs from the text pinned in '
                         'tools/vlib/cover_ccgen.py (PINNED); its meaning '
                         f'({PINNED[name][0]}) is tied to that exact text')


def _check_assert_only(tree):
    for name in ASSERT_ONLY:
        for st in _function(tree, name).body:
            ok = (isinstance(st, ast.Assert)
                  or (isinstance(st, ast.Expr) and isinstance(st.value, ast.Constant))
                  or (isinstance(st, ast.Assign) and len(st.targets) == 1
                      and isinstance(st.targets[0], ast.Name)))
            if not ok:
                raise Refuse(f'{name}: statement `{_src(st).splitlines()[0]}` '
                             'in a helper that is skipped as assert-only')


def _defaults(tree):
    out = {}
    for name in ('_independent_set', '_some_cover', '_max_transpose'):
        node = _function(tree, name)
        a = node.args
        d = {}
        for arg, val in zip(a.args[len(a.args) - len(a.defaults):], a.defaults):
            if not (isinstance(val, ast.Constant) and isinstance(val.value, bool)):
                raise Refuse(f'{name}: default of {arg.arg}')
            d[arg.arg] = 'true' if val.value else 'false'
        out[name] = d
    return out


ORDER = ['_max_transpose', '_cyclic_core_fixpoint', 'cyclic_core',
         '_independent_set', '_lower_bound', '_some_cover', '_upper_bound',
         'unfloors']


def translate(path):
    with open(path) as fh:
        tree = ast.parse(fh.read())
    _check_pinned(tree)
    _check_assert_only(tree)
    defaults = _defaults(tree)
    out = []
    for name in ORDER:
        node = _function(tree, name)
        if _src(node.args) != PARAMS[name]:
            raise Refuse(f'{name}: parameters `{_src(node.args)}`')
        fn = Fn(name, node, defaults)
        sig = ''
        if name not in NO_FUEL:
            fn.used.add('fuel')
            sig += ' (fuel : nat)'
        for a in node.args.args:
            ty = PARAM_TYPES[a.arg]
            if gallina_valued(ty):
                fn.used.add(a.arg)
                fn.setenv(a.arg, a.arg, ty)
                sig += f' ({a.arg} : {coq_type(ty)})'
            else:
                fn.setenv(a.arg, None, ty)
        body = fn.stmts(node.body, None)
        rty = coq_type(RET[name])
        if fn.partial:
            rty = f'option ({rty})'
        out += fn.loops
        out.append(f'Definition {GEN_NAME[name]}_gen{sig}\n  : {rty} :=\n'
                   + _indent(body) + '.')
    return '\n\n'.join(out)


HEADER = '''(* GENERATED by tools/vlib/cover_ccgen.py from omega/symbolic/cover.py in the
   working tree of /repo.  Do not edit; regenerated on every check run. *)
From Coq Require Import List ZArith Bool Arith.
Import ListNotations.
From Omega Require Import L5Cover.Boxes L5Cover.MinCover L5Cover.CoverEnum.

(* `x != xold` where xold is None before the first iteration *)
Definition set_eq_opt (a : list box) (o : option (list box)) : bool :=
  match o with None => false | Some b => same_setb a b end.

(* cover._floor, tied by its pinned source text: the set of ceilings of the
   signatures (signatures=True) / of floors of the primes *)
Definition floor_prim (rs : ranges) (signatures : bool)
  (p_is_signature p_is_prime : list box) : list box :=
  if signatures then dedup (map (ceil rs p_is_prime) p_is_signature)
  else dedup (map (floor rs p_is_signature) p_is_prime).

Section Gen.
Variable rs : ranges.
Variable pick : list box -> option box.

'''
FOOTER = '\n\nEnd Gen.\n'


def cover_text(repo):
    path = os.path.join(repo, 'omega/symbolic/cover.py')
    return HEADER + translate(path) + FOOTER


def ensure(ctx):
    """Tie T for the functions below the branch-and-bound skeleton (used by
    the C09 and C10 plug-ins): translate them from the working tree
    (fail-closed) and re-prove that the translation equals the hand model."""
    from vlib.core import Broken, REPO
    try:
        text = cover_text(REPO)
    except Refuse as e:
        raise Broken('translator', f'omega/symbolic/cover.py: {e}')
    except SyntaxError as e:
        raise Broken('translator', f'omega/symbolic/cover.py: {e}')
    ctx.write_gen('gen/CoverCCGen.v', text)
    ctx.prove('GenProofs/CoverCCBridge.v', timeout=600)


TRUSTED = (
    'tie T (below the skeleton): cover._cyclic_core_fixpoint, cyclic_core, '
    '_independent_set, _lower_bound, _some_cover, _upper_bound, unfloors and '
    '_max_transpose are translated on every run by tools/vlib/cover_ccgen.py '
    'into gen/CoverCCGen.v over list operations (inter, diff, union, filter, '
    'anyb, box_leb, pick, same_setb, maxima; loops as Fixpoints on fuel / on '
    'the enumerated list) and GenProofs/CoverCCBridge.v proves them EQUAL to '
    'MinCover.cc_loop / cyclic_core, indep_size, some_cover, unfloors, '
    'max_ceilings / max_floors.  Trusted as stated: the fixed table mapping '
    'dd operations (let, exist, pick, assign_from, &, |, ~) to list '
    'operations; _floor, _maxima and _contains_covered are tied to the '
    'primitives floor_prim / maxima by their pinned source text (any change '
    'refuses); statements that log, time or re-check invariants are skipped '
    'by exact text with a recorded justification')


if __name__ == '__main__':
    import sys
    print(cover_text(sys.argv[1] if len(sys.argv) > 1 else '/repo'))
