(* L7 / SynthCheck: the comparison evaluated inside Coq for tie H of C14.
   Inputs: what the REAL make_functions was given (relation table, chosen
   output bits), the iteration orders it used, and what it returned
   (function / care tables, the relation passed to each extract_function).
   Output: one Boolean per aspect.  No proofs here. *)
From Coq Require Import List Bool Arith NArith.
Import ListNotations.
From Omega Require Import L7Codegen.Pred L7Codegen.Synth.

Fixpoint forallb2 {A B} (f : A -> B -> bool) (l : list A) (m : list B) : bool :=
  match l, m with
  | [], [] => true
  | x :: l, y :: m => f x y && forallb2 f l m
  | _, _ => false
  end.

Record step_rec := mk_step {
  s_y : var;              (* output bit extracted at this step *)
  s_r : pred;             (* relation given to extract_function *)
  s_in0 : list var;       (* inputs = support(p) | support(n) before the loop *)
  s_p : pred;             (* final cofactor p (before restrict) *)
  s_g : pred;
  s_care : pred }.

Section Check.
Variable n : nat.
Variable restrict : var -> pred -> pred -> pred.

Fixpoint trace (r : pred) (order : list (var * list var)) (outputs : list var)
    : list step_rec :=
  match order with
  | [] => []
  | (yp, zs) :: rest =>
      let outputs' := remove_var yp outputs in
      let pn0 := cofactors n r yp outputs' in
      let pn := widen n zs pn0 in
      let care := care_of n pn in
      let g := restrict yp (fst pn) care in
      mk_step yp r (inputs_of n pn0) (fst pn) g care
        :: trace (subst n r yp g) rest outputs'
  end.
End Check.

(* `restrict` instantiated by the functions the real CUDD path returned *)
Definition restrict_of (gs : list (var * pred)) : var -> pred -> pred -> pred :=
  fun y p _ =>
    match find (fun e => Nat.eqb (fst e) y) gs with
    | Some e => snd e
    | None => p
    end.

Definition check_instance (n : nat) (cudd : bool) (T : N) (vrs : list var)
    (order : list (var * list var)) (real : list (var * (N * N)))
    (rels : list N) : list bool :=
  let r := of_table n T in
  let restrict :=
    if cudd then restrict_of (map (fun e => (fst e, of_table n (fst (snd e)))) real)
    else no_restrict in
  let tr := trace n restrict r order (outputs_of n r vrs) in
  [ (* functions are returned exactly for set(vrs) & support(r) *)
    same_set (map fst order) (outputs_of n r vrs)
    && same_set (map fst real) (outputs_of n r vrs);
    (* the inputs tried are exactly support(p) | support(n) *)
    forallb2 (fun s o => Nat.eqb (s_y s) (fst o) && same_set (snd o) (s_in0 s)) tr order;
    (* the relation given to each extract_function *)
    forallb2 (fun s t => agrees_table n (s_r s) t) tr rels;
    (* care sets *)
    forallb2 (fun s e => Nat.eqb (s_y s) (fst e)
                         && agrees_table n (s_care s) (snd (snd e))) tr real;
    (* functions: equal (no-CUDD branch) / restrict contract (CUDD branch) *)
    forallb2 (fun s e =>
      if cudd then
        let g := of_table n (fst (snd e)) in
        agree_on n (s_care s) g (s_p s)
        && forallb (fun v => implb (depends n g v)
                               (depends n (s_p s) v || depends n (s_care s) v))
                   (seq 0 n)
      else agrees_table n (s_g s) (fst (snd e))) tr real;
    (* the assertions of make_functions hold in the model *)
    asserts_ok n restrict r vrs order ].
