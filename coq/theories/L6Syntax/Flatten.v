(* L6 Syntax — model of the `flatten` methods of omega.logic.ast.Nodes and
   astutils (the printer that `print then re-parse` uses), at token level
   and at character level.  Model file: no proofs. *)
From Coq Require Import List String Ascii NArith Bool.
From Omega Require Import L6Syntax.Tokens.
Import ListNotations.
Local Open Scope string_scope.

(* ---- character level, exactly the strings the Python methods build ----
   Terminal.flatten            = value
   astutils.Operator.flatten   = "( op a, b )"        (used by Nodes.Unary)
   Nodes.Binary.flatten        = "( l op r )"
   Nodes.Operator.flatten      = "op(a, b, c)"                              *)
Fixpoint join (sep : string) (l : list string) : string :=
  match l with
  | [] => ""
  | [x] => x
  | x :: r => x ++ sep ++ join sep r
  end.

Fixpoint flatten_str (t : tree) : string :=
  match t with
  | Term _ v => v
  | Un op x => "( " ++ op ++ " " ++ flatten_str x ++ " )"
  | Bin _ op l r => "( " ++ flatten_str l ++ " " ++ op ++ " " ++ flatten_str r ++ " )"
  | Opr op args => op ++ "(" ++ join ", " (map flatten_str args) ++ ")"
  | Lst xs => "[" ++ join ", " (map flatten_str xs) ++ "]"   (* never printed by omega *)
  end.

(* ---- token level ---- *)
Local Open Scope list_scope.
Section Flat.
(* the token the lexer produces for an operator spelling *)
Variable optok : string -> token.

Definition LP := Tok "LPAREN" "(".
Definition RP := Tok "RPAREN" ")".
Definition CM := Tok "COMMA" ",".

Definition is_neg (v : string) : bool :=
  match v with
  | String c _ => Ascii.eqb c "-"%char
  | EmptyString => false
  end.
Definition tail_str (v : string) : string :=
  match v with String _ r => r | EmptyString => EmptyString end.

Definition term_toks (k : tkind) (v : string) : list token :=
  match k with
  | KVar => [Tok "NAME" v]
  | KOpname => [Tok "NAME" v]
  | KBool => [optok v]
  | KNum => if is_neg v then [Tok "MINUS" "-"; Tok "NUMBER" (tail_str v)]
            else [Tok "NUMBER" v]
  | KStr => (* value is "name" with the quotes *)
      [Tok "DQUOTES" """";
       Tok "NAME" (substring 1 (String.length v - 2) v);
       Tok "DQUOTES" """"]
  end.

Fixpoint flatten (t : tree) : list token :=
  match t with
  | Term k v => term_toks k v
  | Un op x => LP :: optok op :: flatten x ++ [RP]
  | Bin _ op l r => LP :: flatten l ++ optok op :: flatten r ++ [RP]
  | Opr op args =>
      optok op :: LP ::
      (fix go (l : list tree) : list token :=
         match l with
         | [] => []
         | [x] => flatten x
         | x :: r => flatten x ++ CM :: go r
         end) args ++ [RP]
  | Lst xs => []
  end.

End Flat.
