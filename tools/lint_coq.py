"""Refuse forbidden vernacular anywhere in the Coq development."""
import os
import re
import sys
sys.path.insert(0, os.path.dirname(__file__))
from vlib.core import strip_comments, COQ

BAD = re.compile(
    r'\b(Admitted|admit|Axiom|Axioms|Parameter|Parameters|Conjecture|'
    r'Conjectures)\b|Admit\s+Obligations|Unset\s+Guard|bypass_check|'
    r'type-in-type|impredicative-set|Unset\s+Universe\s+Checking|'
    r'Unset\s+Positivity')
SECTION_ONLY = re.compile(r'^\s*(Variable|Variables|Hypothesis|Hypotheses|Context)\b')
bad = 0
for d in ('theories', 'GenProofs', 'Properties'):
    for root, _, files in os.walk(os.path.join(COQ, d)):
        for fn in files:
            if not fn.endswith('.v'):
                continue
            p = os.path.join(root, fn)
            src = strip_comments(open(p).read())
            depth = 0
            for i, line in enumerate(src.split('\n'), 1):
                if re.match(r'\s*(Section|Module)\b', line):
                    depth += 1
                if re.match(r'\s*End\b', line):
                    depth -= 1
                if BAD.search(line):
                    print(f'{p}:{i}: forbidden: {line.strip()}')
                    bad += 1
                if SECTION_ONLY.match(line) and depth <= 0:
                    print(f'{p}:{i}: Variable/Hypothesis outside a section')
                    bad += 1
sys.exit(1 if bad else 0)
