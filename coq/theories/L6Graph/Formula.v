(* L6Graph / Formula: the formulas that omega/symbolic/logicizer.py assembles
   as strings, as an AST with an evaluator, and omega.logic.syntax.conj/disj
   (`_associative_op` + `_recurse_op`: balanced folding with TRUE/FALSE
   absorption) as functions producing that AST.

   MODEL ONLY (no proofs here; see FormulaProofs.v).

   Strings are modelled by the formula they denote:
     'TRUE' / 'FALSE'              FTrue / FFalse  (the only strings the
                                   absorption test `x == true` can hit:
                                   every composite string starts with '(')
     a user formula of an edge     FELab l   (opaque; meaning esem l s s')
     a user formula of a node      FNLab l   (opaque; meaning nsem l s)
     `(k = v)`, `(k <=> TRUE)`     FAsg primed k v   (`_assign`; Booleans
                                   are the integers 0/1 of the valuation)
     `(nd' = nd)`                  FStutter nd
     `~ (a)`, `(a) /\ (b)`, ...    FNot, FAnd, FOr, FImp
     `((a)')`                      FPrime a  (next-state value of a
                                   state predicate)
   The empty string is `None` among the items given to conj/disj. *)
From Coq Require Import List Bool ZArith Arith.
Import ListNotations.

Definition var := nat.
Definition val := var -> Z.

Section Form.
Variables EL NL : Type.

Inductive form : Type :=
| FTrue
| FFalse
| FELab (l : EL)
| FNLab (l : NL)
| FAsg (primed : bool) (k : var) (v : Z)
| FStutter (k : var)
| FNot (f : form)
| FAnd (f g : form)
| FOr (f g : form)
| FImp (f g : form)
| FPrime (f : form).

Variable esem : EL -> val -> val -> bool.
Variable nsem : NL -> val -> bool.

(* [eval f s s']: truth of f at current valuation s and next valuation s'.
   [FPrime f] is only ever built around state predicates (node labels have no
   primed parts by their type, see Logicizer.v); there it means "f at s'". *)
Fixpoint eval (f : form) (s s' : val) : bool :=
  match f with
  | FTrue => true
  | FFalse => false
  | FELab l => esem l s s'
  | FNLab l => nsem l s
  | FAsg p k v => Z.eqb (if p then s' k else s k) v
  | FStutter k => Z.eqb (s' k) (s k)
  | FNot a => negb (eval a s s')
  | FAnd a b => eval a s s' && eval b s s'
  | FOr a b => eval a s s' || eval b s s'
  | FImp a b => implb (eval a s s') (eval b s s')
  | FPrime a => eval a s' s'
  end.

Definition is_FTrue (f : form) : bool :=
  match f with FTrue => true | _ => false end.
Definition is_FFalse (f : form) : bool :=
  match f with FFalse => true | _ => false end.

(* c - a = 2 ** ((n - 1).bit_length() - 1) for n >= 2 *)
Definition split_point (n : nat) : nat := 2 ^ (Nat.log2 (n - 1)).

(* `_recurse_op(a, b, h, true, false, glue)` on the sublist h[a:b];
   [ctrl] is the code's `true` (controlling value), [idn] its `false`
   (neutral value, also the result for the empty list).  The sublists
   h[a:c], h[c:b] are [firstn c] and [skipn c].  fuel >= length h is never
   exhausted (FormulaProofs.recurse_op_fuel). *)
Fixpoint recurse_op (fuel : nat) (is_ctrl is_idn : form -> bool)
    (ctrl idn : form) (mk : form -> form -> form) (h : list form) : form :=
  match fuel with
  | O => idn
  | S fuel' =>
    match h with
    | [] => idn
    | [x] => x
    | _ =>
      let c := split_point (length h) in
      let x := recurse_op fuel' is_ctrl is_idn ctrl idn mk (firstn c h) in
      let y := recurse_op fuel' is_ctrl is_idn ctrl idn mk (skipn c h) in
      if is_ctrl x || is_ctrl y then ctrl
      else if is_idn x then y
      else if is_idn y then x
      else mk x y
    end
  end.

(* `h = [x for x in iterable if x]` *)
Fixpoint nonempty (items : list (option form)) : list form :=
  match items with
  | [] => []
  | None :: r => nonempty r
  | Some f :: r => f :: nonempty r
  end.

(* `conj`: true, false = 'FALSE', 'TRUE' after the swap *)
Definition conj (items : list (option form)) : form :=
  let h := nonempty items in
  recurse_op (length h) is_FFalse is_FTrue FFalse FTrue FAnd h.

(* `disj` *)
Definition disj (items : list (option form)) : form :=
  let h := nonempty items in
  recurse_op (length h) is_FTrue is_FFalse FTrue FFalse FOr h.

End Form.

Arguments FTrue {EL NL}.
Arguments FFalse {EL NL}.
Arguments FELab {EL NL} l.
Arguments FNLab {EL NL} l.
Arguments FAsg {EL NL} primed k v.
Arguments FStutter {EL NL} k.
Arguments FNot {EL NL} f.
Arguments FAnd {EL NL} f g.
Arguments FOr {EL NL} f g.
Arguments FImp {EL NL} f g.
Arguments FPrime {EL NL} f.
Arguments eval {EL NL} esem nsem f s s'.
Arguments is_FTrue {EL NL} f.
Arguments is_FFalse {EL NL} f.
Arguments recurse_op {EL NL} fuel is_ctrl is_idn ctrl idn mk h.
Arguments nonempty {EL NL} items.
Arguments conj {EL NL} items.
Arguments disj {EL NL} items.
