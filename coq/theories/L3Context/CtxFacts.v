(* L3 / CtxFacts: facts about the model of fol.Context (Ctx.v).

   Conventions.  [agree l a a'] : two bit assignments coincide on the bits of
   l.  [uses_only l p] : the predicate p reads only bits of l (a BDD of a
   manager whose variables are l).  All semantic statements about a BDD u of a
   context with table t assume [uses_only (all_bits t) u]; [of_tt_uses_only]
   shows every BDD handed to the model by the correspondence satisfies it, and
   the operations preserve it. *)
From Coq Require Import ZArith List Bool String Lia Permutation.
From Omega Require Import L0Bits.Bits L0Bits.BitsFacts L3Context.Ctx.
Import ListNotations.
Open Scope Z_scope.

(* ---- equalities -------------------------------------------------------------- *)
Lemma bit_eqb_spec (a b : bit) : reflect (a = b) (bit_eqb a b).
Proof.
  destruct a as [x i], b as [y j]. unfold bit_eqb. cbn [fst snd].
  destruct (String.eqb_spec x y), (Nat.eqb_spec i j); cbn [andb]; constructor;
    congruence.
Qed.

Lemma bit_eqb_refl b : bit_eqb b b = true.
Proof. destruct (bit_eqb_spec b b); congruence. Qed.

Lemma upd_same a b v : upd a b v b = v.
Proof. unfold upd. rewrite bit_eqb_refl. reflexivity. Qed.

Lemma upd_other a b v b' : b' <> b -> upd a b v b' = a b'.
Proof. intro H. unfold upd. destruct (bit_eqb_spec b' b); congruence. Qed.

(* ---- generic dictionaries ------------------------------------------------------ *)
Section Dict.
Context {K V : Type} (keq : K -> K -> bool).
Hypothesis keq_spec : forall a b, reflect (a = b) (keq a b).

Lemma dict_get_set k k' (v : V) d :
  dict_get keq k (dict_set keq k' v d) =
  if keq k k' then Some v else dict_get keq k d.
Proof.
  induction d as [|[k0 v0] r IH]; cbn [dict_set dict_get].
  - reflexivity.
  - destruct (keq_spec k' k0).
    + subst. cbn [dict_get]. destruct (keq_spec k k0); reflexivity.
    + cbn [dict_get]. rewrite IH.
      destruct (keq_spec k k0), (keq_spec k k'); subst; congruence.
Qed.

Lemma dict_set_keys k (v : V) d :
  forall x, In x (map fst (dict_set keq k v d)) <-> x = k \/ In x (map fst d).
Proof.
  induction d as [|[k0 v0] r IH]; intro x; cbn [dict_set map fst In].
  - intuition.
  - destruct (keq_spec k k0).
    + subst. cbn [map fst In]. intuition.
    + cbn [map fst In]. rewrite IH. intuition.
Qed.

Lemma dict_set_nodup k (v : V) d :
  NoDup (map fst d) -> NoDup (map fst (dict_set keq k v d)).
Proof.
  induction d as [|[k0 v0] r IH]; intro H; cbn [dict_set map fst].
  - constructor; [intros []|constructor].
  - inversion H; subst. destruct (keq_spec k k0).
    + subst. cbn [map fst]. constructor; auto.
    + cbn [map fst]. constructor; auto.
      rewrite dict_set_keys. intros [E|E]; [congruence|auto].
Qed.

Lemma dict_get_update k (d e : list (K * V)) :
  dict_get keq k (dict_update keq d e) =
  match dict_get keq k (rev e) with
  | Some v => Some v
  | None => dict_get keq k d
  end.
Proof.
  unfold dict_update. revert d; induction e as [|[k0 v0] e IH]; intro d.
  - reflexivity.
  - cbn [fold_left fst snd rev]. rewrite IH, dict_get_set.
    assert (G : forall l, dict_get keq k (l ++ [(k0, v0)]) =
              match dict_get keq k l with
              | Some v => Some v
              | None => if keq k k0 then Some v0 else None
              end).
    { induction l as [|[k1 v1] l IHl]; cbn [app dict_get]; [reflexivity|].
      destruct (keq k k1); auto. }
    rewrite G. destruct (dict_get keq k (rev e)); auto.
    destruct (keq k k0); auto.
Qed.

Lemma dict_update_nodup (d e : list (K * V)) :
  NoDup (map fst d) -> NoDup (map fst (dict_update keq d e)).
Proof.
  unfold dict_update. revert d; induction e as [|[k0 v0] e IH]; intros d H; auto.
  cbn [fold_left]. apply IH. apply dict_set_nodup; auto.
Qed.

Lemma dict_update_keys (d e : list (K * V)) x :
  In x (map fst (dict_update keq d e)) <-> In x (map fst d) \/ In x (map fst e).
Proof.
  unfold dict_update. revert d; induction e as [|[k0 v0] e IH]; intro d.
  - cbn. intuition.
  - cbn [fold_left fst snd map In]. rewrite IH, dict_set_keys. intuition.
Qed.

Lemma dict_get_in k (v : V) d : dict_get keq k d = Some v -> In (k, v) d.
Proof.
  induction d as [|[k0 v0] r IH]; cbn [dict_get]; [discriminate|].
  destruct (keq_spec k k0).
  - intro E; inversion E; subst. left; reflexivity.
  - intro E. right. auto.
Qed.

Lemma dict_get_nodup_in k (v : V) d :
  NoDup (map fst d) -> In (k, v) d -> dict_get keq k d = Some v.
Proof.
  induction d as [|[k0 v0] r IH]; intros ND Hin; [destruct Hin|].
  inversion ND; subst. cbn [dict_get]. destruct Hin as [E|Hin].
  - inversion E; subst. destruct (keq_spec k k); congruence.
  - destruct (keq_spec k k0).
    + subst. exfalso. apply H1. apply in_map_iff. exists (k0, v). auto.
    + auto.
Qed.

Lemma dict_get_none k (d : list (K * V)) :
  dict_get keq k d = None <-> ~ In k (map fst d).
Proof.
  induction d as [|[k0 v0] r IH]; cbn [dict_get map fst In].
  - intuition.
  - destruct (keq_spec k k0).
    + subst. split; [discriminate|]. intro H. exfalso. apply H. auto.
    + rewrite IH. intuition.
Qed.

Lemma mem_spec k (l : list K) : mem keq k l = true <-> In k l.
Proof.
  induction l as [|x r IH]; cbn [mem In].
  - split; [discriminate|tauto].
  - rewrite orb_true_iff, IH. destruct (keq_spec k x); intuition; try congruence.
Qed.

Lemma set_add_in k (l : list K) x : In x (set_add keq k l) <-> x = k \/ In x l.
Proof.
  unfold set_add. destruct (mem keq k l) eqn:E.
  - apply mem_spec in E. intuition. subst; auto.
  - rewrite in_app_iff. cbn. intuition.
Qed.


Lemma set_union_in (a b : list K) x :
  In x (set_union keq a b) <-> In x a \/ In x b.
Proof.
  unfold set_union. revert a; induction b as [|k b IH]; intro a.
  - cbn. intuition.
  - cbn [fold_left In]. rewrite IH, set_add_in. intuition.
Qed.

Lemma subset_spec (a b : list K) :
  subset keq a b = true <-> (forall x, In x a -> In x b).
Proof.
  unfold subset. rewrite forallb_forall.
  split; intros H x Hx; specialize (H x Hx); apply mem_spec; auto.
Qed.
End Dict.

Lemma string_eqb_spec' (a b : string) : reflect (a = b) (String.eqb a b).
Proof. apply String.eqb_spec. Qed.

Lemma nodup_snoc {A} (l : list A) x : NoDup l -> ~ In x l -> NoDup (l ++ [x]).
Proof.
  induction l; intros ND Hx; cbn.
  - constructor; [intros []|constructor].
  - inversion ND; subst. constructor.
    + rewrite in_app_iff. cbn. intros [H|[H|[]]]; [auto|].
      subst. apply Hx. left; auto.
    + apply IHl; auto. intro; apply Hx; right; auto.
Qed.

Lemma set_add_nodup {K} (keq : K -> K -> bool)
    (keq_spec : forall a b, reflect (a = b) (keq a b)) k (l : list K) :
  NoDup l -> NoDup (set_add keq k l).
Proof.
  intro H. unfold set_add. destruct (mem keq k l) eqn:E; auto.
  apply nodup_snoc; auto. rewrite <- (mem_spec keq keq_spec). congruence.
Qed.

Lemma set_union_nodup {K} (keq : K -> K -> bool)
    (keq_spec : forall a b, reflect (a = b) (keq a b)) (a b : list K) :
  NoDup a -> NoDup (set_union keq a b).
Proof.
  unfold set_union. revert a; induction b as [|k b IH]; intros a H; auto.
  cbn [fold_left]. apply IH. apply set_add_nodup; auto.
Qed.

(* ---- assignments that coincide on a set of bits -------------------------------- *)
Definition agree (l : list bit) (a a' : bitasg) : Prop :=
  forall b, In b l -> a b = a' b.
Definition uses_only (l : list bit) (p : pred) : Prop :=
  forall a a', agree l a a' -> p a = p a'.
Definition exteq (a a' : bitasg) : Prop := forall b, a b = a' b.

Lemma uses_only_exteq l p a a' : uses_only l p -> exteq a a' -> p a = p a'.
Proof. intros H E. apply H. intros b _. apply E. Qed.

Lemma uses_only_incl l l' p :
  (forall b, In b l -> In b l') -> uses_only l p -> uses_only l' p.
Proof. intros Hi H a a' Ha. apply H. intros b Hb. apply Ha. auto. Qed.

Lemma asgs_from_spec bits : forall base a0,
  In a0 (asgs_from base bits) -> forall b, ~ In b bits -> a0 b = base b.
Proof.
  induction bits as [|c r IH]; intros base a0 Hin b Hb.
  - destruct Hin as [<-|[]]. reflexivity.
  - cbn [asgs_from] in Hin. apply in_app_iff in Hin.
    assert (b <> c) by (intro; subst; apply Hb; left; auto).
    destruct Hin as [Hin|Hin]; apply IH with (b := b) in Hin;
      try (intro; apply Hb; right; auto); rewrite Hin; apply upd_other; auto.
Qed.

Lemma asgs_from_complete bits : forall base (a : bitasg),
  exists a0, In a0 (asgs_from base bits) /\
    (forall b, In b bits -> a0 b = a b) /\
    (forall b, ~ In b bits -> a0 b = base b).
Proof.
  induction bits as [|c r IH]; intros base a.
  - exists base. cbn. intuition.
  - destruct (IH (upd base c (a c)) a) as (a0 & Hin & Hon & Hoff).
    exists a0. split; [|split].
    + cbn [asgs_from]. apply in_app_iff. destruct (a c); auto.
    + intros b [<-|Hb]; [|auto].
      destruct (in_dec (fun x y => reflect_dec _ _ (bit_eqb_spec x y)) c r) as [Hc|Hc].
      * auto.
      * rewrite Hoff by auto. apply upd_same.
    + intros b Hb.
      assert (b <> c) by (intro; subst; apply Hb; left; auto).
      rewrite Hoff by (intro; apply Hb; right; auto). apply upd_other; auto.
Qed.

Lemma all_asgs_complete bits (a : bitasg) :
  exists a0, In a0 (all_asgs bits) /\ agree bits a0 a.
Proof.
  destruct (asgs_from_complete bits zero_asg a) as (a0 & H1 & H2 & _).
  exists a0. split; auto.
Qed.

(* quantification over the tabulated assignments = over all assignments *)
Lemma forallb_all_asgs univ (q : bitasg -> bool) :
  (forall a a', agree univ a a' -> q a = q a') ->
  (forallb q (all_asgs univ) = true <-> forall a, q a = true).
Proof.
  intro Hq. rewrite forallb_forall. split.
  - intros H a. destruct (all_asgs_complete univ a) as (a0 & Hin & Hag).
    rewrite <- (Hq a0 a Hag). auto.
  - intros H a _. auto.
Qed.

Lemma existsb_all_asgs univ (q : bitasg -> bool) :
  (forall a a', agree univ a a' -> q a = q a') ->
  (existsb q (all_asgs univ) = true <-> exists a, q a = true).
Proof.
  intro Hq. rewrite existsb_exists. split.
  - intros (a & _ & H). eauto.
  - intros (a & H). destruct (all_asgs_complete univ a) as (a0 & Hin & Hag).
    exists a0. split; auto. rewrite (Hq a0 a Hag). auto.
Qed.

Lemma agree_upd l a a' b v : agree l a a' -> agree l (upd a b v) (upd a' b v).
Proof.
  intros H c Hc. unfold upd. destruct (bit_eqb c b); auto.
Qed.

(* ---- support --------------------------------------------------------------------- *)
Definition depends_on (p : pred) (b : bit) : Prop :=
  exists a, p (upd a b true) <> p (upd a b false).

Lemma depends_b_spec univ p b : uses_only univ p ->
  (depends_b univ p b = true <-> depends_on p b).
Proof.
  intro Hu. unfold depends_b, depends_on.
  rewrite existsb_all_asgs.
  - split; intros (a & H); exists a.
    + destruct (p (upd a b true)), (p (upd a b false)); cbn in H; congruence.
    + destruct (p (upd a b true)), (p (upd a b false)); cbn; congruence.
  - intros a a' Ha. f_equal; apply Hu; apply agree_upd; auto.
Qed.

Theorem bsupport_spec univ p b : uses_only univ p ->
  (In b (bsupport univ p) <-> In b univ /\ depends_on p b).
Proof.
  intro Hu. unfold bsupport. rewrite filter_In, depends_b_spec by auto. reflexivity.
Qed.

Definition indep (p : pred) (b : bit) : Prop := forall a v, p (upd a b v) = p a.

Lemma not_depends_indep univ p b : uses_only univ p ->
  ~ depends_on p b -> indep p b.
Proof.
  intros Hu Hn a v.
  assert (E : p (upd a b true) = p (upd a b false)).
  { destruct (bool_dec (p (upd a b true)) (p (upd a b false))); auto.
    exfalso. apply Hn. exists a. auto. }
  assert (X : p (upd a b (a b)) = p a).
  { apply uses_only_exteq with (l := univ); auto.
    intro c. unfold upd. destruct (bit_eqb_spec c b); subst; auto. }
  destruct v, (a b) eqn:Eab; congruence.
Qed.

Lemma outside_indep univ p b : uses_only univ p -> ~ In b univ -> indep p b.
Proof.
  intros Hu Hn a v. apply Hu. intros c Hc. apply upd_other. intro; subst; auto.
Qed.

Lemma indep_not_in_support univ p b : uses_only univ p ->
  ~ In b (bsupport univ p) -> indep p b.
Proof.
  intros Hu Hn.
  destruct (in_dec (fun x y => reflect_dec _ _ (bit_eqb_spec x y)) b univ) as [Hi|Hi].
  - apply (not_depends_indep univ); auto. intro Hd. apply Hn.
    apply bsupport_spec; auto.
  - apply (outside_indep univ); auto.
Qed.

(* overwrite the bits of l that satisfy [sel] with the values of a' *)
Fixpoint overwrite (sel : bit -> bool) (l : list bit) (a a' : bitasg) : bitasg :=
  match l with
  | [] => a
  | b :: r => if sel b then upd (overwrite sel r a a') b (a' b)
              else overwrite sel r a a'
  end.

Lemma overwrite_val sel l a a' b :
  overwrite sel l a a' b = if sel b && existsb (bit_eqb b) l then a' b else a b.
Proof.
  induction l as [|c r IH]; cbn [overwrite existsb].
  - rewrite andb_false_r. reflexivity.
  - destruct (sel c) eqn:Ec.
    + unfold upd. destruct (bit_eqb_spec b c).
      * subst. rewrite Ec. reflexivity.
      * rewrite IH. reflexivity.
    + rewrite IH. destruct (bit_eqb_spec b c); [subst; rewrite Ec|]; reflexivity.
Qed.

Lemma overwrite_pres sel l p a a' :
  (forall b, sel b = true -> indep p b) -> p (overwrite sel l a a') = p a.
Proof.
  intro H. induction l as [|c r IH]; cbn [overwrite]; auto.
  destruct (sel c) eqn:Ec; auto. rewrite H by auto. auto.
Qed.

(* a predicate reads only the bits of its support *)
Theorem uses_only_support univ p : uses_only univ p ->
  uses_only (bsupport univ p) p.
Proof.
  intros Hu a a' Ha.
  set (sel := fun b => negb (mem bit_eqb b (bsupport univ p))).
  rewrite <- (overwrite_pres sel univ p a a').
  2:{ intros b Hb. apply (indep_not_in_support univ); auto.
      unfold sel in Hb. rewrite <- (mem_spec bit_eqb bit_eqb_spec).
      destruct (mem bit_eqb b (bsupport univ p)); cbn in Hb; congruence. }
  apply Hu. intros b Hb. rewrite overwrite_val.
  assert (existsb (bit_eqb b) univ = true).
  { apply existsb_exists. exists b. split; auto. apply bit_eqb_refl. }
  rewrite H, andb_true_r. unfold sel.
  destruct (mem bit_eqb b (bsupport univ p)) eqn:E; cbn; auto.
  apply Ha. apply (mem_spec bit_eqb bit_eqb_spec). auto.
Qed.

Lemma bsupport_incl univ p b : In b (bsupport univ p) -> In b univ.
Proof. unfold bsupport. rewrite filter_In. tauto. Qed.

(* ---- the truth tables of the correspondence satisfy uses_only ------------------- *)
Lemma of_tt_uses_only bits t : uses_only bits (of_tt bits t).
Proof.
  unfold of_tt. revert bits; induction t as [b|lo IHlo hi IHhi|t' IH];
    intros bits a a' Ha; cbn [eval_tt]; [reflexivity| |].
  - destruct bits as [|c r]; [reflexivity|].
    rewrite (Ha c) by (left; auto).
    destruct (a' c); [apply IHhi|apply IHlo]; intros x Hx; apply Ha; right; auto.
  - destruct bits as [|c r]; [reflexivity|].
    apply IH. intros x Hx; apply Ha; right; auto.
Qed.

(* ---- Boolean operations ----------------------------------------------------------- *)
Lemma uses_only_bnot l p : uses_only l p -> uses_only l (bnot p).
Proof. intros H a a' Ha. unfold bnot. f_equal. auto. Qed.

Lemma uses_only_bin l (f : bool -> bool -> bool) p q :
  uses_only l p -> uses_only l q -> uses_only l (fun a => f (p a) (q a)).
Proof. intros Hp Hq a a' Ha. rewrite (Hp a a' Ha), (Hq a a' Ha). reflexivity. Qed.

(* ---- quantification at the bit level ----------------------------------------------- *)
Lemma bexist_spec univ bs p : uses_only univ p -> forall a,
  bexist bs p a = true <->
  exists a', (forall b, ~ In b bs -> a' b = a b) /\ p a' = true.
Proof.
  intro Hu. induction bs as [|c r IH]; intro a; cbn [bexist fold_right].
  - split.
    + intro H. exists a. auto.
    + intros (a' & Hag & H). rewrite <- H. apply (uses_only_exteq univ); auto.
      intro b. symmetry. apply Hag. intros [].
  - fold (bexist r p). unfold bexist1. rewrite orb_true_iff, !IH. split.
    + intros [(a' & Hag & H)|(a' & Hag & H)]; exists a'; split; auto;
        intros b Hb; rewrite Hag by (intro; apply Hb; right; auto);
        apply upd_other; intro; subst; apply Hb; left; auto.
    + intros (a' & Hag & H).
      assert (G : forall b, ~ In b r -> a' b = upd a c (a' c) b).
      { intros b Hb. destruct (bit_eqb_spec b c) as [->|Hn].
        - rewrite upd_same. reflexivity.
        - rewrite upd_other by auto. apply Hag. intros [E|E]; [congruence|auto]. }
      destruct (a' c); [right|left]; exists a'; auto.
Qed.

Lemma uses_only_bexist univ bs p : uses_only univ p -> uses_only univ (bexist bs p).
Proof.
  intro Hu. induction bs as [|c r IH]; cbn [bexist fold_right]; auto.
  fold (bexist r p). intros a a' Ha. unfold bexist1.
  f_equal; apply IH; apply agree_upd; auto.
Qed.

(* ---- tables ------------------------------------------------------------------------- *)
Definition wf_tbl (t : tbl) : Prop :=
  NoDup (map fst t) /\ forall x h, In (x, DInt h) t -> wf_hint h.

Definition in_range (t : tbl) (f : fasg) : Prop :=
  forall x d, In (x, d) t -> val_in_range d (f x) = true.

Lemma tlookup_in t x d : tlookup x t = Some d -> In (x, d) t.
Proof. apply (dict_get_in String.eqb string_eqb_spec'). Qed.

Lemma in_tlookup t x d : NoDup (map fst t) -> In (x, d) t -> tlookup x t = Some d.
Proof. apply (dict_get_nodup_in String.eqb string_eqb_spec'). Qed.

Lemma in_bitnames x d b :
  In b (bitnames x d) <->
  fst b = x /\ match d with
               | DBool => snd b = 0%nat
               | DInt h => (snd b < wnat h)%nat
               end.
Proof.
  destruct b as [y i]. destruct d as [|h]; cbn [bitnames fst snd].
  - cbn. split; [intros [E|[]]; inversion E; auto | intros [-> ->]; auto].
  - rewrite in_map_iff. split.
    + intros (j & E & Hj). inversion E; subst. apply in_seq in Hj. split; auto; lia.
    + intros [-> Hi]. exists i. split; auto. apply in_seq. lia.
Qed.

Lemma in_all_bits t b :
  In b (all_bits t) <-> exists x d, In (x, d) t /\ In b (bitnames x d).
Proof.
  unfold all_bits. rewrite in_flat_map. split.
  - intros ([x d] & Hin & Hb). exists x, d. auto.
  - intros (x & d & Hin & Hb). exists (x, d). auto.
Qed.

Lemma zbits_map n z :
  zbits n z = map (fun i => Z.testbit z (Z.of_nat i)) (seq 0 n).
Proof.
  induction n.
  - reflexivity.
  - rewrite zbits_snoc, seq_S, map_app, IHn. reflexivity.
Qed.

Lemma nth_map_seq {A} (f : nat -> A) n i d : (i < n)%nat ->
  nth i (map f (seq 0 n)) d = f i.
Proof.
  intro Hi. rewrite (nth_indep _ d (f 0%nat)) by (rewrite map_length, seq_length; auto).
  rewrite map_nth, seq_nth by auto. reflexivity.
Qed.

Lemma encode_bitnames t f x h z :
  tlookup x t = Some (DInt h) -> f x = VZ z ->
  map (encode t f) (bitnames x (DInt h)) = encode_val h z.
Proof.
  intros Hl Hf. unfold encode_val. rewrite zbits_map. cbn [bitnames].
  rewrite map_map. apply map_ext. intro i. unfold encode. cbn [fst snd].
  rewrite Hl, Hf. reflexivity.
Qed.

(* decode after encode gives back the assignment (on declared variables) *)
Theorem decode_encode_f t f x d : wf_tbl t -> in_range t f -> In (x, d) t ->
  decode t (encode t f) x = f x.
Proof.
  intros [ND Hwf] Hr Hin. pose proof (in_tlookup t x d ND Hin) as Hl.
  specialize (Hr x d Hin). unfold decode. rewrite Hl.
  destruct d as [|h].
  - unfold encode. cbn [fst]. rewrite Hl.
    destruct (f x); cbn in Hr; [reflexivity|discriminate].
  - destruct (f x) as [|z] eqn:Hf; cbn in Hr; [discriminate|].
    rewrite (encode_bitnames t f x h z) by auto.
    rewrite decode_encode; auto. eapply Hwf; eauto.
Qed.

(* encode after decode gives back the bits (on declared bits) *)
Theorem encode_decode_b t a b : wf_tbl t -> In b (all_bits t) ->
  encode t (decode t a) b = a b.
Proof.
  intros [ND Hwf] Hb. apply in_all_bits in Hb. destruct Hb as (x & d & Hin & Hb).
  pose proof (in_tlookup t x d ND Hin) as Hl.
  apply in_bitnames in Hb. destruct Hb as [Hx Hi]. destruct b as [y i].
  cbn [fst snd] in *. subst y.
  unfold encode, decode. cbn [fst snd]. rewrite Hl.
  destruct d as [|h].
  - subst i. reflexivity.
  - assert (Hw : wf_hint h) by (eapply Hwf; eauto).
    destruct (decode_in_limits h (map a (bitnames x (DInt h))) Hw) as (z & D & _ & E).
    { cbn [bitnames]. rewrite !map_length, seq_length. reflexivity. }
    rewrite D. unfold encode_val in E.
    rewrite <- (zbits_nth (wnat h) z i Hi), E. cbn [bitnames].
    rewrite map_map. apply (nth_map_seq (fun j => a (x, j))). auto.
Qed.

Theorem decode_in_range t a : wf_tbl t -> in_range t (decode t a).
Proof.
  intros [ND Hwf] x d Hin. pose proof (in_tlookup t x d ND Hin) as Hl.
  unfold decode. rewrite Hl. destruct d as [|h]; [reflexivity|].
  assert (Hw : wf_hint h) by (eapply Hwf; eauto).
  destruct (decode_in_limits h (map a (bitnames x (DInt h))) Hw) as (z & D & I & _).
  { cbn [bitnames]. rewrite !map_length, seq_length. reflexivity. }
  rewrite D. exact I.
Qed.

(* every bit assignment is, on the declared bits, the refinement of an
   assignment of representable values *)
Corollary encode_decode_agree t a : wf_tbl t ->
  agree (all_bits t) (encode t (decode t a)) a.
Proof. intros H b Hb. apply encode_decode_b; auto. Qed.

Lemma sem_decode t u a : wf_tbl t -> uses_only (all_bits t) u ->
  sem t u (decode t a) = u a.
Proof. intros Hwf Hu. unfold sem. apply Hu. apply encode_decode_agree; auto. Qed.

(* encode reads f only at the variable of the bit *)
Lemma encode_local t f g b : f (fst b) = g (fst b) -> encode t f b = encode t g b.
Proof. intro H. unfold encode. rewrite H. reflexivity. Qed.

(* ---- bit_table / refine_vars ---------------------------------------------------------- *)
Lemma bit_table_spec vars t : (forall x, In x vars -> exists d, tlookup x t = Some d) ->
  exists bs, bit_table vars t = Some bs /\ NoDup bs /\
    forall b, In b bs <->
      exists x d, In x vars /\ tlookup x t = Some d /\ In b (bitnames x d).
Proof.
  induction vars as [|x r IH]; intro Hd.
  - exists []. split; [reflexivity|]. split; [constructor|].
    intro b. split; [intros []|intros (x & d & [] & _)].
  - destruct (Hd x (or_introl eq_refl)) as (d & Hl).
    destruct IH as (rest & E & ND & Hin); [intros; apply Hd; right; auto|].
    cbn [bit_table]. rewrite Hl, E.
    eexists. split; [reflexivity|]. split.
    + apply (set_union_nodup bit_eqb bit_eqb_spec).
      destruct d; cbn [bitnames].
      * constructor; [intros []|constructor].
      * apply FinFun.Injective_map_NoDup; [|apply seq_NoDup].
        intros i j Eij. inversion Eij; auto.
    + intro b. rewrite (set_union_in bit_eqb bit_eqb_spec), Hin. split.
      * intros [Hb|(y & d' & Hy & Hl' & Hb)].
        -- exists x, d. cbn; auto.
        -- exists y, d'. cbn; auto.
      * intros (y & d' & [<-|Hy] & Hl' & Hb).
        -- left. congruence.
        -- right. eauto.
Qed.

Lemma bitnames_declared t x d b : wf_tbl t -> tlookup x t = Some d ->
  In b (bitnames x d) -> In b (all_bits t) /\ fst b = x.
Proof.
  intros _ Hl Hb. split.
  - apply in_all_bits. exists x, d. split; auto. apply tlookup_in; auto.
  - apply in_bitnames in Hb. tauto.
Qed.

Lemma declared_bit_lookup t b : wf_tbl t -> In b (all_bits t) ->
  exists d, tlookup (fst b) t = Some d /\ In b (bitnames (fst b) d).
Proof.
  intros [ND _] Hb. apply in_all_bits in Hb. destruct Hb as (x & d & Hin & Hb).
  pose proof Hb as Hb'. apply in_bitnames in Hb'. destruct Hb' as [<- _].
  exists d. split; auto. apply in_tlookup; auto.
Qed.

(* ---- Context.exist / forall --------------------------------------------------------- *)
Definition agree_off (qvars : list ident) (f f' : fasg) : Prop :=
  forall x, ~ In x qvars -> f' x = f x.

Lemma sem_ext t u f g : uses_only (all_bits t) u ->
  (forall x, f x = g x) -> sem t u f = sem t u g.
Proof.
  intros Hu E. unfold sem. apply Hu. intros b _. apply encode_local. apply E.
Qed.

Theorem exist_spec t qvars u : wf_tbl t -> uses_only (all_bits t) u ->
  (forall x, In x qvars -> exists d, tlookup x t = Some d) ->
  exists r, ctx_exist t qvars u = Some r /\ uses_only (all_bits t) r /\
    forall f, in_range t f ->
      (sem t r f = true <->
       exists f', in_range t f' /\ agree_off qvars f f' /\ sem t u f' = true).
Proof.
  intros Hwf Hu Hd. destruct qvars as [|q0 qr].
  - exists u. split; [reflexivity|]. split; auto. intros f Hf. split.
    + intro H. exists f. split; auto. split; auto. intros x _. reflexivity.
    + intros (f' & _ & Hag & H). rewrite <- H. apply sem_ext; auto.
      intro x. symmetry. apply Hag. intros [].
  - set (qvars := q0 :: qr) in *.
    destruct (bit_table_spec qvars t Hd) as (qbits & E & ND & Hq).
    exists (bexist qbits u). split; [unfold ctx_exist; fold qvars; rewrite E; reflexivity|].
    split; [apply uses_only_bexist; auto|].
    assert (Hqv : forall b, In b (all_bits t) -> (In b qbits <-> In (fst b) qvars)).
    { intros b Hb. rewrite Hq. split.
      - intros (x & d & Hx & Hl & Hbn). apply in_bitnames in Hbn.
        destruct Hbn as [-> _]. auto.
      - intro Hx. destruct (declared_bit_lookup t b Hwf Hb) as (d & Hl & Hbn).
        exists (fst b), d. auto. }
    intros f Hf. unfold sem at 1. rewrite (bexist_spec (all_bits t)) by auto. split.
    + intros (a' & Hag & H).
      exists (fun x => if mem String.eqb x qvars then decode t a' x else f x).
      split; [|split].
      * intros x d Hin. destruct (mem String.eqb x qvars).
        -- apply decode_in_range; auto.
        -- apply Hf; auto.
      * intros x Hx. destruct (mem String.eqb x qvars) eqn:Em; auto.
        apply (mem_spec String.eqb string_eqb_spec') in Em. tauto.
      * rewrite <- H. unfold sem. apply Hu. intros b Hb.
        destruct (mem String.eqb (fst b) qvars) eqn:Em.
        -- rewrite (encode_local t _ (decode t a') b) by (rewrite Em; reflexivity).
           apply encode_decode_b; auto.
        -- rewrite (encode_local t _ f b) by (rewrite Em; reflexivity).
           symmetry. apply Hag. rewrite Hqv by auto.
           rewrite <- (mem_spec String.eqb string_eqb_spec'). congruence.
    + intros (f' & Hf' & Hag & H).
      exists (fun b => if mem bit_eqb b qbits then encode t f' b else encode t f b).
      split.
      * intros b Hb. destruct (mem bit_eqb b qbits) eqn:Em; auto.
        apply (mem_spec bit_eqb bit_eqb_spec) in Em. tauto.
      * rewrite <- H. unfold sem. apply Hu. intros b Hb.
        destruct (mem bit_eqb b qbits) eqn:Em; auto.
        apply encode_local. symmetry. apply Hag.
        rewrite <- Hqv by auto.
        rewrite <- (mem_spec bit_eqb bit_eqb_spec). congruence.
Qed.

Theorem forall_spec t qvars u : wf_tbl t -> uses_only (all_bits t) u ->
  (forall x, In x qvars -> exists d, tlookup x t = Some d) ->
  exists r, ctx_forall t qvars u = Some r /\ uses_only (all_bits t) r /\
    forall f, in_range t f ->
      (sem t r f = true <->
       forall f', in_range t f' -> agree_off qvars f f' -> sem t u f' = true).
Proof.
  intros Hwf Hu Hd.
  destruct (exist_spec t qvars (bnot u) Hwf (uses_only_bnot _ _ Hu) Hd)
    as (r & E & Hur & Hr).
  exists (bnot r). unfold ctx_forall. rewrite E. split; [reflexivity|].
  split; [apply uses_only_bnot; auto|].
  intros f Hf. specialize (Hr f Hf). unfold sem, bnot in *. split.
  - intros H f' Hf' Hag.
    destruct (u (encode t f')) eqn:Eu; auto.
    assert (r (encode t f) = true).
    { apply Hr. exists f'. rewrite Eu. auto. }
    rewrite H0 in H. discriminate.
  - intro H. destruct (r (encode t f)) eqn:Er; auto.
    destruct (proj1 Hr eq_refl) as (f' & Hf' & Hag & Hn).
    rewrite (H f' Hf' Hag) in Hn. discriminate.
Qed.

(* ---- fol._refine_assignment ------------------------------------------------------------ *)
Definition bit_of_val (d : vdecl) (v : val) (i : nat) : option bool :=
  match d, v with
  | DBool, VB b => if Nat.eqb i 0 then Some b else None
  | DInt h, VZ z => if (i <? wnat h)%nat then Some (Z.testbit z (Z.of_nat i)) else None
  | _, _ => None
  end.

(* the bit-level meaning of a dictionary of values *)
Definition asg_bits (t : tbl) (m : fasgn) (b : bit) : option bool :=
  match dict_get String.eqb (fst b) m, tlookup (fst b) t with
  | Some v, Some d => bit_of_val d v (snd b)
  | _, _ => None
  end.

Definition vals_ok (t : tbl) (m : fasgn) : Prop :=
  NoDup (map fst m) /\
  forall x v, In (x, v) m -> exists d, tlookup x t = Some d /\ val_in_range d v = true.

Lemma combine_map_r {A B} (f : A -> B) l :
  combine l (map f l) = map (fun i => (i, f i)) l.
Proof. induction l; cbn; congruence. Qed.

Lemma int_bits_dict {V} x (g : nat -> V) w b :
  dict_get bit_eqb b (rev (map (fun i => ((x, i), g i)) (seq 0 w))) =
  if String.eqb (fst b) x && (snd b <? w)%nat then Some (g (snd b)) else None.
Proof.
  set (e := map (fun i => ((x, i), g i)) (seq 0 w)).
  assert (ND : NoDup (map fst (rev e))).
  { rewrite map_rev. apply NoDup_rev. unfold e. rewrite map_map. cbn [fst].
    apply FinFun.Injective_map_NoDup; [|apply seq_NoDup].
    intros i j E. inversion E; auto. }
  destruct b as [y i]. cbn [fst snd].
  destruct (String.eqb_spec y x) as [->|Hn]; cbn [andb].
  - destruct (Nat.ltb_spec i w).
    + apply (dict_get_nodup_in bit_eqb bit_eqb_spec); auto.
      rewrite <- in_rev. unfold e. apply in_map_iff. exists i. split; auto.
      apply in_seq. lia.
    + apply (dict_get_none bit_eqb bit_eqb_spec).
      rewrite map_rev, <- in_rev. unfold e. rewrite map_map. cbn [fst].
      rewrite in_map_iff. intros (j & E & Hj). inversion E; subst.
      apply in_seq in Hj. lia.
  - apply (dict_get_none bit_eqb bit_eqb_spec).
    rewrite map_rev, <- in_rev. unfold e. rewrite map_map. cbn [fst].
    rewrite in_map_iff. intros (j & E & Hj). inversion E; subst. congruence.
Qed.

Lemma refine_assignment_from_spec t : wf_tbl t -> forall m, vals_ok t m ->
  forall acc, exists r, refine_assignment_from t m acc = Some r /\
    (NoDup (map fst acc) -> NoDup (map fst r)) /\
    forall b, dict_get bit_eqb b r =
              match asg_bits t m b with
              | Some v => Some v
              | None => dict_get bit_eqb b acc
              end.
Proof.
  intros Hwf. induction m as [|[x v] m IH]; intros [ND Hok] acc.
  - exists acc. split; [reflexivity|]. split; auto.
  - inversion ND as [|? ? Hx ND']; subst.
    assert (Hok' : vals_ok t m) by (split; auto; intros; apply Hok; right; auto).
    destruct (Hok x v (or_introl eq_refl)) as (d & Hl & Hr).
    assert (Hxm : dict_get String.eqb x m = None)
      by (apply (dict_get_none String.eqb string_eqb_spec'); auto).
    cbn [refine_assignment_from]. rewrite Hl.
    destruct d as [|h], v as [bv|z]; cbn in Hr; try discriminate.
    + destruct (IH Hok' (dict_set bit_eqb (x, 0%nat) bv acc)) as (r & E & NDr & Hg).
      exists r. split; auto. split.
      * intro Ha. apply NDr. apply (dict_set_nodup bit_eqb bit_eqb_spec); auto.
      * intro b. rewrite Hg, (dict_get_set bit_eqb bit_eqb_spec).
        unfold asg_bits. cbn [dict_get].
        destruct (String.eqb_spec (fst b) x) as [Ex|Ex].
        -- rewrite Ex, Hxm, Hl. cbn [bit_of_val].
           destruct b as [y i]. cbn [fst snd] in *. subst y.
           destruct (Nat.eqb_spec i 0).
           ++ subst. rewrite bit_eqb_refl. reflexivity.
           ++ destruct (bit_eqb_spec (x, i) (x, 0%nat)) as [E0|E0]; [inversion E0; lia|].
              reflexivity.
        -- destruct (bit_eqb_spec b (x, 0%nat)) as [E0|E0];
             [subst b; cbn in Ex; congruence|].
           reflexivity.
    + assert (Hw : wf_hint h) by (destruct Hwf as [_ H]; eapply H; apply tlookup_in; eauto).
      rewrite int_to_bit_assignment_spec by auto.
      unfold encode_val. rewrite zbits_map, combine_map_r, map_map. cbn [fst snd].
      set (e := map (fun i => ((x, i), Z.testbit z (Z.of_nat i))) (seq 0 (wnat h))).
      destruct (IH Hok' (dict_update bit_eqb acc e)) as (r & E & NDr & Hg).
      exists r. split; auto. split.
      * intro Ha. apply NDr. apply (dict_update_nodup bit_eqb bit_eqb_spec); auto.
      * intro b. rewrite Hg, (dict_get_update bit_eqb bit_eqb_spec).
        unfold e. rewrite (int_bits_dict x (fun i => Z.testbit z (Z.of_nat i))).
        unfold asg_bits. cbn [dict_get].
        destruct (String.eqb_spec (fst b) x) as [Ex|Ex]; cbn [andb].
        -- rewrite Ex, Hxm, Hl. cbn [bit_of_val].
           destruct (snd b <? wnat h)%nat; reflexivity.
        -- reflexivity.
Qed.

Definition foverride (f : fasg) (m : fasgn) : fasg :=
  fun x => match dict_get String.eqb x m with Some v => v | None => f x end.

Lemma asg_bits_encode t m f b d v : wf_tbl t ->
  tlookup (fst b) t = Some d -> In b (bitnames (fst b) d) ->
  dict_get String.eqb (fst b) m = Some v -> val_in_range d v = true ->
  asg_bits t m b = Some (encode t (foverride f m) b).
Proof.
  intros Hwf Hl Hb Hm Hr. unfold asg_bits, encode, foverride. rewrite Hm, Hl.
  apply in_bitnames in Hb. destruct Hb as [_ Hi].
  destruct d as [|h], v as [bv|z]; cbn in Hr; try discriminate; cbn [bit_of_val].
  - rewrite Hi. reflexivity.
  - destruct (Nat.ltb_spec (snd b) (wnat h)); [reflexivity|lia].
Qed.

(* substitution of representable values = substitution in the set of assignments *)
Theorem let_values_spec t defs u : wf_tbl t -> uses_only (all_bits t) u ->
  vals_ok t defs ->
  exists r, ctx_let_vals t defs u = Some r /\ uses_only (all_bits t) r /\
    forall f, sem t r f = sem t u (foverride f defs).
Proof.
  intros Hwf Hu Hok.
  destruct (refine_assignment_from_spec t Hwf defs Hok []) as (d & E & _ & Hg).
  assert (Hsem : forall a b, In b (all_bits t) ->
     (match dict_get bit_eqb b d with Some v => v | None => a b end) =
     match asg_bits t defs b with Some v => v | None => a b end).
  { intros a b _. rewrite Hg. destruct (asg_bits t defs b); reflexivity. }
  exists (match defs with [] => u | _ => blet_vals d u end).
  split; [|split].
  - unfold ctx_let_vals, refine_assignment. rewrite E. destruct defs; reflexivity.
  - destruct defs; auto. intros a a' Ha. unfold blet_vals. apply Hu.
    intros b Hb. destruct (dict_get bit_eqb b d); auto.
  - intro f.
    assert (G : sem t (blet_vals d u) f = sem t u (foverride f defs)).
    { unfold sem, blet_vals. apply Hu. intros b Hb. rewrite Hsem by auto.
      destruct (declared_bit_lookup t b Hwf Hb) as (dx & Hl & Hbn).
      destruct (dict_get String.eqb (fst b) defs) as [v|] eqn:Em.
      - destruct Hok as [ND Hok].
        destruct (Hok (fst b) v) as (d' & Hl' & Hr);
          [apply (dict_get_in String.eqb string_eqb_spec'); auto|].
        assert (d' = dx) by congruence. subst d'.
        rewrite (asg_bits_encode t defs f b dx v); auto.
      - unfold asg_bits. rewrite Em. apply encode_local.
        unfold foverride. rewrite Em. reflexivity. }
    destruct defs; auto.
Qed.

(* ---- Context.assign_from ----------------------------------------------------------------- *)
Lemma forallb_ext_in' {A} (f g : A -> bool) l :
  (forall x, In x l -> f x = g x) -> forallb f l = forallb g l.
Proof.
  induction l; cbn; intros H; auto. rewrite H by auto. f_equal. auto.
Qed.

Lemma val_eqb_spec a b : reflect (a = b) (val_eqb a b).
Proof.
  destruct a as [x|x], b as [y|y]; cbn [val_eqb]; try (constructor; congruence).
  - destruct (Bool.eqb_spec x y); constructor; congruence.
  - destruct (Z.eqb_spec x y); constructor; congruence.
Qed.

Definition extends (f : fasg) (m : fasgn) : Prop :=
  forall x v, In (x, v) m -> f x = v.

Theorem assign_from_spec t m : wf_tbl t -> vals_ok t m ->
  exists r, ctx_assign_from t m = Some r /\ uses_only (all_bits t) r /\
    forall f, in_range t f -> (sem t r f = true <-> extends f m).
Proof.
  intros Hwf Hok.
  destruct (refine_assignment_from_spec t Hwf m Hok []) as (d & E & NDd & Hg).
  specialize (NDd (NoDup_nil _)).
  exists (bcube d). unfold ctx_assign_from, refine_assignment. rewrite E.
  split; [reflexivity|].
  assert (Hkeys : forall b v, In (b, v) d -> In b (all_bits t)).
  { intros b v Hin.
    apply (dict_get_nodup_in bit_eqb bit_eqb_spec) in Hin; auto.
    rewrite Hg in Hin. cbn [dict_get] in Hin. unfold asg_bits in Hin.
    destruct (dict_get String.eqb (fst b) m) as [w|]; [|discriminate].
    destruct (tlookup (fst b) t) as [dx|] eqn:Hl; [|discriminate].
    apply in_all_bits. exists (fst b), dx. split; [apply tlookup_in; auto|].
    apply in_bitnames. split; auto.
    destruct dx as [|h], w as [bv|z]; cbn [bit_of_val] in Hin; try discriminate.
    - destruct (Nat.eqb_spec (snd b) 0); [auto|discriminate].
    - destruct (Nat.ltb_spec (snd b) (wnat h)); [auto|discriminate]. }
  split.
  - intros a a' Ha. unfold bcube. apply forallb_ext_in'.
    intros [b v] Hin. cbn [fst snd]. rewrite (Ha b); eauto.
  - intros f Hf. unfold sem, bcube. rewrite forallb_forall.
    destruct Hok as [NDm Hok]. split.
    + intros H x v Hin.
      destruct (Hok x v Hin) as (dx & Hl & Hr).
      pose proof (dict_get_nodup_in String.eqb string_eqb_spec' x v m NDm Hin) as Hm.
      assert (Hb : forall i, In (x, i) (bitnames x dx) ->
                 encode t f (x, i) = encode t (foverride f m) (x, i)).
      { intros i Hi.
        pose proof (asg_bits_encode t m f (x, i) dx v Hwf Hl Hi Hm Hr) as Ha.
        assert (Hd : dict_get bit_eqb (x, i) d = Some (encode t (foverride f m) (x, i))).
        { rewrite Hg, Ha. reflexivity. }
        apply (dict_get_in bit_eqb bit_eqb_spec) in Hd.
        specialize (H _ Hd). cbn [fst snd] in H. apply eqb_prop in H. exact H. }
      pose proof (Hf x dx (tlookup_in _ _ _ Hl)) as Hfx.
      assert (Hov : foverride f m x = v) by (unfold foverride; rewrite Hm; reflexivity).
      destruct dx as [|h].
      * specialize (Hb 0%nat (or_introl eq_refl)).
        unfold encode in Hb. cbn [fst snd] in Hb. rewrite Hl, Hov in Hb.
        destruct (f x), v; cbn in Hfx, Hr; try discriminate. congruence.
      * destruct (f x) as [|zf] eqn:Efx, v as [|z]; cbn in Hfx, Hr; try discriminate.
        f_equal. destruct Hwf as [_ Hwfh].
        apply (encode_val_inj h); auto; [eapply Hwfh; apply tlookup_in; eauto|].
        rewrite <- (encode_bitnames t f x h zf) by auto.
        rewrite <- (encode_bitnames t (foverride f m) x h z) by auto.
        apply map_ext_in. intros [y i] Hi.
        pose proof Hi as Hi'. apply in_bitnames in Hi'. destruct Hi' as [Ey _].
        cbn [fst] in Ey. subst y. apply Hb. auto.
    + intros Hext [b v] Hin. cbn [fst snd].
      apply (dict_get_nodup_in bit_eqb bit_eqb_spec) in Hin; auto.
      rewrite Hg in Hin. cbn [dict_get] in Hin.
      destruct (asg_bits t m b) as [v'|] eqn:Ea; [|discriminate].
      inversion Hin; subst v'. clear Hin.
      unfold asg_bits in Ea.
      destruct (dict_get String.eqb (fst b) m) as [w|] eqn:Em; [|discriminate].
      destruct (tlookup (fst b) t) as [dx|] eqn:Hl; [|discriminate].
      apply (dict_get_in String.eqb string_eqb_spec') in Em.
      pose proof (Hext _ _ Em) as Hfx.
      unfold encode. rewrite Hl, Hfx.
      destruct dx as [|h], w as [bv|z]; cbn [bit_of_val] in Ea; try discriminate.
      * destruct (Nat.eqb (snd b) 0); inversion Ea. apply eqb_reflx.
      * destruct (snd b <? wnat h)%nat; inversion Ea. apply eqb_reflx.
Qed.

(* ---- fol._refine_renaming / Context.let with variables ------------------------------------ *)
Definition declared_idx (d : vdecl) (i : nat) : bool :=
  match d with DBool => Nat.eqb i 0 | DInt h => (i <? wnat h)%nat end.

Lemma declared_idx_spec x d i : declared_idx d i = true <-> In (x, i) (bitnames x d).
Proof.
  rewrite in_bitnames. cbn [fst snd]. destruct d; cbn [declared_idx].
  - rewrite Nat.eqb_eq. tauto.
  - rewrite Nat.ltb_lt. tauto.
Qed.

(* the bit-level meaning of a renaming of variables *)
Definition ren_bits (t : tbl) (ren : list (ident * ident)) (b : bit) : option bit :=
  match dict_get String.eqb (fst b) ren, tlookup (fst b) t with
  | Some y, Some d => if declared_idx d (snd b) then Some (y, snd b) else None
  | _, _ => None
  end.

(* keys distinct (a dict); old and new have the same declaration; an integer
   is not renamed to itself (the code's "no overlap" assertion) *)
Definition ren_ok (t : tbl) (ren : list (ident * ident)) : Prop :=
  NoDup (map fst ren) /\
  forall x y, In (x, y) ren ->
    exists d, tlookup x t = Some d /\ tlookup y t = Some d /\
              match d with DInt _ => x <> y | DBool => True end.

Lemma combine_map_map {A B C} (f : A -> B) (g : A -> C) l :
  combine (map f l) (map g l) = map (fun i => (f i, g i)) l.
Proof. induction l; cbn; congruence. Qed.

Lemma refine_renaming_from_spec t : forall ren, ren_ok t ren ->
  forall acc, exists r, refine_renaming_from t ren acc = Some r /\
    forall b, dict_get bit_eqb b r =
              match ren_bits t ren b with
              | Some b' => Some b'
              | None => dict_get bit_eqb b acc
              end.
Proof.
  induction ren as [|[x y] ren IH]; intros [ND Hok] acc.
  - exists acc. split; [reflexivity|]. auto.
  - inversion ND as [|? ? Hx ND']; subst.
    assert (Hok' : ren_ok t ren) by (split; auto; intros; apply Hok; right; auto).
    destruct (Hok x y (or_introl eq_refl)) as (d & Hlx & Hly & Hne).
    assert (Hxm : dict_get String.eqb x ren = None)
      by (apply (dict_get_none String.eqb string_eqb_spec'); auto).
    cbn [refine_renaming_from]. rewrite Hlx, Hly. destruct d as [|h].
    + destruct (IH Hok' (dict_set bit_eqb (x, 0%nat) (y, 0%nat) acc)) as (r & E & Hg).
      exists r. split; auto.
      intro b. rewrite Hg, (dict_get_set bit_eqb bit_eqb_spec).
      unfold ren_bits. cbn [dict_get].
      destruct (String.eqb_spec (fst b) x) as [Ex|Ex].
      * rewrite Ex, Hxm, Hlx. cbn [declared_idx].
        destruct b as [z i]. cbn [fst snd] in *. subst z.
        destruct (Nat.eqb_spec i 0).
        -- subst. rewrite bit_eqb_refl. reflexivity.
        -- destruct (bit_eqb_spec (x, i) (x, 0%nat)) as [E0|E0]; [inversion E0; lia|].
           reflexivity.
      * destruct (bit_eqb_spec b (x, 0%nat)) as [E0|E0];
          [subst b; cbn in Ex; congruence|].
        reflexivity.
    + unfold dom_eqb. rewrite !Z.eqb_refl. cbn [andb negb].
      cbn [bitnames]. rewrite !map_length, !seq_length, Nat.eqb_refl. cbn [negb].
      assert (Hex : existsb (fun b => mem bit_eqb b (map (fun i => (y, i)) (seq 0 (wnat h))))
                      (map (fun i => (x, i)) (seq 0 (wnat h))) = false).
      { apply not_true_is_false. intro Ht. apply existsb_exists in Ht.
        destruct Ht as (b & Hb1 & Hb2). apply (mem_spec bit_eqb bit_eqb_spec) in Hb2.
        apply in_map_iff in Hb1. destruct Hb1 as (i & <- & _).
        apply in_map_iff in Hb2. destruct Hb2 as (j & Ej & _). inversion Ej. congruence. }
      rewrite Hex. rewrite combine_map_map.
      set (e := map (fun i => ((x, i), (y, i))) (seq 0 (wnat h))).
      destruct (IH Hok' (dict_update bit_eqb acc e)) as (r & E & Hg).
      exists r. split; auto.
      intro b. rewrite Hg, (dict_get_update bit_eqb bit_eqb_spec).
      unfold e. rewrite (int_bits_dict x (fun i => (y, i))).
      unfold ren_bits. cbn [dict_get].
      destruct (String.eqb_spec (fst b) x) as [Ex|Ex]; cbn [andb].
      * rewrite Ex, Hxm, Hlx. cbn [declared_idx].
        destruct (snd b <? wnat h)%nat; reflexivity.
      * reflexivity.
Qed.

Definition frename (f : fasg) (ren : list (ident * ident)) : fasg :=
  fun x => match dict_get String.eqb x ren with Some y => f y | None => f x end.

Lemma encode_same_decl t f g x y i d :
  tlookup x t = Some d -> tlookup y t = Some d -> g x = f y ->
  encode t g (x, i) = encode t f (y, i).
Proof.
  intros Hx Hy E. unfold encode. cbn [fst snd]. rewrite Hx, Hy, E. reflexivity.
Qed.

(* bit-level statement: the renamed BDD at a equals u at the renamed assignment *)
Theorem let_vars_bits t ren u : wf_tbl t -> uses_only (all_bits t) u -> ren_ok t ren ->
  exists r, ctx_let_vars t ren u = Some r /\ uses_only (all_bits t) r /\
    forall a, r a = u (fun b => match ren_bits t ren b with
                                | Some b' => a b'
                                | None => a b
                                end).
Proof.
  intros Hwf Hu Hok.
  destruct (refine_renaming_from_spec t ren Hok []) as (d & E & Hg).
  assert (Himg : forall b b', ren_bits t ren b = Some b' -> In b' (all_bits t)).
  { intros b b' Hb. unfold ren_bits in Hb.
    destruct (dict_get String.eqb (fst b) ren) as [y|] eqn:Em; [|discriminate].
    destruct (tlookup (fst b) t) as [dx|] eqn:Hl; [|discriminate].
    destruct (declared_idx dx (snd b)) eqn:Ed; [|discriminate]. inversion Hb; subst.
    destruct Hok as [_ Hok].
    destruct (Hok (fst b) y) as (d' & Hl1 & Hl2 & _);
      [apply (dict_get_in String.eqb string_eqb_spec'); auto|].
    assert (d' = dx) by congruence. subst d'.
    apply in_all_bits. exists y, dx. split; [apply tlookup_in; auto|].
    apply declared_idx_spec. auto. }
  exists (match ren with [] => u | _ => blet_ren d u end).
  split; [|split].
  - unfold ctx_let_vars, refine_renaming. rewrite E. destruct ren; reflexivity.
  - destruct ren; auto. intros a a' Ha. unfold blet_ren. apply Hu.
    intros b Hb. rewrite Hg. cbn [dict_get].
    destruct (ren_bits t (p :: ren) b) eqn:Er; auto. apply Ha. eapply Himg; eauto.
  - intro a.
    assert (G : blet_ren d u a = u (fun b => match ren_bits t ren b with
                                            | Some b' => a b'
                                            | None => a b
                                            end)).
    { unfold blet_ren. apply Hu. intros b _. rewrite Hg. cbn [dict_get].
      destruct (ren_bits t ren b); reflexivity. }
    destruct ren; auto.
Qed.

(* substitution of same-typed variables = renaming in the set of assignments *)
Theorem rename_spec t ren u : wf_tbl t -> uses_only (all_bits t) u -> ren_ok t ren ->
  exists r, ctx_let_vars t ren u = Some r /\ uses_only (all_bits t) r /\
    forall f, sem t r f = sem t u (frename f ren).
Proof.
  intros Hwf Hu Hok.
  destruct (let_vars_bits t ren u Hwf Hu Hok) as (r & E & Hur & Hr).
  exists r. split; auto. split; auto.
  intro f. unfold sem. rewrite Hr. apply Hu. intros b Hb.
  destruct (declared_bit_lookup t b Hwf Hb) as (dx & Hl & Hbn).
  unfold ren_bits. rewrite Hl.
  destruct (dict_get String.eqb (fst b) ren) as [y|] eqn:Em.
  - destruct b as [x i]. cbn [fst snd] in *.
    rewrite (proj2 (declared_idx_spec x dx i) Hbn).
    destruct Hok as [_ Hok].
    destruct (Hok x y) as (d' & Hl1 & Hl2 & _);
      [apply (dict_get_in String.eqb string_eqb_spec'); auto|].
    symmetry. apply (encode_same_decl t f (frename f ren) x y i d'); auto.
    unfold frename. rewrite Em. reflexivity.
  - apply encode_local. unfold frename. rewrite Em. reflexivity.
Qed.

(* ---- bitvector.map_bits_to_integers / Context.support --------------------------------------- *)
Lemma map_bits_to_integers_inv t : forall acc,
  (forall b x, dict_get bit_eqb b acc = Some x -> x = fst b) ->
  let res := fold_left (fun acc xd =>
      dict_update bit_eqb acc
        (map (fun b => (b, fst xd)) (bitnames (fst xd) (snd xd)))) t acc in
  (forall b x, dict_get bit_eqb b res = Some x -> x = fst b) /\
  (forall b, In b (map fst res) <-> In b (map fst acc) \/ In b (all_bits t)).
Proof.
  induction t as [|[y d] t IH]; intros acc Hacc; cbn [fold_left].
  - split; auto. intro b. cbn. tauto.
  - cbn [fst snd].
    set (e := map (fun b => (b, y)) (bitnames y d)).
    assert (Hacc' : forall b x, dict_get bit_eqb b (dict_update bit_eqb acc e) = Some x ->
                      x = fst b).
    { intros b x. rewrite (dict_get_update bit_eqb bit_eqb_spec).
      destruct (dict_get bit_eqb b (rev e)) as [x'|] eqn:Er; [|apply Hacc].
      intro E. inversion E; subst x'.
      apply (dict_get_in bit_eqb bit_eqb_spec) in Er. apply in_rev in Er.
      unfold e in Er. apply in_map_iff in Er. destruct Er as (b' & Eb & Hb').
      inversion Eb; subst. apply in_bitnames in Hb'. symmetry. tauto. }
    destruct (IH _ Hacc') as [H1 H2]. split; auto.
    intro b. rewrite H2, (dict_update_keys bit_eqb bit_eqb_spec).
    unfold e. rewrite map_map. cbn [fst]. rewrite map_id.
    cbn [all_bits flat_map fst snd]. rewrite in_app_iff. fold (all_bits t). tauto.
Qed.

Lemma map_bits_to_integers_spec t b : In b (all_bits t) ->
  dict_get bit_eqb b (map_bits_to_integers t) = Some (fst b).
Proof.
  intro Hb. unfold map_bits_to_integers.
  destruct (map_bits_to_integers_inv t []) as [H1 H2]; [intros ? ? E; discriminate|].
  cbv zeta in H1, H2.
  destruct (dict_get bit_eqb b _) as [x|] eqn:E.
  - f_equal. auto.
  - apply (dict_get_none bit_eqb bit_eqb_spec) in E. exfalso. apply E.
    apply H2. auto.
Qed.

Lemma map_opt_some {A B} (f : A -> option B) (g : A -> B) l :
  (forall x, In x l -> f x = Some (g x)) -> map_opt f l = Some (map g l).
Proof.
  induction l; intro H; cbn [map_opt map]; auto.
  rewrite H by (left; auto). rewrite IHl by (intros; apply H; right; auto).
  reflexivity.
Qed.

Lemma ctx_support_bits t u :
  exists s, ctx_support t u = Some s /\ NoDup s /\
    forall x, In x s <-> exists b, In b (bsupport (all_bits t) u) /\ fst b = x.
Proof.
  unfold ctx_support. cbv zeta.
  assert (Em : map_opt (fun b => dict_get bit_eqb b (map_bits_to_integers t))
                 (bsupport (all_bits t) u) = Some (map fst (bsupport (all_bits t) u))).
  { apply map_opt_some.
    intros b Hb. apply map_bits_to_integers_spec. eapply bsupport_incl; eauto. }
  rewrite Em.
  eexists. split; [reflexivity|]. split.
  - apply (set_union_nodup String.eqb string_eqb_spec'). constructor.
  - intro x. rewrite (set_union_in String.eqb string_eqb_spec'), in_map_iff.
    cbn [In]. split.
    + intros [[]|(b & E & Hb)]. eauto.
    + intros (b & Hb & E). right. eauto.
Qed.

(* a variable is in the reported support iff the set of assignments denoted by
   the BDD depends on that variable (over the representable values) *)
Theorem support_spec t u : wf_tbl t -> uses_only (all_bits t) u ->
  exists s, ctx_support t u = Some s /\ NoDup s /\
    forall x, In x s <->
      exists d f v, In (x, d) t /\ in_range t f /\ val_in_range d v = true /\
                    sem t u f <> sem t u (fupd f x v).
Proof.
  intros Hwf Hu. destruct (ctx_support_bits t u) as (s & E & ND & Hs).
  exists s. split; auto. split; auto. intro x. rewrite Hs. split.
  - intros (b & Hb & Ex). apply bsupport_spec in Hb; auto. destruct Hb as [Hdecl [a Ha]].
    destruct (declared_bit_lookup t b Hwf Hdecl) as (d & Hl & Hbn). rewrite Ex in Hl.
    exists d, (decode t (upd a b true)), (decode t (upd a b false) x).
    split; [apply tlookup_in; auto|]. split; [apply decode_in_range; auto|].
    split; [apply decode_in_range; auto; apply tlookup_in; auto|].
    rewrite sem_decode by auto.
    assert (G : sem t u (fupd (decode t (upd a b true)) x (decode t (upd a b false) x))
                = u (upd a b false)).
    { unfold sem. apply Hu. intros c Hc.
      destruct (String.eqb_spec (fst c) x) as [Ec|Ec].
      - rewrite (encode_local t _ (decode t (upd a b false)) c).
        + apply encode_decode_b; auto.
        + unfold fupd. rewrite Ec, String.eqb_refl. reflexivity.
      - rewrite (encode_local t _ (decode t (upd a b true)) c).
        + rewrite encode_decode_b by auto.
          assert (c <> b) by (intro; subst; auto).
          rewrite !upd_other by auto. reflexivity.
        + unfold fupd. destruct (String.eqb_spec (fst c) x); [contradiction|reflexivity]. }
    rewrite G. exact Ha.
  - intros (d & f & v & Hin & Hf & Hv & Hne).
    destruct (existsb (fun b => String.eqb (fst b) x) (bsupport (all_bits t) u)) eqn:Ex.
    + apply existsb_exists in Ex. destruct Ex as (b & Hb & Eb).
      apply String.eqb_eq in Eb. eauto.
    + exfalso. apply Hne. unfold sem.
      apply (uses_only_support (all_bits t)); auto.
      intros b Hb. apply encode_local. unfold fupd.
      destruct (String.eqb_spec (fst b) x) as [Eb|Eb]; auto.
      assert (existsb (fun b => String.eqb (fst b) x) (bsupport (all_bits t) u) = true).
      { apply existsb_exists. exists b. split; auto. apply String.eqb_eq. auto. }
      congruence.
Qed.

(* ---- Context.apply ----------------------------------------------------------------------- *)
Theorem apply_spec t op u v w r : bapply op u v w = Some r ->
  forall f, sem t r f =
    match op, v, w with
    | OpNot, _, _ => negb (sem t u f)
    | OpAnd, Some v, _ => sem t u f && sem t v f
    | OpOr, Some v, _ => sem t u f || sem t v f
    | OpXor, Some v, _ => xorb (sem t u f) (sem t v f)
    | OpImplies, Some v, _ => implb (sem t u f) (sem t v f)
    | OpEquiv, Some v, _ => Bool.eqb (sem t u f) (sem t v f)
    | OpDiff, Some v, _ => sem t u f && negb (sem t v f)
    | OpIte, Some v, Some w => if sem t u f then sem t v f else sem t w f
    | _, _, _ => false
    end.
Proof.
  intros E f. destruct op, v as [v|], w as [w|]; cbn in E; inversion E; reflexivity.
Qed.

(* ==== enumeration._bitfields_to_int_iter / Context.pick_iter ================================ *)

Lemma nodup_app {A} (l1 l2 : list A) :
  NoDup l1 -> NoDup l2 -> (forall x, In x l1 -> ~ In x l2) -> NoDup (l1 ++ l2).
Proof.
  induction l1 as [|a l1 IH]; intros N1 N2 Hd; cbn; auto.
  inversion N1; subst. constructor.
  - rewrite in_app_iff. intros [H|H]; [auto|]. apply (Hd a); [left; auto|auto].
  - apply IH; auto. intros x Hx. apply Hd. right; auto.
Qed.

(* ---- _take_product_iter ------------------------------------------------------------------- *)
Inductive prod_rel (model : fasgn) : list (ident * list Z) -> fasgn -> Prop :=
| PR_nil : prod_rel model [] model
| PR_cons x vals r m v : prod_rel model r m -> In v vals ->
    prod_rel model ((x, vals) :: r) (m ++ [(x, VZ v)]).

Lemma take_product_rel sets model d :
  In d (take_product sets model) <-> prod_rel model sets d.
Proof.
  revert d; induction sets as [|[x vals] r IH]; intro d; cbn [take_product].
  - split.
    + intros [<-|[]]. constructor.
    + intro H. inversion H. left; auto.
  - rewrite in_flat_map. split.
    + intros (m & Hm & Hd). apply in_map_iff in Hd. destruct Hd as (v & <- & Hv).
      constructor; auto. apply IH; auto.
    + intro H. inversion H; subst. exists m. split; [apply IH; auto|].
      apply in_map_iff. eauto.
Qed.

Lemma prod_rel_in model sets d : prod_rel model sets d ->
  forall y w, In (y, w) d <->
    In (y, w) model \/ exists vals v, In (y, vals) sets /\ w = VZ v /\ In (y, VZ v) d /\ In v vals.
Proof.
  induction 1 as [|x vals r m v Hr IH Hv]; intros y w.
  - split; [auto|]. intros [H|(vals & v & [] & _)]; auto.
  - rewrite in_app_iff, IH. cbn [In]. split.
    + intros [[H|(vals' & v' & H1 & H2 & H3 & H4)]|[E|[]]].
      * auto.
      * right. exists vals', v'. repeat split; auto. apply in_app_iff; auto.
      * inversion E; subst. right. exists vals, v. repeat split; auto.
        apply in_app_iff. right. left. auto.
    + intros [H|(vals' & v' & [E|H1] & H2 & H3 & H4)].
      * auto.
      * inversion E; subst. apply in_app_iff in H3. destruct H3 as [H3|[E3|[]]].
        -- left. right. exists vals', v'. repeat split; auto.
Abort.

Lemma prod_rel_extends model sets f :
  (exists d, prod_rel model sets d /\ extends f d) <->
  extends f model /\ forall x vals, In (x, vals) sets -> exists v, In v vals /\ f x = VZ v.
Proof.
  induction sets as [|[x vals] r IH].
  - split.
    + intros (d & H & He). inversion H; subst. split; auto. intros ? ? [].
    + intros [He _]. exists model. split; auto. constructor.
  - split.
    + intros (d & H & He). inversion H; subst.
      assert (He' : extends f m).
      { intros y w Hin. apply He. apply in_app_iff. auto. }
      destruct (proj1 IH (ex_intro _ m (conj H3 He'))) as [Hm Hr].
      split; auto. intros y vals' [E|Hin].
      * inversion E; subst. exists v. split; auto. apply He.
        apply in_app_iff. right. left. auto.
      * apply Hr; auto.
    + intros [Hm Hs].
      destruct (proj2 IH) as (m & Hrel & Hext).
      { split; auto. intros; apply Hs; right; auto. }
      destruct (Hs x vals (or_introl eq_refl)) as (v & Hv & Hfx).
      exists (m ++ [(x, VZ v)]). split; [constructor; auto|].
      intros y w Hin. apply in_app_iff in Hin. destruct Hin as [Hin|[E|[]]].
      * apply Hext; auto.
      * inversion E; subst. auto.
Qed.

Lemma prod_rel_unique model sets f d1 d2 :
  prod_rel model sets d1 -> prod_rel model sets d2 ->
  extends f d1 -> extends f d2 -> d1 = d2.
Proof.
  intro H1. revert d2. induction H1 as [|x vals r m v Hr IH Hv]; intros d2 H2 E1 E2.
  - inversion H2. reflexivity.
  - inversion H2; subst.
    assert (f x = VZ v) by (apply E1; apply in_app_iff; right; left; auto).
    assert (f x = VZ v0) by (apply E2; apply in_app_iff; right; left; auto).
    assert (v = v0) by congruence. subst v0. f_equal.
    apply IH; auto.
    + intros y w Hin. apply E1. apply in_app_iff. auto.
    + intros y w Hin. apply E2. apply in_app_iff. auto.
Qed.

Lemma take_product_nodup sets model :
  (forall x vals, In (x, vals) sets -> NoDup vals) -> NoDup (take_product sets model).
Proof.
  induction sets as [|[x vals] r IH]; intro H; cbn [take_product].
  - constructor; [intros []|constructor].
  - assert (Nv : NoDup vals) by (apply (H x); left; auto).
    assert (Nr : NoDup (take_product r model)) by (apply IH; intros; eapply H; right; eauto).
    revert Nr. generalize (take_product r model) as L.
    induction L as [|m L IHL]; intro Nr; cbn [flat_map]; [constructor|].
    inversion Nr; subst. apply nodup_app.
    + apply FinFun.Injective_map_NoDup; auto.
      intros v v' E. apply app_inj_tail in E. destruct E as [_ E]. congruence.
    + auto.
    + intros d Hd Hd'. apply in_map_iff in Hd. destruct Hd as (v & <- & _).
      apply in_flat_map in Hd'. destruct Hd' as (m' & Hm' & Hd').
      apply in_map_iff in Hd'. destruct Hd' as (v' & E & _).
      apply app_inj_tail in E. destruct E as [E _]. subst. auto.
Qed.

Lemma prod_rel_keys model sets d : prod_rel model sets d ->
  forall y, In y (map fst d) <-> In y (map fst model) \/ In y (map fst sets).
Proof.
  induction 1 as [|x vals r m v Hr IH Hv]; intro y.
  - cbn. tauto.
  - rewrite map_app, in_app_iff, IH. cbn. tauto.
Qed.

Lemma prod_rel_vals model sets d : prod_rel model sets d ->
  forall y w, In (y, w) d ->
    In (y, w) model \/ exists vals v, In (y, vals) sets /\ w = VZ v /\ In v vals.
Proof.
  induction 1 as [|x vals r m v Hr IH Hv]; intros y w Hin.
  - auto.
  - apply in_app_iff in Hin. destruct Hin as [Hin|[E|[]]].
    + destruct (IH y w Hin) as [H|(vals' & v' & H1 & H2 & H3)]; auto.
      right. exists vals', v'. cbn. auto.
    + inversion E; subst. right. exists vals, v. cbn. auto.
Qed.
