(* The GENERATED solve_streett_game returns iterates that satisfy the
   hypotheses of StreettNB4.action_nonblocking; hence the synthesized Streett
   action (model) never blocks at a winning state with the counter in range. *)
From Coq Require Import List Bool Arith Lia.
Import ListNotations.
From Omega Require Import L4.Arena L4.ArenaFacts L4.Kleene L4.AlgOrder L4.GameSpec L4.Mu L4.GR1Spec.
From OmegaGen Require Import FixpointGen Gr1Gen.
From OmegaGP Require Import FixpointProofs StreettProofs TransducerModel
  StreettNB2 StreettNB3 StreettNB4 StreettIter1.

Lemma do_while_dec_exit {X} nc nx ny (body : bdd -> bdd * X) (P : bdd -> Prop) :
  mono nc nx ny (fun q => fst (body q)) ->
  (forall q, P q -> P (fst (body q))) ->
  forall fuel q, P q -> le nc nx ny (fst (body q)) q -> count nc nx ny q <= fuel ->
  exists c, P c /\ do_while nc nx ny fuel body (fun q => q) q = body c /\
            eqv nc nx ny (fst (body c)) c.
Proof.
  intros M HP fuel. induction fuel as [|k IH]; intros q Pq Hq Hf; cbn [do_while].
  - destruct (Arena.beq nc nx ny (fst (body q)) q) eqn:Eb.
    + exists q. split; [exact Pq|]. split; [reflexivity|]. apply beq_eqv, Eb.
    + exfalso. assert (E' : Arena.beq nc nx ny q (fst (body q)) = false).
      { destruct (Arena.beq nc nx ny q (fst (body q))) eqn:E2; [|reflexivity].
        apply beq_eqv in E2. apply eqv_sym in E2. apply beq_eqv in E2. congruence. }
      pose proof (count_lt nc nx ny _ _ Hq E'). lia.
  - destruct (Arena.beq nc nx ny (fst (body q)) q) eqn:Eb.
    + exists q. split; [exact Pq|]. split; [reflexivity|]. apply beq_eqv, Eb.
    + assert (E' : Arena.beq nc nx ny q (fst (body q)) = false).
      { destruct (Arena.beq nc nx ny q (fst (body q))) eqn:E2; [|reflexivity].
        apply beq_eqv in E2. apply eqv_sym in E2. apply beq_eqv in E2. congruence. }
      pose proof (count_lt nc nx ny _ _ Hq E').
      apply IH; [apply HP, Pq|apply (M _ _ Hq)|lia].
Qed.

Lemma forallb_ext_in' {A} (f g : A -> bool) l :
  (forall a, In a l -> f a = g a) -> forallb f l = forallb g l.
Proof.
  induction l as [|a l IH]; intros H; cbn [forallb]; [reflexivity|].
  rewrite (H a (or_introl eq_refl)), IH; [reflexivity|].
  intros b Hb. apply H. right. exact Hb.
Qed.

Section Iter2.
Variables nc nx ny : nat.
Variables E S : bdd.
Variables holds goals : list bdd.
Variables moore plus_one : bool.
Variable fuel : nat.
Hypothesis Hfuel : NV nc nx ny <= fuel.
Hypothesis Sh : Forall spred holds.
Hypothesis Sg : Forall spred goals.

Local Notation step := (FixpointGen.step nc nx ny moore plus_one).
Local Notation cp := (cpre_spec nx ny moore plus_one E S).
Local Notation bor := (Arena.bor nc nx ny).
Local Notation band := (Arena.band nc nx ny).
Local Notation inr := (inr nc nx ny).
Local Notation aua := (Gr1Gen.attractor_under_assumptions nc nx ny E S holds moore plus_one).
Local Notation solve := (Gr1Gen.solve_streett_game nc nx ny E S holds goals moore plus_one).

(* one pass over the goals *)
Definition zbody (z : bdd) : bdd * (list (list (list bdd)) * list (list bdd)) :=
  let cox := step fuel E S z in
  (fold_left (fun acc R => band acc (fst (fst (aua fuel (band R cox))))) goals z,
   (map (fun R => snd (aua fuel (band R cox))) goals,
    map (fun R => snd (fst (aua fuel (band R cox)))) goals)).

Lemma goals_fold cox : forall l z xs ys,
  fold_left (fun '(z, xijk, yij) goal =>
      let '(y, yj, xjk) := aua fuel (band goal cox) in
      (band z y, xijk ++ [xjk], yij ++ [yj]))
    l (z, xs, ys) =
  (fold_left (fun acc R => band acc (fst (fst (aua fuel (band R cox))))) l z,
   xs ++ map (fun R => snd (aua fuel (band R cox))) l,
   ys ++ map (fun R => snd (fst (aua fuel (band R cox)))) l).
Proof.
  induction l as [|R l IH]; intros z xs ys; cbn [fold_left map].
  - rewrite !app_nil_r. reflexivity.
  - destruct (aua fuel (band R cox)) as [[y yj] xjk] eqn:Ea.
    rewrite IH. cbn [fst snd]. rewrite <- !app_assoc. reflexivity.
Qed.

Lemma fold_band_forall (T : bdd -> bdd) l : forall (z : bdd) v,
  fold_left (fun acc R => band acc (T R)) l z v = z v && forallb (fun R => T R v) l.
Proof.
  induction l as [|R l IH]; intros z v; cbn [fold_left forallb].
  - rewrite andb_true_r. reflexivity.
  - rewrite IH, band_spec, andb_assoc. reflexivity.
Qed.

Lemma aua_y_spred g : spred g -> spred (fst (fst (aua fuel g))).
Proof.
  intros Hg. pose proof (aua_onion nc nx ny E S holds moore plus_one fuel Hfuel Sh g Hg) as H.
  destruct (aua fuel g) as [[y yj] xjk]. cbn [aua_inv fst] in *. tauto.
Qed.

Lemma goal_spred R z : In R goals -> spred (band R (step fuel E S z)).
Proof.
  intros HR v. rewrite !band_spec. rewrite Forall_forall in Sg.
  rewrite (Sg R HR v), (step_spred nc nx ny E S moore plus_one fuel z v). reflexivity.
Qed.

Lemma zbody_spred z : spred z -> spred (fst (zbody z)).
Proof.
  intros Hz v. unfold zbody. cbn [fst]. rewrite !fold_band_forall, (Hz v). f_equal.
  apply forallb_ext_in'. intros R HR. apply aua_y_spred, goal_spred, HR.
Qed.

Lemma solve_is_zbody :
  exists c, spred c /\
            solve fuel = (fst (zbody c), snd (snd (zbody c)), fst (snd (zbody c))) /\
            eqv nc nx ny (fst (zbody c)) c.
Proof.
  unfold Gr1Gen.solve_streett_game. cbv zeta.
  match goal with |- context [do_while ?a ?b ?c ?f ?body ?key ?q] =>
    set (B := body) end.
  assert (HB : forall z, B z = zbody z).
  { intros z. unfold B, zbody. cbv zeta. rewrite (goals_fold (step fuel E S z) goals z [] []).
    reflexivity. }
  destruct (do_while_dec_exit nc nx ny B spred) with (fuel := fuel) (q := btrue)
    as [c [Pc [Hc He]]].
  - intros a b Hab. rewrite !HB. unfold zbody. cbn [fst].
    pose proof (zop_eqv nc nx ny E S holds goals moore plus_one fuel Hfuel) as Hz.
    apply (mono_ext nc nx ny _ _ Hz); [|exact Hab].
    apply dec_mono, sZ_op_mono.
  - intros q Hq. rewrite HB. apply zbody_spred, Hq.
  - intros v. reflexivity.
  - apply le_btrue.
  - pose proof (count_bound nc nx ny btrue). lia.
  - exists c. split; [exact Pc|]. rewrite Hc, !HB. split; [|rewrite <- HB; exact He].
    destruct (zbody c) as [z [xs ys]]. reflexivity.
Qed.

(* the precondition asserted in make_streett_transducer's innermost loop
   (`len(xk) == len(holds)`, dropped by the translator) holds for everything
   the solver records: one trap per persistence predicate in every layer *)
Lemma onion_lengths goal Yp yj xjk :
  onion nc nx ny E S moore plus_one holds goal Yp yj xjk ->
  forall xk, In xk xjk -> length xk = length holds.
Proof.
  intros Ho. induction Ho as [|Yp0 y yr xk0 xr Hl _ _ _ IH]; intros xk Hin; [destruct Hin|].
  destruct Hin as [<-|Hin]; [exact Hl|apply IH, Hin].
Qed.

Theorem solve_trap_lists_complete :
  forall xjk xk, In xjk (snd (solve fuel)) -> In xk xjk -> length xk = length holds.
Proof.
  intros xjk xk Hj Hk.
  destruct solve_is_zbody as [c [Pc [Hs _]]]. rewrite Hs in Hj. cbn [snd] in Hj.
  unfold zbody in Hj. cbn [fst snd] in Hj.
  apply in_map_iff in Hj. destruct Hj as [R [<- HR]].
  pose proof (aua_onion nc nx ny E S holds moore plus_one fuel Hfuel Sh
                (band R (step fuel E S c)) (goal_spred R c HR)) as Hinv.
  destruct (aua fuel (band R (step fuel E S c))) as [[y yj] xjk0].
  cbn [aua_inv snd] in *. destruct Hinv as [_ [Ho _]].
  apply (onion_lengths _ _ _ _ Ho xk Hk).
Qed.

(* ------------------------------------------------------------------------ *)
Section Final.
Variable G : nat.
Hypothesis HG : 0 < G.
Hypothesis HnG : length goals <= G.

Local Notation L := (lift nc nx ny G).
Local Notation sol := (solve fuel).
Local Notation zf := (fst (fst sol)).
Local Notation yijf := (snd (fst sol)).
Local Notation xijkf := (snd sol).

(* the synthesized Streett action never blocks at a winning state with the
   goal counter in range: a next component valuation and memory exist for
   every next environment value (Mealy), or one that works for all of them
   (Moore) *)
Theorem streett_impl_nonblocking c x yb j :
  c < nc -> x < nx -> yb < ny -> j < length goals ->
  zf (sv c x yb) = true ->
  NB nx ny G moore c x yb j
     (fun w => streett_action nc nx ny G (L E) (L S) (map L holds) (map L goals)
                 moore plus_one (L zf) (map (map L) yijf) (map (map (map L)) xijkf) w).
Proof.
  intros Hc Hx Hyb Hj Hz.
  destruct solve_is_zbody as [q [Sq [Hsol Heq]]]. rewrite Hsol in *. cbn [fst snd] in *.
  destruct (nth_error goals j) as [R|] eqn:ER; [|apply nth_error_None in ER; lia].
  assert (HRin : In R goals) by (apply (nth_error_In _ _ ER)).
  set (cox := step fuel E S q).
  set (gl := band R cox).
  pose proof (aua_onion nc nx ny E S holds moore plus_one fuel Hfuel Sh gl (goal_spred R q HRin)) as Hinv.
  destruct (aua fuel gl) as [[y yj] xjk] eqn:Ea. cbn [aua_inv] in Hinv.
  destruct Hinv as [Hy [Hon [Syj [Sxjk Sy]]]].
  apply (action_nonblocking nc nx ny G HG E S moore plus_one holds goals
           (fst (zbody q)) (snd (snd (zbody q))) (fst (snd (zbody q)))
           c x yb j Hc Hx Hyb Hj HnG R yj xjk ER) with (gl := gl).
  - unfold zbody. cbn [fst snd]. rewrite (map_nth_error _ _ _ ER). fold cox. fold gl.
    rewrite Ea. reflexivity.
  - unfold zbody. cbn [fst snd]. rewrite (map_nth_error _ _ _ ER). fold cox. fold gl.
    rewrite Ea. reflexivity.
  - exact Hon.
  - intros s Hs Hg. unfold gl in Hg. rewrite band_spec in Hg.
    apply andb_true_iff in Hg. destruct Hg as [HR Hst]. split; [exact HR|].
    unfold cox in Hst. rewrite step_spec in Hst.
    apply (cpre_spec_mono nc nx ny moore plus_one E S q (fst (zbody q)));
      [apply eqv_le', Heq|exact Hs|exact Hst].
  - intros s Hzs. unfold zbody in Hzs. cbn [fst] in Hzs.
    rewrite fold_band_forall in Hzs. apply andb_true_iff in Hzs. destruct Hzs as [_ Hall].
    rewrite forallb_forall in Hall. specialize (Hall R HRin). fold cox in Hall. fold gl in Hall.
    rewrite Ea in Hall. cbn [fst] in Hall. rewrite <- Hy. exact Hall.
  - rewrite Forall_forall in Sg. apply Sg, HRin.
  - exact Syj.
  - exact Sxjk.
  - exact Sh.
  - exact Hz.
Qed.

End Final.

End Iter2.
