(* L7 / Step: executable model of codegen.dumps_bdds_as_code and of the
   generated `step(state)` (after the F4/F7 repairs):

     bitvectors = assign_bitvectors(state, vrs)
     out_bits = compute_bdds(bitvectors)
     out_var_values = out_bits_to_ints(out_bits, vrs)

   Variables are numbered by their position in [layout] (the table `vrs`);
   each has a type hint and the list of positions of its bits among the n
   declared bits.  No proofs here. *)
From Coq Require Import List Bool Arith ZArith.
Import ListNotations.
From Omega Require Import L7Codegen.Pred L7Codegen.Synth L7Codegen.Bits L7Codegen.Dag.

Definition layout := list (vtype * list var).

Definition var_type (ly : layout) (x : nat) : vtype := fst (nth x ly (TBool, [])).
Definition var_bits (ly : layout) (x : nat) : list var := snd (nth x ly (TBool, [])).

(* write bits[i] at position ps[i] *)
Fixpoint write_bits (a : asg) (ps : list var) (bits : list bool) : asg :=
  match ps, bits with
  | p :: ps', b :: bits' => write_bits (upd a p b) ps' bits'
  | _, _ => a
  end.

Definition read_bits (a : asg) (ps : list var) : list bool := map (get a) ps.

(* assign_bitvectors(state, vrs), seen as an assignment to the declared bits:
   bit i of variable x is bitvectors[x][i]; bits of variables that the state
   does not mention are false (the generated code would raise KeyError if it
   read them) *)
Definition assign_bitvectors (n : nat) (ly : layout) (state : list (nat * val)) : asg :=
  fold_left (fun a xv => write_bits a (var_bits ly (fst xv))
                           (encode (var_type ly (fst xv)) (snd xv)))
            state (repeat false n).

(* _list_bits(out_vars, aut.vars) *)
Definition list_bits (ly : layout) (out_vars : list nat) : list var :=
  flat_map (var_bits ly) out_vars.

(* compute_bdds: out_bits[y] = value of the function of y *)
Definition compute_bdds (fs : list (var * (pred * pred))) (a : asg) : list (var * bool) :=
  map (fun e => (fst e, fst (snd e) a)) fs.

(* out_bits_to_ints: missing bits default to False, then each output variable
   is decoded from its bits *)
Definition find_bit (out_bits : list (var * bool)) (y : var) : bool :=
  match find (fun e => Nat.eqb (fst e) y) out_bits with
  | Some e => snd e
  | None => false
  end.
Definition out_bits_to_ints (ly : layout) (out_vars : list nat)
    (out_bits : list (var * bool)) : list (nat * val) :=
  map (fun x => (x, decode (var_type ly x) (map (find_bit out_bits) (var_bits ly x))))
      out_vars.

(* the generated step(state), given the functions compute_bdds evaluates *)
Definition step_with (n : nat) (ly : layout) (out_vars : list nat)
    (fs : list (var * (pred * pred))) (state : list (nat * val)) : list (nat * val) :=
  let a := assign_bitvectors n ly state in
  out_bits_to_ints ly out_vars (compute_bdds fs a).

(* the same, with compute_bdds executing a straight-line program *)
Definition step_prog_with (n : nat) (ly : layout) (out_vars : list nat)
    (prog : list stmt) (state : list (nat * val)) : option (list (nat * val)) :=
  let a := assign_bitvectors n ly state in
  match run a prog with
  | Some outs => Some (out_bits_to_ints ly out_vars outs)
  | None => None
  end.

Section Step.
Variable n : nat.
Variable restrict : var -> pred -> pred -> pred.
Variable ly : layout.
Variable out_vars : list nat.
Variable r : pred.                         (* the relation, over the bits *)
Variable order : list (var * list var).    (* iteration orders, see Synth.v *)

(* dumps_bdds_as_code: out_bits = _list_bits(out_vars, aut.vars);
   outputs = make_functions(u, out_bits, aut.bdd) *)
Definition functions := make_functions n restrict r (list_bits ly out_vars) order.

Definition step (state : list (nat * val)) : list (nat * val) :=
  step_with n ly out_vars functions state.

(* with the program emitted for a DAG whose roots are the functions *)
Definition step_prog (fuel : nat) (d : dag) (roots : list (nat * Z))
    (state : list (nat * val)) : option (list (nat * val)) :=
  step_prog_with n ly out_vars (dumps_bdd_as_code fuel d roots) state.

End Step.

(* comparison for tie H: the values returned by the REAL step on listed states *)
Fixpoint result_eqb (a b : list (nat * val)) : bool :=
  match a, b with
  | [], [] => true
  | (x, v) :: a', (y, w) :: b' => Nat.eqb x y && val_eqb v w && result_eqb a' b'
  | _, _ => false
  end.
