"""Add `Print Assumptions X.` after every Theorem/Lemma/Corollary of a
Properties file that lacks one (dev helper)."""
import re
import sys
for f in sys.argv[1:]:
    s = open(f).read()
    names = re.findall(r'^(?:Theorem|Lemma|Corollary)\s+([A-Za-z_0-9\']+)', s, re.M)
    have = set(re.findall(r'Print Assumptions\s+([A-Za-z_0-9\']+)', s))
    n = 0
    for name in names:
        if name in have:
            continue
        m = re.search(r'^(?:Theorem|Lemma|Corollary)\s+' + re.escape(name) + r'\b', s, re.M)
        e = re.search(r'\b(Qed|Defined)\.', s[m.end():])
        pos = m.end() + e.end()
        s = s[:pos] + f'\nPrint Assumptions {name}.' + s[pos:]
        n += 1
    open(f, 'w').write(s)
    print(f, 'added', n)
