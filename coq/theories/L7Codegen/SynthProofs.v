(* L7 / SynthProofs: theorems about the model of functions.py (Synth.v).
   Everything is proved for every relation, every list of chosen output
   bits, every iteration order and every `restrict` that meets the contract
   (agrees with its argument on the care set; introduces no new variables). *)
From Coq Require Import List Bool Arith Lia.
Import ListNotations.
From Omega Require Import L7Codegen.Pred L7Codegen.PredFacts L7Codegen.Synth.

Section Proofs.
Variable n : nat.
Variable restrict : var -> pred -> pred -> pred.

Definition restrict_agrees : Prop :=
  forall y p c a, length a = n -> c a = true -> restrict y p c a = p a.
Definition restrict_support : Prop :=
  forall y p c v, indep n p v -> indep n c v -> indep n (restrict y p c) v.

Local Notation indep := (indep n).
Local Notation exist := (exist n).
Local Notation cofactors := (cofactors n).
Local Notation widen := (widen n).
Local Notation widen_step := (widen_step n).
Local Notation care_of := (care_of n).
Local Notation extract_function := (extract_function n restrict).
Local Notation final_cofactors := (final_cofactors n).
Local Notation make_loop := (make_loop n restrict).
Local Notation make_functions := (make_functions n restrict).

(* --- the disjoint cofactors -------------------------------------------- *)
Lemma cofactors_fst f y outs a :
  fst (cofactors f y outs) a
  = exist outs f (upd a y true) && negb (exist outs f (upd a y false)).
Proof.
  unfold Synth.cofactors. cbn [fst].
  rewrite pand_spec, pnot_spec, !cofactor_spec. reflexivity.
Qed.

Lemma cofactors_snd f y outs a :
  snd (cofactors f y outs) a = exist outs f (upd a y false).
Proof.
  unfold Synth.cofactors. cbn [snd].
  rewrite pand_spec, pnot_spec, pand_spec, pnot_spec, !cofactor_spec.
  destruct (exist outs f (upd a y true)), (exist outs f (upd a y false)); reflexivity.
Qed.

(* p keeps the inputs that FORCE 1, n all inputs that ADMIT 0 *)

(* --- the widening loop -------------------------------------------------- *)
Definition winv (pn0 pn : pred * pred) : Prop :=
  (forall a, length a = n -> fst pn0 a = true -> fst pn a = true) /\
  (forall a, length a = n -> snd pn0 a = true -> snd pn a = true) /\
  (forall a, length a = n -> fst pn a && snd pn a = false).

Lemma exist1_grows z p a : p a = true -> exist1 n z p a = true.
Proof.
  intro H. rewrite exist1_spec. rewrite <- (upd_get a z) in H.
  destruct (get a z); rewrite H; auto using orb_true_r.
Qed.

Lemma widen_step_inv pn0 pn z : winv pn0 pn -> winv pn0 (widen_step pn z).
Proof.
  intros (Hp & Hn & Hd). unfold Synth.widen_step.
  destruct (is_false n _) eqn:E; [|repeat split; assumption].
  cbn [fst snd]. repeat split.
  - intros a L H. apply exist1_grows, Hp; assumption.
  - intros a L H. apply exist1_grows, Hn; assumption.
  - intros a L. rewrite is_false_spec in E. specialize (E a L).
    rewrite pand_spec in E. exact E.
Qed.

Lemma widen_inv zs : forall pn0 pn, winv pn0 pn -> winv pn0 (widen zs pn).
Proof.
  induction zs as [|z zs IH]; intros pn0 pn H; cbn; [exact H|].
  apply IH, widen_step_inv, H.
Qed.

Lemma cofactors_winv f y outs : winv (cofactors f y outs) (cofactors f y outs).
Proof.
  repeat split; auto. intros a L. rewrite cofactors_fst, cofactors_snd.
  destruct (exist outs f (upd a y true)), (exist outs f (upd a y false)); reflexivity.
Qed.

(* loop invariants of extract_function: p /\ n = 0, p >= p0, n >= n0 *)
Lemma final_cofactors_inv f y outs zs :
  winv (cofactors f y outs) (final_cofactors f y outs zs).
Proof. apply widen_inv, cofactors_winv. Qed.

(* --- care ---------------------------------------------------------------- *)
Lemma care_of_spec pn a :
  care_of pn a = xorb (fst pn a) (snd pn a).
Proof.
  unfold Synth.care_of. rewrite por_spec, !pand_spec, !pnot_spec.
  destruct (fst pn a), (snd pn a); reflexivity.
Qed.

(* before widening, care = the inputs at which the projected relation is
   solvable for this bit *)
Lemma care_before_widening f y outs a :
  care_of (cofactors f y outs) a = exist1 n y (exist outs f) a.
Proof.
  rewrite care_of_spec, cofactors_fst, cofactors_snd, exist1_spec.
  destruct (exist outs f (upd a y true)), (exist outs f (upd a y false)); reflexivity.
Qed.

(* widening only enlarges care *)
Lemma care_widening_grows f y outs zs a :
  length a = n ->
  care_of (cofactors f y outs) a = true ->
  care_of (final_cofactors f y outs zs) a = true.
Proof.
  intros L. destruct (final_cofactors_inv f y outs zs) as (Hp & Hn & Hd).
  rewrite !care_of_spec. specialize (Hp a L). specialize (Hn a L). specialize (Hd a L).
  destruct (fst (cofactors f y outs) a), (snd (cofactors f y outs) a),
    (fst (final_cofactors f y outs zs) a), (snd (final_cofactors f y outs zs) a);
    cbn in *; intuition congruence.
Qed.

Lemma extract_care f y outs zs :
  snd (extract_function f y outs zs) = care_of (final_cofactors f y outs zs).
Proof. reflexivity. Qed.

Hypothesis Hagree : restrict_agrees.

Lemma extract_on_care f y outs zs a :
  length a = n ->
  snd (extract_function f y outs zs) a = true ->
  fst (extract_function f y outs zs) a = fst (final_cofactors f y outs zs) a.
Proof. intros L H. unfold Synth.extract_function. cbn [fst]. apply Hagree; assumption. Qed.

(* where the value is forced, the function returns it *)
Lemma extract_forced_true f y outs zs a :
  length a = n ->
  exist outs f (upd a y true) = true -> exist outs f (upd a y false) = false ->
  fst (extract_function f y outs zs) a = true.
Proof.
  intros L H1 H0.
  destruct (final_cofactors_inv f y outs zs) as (Hp & Hn & Hd).
  specialize (Hp a L). specialize (Hd a L).
  rewrite cofactors_fst, H1, H0 in Hp. specialize (Hp eq_refl).
  rewrite extract_on_care; [exact Hp|exact L|].
  rewrite extract_care, care_of_spec. rewrite Hp in *. cbn in Hd. rewrite Hd. reflexivity.
Qed.

Lemma extract_forced_false f y outs zs a :
  length a = n ->
  exist outs f (upd a y true) = false -> exist outs f (upd a y false) = true ->
  fst (extract_function f y outs zs) a = false.
Proof.
  intros L H1 H0.
  destruct (final_cofactors_inv f y outs zs) as (Hp & Hn & Hd).
  specialize (Hn a L). specialize (Hd a L).
  rewrite cofactors_snd, H0 in Hn. specialize (Hn eq_refl).
  rewrite Hn, andb_true_r in Hd.
  rewrite extract_on_care; [exact Hd|exact L|].
  rewrite extract_care, care_of_spec, Hd, Hn. reflexivity.
Qed.

(* on every solvable input the function's value is an admissible one *)
Lemma extract_sound f y outs zs a :
  length a = n ->
  exist1 n y (exist outs f) a = true ->
  exist outs f (upd a y (fst (extract_function f y outs zs) a)) = true.
Proof.
  intros L H. rewrite exist1_spec in H.
  destruct (exist outs f (upd a y true)) eqn:H1, (exist outs f (upd a y false)) eqn:H0;
    try discriminate.
  - (* both values admitted *)
    destruct (fst (extract_function f y outs zs) a); assumption.
  - rewrite (extract_forced_true f y outs zs a L H1 H0). exact H1.
  - rewrite (extract_forced_false f y outs zs a L H1 H0). exact H0.
Qed.

(* --- independence -------------------------------------------------------- *)
Hypothesis Hsupp : restrict_support.

Lemma cofactors_indep f y outs v :
  v = y \/ In v outs \/ indep f v ->
  indep (fst (cofactors f y outs)) v /\ indep (snd (cofactors f y outs)) v.
Proof.
  intro H.
  assert (C : forall b, indep (cofactor n (exist outs f) y b) v).
  { intro b. destruct H as [->|H]; [apply indep_cofactor_same|].
    apply indep_cofactor, indep_exist. tauto. }
  unfold Synth.cofactors. cbn [fst snd]. split.
  - apply indep_pand; [apply C|apply indep_pnot, C].
  - apply indep_pand; [apply C|]. apply indep_pnot, indep_pand; [apply C|apply indep_pnot, C].
Qed.

Lemma widen_indep zs v : forall pn,
  indep (fst pn) v /\ indep (snd pn) v ->
  indep (fst (widen zs pn)) v /\ indep (snd (widen zs pn)) v.
Proof.
  induction zs as [|z zs IH]; intros pn H; cbn; [exact H|]. apply IH.
  unfold Synth.widen_step. destruct (is_false n _); [|exact H]. cbn [fst snd].
  destruct H. split; apply indep_exist1; assumption.
Qed.

Lemma care_of_indep pn v :
  indep (fst pn) v -> indep (snd pn) v -> indep (care_of pn) v.
Proof.
  intros Hp Hn. unfold Synth.care_of.
  apply indep_por; apply indep_pand; auto using indep_pnot.
Qed.

Lemma extract_indep f y outs zs v :
  v = y \/ In v outs \/ indep f v ->
  indep (fst (extract_function f y outs zs)) v /\
  indep (snd (extract_function f y outs zs)) v.
Proof.
  intro H. destruct (widen_indep zs v _ (cofactors_indep f y outs v H)) as [Hp Hn].
  unfold Synth.extract_function. cbn [fst snd].
  assert (Hc := care_of_indep _ v Hp Hn). split; [|exact Hc].
  apply Hsupp; assumption.
Qed.

Lemma In_remove_var y l v : In v (remove_var y l) <-> In v l /\ v <> y.
Proof.
  unfold remove_var. rewrite filter_In, negb_true_iff, Nat.eqb_neq. tauto.
Qed.

Lemma make_loop_keys : forall order r outputs,
  map fst (make_loop r order outputs) = map fst order.
Proof.
  induction order as [|[y zs] rest IH]; intros r outputs; cbn; [reflexivity|].
  f_equal. apply IH.
Qed.

Lemma make_loop_indep : forall order r outputs e v,
  In e (make_loop r order outputs) ->
  In v outputs \/ indep r v ->
  indep (fst (snd e)) v /\ indep (snd (snd e)) v.
Proof.
  induction order as [|[y zs] rest IH]; intros r outputs e v He Hv; cbn in He; [destruct He|].
  set (outs' := remove_var y outputs) in *.
  assert (Hg : indep (fst (extract_function r y outs' zs)) v /\
               indep (snd (extract_function r y outs' zs)) v).
  { apply extract_indep. destruct Hv as [Hv|Hv]; [|tauto].
    destruct (Nat.eq_dec v y) as [->|Ne]; [tauto|].
    right; left. apply In_remove_var. tauto. }
  destruct He as [<-|He]; [exact Hg|].
  apply (IH _ _ _ v He).
  destruct Hv as [Hv|Hv].
  - destruct (Nat.eq_dec v y) as [->|Ne].
    + right. apply indep_subst_same, Hg.
    + left. apply In_remove_var. tauto.
  - right. apply indep_subst; [exact Hv|apply Hg].
Qed.

(* C14 (1): no extracted function (nor care set) depends on any chosen
   output bit *)
Theorem functions_independent r vrs order y g care v :
  In (y, (g, care)) (make_functions r vrs order) ->
  In v vrs -> indep g v /\ indep care v.
Proof.
  intros He Hv. unfold Synth.make_functions in He.
  apply (make_loop_indep _ _ _ _ v He).
  unfold outputs_of. destruct (depends n r v) eqn:D.
  - left. apply filter_In. auto.
  - right. apply depends_false, D.
Qed.

(* --- realizability ------------------------------------------------------- *)
Definition app_from (fs : list (var * (pred * pred))) (a b : asg) : asg :=
  fold_left (fun b e => upd b (fst e) (fst (snd e) a)) fs b.

Lemma apply_functions_app_from fs a : apply_functions fs a = app_from fs a a.
Proof. reflexivity. Qed.

Lemma app_from_upd fs a : forall b y c,
  ~ In y (map fst fs) -> app_from fs a (upd b y c) = upd (app_from fs a b) y c.
Proof.
  induction fs as [|e fs IH]; intros b y c H; [reflexivity|].
  change (app_from (e :: fs) a (upd b y c)) with (app_from fs a (upd (upd b y c) (fst e) (fst (snd e) a))).
  change (app_from (e :: fs) a b) with (app_from fs a (upd b (fst e) (fst (snd e) a))).
  cbn [map] in H.
  assert (Ne : y <> fst e) by (intros ->; apply H; left; reflexivity).
  rewrite (upd_comm b y (fst e)) by exact Ne. apply IH. intro I; apply H; right; exact I.
Qed.

Lemma app_from_agree fs a : forall b, agree_out (map fst fs) b (app_from fs a b).
Proof.
  induction fs as [|e fs IH]; intro b; [apply agree_out_refl|].
  change (app_from (e :: fs) a b) with (app_from fs a (upd b (fst e) (fst (snd e) a))).
  cbn [map].
  destruct (IH (upd b (fst e) (fst (snd e) a))) as [L H]. split.
  - rewrite L. apply upd_length.
  - intros i Hi. rewrite H by (intro I; apply Hi; right; exact I).
    apply get_upd_other. intro E; apply Hi; left; exact E.
Qed.

Lemma agree_out_upd ys y a b :
  agree_out (y :: ys) a b -> agree_out ys (upd a y (get b y)) b.
Proof.
  intros [L H]. split; [rewrite upd_length; exact L|]. intros i Hi.
  destruct (Nat.eq_dec i y) as [->|Ne].
  - destruct (Nat.lt_ge_cases y (length a)) as [Lt|Ge].
    + rewrite get_upd_same by exact Lt. reflexivity.
    + rewrite upd_noop by exact Ge. rewrite !get_beyond by lia. reflexivity.
  - rewrite get_upd_other by congruence. apply H. intros [E|E]; [congruence|auto].
Qed.

Lemma upd_absorb a b y c :
  length b = length a -> get b y = get (upd a y c) y -> upd b y c = b.
Proof.
  intros L H. destruct (Nat.lt_ge_cases y (length a)) as [Lt|Ge].
  - rewrite get_upd_same in H by exact Lt. rewrite <- H. apply upd_get.
  - apply upd_noop. lia.
Qed.

(* one step of make_functions preserves solvability of the input *)
Lemma solvable_step r y outs' zs outputs a :
  (forall v, In v outputs <-> v = y \/ In v outs') -> ~ In y outs' ->
  length a = n ->
  exist outputs r a = true ->
  exist outs' (subst n r y (fst (extract_function r y outs' zs))) a = true.
Proof.
  intros Hout Hy L H.
  set (g := fst (extract_function r y outs' zs)).
  apply exist_spec in H. destruct H as [b [[Lb Hb] Rb]].
  assert (A : agree_out (y :: outs') a b).
  { split; [exact Lb|]. intros i Hi. apply Hb. rewrite Hout. cbn in Hi. intuition congruence. }
  assert (U : exist1 n y (exist outs' r) a = true).
  { rewrite exist1_spec.
    assert (E : exist outs' r (upd a y (get b y)) = true).
    { apply exist_spec. exists b. split; [apply agree_out_upd, A|exact Rb]. }
    destruct (get b y); rewrite E; auto using orb_true_r. }
  apply (extract_sound r y outs' zs a L) in U. fold g in U.
  apply exist_spec in U. destruct U as [b2 [[L2 H2] R2]].
  rewrite upd_length in L2.
  apply exist_spec. exists (upd b2 y (get a y)). split.
  - split; [rewrite upd_length; exact L2|]. intros i Hi.
    destruct (Nat.eq_dec i y) as [->|Ne].
    + destruct (Nat.lt_ge_cases y (length a)) as [Lt|Ge].
      * apply get_upd_same. lia.
      * rewrite !get_beyond; [reflexivity|lia|rewrite upd_length; lia].
    + rewrite get_upd_other by congruence. rewrite H2 by exact Hi.
      apply get_upd_other. congruence.
  - rewrite subst_spec. fold g.
    assert (G : g (upd b2 y (get a y)) = g a).
    { symmetry. apply (indep_agree n (y :: outs')).
      - intros v Hv. apply extract_indep. destruct Hv as [<-|Hv]; [left; reflexivity|right; left; exact Hv].
      - exact L.
      - split; [rewrite upd_length; exact L2|]. intros i Hi. cbn in Hi.
        rewrite get_upd_other by tauto. rewrite H2 by tauto.
        apply get_upd_other. tauto. }
    rewrite G, upd_upd.
    rewrite (upd_absorb a b2 y (g a) L2 (H2 y Hy)). exact R2.
Qed.

Lemma make_loop_realize : forall order r outputs,
  NoDup (map fst order) ->
  (forall y, In y outputs <-> In y (map fst order)) ->
  forall a, length a = n ->
  exist outputs r a = true ->
  r (apply_functions (make_loop r order outputs) a) = true.
Proof.
  induction order as [|[y zs] rest IH]; intros r outputs ND Hout a L H.
  - cbn. apply exist_spec in H. destruct H as [b [[Lb Hb] Rb]].
    replace a with b; [exact Rb|].
    apply nth_ext with (d := false) (d' := false); [exact Lb|].
    intros i _. apply (Hb i). rewrite Hout. intros [].
  - cbn [map fst] in ND, Hout. inversion ND as [|? ? Hny ND']; subst.
    cbn [Synth.make_loop]. set (outs' := remove_var y outputs).
    set (gc := extract_function r y outs' zs).
    set (r' := subst n r y (fst gc)).
    set (fs := make_loop r' rest outs').
    assert (Hout' : forall v, In v outs' <-> In v (map fst rest)).
    { intro v. unfold outs'. rewrite In_remove_var, Hout. cbn. split.
      - intros [[E|E] Ne]; [congruence|exact E].
      - intro E. split; [tauto|]. intros ->. tauto. }
    assert (Hy : ~ In y outs') by (rewrite Hout'; exact Hny).
    assert (S : exist outs' r' a = true).
    { apply (solvable_step r y outs' zs outputs a); auto.
      intro v. rewrite Hout. cbn. rewrite Hout'. split; intros [E|E]; auto. }
    specialize (IH r' outs' ND' Hout' a L S). fold fs in IH.
    rewrite apply_functions_app_from in *.
    change (app_from ((y, gc) :: fs) a a) with (app_from fs a (upd a y (fst gc a))).
    rewrite app_from_upd by (unfold fs; rewrite make_loop_keys; exact Hny).
    unfold r' in IH at 1. rewrite subst_spec in IH.
    replace (fst gc (app_from fs a a)) with (fst gc a) in IH; [exact IH|].
    apply (indep_agree n (map fst fs)).
    + intros v Hv. unfold fs in Hv. rewrite make_loop_keys, <- Hout' in Hv.
      apply extract_indep. tauto.
    + exact L.
    + apply app_from_agree.
Qed.

Lemma reset_ignored (a : asg) (r : pred) : length a = n ->
  forall l c, length c = length a ->
  (forall v, In v l -> indep r v) ->
  length (fold_left (fun c v => upd c v (get a v)) l c) = length a /\
  r (fold_left (fun c v => upd c v (get a v)) l c) = r c /\
  (forall i, In i l -> get (fold_left (fun c v => upd c v (get a v)) l c) i = get a i) /\
  (forall i, ~ In i l -> get (fold_left (fun c v => upd c v (get a v)) l c) i = get c i).
Proof.
  intro L. induction l as [|v l IHl]; intros c Lc Hl; cbn [fold_left].
  - repeat split; auto. intros i [].
  - destruct (IHl (upd c v (get a v))) as (A1 & A2 & A3 & A4).
    + rewrite upd_length. exact Lc.
    + intros; apply Hl; right; assumption.
    + split; [exact A1|]. split; [|split].
      * rewrite A2. apply Hl; [left; reflexivity|lia].
      * intros i [<-|Hi]; [|apply A3, Hi].
        destruct (in_dec Nat.eq_dec v l) as [I|I]; [apply A3, I|].
        rewrite A4 by exact I.
        destruct (Nat.lt_ge_cases v (length c)) as [Lt|Ge].
        -- apply get_upd_same, Lt.
        -- rewrite !get_beyond; [reflexivity|lia|rewrite upd_length; lia].
      * intros i Hi. rewrite A4 by (intro I; apply Hi; right; exact I).
        apply get_upd_other. intro E; apply Hi; left; exact E.
Qed.

(* the iteration order is some enumeration, without repetition, of
   set(vrs) & support(r) *)
Definition order_ok (r : pred) (vrs : list var) (order : list (var * list var)) : Prop :=
  NoDup (map fst order) /\
  forall y, In y (map fst order) <-> In y vrs /\ depends n r y = true.

(* C14 (2): on every input for which the relation has some output, the
   values of the functions (with ANY value for the chosen outputs that the
   relation ignores: those keep their value from a) satisfy the relation *)
Theorem functions_realize r vrs order a :
  order_ok r vrs order ->
  length a = n ->
  (exists b, agree_out vrs a b /\ r b = true) ->
  r (apply_functions (make_functions r vrs order) a) = true.
Proof.
  intros [ND Hk] L [b [[Lb Hb] Rb]].
  apply make_loop_realize; auto.
  - intro y. rewrite Hk. unfold outputs_of. rewrite filter_In. tauto.
  - (* quantifying the ignored outputs changes nothing *)
    apply exist_spec.
    (* b agrees with a outside vrs; move the ignored outputs back to a *)
    set (ign := filter (fun v => negb (depends n r v)) vrs).
    set (b' := fold_left (fun c v => upd c v (get a v)) ign b).
    destruct (reset_ignored a r L ign b Lb) as (B1 & B2 & B3 & B4).
    { intros v Hv. apply filter_In in Hv. apply depends_false.
      destruct Hv as [_ Hv]. apply negb_true_iff, Hv. }
    fold b' in B1, B2, B3, B4.
    exists b'. split; [|rewrite B2; exact Rb].
    split; [exact B1|]. intros i Hi.
    destruct (in_dec Nat.eq_dec i ign) as [I|I]; [apply B3, I|].
    rewrite B4 by exact I. apply Hb. intro Hv.
    destruct (depends n r i) eqn:D.
    + apply Hi. unfold outputs_of. apply filter_In. auto.
    + apply I. unfold ign. apply filter_In. rewrite D. auto.
Qed.

(* C14 (3), care_spec: each entry of the result is extract_function applied
   to the relation with the earlier functions substituted; for it: *)
Lemma make_loop_unfold r y zs rest outputs :
  make_loop r ((y, zs) :: rest) outputs
  = (y, extract_function r y (remove_var y outputs) zs)
    :: make_loop (subst n r y (fst (extract_function r y (remove_var y outputs) zs)))
         rest (remove_var y outputs).
Proof. reflexivity. Qed.

Theorem care_spec f y outs zs a :
  length a = n ->
  let g := fst (extract_function f y outs zs) in
  let care := snd (extract_function f y outs zs) in
  let u := exist outs f in
  (* care contains every input at which the projected relation is solvable
     for this bit (and is exactly that set before the widening loop) *)
  (u (upd a y true) || u (upd a y false) = true -> care a = true) /\
  care_of (cofactors f y outs) a = u (upd a y true) || u (upd a y false) /\
  (* on such inputs the value of the function is admissible *)
  (u (upd a y true) || u (upd a y false) = true -> u (upd a y (g a)) = true) /\
  (* and where it is forced, it is the forced value *)
  (u (upd a y true) = true -> u (upd a y false) = false -> g a = true) /\
  (u (upd a y true) = false -> u (upd a y false) = true -> g a = false) /\
  (* care = p xor n for the disjoint widened cofactors; on care g = p *)
  care a = xorb (fst (final_cofactors f y outs zs) a) (snd (final_cofactors f y outs zs) a) /\
  (care a = true -> g a = fst (final_cofactors f y outs zs) a).
Proof.
  intros L g care u. repeat split.
  - intro H. unfold care. rewrite extract_care. apply care_widening_grows; [exact L|].
    rewrite care_before_widening, exist1_spec. exact H.
  - rewrite care_before_widening, exist1_spec. reflexivity.
  - intro H. apply extract_sound; [exact L|]. rewrite exist1_spec. exact H.
  - apply extract_forced_true, L.
  - apply extract_forced_false, L.
  - unfold care. rewrite extract_care. apply care_of_spec.
  - apply extract_on_care, L.
Qed.

(* the assertions of make_functions can never fail *)
Lemma asserts_loop_ok : forall order r outputs,
  asserts_loop n restrict r order outputs = true.
Proof.
  induction order as [|[y zs] rest IH]; intros r outputs; [reflexivity|].
  cbn [Synth.asserts_loop].
  set (gc := extract_function r y (remove_var y outputs) zs).
  assert (Hg : indep (fst gc) y) by (apply extract_indep; tauto).
  rewrite IH, andb_true_r.
  assert (D1 : depends n (subst n r y (fst gc)) y = false)
    by (apply depends_false, indep_subst_same, Hg).
  assert (D2 : depends n (fst gc) y = false) by (apply depends_false, Hg).
  rewrite D1, D2. reflexivity.
Qed.

Theorem asserts_hold r vrs order : asserts_ok n restrict r vrs order = true.
Proof.
  unfold asserts_ok. rewrite asserts_loop_ok. cbn [andb].
  apply forallb_forall. intros [y [g care]] He.
  apply forallb_forall. intros v Hv. cbn [fst snd].
  apply negb_true_iff, depends_false.
  apply (functions_independent r vrs order y g care v He Hv).
Qed.

End Proofs.

(* --- the contract is satisfiable: the branch `_bdd is None` -------------- *)
Lemma no_restrict_agrees n : restrict_agrees n no_restrict.
Proof. intros y p c a _ _. reflexivity. Qed.
Lemma no_restrict_support n : restrict_support n no_restrict.
Proof. intros y p c v Hp _. exact Hp. Qed.
