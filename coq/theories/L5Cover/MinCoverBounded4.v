(* L5Cover / MinCoverBounded4: minimality of the model of cover.minimize on
   - all 2^16 functions of four two-valued variables with care = TRUE,
   - all 2^9 subsets of the 3x3 integer grid (variables with type hint 0..2,
     hence bit-field 0..3; care = the type hints),
   by computation over the whole domain. *)
From Coq Require Import List ZArith NArith Bool Lia.
Import ListNotations.
From Omega Require Import L5Cover.Boxes L5Cover.BoxesProofs L5Cover.MinCover
  L5Cover.MinCoverProofs L5Cover.MinCoverBounded.
Open Scope Z_scope.

Definition rs4 : ranges := [(0, 1); (0, 1); (0, 1); (0, 1)].
Definition care_true (p : point) : bool := true.

(* 65536 = 256 blocks of 256 masks *)
Definition all4 (pick : list box -> option box) : bool :=
  allb (fun hi => allb (fun lo =>
          ok_inst rs4 pick (fun_of_mask (256 * hi + lo)%N) care_true)
        (nrange 256 0%N)) (nrange 256 0%N).

Lemma all4_correct pick : all4 pick = true ->
  forall fm, (fm < 65536)%N ->
  exists K, minimize rs4 pick (fun_of_mask fm) care_true = Some K /\
            min_prime_cover rs4 (fun_of_mask fm) care_true K.
Proof.
  unfold all4. rewrite allb_forallb, forallb_forall. intros H fm Hf.
  pose proof (N.div_mod fm 256%N ltac:(lia)) as E.
  assert (Hhi : (fm / 256 < 256)%N) by (apply N.div_lt_upper_bound; lia).
  assert (Hlo : (fm mod 256 < 256)%N) by (apply N.mod_lt; lia).
  set (hi := (fm / 256)%N) in *. set (lo := (fm mod 256)%N) in *.
  clearbody hi lo. subst fm.
  assert (Hin : In hi (nrange 256 0%N)) by (apply nrange_In; cbn; lia).
  specialize (H hi Hin). rewrite allb_forallb, forallb_forall in H.
  apply ok_inst_correct, H, nrange_In. cbn. lia.
Qed.

Lemma all4_first : all4 pick_first = true.
Proof. vm_compute. reflexivity. Qed.

Theorem minimize_min_bounded_4_first :
  forall fm, (fm < 65536)%N ->
  exists K, minimize rs4 pick_first (fun_of_mask fm) care_true = Some K /\
            min_prime_cover rs4 (fun_of_mask fm) care_true K.
Proof. exact (all4_correct pick_first all4_first). Qed.

(* ---- the 3x3 integer grid *)
Definition rsg : ranges := [(0, 3); (0, 3)].
Definition hints33 (p : point) : bool :=
  match p with [x; y] => (x <=? 2) && (y <=? 2) | _ => false end.
Definition grid_index (p : point) : N :=
  match p with [x; y] => Z.to_N (3 * x + y) | _ => 0%N end.
Definition grid_fun (m : N) (p : point) : bool :=
  hints33 p && N.testbit m (grid_index p).

Definition allg (pick : list box -> option box) : bool :=
  allb (fun fm => ok_inst rsg pick (grid_fun fm) hints33) (nrange 256 0%N) &&
  allb (fun fm => ok_inst rsg pick (grid_fun fm) hints33) (nrange 256 256%N).

Lemma allg_correct pick : allg pick = true ->
  forall fm, (fm < 512)%N ->
  exists K, minimize rsg pick (grid_fun fm) hints33 = Some K /\
            min_prime_cover rsg (grid_fun fm) hints33 K.
Proof.
  unfold allg. rewrite andb_true_iff, !allb_forallb, !forallb_forall.
  intros [H1 H2] fm Hf. apply ok_inst_correct.
  destruct (N.ltb_spec fm 256).
  - apply H1, nrange_In. cbn. lia.
  - apply H2, nrange_In. cbn. lia.
Qed.

Lemma allg_first : allg pick_first = true.
Proof. vm_compute. reflexivity. Qed.
Lemma allg_last : allg pick_last = true.
Proof. vm_compute. reflexivity. Qed.

Theorem minimize_min_bounded_grid_first :
  forall fm, (fm < 512)%N ->
  exists K, minimize rsg pick_first (grid_fun fm) hints33 = Some K /\
            min_prime_cover rsg (grid_fun fm) hints33 K.
Proof. exact (allg_correct pick_first allg_first). Qed.

Theorem minimize_min_bounded_grid_last :
  forall fm, (fm < 512)%N ->
  exists K, minimize rsg pick_last (grid_fun fm) hints33 = Some K /\
            min_prime_cover rsg (grid_fun fm) hints33 K.
Proof. exact (allg_correct pick_last allg_last). Qed.

(* regression: the unrepaired cover.minimize (finding F13) fails on this
   function with pick = first element: the greedy cover (5 boxes) meets the
   lower bound 2 essential + 3 independent, the top-level traversal is
   pruned, and line 85 raises NameError.  (With dd's pick the real code fails
   on the truth tables 32201, ... see corpus/C09.) *)
Example minimize_unrepaired_fails :
  minimize_unrepaired rs4 pick_first (fun_of_mask 32453) care_true = None /\
  exists K, minimize rs4 pick_first (fun_of_mask 32453) care_true = Some K /\
            length K = 5%nat.
Proof. split; [vm_compute; reflexivity|]. eexists. split; vm_compute; reflexivity. Qed.
