(* C04 — Rabin(1) winning region: exact fixpoint, and dual to the opponent's
   Streett(1) region.  Statements only.  Gr1Gen.* is generated from
   /repo/omega/games/gr1.py on every run.

   Proved for all arenas / actions / liveness lists / four modes:
   (1) the last iterate returned by solve_rabin_game is exactly
         mu Z. \/_k nu Y. /\_j mu X. (cpre X \/ R_j) /\ cpre Y /\ (cpre Z \/ P_k);
   (2) for every Streett(1) game, the region returned by solve_streett_game
       and the region returned by solve_rabin_game on the opponent's game
       (roles swapped = coordinates swapped by swapV, actions exchanged,
       liveness complemented, Moore <-> Mealy, strict <-> non-strict) are
       complementary: every valuation is in exactly one of them.
   (3) GAME SEMANTICS (theories/L4/Plays.v .. Determinacy.v), for non-empty
       liveness lists and every in-range state s: the last iterate holds at s
       iff the component has a strategy all of whose plays from s keep the
       component's action as the mode obliges and, if the environment keeps
       its action forever, have some persistence predicate holding from some
       point on AND every recurrence predicate holding infinitely often
       (C04_region_is_winning_region); outside the region the environment has
       a strategy against which no play satisfies that objective
       (C04_outside_environment_wins).  The converse duality (complement of the
       Rabin(1) region = opponent's Streett(1) region) is C04_duality_converse.
       (3) depends on Classical_Prop.classic; (1), (2) are axiom-free.
   (4) gr1.trivial_winning_set ("trivial realizability", built on the
       duality): TrivialGen.trivial_winning_set is translated on every run
       from the current gr1.py (the construction of the environment's Rabin(1)
       automaton field by field, the defaults of default_rabin_automaton read
       from temporal.py, the two calls of the generated solvers, zk[-1], the
       returned expression).  It equals the model GenProofs/TrivialSet.v
       (C04_trivial_translated_is_model), and it holds at a state s exactly
       when the component wins the Streett(1) game from s in the game's own
       mode AND the environment -- playing as the Moore, strict component of
       the role-swapped game (coordinates through swapV, actions exchanged)
       with recurrence goals ~P_k and the trivial persistence set -- has NO
       winning strategy, i.e. cannot keep its action and, if the component
       keeps its own forever, make every persistence set P_k false infinitely
       often (C04_trivial_set_spec; by determinacy the component then has a
       strategy that defeats that objective on every play:
       C04_trivial_set_spec_dual; the objective spelled out:
       C04_trivial_env_objective).  In mu-calculus terms: C04_trivial_set_mu
       (axiom-free).  The game-level ones depend on classic. *)
From Coq Require Import List Bool Arith Lia.
From Omega Require Import L4.Arena L4.Kleene L4.GameSpec L4.Mu L4.GR1Spec L4.Duality
  L4.Duality2 L4.Plays L4.Determinacy.
From OmegaGen Require Import FixpointGen Gr1Gen TrivialGen.
From OmegaGP Require Import FixpointProofs StreettProofs RabinProofs DualityProofs GameSemantics
  TrivialSet TrivialBridge.

Section C04.
Variables nc nx ny : nat.
Variables E S : bdd.
Variables holds goals : list bdd.
Variables moore plus_one : bool.

Theorem C04_rabin_fixpoint_exact : forall fuel, NV nc nx ny <= fuel ->
  eqv nc nx ny
    (last (fst (fst (Gr1Gen.solve_rabin_game nc nx ny E S holds goals moore plus_one fuel))) bfalse)
    (rabin_spec nc nx ny moore plus_one E S holds goals).
Proof. exact (rabin_fixpoint nc nx ny E S holds goals moore plus_one). Qed.

Theorem C04_spec_outer_is_least_fixpoint :
  is_lfp nc nx ny (rZ_op nc nx ny moore plus_one E S holds goals)
         (rabin_spec nc nx ny moore plus_one E S holds goals).
Proof. exact (rabin_spec_is_lfp nc nx ny moore plus_one E S holds goals). Qed.

(* spec-level duality *)
Theorem C04_duality_spec : forall v, inr nc nx ny v ->
  streett_spec nc nx ny moore plus_one E S holds goals v =
  negb (rabin_spec nc ny nx (negb moore) (negb plus_one) (dual S) (dual E)
          (map Phi goals) (map Phi holds) (swapV v)).
Proof. exact (streett_rabin_partition nc nx ny moore plus_one E S holds goals). Qed.

(* the same for what the two generated solvers return *)
Theorem C04_duality_solvers : forall fuel,
  NV nc nx ny <= fuel -> NV nc ny nx <= fuel -> forall v, inr nc nx ny v ->
  streett_region nc nx ny E S holds goals moore plus_one fuel v =
  negb (opponent_rabin_region nc nx ny E S holds goals moore plus_one fuel (swapV v)).
Proof. exact (solvers_partition nc nx ny E S holds goals moore plus_one). Qed.

Theorem C04_duality_converse : forall v, inr nc nx ny v ->
  rabin_spec nc nx ny moore plus_one E S holds goals v =
  negb (streett_spec nc ny nx (negb moore) (negb plus_one) (dual S) (dual E)
          (map Phi goals) (map Phi holds) (swapV v)).
Proof. exact (rabin_streett_partition nc nx ny moore plus_one E S holds goals). Qed.

(* ---- game semantics ---- *)
Theorem C04_region_is_winning_region : forall c fuel s,
  c < nc -> 0 < length goals -> 0 < length holds -> NV nc nx ny <= fuel ->
  fst s < nx -> snd s < ny ->
  (last (fst (fst (Gr1Gen.solve_rabin_game nc nx ny E S holds goals moore plus_one fuel)))
        bfalse (stv c s) = true
   <-> comp_wins nx ny moore (win_rabin c E S holds goals plus_one) s).
Proof.
  intros c fuel s Hc HR HP Hf.
  exact (rabin_solved_exact nc nx ny E S holds goals moore plus_one c Hc HR HP fuel Hf s).
Qed.

Theorem C04_outside_environment_wins : forall c fuel s,
  c < nc -> 0 < length goals -> 0 < length holds -> NV nc nx ny <= fuel ->
  fst s < nx -> snd s < ny ->
  last (fst (fst (Gr1Gen.solve_rabin_game nc nx ny E S holds goals moore plus_one fuel)))
       bfalse (stv c s) = false ->
  env_prevents nx ny moore (win_rabin c E S holds goals plus_one) s.
Proof.
  intros c fuel s Hc HR HP Hf.
  exact (rabin_solved_complete nc nx ny E S holds goals moore plus_one c Hc HR HP fuel Hf s).
Qed.

End C04.

(* ---- gr1.trivial_winning_set ---- *)
Section C04_trivial.
Import ListNotations.
Variables nc nx ny : nat.
Variables E S Ie Is : bdd.     (* actions and (unused by the function) inits *)
Variables holds goals : list bdd.
Variables moore plus_one : bool.

Local Notation translated fuel :=
  (TrivialGen.trivial_winning_set nc nx ny E S Ie Is holds goals moore plus_one fuel).
(* the environment's game: arena (nc, ny, nx), actions exchanged and read
   through swapV, persistence [TRUE], Moore, strict *)
Local Notation env_objective c :=
  (win_rabin c (dual S) (dual E) [btrue] (map Phi holds) true).

Theorem C04_trivial_translated_is_model : forall fuel v,
  translated fuel v =
  band nc nx ny
    (fst (fst (Gr1Gen.solve_streett_game nc nx ny E S holds goals moore plus_one fuel)))
    (bnot nc nx ny (dual
      (last (fst (fst (Gr1Gen.solve_rabin_game nc ny nx (dual S) (dual E) [btrue]
                         (map dual (map (bnot nc nx ny) holds)) true true fuel))) bfalse))) v.
Proof. exact (fun fuel v => trivial_winning_set_is_trivial_set nc nx ny E S holds goals moore plus_one fuel v Ie Is). Qed.

Theorem C04_trivial_set_mu : forall fuel v,
  NV nc nx ny <= fuel -> NV nc ny nx <= fuel -> inr nc nx ny v ->
  translated fuel v =
  streett_spec nc nx ny moore plus_one E S holds goals v
  && negb (rabin_spec nc ny nx true true (dual S) (dual E) [btrue]
             (map dual (map (bnot nc nx ny) holds)) (swapV v)).
Proof. exact (fun fuel v HA HB => trivial_winning_set_mu nc nx ny E S Ie Is holds goals moore plus_one fuel HA HB v). Qed.

Theorem C04_trivial_set_spec : forall c fuel s,
  c < nc -> 0 < length goals -> 0 < length holds ->
  NV nc nx ny <= fuel -> NV nc ny nx <= fuel -> fst s < nx -> snd s < ny ->
  (translated fuel (stv c s) = true <->
   comp_wins nx ny moore (win_streett c E S holds goals plus_one) s /\
   ~ comp_wins ny nx true (env_objective c) (swap_st s)).
Proof.
  exact (fun c fuel s Hc HR HP HA HB =>
    trivial_winning_set_spec nc nx ny E S Ie Is holds goals moore plus_one fuel HA HB c Hc HR HP s).
Qed.

Theorem C04_trivial_set_spec_dual : forall c fuel s,
  c < nc -> 0 < length goals -> 0 < length holds ->
  NV nc nx ny <= fuel -> NV nc ny nx <= fuel -> fst s < nx -> snd s < ny ->
  (translated fuel (stv c s) = true <->
   comp_wins nx ny moore (win_streett c E S holds goals plus_one) s /\
   env_prevents ny nx true (env_objective c) (swap_st s)).
Proof.
  exact (fun c fuel s Hc HR HP HA HB =>
    trivial_winning_set_spec_dual nc nx ny E S Ie Is holds goals moore plus_one fuel HA HB c Hc HR HP s).
Qed.

(* the environment's objective on a play q of the role-swapped game
   (q i = (y_i, x_i)): keep its action as a strict component, and if the
   opponent keeps its own forever, every P_k is false infinitely often *)
Theorem C04_trivial_env_objective : forall c q,
  env_objective c q <->
  safe_comp c (dual S) (dual E) true q /\
  ((forall i, Eat c (dual S) q i) ->
   forall P, In P holds -> forall N, exists i, N <= i /\ P (stv c (swap_st (q i))) = false).
Proof. exact (fun c q => Wenv_reading E S holds c q). Qed.

End C04_trivial.

Local Open Scope bool_scope.
Import ListNotations.
(* non-vacuity of the duality statement on a concrete 2x2 arena *)
Example C04_duality_example :
  let E : bdd := fun v => Nat.eqb (vxp v) (vx v) || Nat.eqb (vy v) 1 in
  let S : bdd := fun v => negb (Nat.eqb (vyp v) (vx v)) || Nat.eqb (vx v) 0 in
  let P : bdd := fun v => Nat.eqb (vy v) 0 in
  let R : bdd := fun v => Nat.eqb (vx v) (vy v) in
  map (fun v => streett_region 1 2 2 E S [P] [R] false true 20 v)
      [mkV 0 0 0 0 0; mkV 0 0 1 0 0; mkV 0 1 0 0 0; mkV 0 1 1 0 0] =
  map (fun v => negb (opponent_rabin_region 1 2 2 E S [P] [R] false true 20 (swapV v)))
      [mkV 0 0 0 0 0; mkV 0 0 1 0 0; mkV 0 1 0 0 0; mkV 0 1 1 0 0]
  /\ NV 1 2 2 <= 20.
Proof. vm_compute. split; [reflexivity|repeat constructor]. Qed.

(* non-vacuity of the game-semantic statement: winning and losing states *)
Example C04_region_example :
  let E : bdd := fun v => true in
  let S : bdd := fun v => Nat.eqb (vyp v) (vy v) in
  let P : bdd := fun v => true in
  let R : bdd := fun v => Nat.eqb (vy v) 1 in
  map (fun s => last (fst (fst (Gr1Gen.solve_rabin_game 1 2 2 E S [P] [R] false true 20)))
                     bfalse (stv 0 s)) [(0, 0); (0, 1); (1, 0); (1, 1)]
  = [false; true; false; true] /\ NV 1 2 2 <= 20.
Proof. vm_compute. split; [reflexivity|repeat constructor]. Qed.

(* trivial_winning_set on a game with three kinds of states (2 x 3 arena,
   the component's y never changes): y = 0 -- the component wins by staying
   in the persistence set P, trivially; y = 2 -- it wins only through the
   recurrence goal R while P is false for ever, so the environment wins its
   own game and the state is NOT trivial; y = 1 -- the component loses *)
Example C04_trivial_set_example :
  let E : bdd := fun v => true in
  let S : bdd := fun v => Nat.eqb (vyp v) (vy v) in
  let P : bdd := fun v => Nat.eqb (vy v) 0 in
  let R : bdd := fun v => Nat.eqb (vy v) 0 || Nat.eqb (vy v) 2 in
  let sts := [(0, 0); (0, 1); (0, 2); (1, 0); (1, 1); (1, 2)] in
  map (fun s => TrivialGen.trivial_winning_set 1 2 3 E S btrue btrue [P] [R] false true 40
                  (stv 0 s)) sts
  = [true; false; false; true; false; false]
  /\ map (fun s => streett_region 1 2 3 E S [P] [R] false true 40 (stv 0 s)) sts
  = [true; false; true; true; false; true]
  /\ NV 1 2 3 <= 40 /\ NV 1 3 2 <= 40.
Proof. vm_compute. repeat split; repeat constructor. Qed.

Print Assumptions C04_trivial_translated_is_model.
Print Assumptions C04_trivial_set_mu.
Print Assumptions C04_trivial_set_spec.
Print Assumptions C04_trivial_set_spec_dual.
Print Assumptions C04_trivial_env_objective.
Print Assumptions C04_region_is_winning_region.
Print Assumptions C04_outside_environment_wins.
Print Assumptions C04_duality_converse.
Print Assumptions C04_rabin_fixpoint_exact.
Print Assumptions C04_spec_outer_is_least_fixpoint.
Print Assumptions C04_duality_spec.
Print Assumptions C04_duality_solvers.
