(* L5Cover / MinCover: executable model of omega/symbolic/cover.py
   (minimize, cyclic_core, _cyclic_core_fixpoint, _max_transpose, _floor,
   _maxima, _traverse, _branch, _lower_bound/_independent_set,
   _upper_bound/_some_cover, unfloors) over explicit finite sets of lattice
   elements.

   Model file: definitions only; proofs in MinCoverProofs.v.

   Lattice.  The code represents a box by an assignment to the parameters
   (a_x, b_x) of every variable x; a_x and b_x range over the bit-field of x,
   so the carrier also contains "improper" elements with a_x > b_x.  The order
   is p_leq_q = /\_x (u_x <= a_x) /\ (b_x <= v_x)  (Boxes.box_le); it makes
   the carrier a finite product of chains, hence a complete lattice whose
   meet/join are computed component-wise.  The BDD formulas of [_floor] with
   [_contains_covered] define, for every y, the least element above all x
   below y (signatures=False: Floor = Join(ThoseUnder(X, y))) and, with the
   order reversed, the greatest element below all y above x
   (signatures=True: Ceil = Meet(ThoseOver(Y, x))).  The model computes these
   joins/meets directly.

   Sets of lattice elements (BDDs over the parameters) are duplicate-free
   lists; equality of BDDs is equality as sets ([same_setb]).

   [pick] models dd's BDD.pick: some element of a non-empty set.  Nothing
   but [pick s \in s] is assumed about it in the theorems.

   Python assertions that only re-check invariants are not modelled; the
   places where the code would fail (pick from an empty set) return None. *)
From Coq Require Import List ZArith Bool Lia Arith.
Import ListNotations.
From Omega Require Import L5Cover.Boxes.
Open Scope Z_scope.

Definition ival_meet (i j : ival) : ival :=
  (Z.max (fst i) (fst j), Z.min (snd i) (snd j)).
Definition ival_join (i j : ival) : ival :=
  (Z.min (fst i) (fst j), Z.max (snd i) (snd j)).

Fixpoint box_meet (b c : box) : box :=
  match b, c with
  | i :: b', j :: c' => ival_meet i j :: box_meet b' c'
  | _, _ => []
  end.
Fixpoint box_join (b c : box) : box :=
  match b, c with
  | i :: b', j :: c' => ival_join i j :: box_join b' c'
  | _, _ => []
  end.

(* greatest and least element of the parameter lattice *)
Definition top (rs : ranges) : box := rs.
Definition bot (rs : ranges) : box := map (fun r => (snd r, fst r)) rs.

Definition meet_all (rs : ranges) (l : list box) : box :=
  fold_right box_meet (top rs) l.
Definition join_all (rs : ranges) (l : list box) : box :=
  fold_right box_join (bot rs) l.

Definition those_over (Y : list box) (x : box) : list box :=
  filter (box_leb x) Y.
Definition those_under (X : list box) (y : box) : list box :=
  filter (fun x => box_leb x y) X.

Fixpoint dedup (l : list box) : list box :=
  match l with
  | [] => []
  | b :: l' => let d := dedup l' in if mem_box d b then d else b :: d
  end.

(* cover._maxima *)
Definition maxima (l : list box) : list box := filter (maximal_in l) l.

Definition inter (A B : list box) : list box := filter (mem_box B) A.
Definition diff (A B : list box) : list box :=
  filter (fun b => negb (mem_box B b)) A.
Definition union (A B : list box) : list box := A ++ diff B A.

(* the singleton boxes of the points of f: orthotopes.embed_as_implicants *)
Definition embed (rs : ranges) (f : point -> bool) : list box :=
  map (map (fun x => (x, x))) (fpoints rs f).

Section Alg.
Variable rs : ranges.
Variable pick : list box -> option box.

(* cover._floor(..., signatures=True) and =False *)
Definition ceil (Y : list box) (x : box) : box := meet_all rs (those_over Y x).
Definition floor (X : list box) (y : box) : box := join_all rs (those_under X y).

(* cover._max_transpose *)
Definition max_ceilings (X Y : list box) : list box :=
  maxima (dedup (map (ceil Y) X)).
Definition max_floors (X Y : list box) : list box :=
  maxima (dedup (map (floor X) Y)).

(* cover._cyclic_core_fixpoint: the body runs at least once and the loop
   ends when an iteration changes neither x nor y *)
Fixpoint cc_loop (fuel : nat) (X Y E : list box)
  : option (list box * list box * list box) :=
  match fuel with
  | O => None
  | S n =>
      let X1 := max_ceilings X Y in
      let e := inter X1 Y in
      let X2 := diff X1 e in
      let Y1 := diff Y e in
      let E' := union E e in
      let Y2 := max_floors X2 Y1 in
      if (if same_setb X2 X then same_setb Y2 Y else false)
      then Some (X2, Y2, E')
      else cc_loop n X2 Y2 E'
  end.

Definition cc_fuel (X Y : list box) : nat := 4 + 2 * (length X + length Y).

(* cover.cyclic_core *)
Definition cyclic_core (X Y : list box) :=
  cc_loop (cc_fuel X Y) X Y [].

(* cover._independent_set (only_size) *)
Fixpoint indep_size (fuel : nat) (rem Y : list box) : nat :=
  match rem with
  | [] => O
  | _ =>
      match fuel with
      | O => O
      | S n =>
          match pick rem with
          | None => O
          | Some x0 =>
              let umbrella p :=
                anyb (fun q => if box_leb x0 q then box_leb p q else false) Y in
              S (indep_size n (filter (fun p => negb (umbrella p)) rem) Y)
          end
      end
  end.

(* cover._some_cover *)
Fixpoint some_cover (fuel : nat) (rem Y : list box) : option (list box) :=
  match rem with
  | [] => Some []
  | _ =>
      match fuel with
      | O => None
      | S n =>
          match pick rem with
          | None => None
          | Some x0 =>
              match pick (those_over Y x0) with
              | None => None
              | Some y0 =>
                  match some_cover n
                          (filter (fun p => negb (box_leb p y0)) rem) Y with
                  | Some z => Some (y0 :: z)
                  | None => None
                  end
              end
          end
      end
  end.

(* cost of a possibly pruned (None) branch: None = infinity *)
Definition lt_cost (a b : option (list box)) : bool :=
  match a, b with
  | Some x, Some y => (length x <? length y)%nat
  | Some _, None => true
  | None, _ => false
  end.

(* cover._traverse with cover._branch inlined.  The mutable
   bab.upper_bound is threaded through: the result is
   (cover or None if pruned, sub_lb, upper bound afterwards);
   the outer None means that the model ran out of fuel or the code would
   have failed.  The leaf case is the one of the code AS REPAIRED by
   fixes/F16.patch (finding F16); the unrepaired leaf is kept in
   MinCoverOld.v for the regression example. *)
Fixpoint traverse (fuel : nat) (X Y : list box) (pc ub : nat)
  : option (option (list box) * nat * nat) :=
  match fuel with
  | O => None
  | S n =>
      match cyclic_core X Y with
      | None => None
      | Some (Xc, Yc, E) =>
          let cost_ess := length E in
          let core_lb := indep_size (S (length Xc)) Xc Yc in
          let sub_lb := (cost_ess + core_lb)%nat in
          let branch_lb := (pc + sub_lb)%nat in
          match Xc with
          | [] =>
              (* leaf, AS REPAIRED by fixes/F16.patch: the essentials are a
                 candidate only if they improve the upper bound *)
              if (ub <=? branch_lb)%nat then Some (None, sub_lb, ub)
              else Some (Some E, sub_lb, branch_lb)
          | _ =>
              if (ub <=? branch_lb)%nat then Some (None, sub_lb, ub)
              else
                let pc' := (pc + cost_ess)%nat in
                match pick Yc with
                | None => None
                | Some d =>
                    let Ynew := diff Yc [d] in
                    let Xm := filter (fun p => negb (box_leb p d)) Xc in
                    match traverse n Xm Ynew (S pc') ub with
                    | None => None
                    | Some (e0, left_lb, ub1) =>
                        if (ub1 <=? pc' + left_lb)%nat
                        then Some (None, sub_lb, ub1)
                        else
                          match traverse n Xc Ynew pc' ub1 with
                          | None => None
                          | Some (e1, _, ub2) =>
                              let r := if lt_cost e0 e1
                                       then option_map (cons d) e0 else e1 in
                              Some (option_map (fun c => union c E) r,
                                    sub_lb, ub2)
                          end
                    end
                end
          end
      end
  end.

(* cover.unfloors *)
Fixpoint unfloors (C Y : list box) : option (list box) :=
  match C with
  | [] => Some []
  | z :: C' =>
      match pick (those_over Y z), unfloors C' Y with
      | Some y, Some K => Some (union [y] K)
      | _, _ => None
      end
  end.

(* cover.minimize on the covering problem (X, Y), AS REPAIRED by
   fixes/F13.patch: when the top-level traversal is pruned (the greedy upper
   bound already equals the lower bound) the greedy cover is used.  The
   second call of _some_cover returns what the first returned (pick is a
   function of the set). *)
Definition minimize_xy (X Y : list box) : option (list box) :=
  match some_cover (S (length X)) X Y with
  | None => None
  | Some c0 =>
      match traverse (S (length Y)) X Y 0 (length c0) with
      | Some (Some C, _, _) => unfloors C Y
      | Some (None, _, _) => unfloors c0 Y
      | None => None
      end
  end.

(* the unrepaired code: in the pruned case line 85 of cover.py refers to the
   undefined name p_to_q and raises NameError (finding F13) *)
Definition minimize_xy_unrepaired (X Y : list box) : option (list box) :=
  match some_cover (S (length X)) X Y with
  | None => None
  | Some c0 =>
      match traverse (S (length Y)) X Y 0 (length c0) with
      | Some (Some C, _, _) => unfloors C Y
      | _ => None
      end
  end.
End Alg.

(* cover.minimize(f, care, fol) *)
Definition minimize (rs : ranges) (pick : list box -> option box)
  (f care : point -> bool) : option (list box) :=
  minimize_xy rs pick (embed rs f) (primes rs f care).

Definition minimize_unrepaired (rs : ranges) (pick : list box -> option box)
  (f care : point -> bool) : option (list box) :=
  minimize_xy_unrepaired rs pick (embed rs f) (primes rs f care).

Definition cyclic_core_fc (rs : ranges) (f care : point -> bool) :=
  cyclic_core rs (embed rs f) (primes rs f care).

(* two concrete picks used in computations *)
Definition pick_first (l : list box) : option box := hd_error l.
Definition pick_last (l : list box) : option box := hd_error (rev l).
