"""Shared check of synthesized implementations (C02 Streett, C05 Rabin)."""
import sys

from vlib import bits_gen, core, games, gen_games, gr1games, transducers
from vlib.core import Broken, Mismatch, Failing
from vlib.gr1games import MODES, QINITS
from props import c03

sys.path.insert(0, core.VERIF + '/tools/oracles')
import closed_loop  # noqa: E402

THEORIES = ['theories/L4/GR1Spec.vo', 'theories/L4/InitSpec.vo',
            'theories/L4/Tables.vo']

HEADER = '''From Coq Require Import List Bool Arith.
Import ListNotations.
From Omega Require Import L4.Arena L4.Tables.
From OmegaGen Require Import FixpointGen Gr1Gen TransducerGen.
From OmegaGP Require Import TransducerModel.
Definition built_as (nc nx ny : nat) (r : option (bdd * bdd))
    (act : list (list bool)) (init : list bool) : bool :=
  match r with
  | Some p => eq2 (to_table2 nc nx ny (fst p)) act && eq1 (tt1 nc nx ny (snd p)) init
  | None => false
  end.
Definition refused (r : option (bdd * bdd)) : bool :=
  match r with Some _ => false | None => true end.
Definition opt_tbl (nc nx ny : nat) (o : option bdd) : option (list bool) :=
  match o with Some u => Some (tt1 nc nx ny u) | None => None end.
Definition opt_eq1 (a b : option (list bool)) : bool :=
  match a, b with Some x, Some y => eq1 x y | None, None => true | _, _ => false end.
'''





class ImplCheck:
    def __init__(self, ID, KIND, PROOF_FILES, model_note):
        self.ID, self.KIND, self.PROOF_FILES = ID, KIND, PROOF_FILES
        self.model_note = model_note

    def prove(self, ctx):
        with ctx.coq_lock():
            gen_games.ensure_transducers(ctx)
            bits_gen.ensure_bits(ctx)
            ctx.prove_with_deps(self.PROOF_FILES[-1])
        ctx.trusted.append(self.model_note)
        ctx.assumptions.append(
            'the liveness theorem (' + self.ID + '_liveness) and the game-level '
            'theorems built on it (' + self.ID + '_implementation_wins_*, '
            'C05_play_is_won_or_blocks_with_stale_hold) depend on the '
            'standard-library axiom Classical_Prop.classic; the other theorems '
            'are closed')


    def build(self, g, moore, plus_one, q):
        return (transducers.build_streett if self.KIND == 'streett'
                else transducers.build_rabin)(g, moore, plus_one, q)


    def make_instance(self, rng, backend, max_states):
        g = gr1games.make_game(rng, backend, max_states)
        if self.KIND == 'rabin':
            # Rabin(1) games are rarely won by random play: resample until
            # the explicit solver finds a non-empty region in some mode
            for _ in range(12):
                ex = gr1games.Explicit(g)
                if any(ex.rabin(m, p) for m, p in MODES):
                    break
                g = gr1games.make_game(rng, backend, max_states,
                                       nontrivial_bias=False)
        ar = g['ar']
        if rng.random() < 0.6:
            g['EI'], g['SI'] = [True] * ar.ns, [True] * ar.ns
        else:
            g['EI'], g['SI'] = c03.rand_inits(rng, ar)
        return g


    def corpus_games(self):
        """Regression games kept under corpus/<ID>/ (run first)."""
        import glob
        import json
        out = []
        for path in sorted(glob.glob(f'{core.VERIF}/corpus/{self.ID}/*.json')):
            d = json.load(open(path))
            g = gr1games.rebuild(d['game'])
            ar = g['ar']
            g.setdefault('EI', [True] * ar.ns)
            g.setdefault('SI', [True] * ar.ns)
            if 'qinit' in d:
                # the initial-condition form under which the instance is
                # known to exercise its defect (otherwise drawn at random)
                g['qinit'] = d['qinit']
            out.append(g)
        return out

    def lifted(self, g, r, tab1=None, tab2=None):
        """lift a base table to the extended arena of build result r"""
        ar, ear = g['ar'], r['ear']
        M = ear.ny // ar.ny
        if tab1 is not None:
            return [tab1[ar.sidx(c, x, y // M)] for (c, x, y) in ear.states()]
        out = []
        for (c, x, y) in ear.states():
            row = tab2[ar.sidx(c, x, y // M)]
            out.append([row[xp * ar.ny + yp // M]
                        for xp in range(ear.nx) for yp in range(ear.ny)])
        return out


    def loop_of(self, g, r, moore, plus_one):
        ear = r['ear']
        EI = self.lifted(g, r, tab1=g['EI'])
        init = [a and b for a, b in zip(r['init'], EI)]
        return closed_loop.Loop(
            ear.nc, ear.nx, ear.ny, r['action'], self.lifted(g, r, tab2=g['E']),
            self.lifted(g, r, tab2=g['S']), init,
            [self.lifted(g, r, tab1=p) for p in g['P']],
            [self.lifted(g, r, tab1=t) for t in g['R']], moore, plus_one, self.KIND)


    def classify(self, g, r, lp, res):
        """known-finding class of a closed-loop failure (None for Streett)."""
        return None


    def closed_loop_check(self, g, r, moore, plus_one, q):
        lp = self.loop_of(g, r, moore, plus_one)
        case = dict(gr1games.case_of(g), moore=moore, plus_one=plus_one, qinit=q,
                    kind=self.KIND)
        res = lp.check_safety()
        ear = r['ear']
        if res:
            what, path, detail = res
            states = [ear.state_dict(*lp.state(s)) for s in path]
            return Failing(f'{self.KIND} implementation: {what} at reachable state '
                           f'{states[-1]}', case, expected='no such state',
                           got=dict(path=states, detail=detail),
                           key=self.classify(g, r, lp, res))
        # memory variables within their declared ranges at reachable states
        nP, nR = len(g['P']), len(g['R'])
        lim = {'_goal': nR - 1, '_hold': nP}
        for s in sorted(lp.seen):
            sd = ear.state_dict(*lp.state(s))
            for name, hi in lim.items():
                if name in sd and not (0 <= sd[name] <= hi):
                    states = [ear.state_dict(*lp.state(t))
                              for t in lp.path_to(lp.parent, s)]
                    return Failing(
                        f'{self.KIND} implementation: memory variable {name} = '
                        f'{sd[name]} outside 0..{hi} at a reachable state', case,
                        expected='memory within its declared range',
                        got=dict(path=states))
        res = lp.check_liveness()
        if res:
            what, comp = res
            states = [ear.state_dict(*lp.state(s)) for s in comp[:8]]
            return Failing(f'{self.KIND} implementation: reachable {what}', case,
                           expected='liveness on every infinite behaviour',
                           got=dict(cycle=states))
        return None


    def correspond(self, ctx):
        n_games = 90 if ctx.thorough else 20
        max_states = 16 if ctx.thorough else 8
        groups, info = [], []
        built = refused = 0
        mism = []
        hist = {}
        sample = None
        loops = 0
        skipped_large = 0
        corpus = self.corpus_games()
        for i in range(-len(corpus), n_games):
            if i < 0:
                g = corpus[i + len(corpus)]
            else:
                g = self.make_instance(ctx.rng, 'cudd' if i % 2 else 'autoref',
                                       max_states)
            terms = []
            for (moore, plus_one) in MODES:
                q = ctx.rng.choice(QINITS)
                q = g.get('qinit') or q     # pinned by a corpus instance
                try:
                    r = self.build(g, moore, plus_one, q)
                except Exception as e:
                    return [Mismatch('construction raised', gr1games.case_of(g),
                                     impl=repr(e), property_fails=True)]
                H_, G_ = transducers.mem_sizes(g, self.KIND)
                ar_ = g['ar']
                vsize = ar_.ns * ar_.np * (H_ * G_) ** 2
                small = vsize <= (20000 if ctx.thorough else 4500)
                # model evaluation cost grows with |valuations| x number
                # of iterates; larger instances are only analysed in
                # closed loop below
                if small:
                    gen, ne = transducers.coq_model_terms(
                        f'g{i + len(corpus)}_', g, self.KIND, moore, plus_one, q)
                if r is None:
                    refused += 1
                    if small:
                        terms.append(f'refused ({gen})')
                        info.append((g, moore, plus_one, q,
                                     'refusal (AssertionError)'))
                    continue
                built += 1
                key = f'{r["ear"].ns}'
                hist[key] = hist.get(key, 0) + 1
                if small:
                    terms.append(f'built_as {ne} ({gen}) '
                                 f'{games.lit2(r["action"])} '
                                 f'{games.lit1(r["init"])}')
                    info.append((g, moore, plus_one, q,
                                 'action[impl] / init[impl]'))
                else:
                    skipped_large += 1
                if sample is None:
                    sample = dict(gr1games.case_of(g), moore=moore,
                                  plus_one=plus_one, qinit=q,
                                  impl_vars=r['ear'].names['sys'],
                                  init_impl=r['init'])
                # closed-loop oracle on the real implementation (search tool; a
                # hit is a concrete failing behaviour)
                f = self.closed_loop_check(g, r, moore, plus_one, q)
                loops += 1
                if f:
                    mism.append(Mismatch(f.what, f.case, impl=f.got, key=f.key,
                                         property_fails=True))
            if terms:
                groups.append((gr1games.coq_defs(f'g{i + len(corpus)}_', g), terms))
        res = ctx.eval_groups('corr', HEADER, groups, shard=2) if groups else []
        for (g, moore, plus_one, q, what), ok in zip(info, res):
            if not ok:
                mism.append(Mismatch(
                    f'{what} of the real transducer construction differs from the '
                    'generated model',
                    dict(gr1games.case_of(g), moore=moore, plus_one=plus_one,
                         qinit=q, kind=self.KIND)))
        ctx.cov['evaluations'] += len(res)
        ctx.cov['distinct_nontrivial'] += built
        ctx.cov['rule'] = (
            f'random GR(1) games (60% with TRUE initial conditions); for each of '
            f'the 4 modes a random qinit; the real {self.KIND} transducer construction '
            'where it succeeds: complete truth tables of action[impl] over '
            '(constants, env, sys+memory, env\', sys\'+memory\') and of init[impl] '
            'compared with the Coq model evaluated by vm_compute; plus explicit '
            'closed-loop analysis of the real implementation (reachability, '
            'refinement, non-blocking, fair cycles). non-trivial = successful '
            'construction')
        ctx.cov['samples'] = [sample] if sample else []
        ctx.extra['correspondence'] = dict(
            games=n_games, constructions=built, refused=refused,
            comparisons=len(res), closed_loop_analyses=loops,
            model_comparison_skipped_large=skipped_large,
            ext_states_histogram=hist, mismatches=len(mism))
        return mism


    def search(self, ctx, broken, mismatches):
        for m in mismatches:
            if m.property_fails:
                return [Failing(m.what, m.case, got=m.impl, key=m.key)]
        budget = 200 if ctx.thorough else 60
        for i in range(budget):
            g = self.make_instance(ctx.rng, 'cudd' if i % 2 else 'autoref', 8)
            for (moore, plus_one) in MODES:
                q = ctx.rng.choice(QINITS)
                try:
                    r = self.build(g, moore, plus_one, q)
                except Exception as e:
                    return [Failing('construction raised ' + repr(e),
                                    gr1games.case_of(g))]
                if r is None:
                    continue
                f = self.closed_loop_check(g, r, moore, plus_one, q)
                if f and not (f.key and f.key in self.known_keys()):
                    return [f]
        return []


    def known_keys(self):
        f, _ = core.load_known()
        return {k for (p, k, d) in f if p == self.ID}


    def replay(self, path):
        import json
        d = json.load(open(path))
        case = d.get('input')
        if not case:
            print('no concrete input in replay file:', d.get('broken'))
            return 1
        g = gr1games.rebuild({k: v for k, v in case.items()
                              if k not in ('moore', 'plus_one', 'qinit', 'kind')})
        r = self.build(g, case['moore'], case['plus_one'], case['qinit'])
        if r is None:
            print('construction refused')
            return 1
        f = self.closed_loop_check(g, r, case['moore'], case['plus_one'], case['qinit'])
        print('still fails: ' + f.what if f else 'passes')
        return 1 if f else 0
