"""C19 — steppers take only allowed steps; assembled components are isolated.

Tie T.  The name mangling (`add_prefix`, `omit_prefix`, `_omit_prefix`,
`visible_vars`, `hidden_vars`, `slice_dict`, `_assert_disjoint`), the state
conversion and book-keeping of `Assembly` / `History` (`_to_local_state`,
`_to_global_state`, `_update_state`, `_init`, `_step`, `init`, `step`,
`History.update`) and the dd-free part of `AutomatonStepper` (`init`, `step`,
`_assert_support_assigned`, `_assert_unblocked`, `_unprime_state`; the dd
calls stay parameters) of the CURRENT omega/steps.py are translated into
Gallina on every run (tools/py2coq_steps.py -> coq/gen/StepsGen.v) and
proved EQUAL to the model the theorems talk about
(coq/GenProofs/StepsBridge.v, re-checked every run; statement
C19_model_is_translated_code and the C19_translated_* theorems).

Tie H.  The real `omega.steps` is run on
  (1) AutomatonSteppers built from gr1 Streett transducers and from
      hand-made actions, driven by admissible environment inputs and by
      jumps to arbitrary states of the bit range,
  (2) Assemblies of 2-3 logged components (steppers, Scheduler, hand-made
      Moore components) under benign and adversarial names,
  (3) the mangling functions on generated dictionaries,
and every call is compared with the Gallina model evaluated in Coq
(theories/L4Steps) about which Properties/C19.v states the theorems.
"""
import gc
import json
import os

from vlib import core, games
from vlib import steps_sim as S
from vlib import steps_gen
from vlib.core import Broken, Mismatch, Failing

ID = 'C19'
LEVEL = 'proof'
THEORIES = ['theories/L4Steps/MangleProofs.vo',
            'theories/L4Steps/StepperProofs.vo',
            'theories/L4Steps/AssemblyProofs.vo',
            'theories/L4Steps/IsolationExact.vo']

HEADER = '''From Coq Require Import List Bool String ZArith.
Import ListNotations.
From Omega Require Import L4Steps.Mangle L4Steps.Stepper L4Steps.Assembly.
Open Scope string_scope.
Definition T := Leaf true.
Definition F := Leaf false.
Definition set_eqb (a b : list string) : bool :=
  forallb (fun x => mem x b) a && forallb (fun x => mem x a) b.
Definition trace_eqb (a b : list dict) : bool :=
  Nat.eqb (List.length a) (List.length b) &&
  forallb (fun p => dict_eqb (fst p) (snd p)) (combine a b).
Definition run_eqb (r : res assembly) (t : res (list dict)) : bool :=
  match r, t with
  | Ok a, Ok l => trace_eqb (trace a) l
  | Err e, Err f => err_eqb e f
  | _, _ => false
  end.
'''


def prove(ctx):
    with ctx.coq_lock():
        # tie T: regenerate gen/StepsGen.v from the current steps.py, then
        # re-prove GenProofs/StepsBridge.v (generated code = model) and the
        # statements built on it
        notes, names = steps_gen.ensure_steps(ctx)
        ctx.prove_with_deps('Properties/C19.v')
    ctx.extra['translation'] = dict(
        source=steps_gen.SRC, functions=names,
        generated='coq/' + steps_gen.GEN,
        bridge='coq/GenProofs/StepsBridge.v', notes=notes)
    ctx.trusted.append(
        'translator tie T: tools/py2coq_steps.py (omega/steps.py: name '
        'mangling, Assembly/History state conversion and book-keeping, the '
        'dd-free part of AutomatonStepper -> Gallina; str -> string, dict '
        '-> association list with `d[k] = v` = dset, assert/raise -> error '
        'values, fields of self -> explicit arguments, in-place changes '
        'only of dictionaries the function owns; the kinds of the '
        'parameters are assumptions of the translator; everything not '
        'translated is listed as a note in coq/gen/StepsGen.v and in the '
        'evidence)')
    ctx.trusted.append(
        'the model (theories/L4Steps/{Mangle,Stepper,Assembly}.v) equals '
        'the translated code on association lists with distinct keys '
        '(= Python dictionaries); dd-level `let`, `support`, `pick`, '
        '`prm.unprimed_support`, `stx.unprime` are parameters of the '
        'translated stepper and are modelled by meaning (tie H: every '
        'init/step call compared), `pick` is an arbitrary choice function '
        '(pick l in l)')
    ctx.trusted.append(
        'tie H only: Scheduler, the constructors (`__init__`), '
        'EnumStrategyStepper, Component and enumerate_impl are not '
        'translated; Scheduler and the constructors are modelled by hand '
        'and compared on every run; EnumStrategyStepper and Component '
        '(enumerated strategies, networkx graphs) are not modelled')


# ===================================================================== (1)
def _steps():
    import omega.steps as steps
    return steps


def random_state(rng, inst, names):
    aut = inst['aut']
    return {n: rng.choice(games.var_values(aut.vars[n])) for n in names}


def drive(rng, inst, nsteps):
    """Run the real stepper; returns (init_log, [(state, result)])."""
    steps = _steps()
    aut = inst['aut']
    nm = inst['names']
    unprimed = nm['const'] + nm['env'] + nm['impl']
    stepper = steps.AutomatonStepper(aut)
    lg = S.Logged(stepper, 'stepper')
    try:
        r0 = lg.init()
    except Exception:
        r0 = None
    # complete the initial values to a full state satisfying the init
    s = None
    if r0 is not None:
        u = aut.let(r0, aut.init['impl']) if r0 else aut.init['impl']
        rest = [n for n in unprimed if n not in r0]
        cands = list(aut.pick_iter(u, care_vars=rest)) if rest else [{}]
        if cands:
            s = dict(rng.choice(cands))
            s.update(r0)
    if s is None:
        s = random_state(rng, inst, unprimed)
    env_action = aut.action['env']
    env_p = [n + "'" for n in nm['env']]
    impl_p = [n + "'" for n in nm['impl']]
    act_sup = aut.support(aut.action['impl'])
    mealy = any(n in act_sup for n in env_p)
    for _ in range(nsteps):
        # admissible environment move
        e = aut.let(s, env_action)
        e = aut.exist(impl_p, e)
        moves = list(aut.pick_iter(e, care_vars=env_p))
        if not moves:
            s = random_state(rng, inst, unprimed)
            continue
        xp = rng.choice(moves)
        state = dict(s)
        style = rng.random()
        if mealy and style < 0.7 or (not mealy and style < 0.15):
            state.update(xp)
        elif style > 0.95 and nm['impl']:
            # a primed implementation variable in the state
            k = rng.choice(nm['impl'])
            state[k + "'"] = rng.choice(games.var_values(aut.vars[k]))
        elif style > 0.9:
            # an identifier missing from the state
            k = rng.choice(list(state))
            del state[k]
        try:
            r = lg.step(state)
        except Exception:
            s = random_state(rng, inst, unprimed)
            continue
        nxt = {k: s[k] for k in nm['const']}
        nxt.update({k[:-1]: v for k, v in xp.items()})
        nxt.update(r)
        s = {k: nxt.get(k, s.get(k)) for k in unprimed}
        if rng.random() < 0.12:
            s = random_state(rng, inst, unprimed)
    return lg.init_log, lg.step_log


REJECTED = dict(out_of_range=0)


def in_range(inst, state):
    """Values of declared identifiers lie in their bit ranges (the
    property's quantifier; omega asserts or wraps otherwise)."""
    aut = inst['aut']
    for k, v in state.items():
        if k in aut.vars and v not in games.var_values(aut.vars[k]):
            return False
    return True


def oracle_stepper(inst, init_log, step_log):
    """Direct check of the property on the real objects (no model)."""
    step_log = [c for c in step_log if in_range(inst, c[0])]
    aut = inst['aut']
    impl = inst['names']['impl']
    action = aut.action['impl']
    out = []
    if init_log[0] == 'ok':
        r = init_log[1]
        if not set(r) <= set(impl):
            out.append(('init returns a non-implementation variable',
                        dict(result=r)))
        u = aut.let(r, aut.init['impl']) if r else aut.init['impl']
        if u == aut.false:
            out.append(('initial values contradict the initial condition',
                        dict(result=r)))
    elif aut.init['impl'] != aut.false:
        out.append(('init raised although the initial condition is '
                    'satisfiable', dict(result=init_log[1])))
    sup = {k for k in aut.support(action) if not k.endswith("'")}
    for state, res in step_log:
        assigned = sup <= set(state) and all(k in aut.vars for k in state)
        if not assigned:
            if res[0] == 'ok':
                out.append(('step returned values for a state that does '
                            'not assign the support',
                            dict(state=state, result=res[1])))
            continue
        u = aut.let(state, action) if state else action
        if res[0] == 'ok':
            r = res[1]
            missing = [k for k in impl if k not in r]
            full = dict(state)
            full.update({k + "'": v for k, v in r.items()
                         if k + "'" not in state})
            ok = aut.let(full, action) == aut.true
            if missing or not ok:
                out.append((
                    'step returned values that '
                    + ('omit implementation variables ' + str(missing)
                       if missing else 'do not satisfy the action'),
                    dict(state=state, result=r)))
        else:
            if res[1] != 'Disabled' or u != aut.false:
                out.append(('step signalled ' + res[1] + ' at a state '
                            'where the action is '
                            + ('disabled' if u == aut.false else 'enabled'),
                            dict(state=state, result=res[1])))
    return out


def stepper_group(i, inst, init_log, step_log):
    aut = inst['aut']
    p = f'a{i}_'
    ds = inst['ds']
    impl = inst['names']['impl']
    defs = [
        f'Definition {p}ds : decls := {S.decls_lit(ds)}.',
        f'Definition {p}act : pred := eval_tbl {p}ds '
        f'({S.tbl_lit(ds, inst["action_tbl"])}).',
        f'Definition {p}ini : pred := eval_tbl {p}ds '
        f'({S.tbl_lit(ds, inst["init_tbl"])}).',
        f'Definition {p}A : automaton := {{| a_decls := {p}ds; '
        f'a_init := {p}ini; a_action := {p}act; '
        f'a_impl := {S.strs_lit(impl)} |}}.',
        f'Definition {p}supp := Eval vm_compute in support {p}ds {p}act.',
        f'Definition {p}isupp := Eval vm_compute in support {p}ds {p}ini.',
    ]
    terms, what = [], []
    terms.append(f'set_eqb {p}supp '
                 f'{S.strs_lit(sorted(aut.support(aut.action["impl"])))}')
    what.append(('support(action)', None))
    terms.append(f'set_eqb {p}isupp '
                 f'{S.strs_lit(sorted(aut.support(aut.init["impl"])))}')
    what.append(('support(init)', None))
    if init_log[0] == 'ok':
        r = S.dict_lit(init_log[1])
        terms.append(
            f'res_dict_eqb (init_core (pick_init_to {S.strs_lit(impl)} {r}) '
            f'{p}A {p}isupp) (Ok {r})')
    else:
        terms.append(f'res_dict_eqb (init_core (@hd_error dict) {p}A '
                     f'{p}isupp) (Err {init_log[1]})')
    what.append(('init', init_log))
    for state, res in step_log:
        if not in_range(inst, state):
            REJECTED['out_of_range'] += 1
            continue
        st = S.dict_lit(state)
        if res[0] == 'ok':
            r = S.dict_lit(res[1])
            terms.append(f'res_dict_eqb (step_core (pick_to {r}) {p}A '
                         f'{p}supp {st}) (Ok {r})')
        else:
            terms.append(f'res_dict_eqb (step_core (@hd_error dict) {p}A '
                         f'{p}supp {st}) (Err {res[1]})')
        what.append(('step', (state, res)))
    return ('\n'.join(defs), terms), what


def inst_case(inst):
    return dict(kind=inst['kind'], backend=inst['backend'],
                mode=inst['mode'], names=inst['names'],
                decls=[[n, v] for n, v in inst['ds']],
                action_table=inst['action_tbl'],
                init_table=inst['init_tbl'])


def gen_steppers(ctx, n_inst, nsteps, max_states):
    rng = ctx.rng
    out = []
    tries = 0
    while len(out) < n_inst and tries < 20 * n_inst:
        tries += 1
        backend = 'cudd' if tries % 2 else 'autoref'
        if len(out) % 3 == 2:
            inst = S.build_handmade(rng, backend, max_states)
        else:
            inst = S.build_streett(rng, backend, max_states)
        if inst is None:
            continue
        S.describe(inst)
        init_log, step_log = drive(rng, inst, rng.randint(3, nsteps))
        out.append((inst, init_log, step_log))
    return out


# ===================================================================== (2)
BENIGN = [('foo', 'bar', 'scheduler'), ('left', 'right'), ('p', 'q', 'r')]
ADVERSARIAL = [('a', 'ab'), ('ab', 'a'), ('foo', 'foo_'), ('a', 'a_b'),
               ('a', 'ab', 'abc'), ('m', 'm_', 'm__'), ('x', 'xy', 'y'),
               # names with underscores that are prefixes of one another, and
               # names that look like another component's mangled memory
               # variable (C19_assembly_isolation_synthesized: isolation of
               # synthesized components does not depend on the names)
               ('cell_1', 'cell_10'), ('a', 'a_b', 'a_b_c'),
               ('cell_1', 'cell_10', 'cell_'), ('a', 'a_goal'),
               ('c_hold', 'c', 'c_goal')]


def make_assembly(rng, thorough):
    """Build a real Assembly of 2-3 logged components.

    Returns dict(names, machines (Logged), desc)."""
    steps = _steps()
    adversarial = rng.random() < 0.6
    names = list(rng.choice(ADVERSARIAL if adversarial else BENIGN))
    rng.shuffle(names)
    machines = {}
    desc = []
    # visible variable pool, with names that look like mangled names
    pool = ['u', 'v', 'w', 'turn']
    hidden_pool = ['_y', '_m', '_b_y', '__y', '_']
    if adversarial:
        for n in names:
            for m in names:
                if m.startswith(n) and m != n:
                    rest = m[len(n):]
                    pool += [rest + h for h in ('_y', '_m')
                             if not (rest + h).startswith('_')]
                    pool.append(n + 'bar')
        pool += [names[0] + 'x', 'b_y', 'foobar']
    hygiene = rng.random() < 0.75
    if not hygiene:
        pool += [n + h for n in names for h in ('_y', '_m')]
    owned = set()
    use_stepper = rng.random() < 0.5
    env_needed = {}
    stepper_ranges = {}
    for j, n in enumerate(names):
        pending = [x for x in env_needed if x not in owned]
        later = [m_ for m_ in names[j + 1:] if m_ != 'scheduler']
        if n == 'scheduler' or (j == len(names) - 1 and 'turn' not in owned
                                and not pending and rng.random() < 0.3):
            k = rng.choice([2, 3])
            m = steps.Scheduler(k)
            owned.add('turn')
            desc.append(dict(name=n, kind='Scheduler', n=k))
        elif use_stepper and j == 0:
            inst = None
            for _ in range(200):
                inst = S.build_streett(rng, rng.choice(['autoref', 'cudd']),
                                       8)
                if inst is None:
                    continue
                if not inst['mode']['moore'] or inst['names']['const']:
                    inst = None
                    continue
                try:
                    r0 = steps.AutomatonStepper(inst['aut']).init()
                except Exception:
                    r0 = {}
                if set(r0) != set(inst['names']['impl']) \
                        and rng.random() < 0.8:
                    inst = None
                    continue
                break
            if inst is None:
                use_stepper = False
            else:
                S.describe(inst)
                m = steps.AutomatonStepper(inst['aut'])
                owned.update(inst['names']['impl'])
                for x in inst['names']['env']:
                    env_needed[x] = games.var_values(inst['aut'].vars[x])
                for x in inst['names']['impl']:
                    stepper_ranges[x] = games.var_values(inst['aut'].vars[x])
                desc.append(dict(name=n, kind='AutomatonStepper',
                                 inst=inst))
        if n not in [d['name'] for d in desc]:
            free = [v for v in pool if v not in owned]
            rng.shuffle(free)
            outs = free[:rng.choice([1, 1, 2])]
            ranges = {}
            for x in list(env_needed):
                # somebody has to play the stepper's environment
                if x not in owned and (not later or rng.random() < 0.6):
                    outs.append(x)
                    ranges[x] = env_needed[x]
            if rng.random() < 0.08 and owned:
                # deliberate collision on a visible variable (values stay
                # inside the range a stepper declares for it)
                o = rng.choice(sorted(owned))
                outs.append(o)
                if o in stepper_ranges:
                    ranges[o] = stepper_ranges[o]
            owned.update(o for o in outs)
            hid = rng.sample(hidden_pool, rng.choice([0, 1, 1, 2]))
            reads = rng.sample(pool, min(len(pool), rng.choice([1, 2, 3])))
            extra = []
            if rng.random() < 0.3:
                extra = [rng.choice(hidden_pool)]   # declared, never output
            m = S.FunMachine(reads + hid, outs + hid, rng.randrange(1000),
                             modulus=rng.choice([2, 3, 4]), extra_vars=extra,
                             ranges=ranges,
                             refuse=rng.choice([None, None, None, 3, 5]))
            desc.append(dict(name=n, kind='FunMachine', reads=m.reads,
                             outputs=m.outputs, salt=m.salt,
                             modulus=m.modulus, extra=extra, refuse=m.refuse,
                             ranges={k: list(v) for k, v in ranges.items()}))
        machines[n] = S.Logged(m, 'stepper' if isinstance(
            m, steps.AutomatonStepper) else 'machine')
    return dict(names=names, machines=machines, desc=desc,
                adversarial=adversarial, hygiene=hygiene)


def run_assembly(asm_case, nsteps):
    """Run the real Assembly; returns ('ok', trace) | ('err', class)."""
    steps = _steps()
    asm = steps.Assembly()
    asm.machines = asm_case['machines']
    done = 0
    init_ok = False
    try:
        asm.init()
        init_ok = True
        for _ in range(nsteps):
            asm.step()
            done += 1
    except Exception as e:
        # what the assembly has recorded after the refusal
        try:
            rec = [dict(s) for s in asm.past] + (
                [dict(asm.state)] if asm.state is not None else [])
        except Exception:
            rec = None
        asm_case['after_error'] = dict(init_ok=init_ok, recorded=rec,
                                       done=done)
        cls = None
        for m in asm.machines.values():
            # an error raised inside a machine is logged by the proxy
            if m.step_log and m.step_log[-1][1][0] == 'err':
                cls = m.step_log[-1][1][1]
            if m.init_log is not None and m.init_log[0] == 'err':
                cls = m.init_log[1]
        if cls is None:
            cls = S.classify(e, 'assembly')
        return ('err', cls), done
    return ('ok', [dict(s) for s in asm.past] + [dict(asm.state)]), done


def assembly_group(i, case, result, nsteps):
    p = f's{i}_'
    defs = []
    ms = []
    for n, lg in case['machines'].items():
        log = '[' + ';\n   '.join(
            f'({S.dict_lit(a)}, {S.res_lit(r)})' for a, r in lg.step_log) + ']'
        il = S.res_lit(lg.init_log) if lg.init_log is not None \
            else '(Err Missing)'
        defs.append(
            f'Definition {p}m_{len(ms)} := replay_machine '
            f'{S.strs_lit(list(lg.vars))} {il}\n  {log}.')
        ms.append(f'({S.qs(n)}, {p}m_{len(ms)})')
    defs.append(f'Definition {p}ms : machines := [' + '; '.join(ms) + '].')
    if result[0] == 'ok':
        exp = '(Ok [' + ';\n  '.join(S.dict_lit(d) for d in result[1]) + '])'
    else:
        exp = f'(Err {result[1]})'
    term = f'run_eqb (run omit1 {p}ms {nsteps}) {exp}'
    return ('\n'.join(defs), [term])


def spec_local(G, name, mvars):
    """The specification of a component's view of the global state
    (Properties/C19.v, `spec_local`): a hidden variable k is read from
    `name + k`, a visible one from the key of the same name, unless that key
    is one of this component's own mangled names."""
    out = {}
    for k in mvars:
        if k.startswith('_'):
            if name + k in G:
                out[k] = G[name + k]
        elif not k.startswith(name + '_') and k in G:
            out[k] = G[k]
    return out


def oracle_assembly(case, result, done):
    """Direct check of isolation and of the recorded steps."""
    out = []
    names = case['names']
    wf = all(n and not n.startswith('_') for n in names)
    if result[0] != 'ok':
        # a refused step must not be recorded: after init and `done` steps
        # the history holds exactly done + 1 states
        ae = case.get('after_error')
        if ae and ae['init_ok'] and ae['recorded'] is not None \
                and len(ae['recorded']) != done + 1:
            out.append((
                f'after {done} steps and a refused step the assembly has '
                f'recorded {len(ae["recorded"])} states: a step that did not '
                'happen (and satisfies no component action) is in the history',
                dict(step=done, recorded=ae['recorded'][-3:],
                     result=list(result))))
        return out
    trace = result[1]
    for n, lg in case['machines'].items():
        for t, (arg, res) in enumerate(lg.step_log):
            if t + 1 >= len(trace):
                break
            G, G2 = trace[t], trace[t + 1]
            ok_keys = wf and all(not k.startswith('_') for k in G)
            if ok_keys:
                exp = spec_local(G, n, list(lg.vars))
                if exp != arg:
                    leaked = {k: v for k, v in arg.items()
                              if exp.get(k, object()) != v}
                    lost = {k: v for k, v in exp.items() if k not in arg}
                    out.append((
                        f'component "{n}" was handed a local state that '
                        f'differs from its declared view (leaked {leaked}, '
                        f'lost {lost})',
                        dict(component=n, step=t, global_state=G,
                             local_state=arg, required=exp)))
            if res[0] != 'ok':
                continue
            for k, v in res[1].items():
                g = n + k if k.startswith('_') else k
                if G2.get(g, object()) != v:
                    out.append((
                        f'recorded step {t} does not contain the value '
                        f'component "{n}" returned for {k}',
                        dict(component=n, step=t, returned=res[1],
                             next_state=G2)))
            aut = getattr(lg.machine, 'aut', None)
            if aut is not None and ok_keys and \
                    all(not k.startswith('_') for k in G2):
                # the recorded step satisfies the component's action
                loc = spec_local(G, n, list(lg.vars))
                loc2 = spec_local(G2, n, list(lg.vars))
                full = dict(loc)
                full.update({k + "'": v for k, v in loc2.items()
                             if k + "'" in aut.vars})
                if aut.let(full, aut.action['impl']) != aut.true:
                    out.append((
                        f'recorded step {t} violates the action of '
                        f'component "{n}"',
                        dict(component=n, step=t, global_state=G,
                             next_state=G2)))
    return out


# ===================================================================== (3)
def mangle_cases(rng, n):
    """Dictionaries and prefixes for the mangling functions."""
    steps = _steps()
    atoms = ['a', 'ab', 'b', 'foo', '_', 'x', 'a_', '_y', 'm', 'bar']
    cases = []
    for _ in range(n):
        prefix = ''.join(rng.choice(atoms)
                         for _ in range(rng.choice([1, 1, 2])))
        keys = set()
        for _ in range(rng.randint(0, 5)):
            k = ''.join(rng.choice(atoms) for _ in range(rng.randint(1, 3)))
            if rng.random() < 0.4:
                k = prefix + k
            keys.add(k)
        d = {k: rng.randint(-3, 5) for k in sorted(keys)}
        items = list(d.items())
        rng.shuffle(items)
        d = dict(items)
        mvars = [k for k in atoms + list(d) if rng.random() < 0.5]
        res = {}
        for fn, f in (
                ('omit_prefix', lambda: steps.omit_prefix(d, prefix)),
                ('add_prefix', lambda: steps.add_prefix(d, prefix)),
                ('visible_vars', lambda: steps.visible_vars(d)),
                ('hidden_vars', lambda: steps.hidden_vars(d)),
                ('to_global', lambda: steps.Assembly()._to_global_state(
                    dict(d), prefix)),
                ('to_local', lambda: steps.Assembly()._to_local_state(
                    d, prefix, type('M', (), dict(vars=mvars))))):
            try:
                res[fn] = ('ok', dict(f()))
            except AssertionError:
                res[fn] = ('err', 'Collision')
        cases.append(dict(d=d, prefix=prefix, mvars=mvars, res=res))
    return cases


def mangle_terms(c):
    d, p = S.dict_lit(c['d']), S.qs(c['prefix'])
    r = c['res']
    return [
        (f'res_dict_eqb (omit_prefix {d} {p}) {S.res_lit(r["omit_prefix"])}',
         'omit_prefix'),
        (f'res_dict_eqb (add_prefix {d} {p}) {S.res_lit(r["add_prefix"])}',
         'add_prefix'),
        (f'dict_eqb (visible_vars {d}) {S.dict_lit(r["visible_vars"][1])}',
         'visible_vars'),
        (f'dict_eqb (hidden_vars {d}) {S.dict_lit(r["hidden_vars"][1])}',
         'hidden_vars'),
        (f'res_dict_eqb (to_global {d} {p}) {S.res_lit(r["to_global"])}',
         'to_global'),
        (f'res_dict_eqb (to_local {d} {p} {S.strs_lit(c["mvars"])}) '
         f'{S.res_lit(r["to_local"])}', 'to_local'),
    ]


# ================================================================ correspond
def correspond(ctx):
    thorough = ctx.thorough
    n_inst = 160 if thorough else 28
    nsteps = 20
    n_asm = 1500 if thorough else 130
    n_mangle = 3000 if thorough else 400
    mism = []
    groups, meta = [], []
    # (1) steppers
    n_calls = n_ok = n_dis = n_other = 0
    stepper_cases = []       # JSON descriptions only: managers are released
    n_made = 0
    sample_stepper = None
    tries = 0
    max_states = 16 if thorough else 8
    while n_made < n_inst and tries < 20 * n_inst:
        tries += 1
        got = gen_steppers(ctx, 1, nsteps, max_states)
        if not got:
            continue
        inst, init_log, step_log = got[0]
        i = n_made
        n_made += 1
        g, what = stepper_group(i, inst, init_log, step_log)
        groups.append(g)
        meta += [('stepper', i, w) for w in what]
        case = inst_case(inst)
        stepper_cases.append(case)
        if sample_stepper is None:
            sample_stepper = dict(stepper=case['names'], mode=case['mode'],
                                  init=init_log, first_calls=step_log[:2])
        for _, res in step_log:
            n_calls += 1
            if res[0] == 'ok':
                n_ok += 1
            elif res[1] == 'Disabled':
                n_dis += 1
            else:
                n_other += 1
        for what_, c in oracle_stepper(inst, init_log, step_log):
            mism.append(Mismatch(what_, dict(case, **c),
                                 property_fails=True))
        del inst, got
    # (2) assemblies
    asm_cases = []
    n_err = n_adv = n_okruns = 0
    for i in range(n_asm):
        case = make_assembly(ctx.rng, thorough)
        k = ctx.rng.randint(1, 20 if thorough else 8)
        result, done = run_assembly(case, k)
        cj = asm_case_json(case, k)
        asm_cases.append((cj, result))
        n_err += result[0] == 'err'
        n_okruns += result[0] == 'ok'
        n_adv += bool(case['adversarial'])
        g = assembly_group(i, case, result, k)
        groups.append(g)
        meta.append(('assembly', i, None))
        for what_, c in oracle_assembly(case, result, done):
            mism.append(Mismatch(what_, dict(cj, **c), property_fails=True))
        # the stepper calls made inside assemblies are checked too
        for d in case['desc']:
            if d['kind'] == 'AutomatonStepper':
                lg = case['machines'][d['name']]
                if lg.init_log is None:
                    continue
                gi = n_inst + i
                g2, what = stepper_group(gi, d['inst'], lg.init_log,
                                         lg.step_log)
                groups.append(g2)
                meta += [('stepper-in-assembly', i, w) for w in what]
                for what_, c in oracle_stepper(d['inst'], lg.init_log,
                                               lg.step_log):
                    mism.append(Mismatch(
                        what_, dict(inst_case(d['inst']), **c),
                        property_fails=True))
        del case
        if i % 50 == 49:
            gc.collect()
    # (3) mangling functions
    mc = mangle_cases(ctx.rng, n_mangle)
    mt = []
    for j, c in enumerate(mc):
        for t, fn in mangle_terms(c):
            mt.append(t)
            meta.append(('mangle', j, fn))
    for k in range(0, len(mt), 300):
        groups.append(('', mt[k:k + 300]))
    res = ctx.eval_groups('corr', HEADER, groups, shard=260)
    assert len(res) == len(meta), (len(res), len(meta))
    for ok, (kind, i, w) in zip(res, meta):
        if ok:
            continue
        if kind == 'mangle':
            c = mc[i]
            mism.append(Mismatch(
                f'{w} differs from the model', dict(
                    function=w, d=c['d'], prefix=c['prefix'],
                    mvars=c['mvars']), impl=c['res'][w]))
        elif kind == 'assembly':
            cj, result = asm_cases[i]
            mism.append(Mismatch('Assembly run differs from the model',
                                 cj, impl=result))
        else:
            if kind == 'stepper':
                cj = stepper_cases[i]
            else:
                cj = [d['inst'] for d in asm_cases[i][0]['machines']
                      if d['kind'] == 'AutomatonStepper'][0]
            mism.append(Mismatch(f'{w[0]} differs from the model',
                                 dict(cj, call=w[1])))
    ctx.cov['evaluations'] += len(res)
    ctx.cov['distinct_nontrivial'] += n_ok + n_dis + n_okruns
    ctx.cov['rule'] = (
        'steppers: random realizable Streett(1) games (1-2 env, 1-2 sys '
        'variables of Boolean/int kinds, optional constant; Moore/Mealy, '
        'plus_one, all four qinit) synthesized with gr1 on alternating back '
        'ends + hand-made random actions (Moore, Mealy, sparse); driven for '
        '3-20 steps by admissible environment moves with 12% jumps to '
        'arbitrary states of the bit range, Mealy-style states, states with '
        'a primed implementation variable or a missing identifier; every '
        'init/step call compared with the model (the model picks the value '
        'the code returned iff it is among the model\'s candidates). '
        'assemblies: 2-3 logged components (AutomatonStepper, Scheduler, '
        'hand-made Moore machines) under benign and adversarial names (one '
        'name a prefix of another, names ending in "_", names with '
        'underscores that are prefixes of one another or look like another '
        'component\'s mangled memory variable (cell_1/cell_10, a/a_b/a_b_c, '
        'a/a_goal, c_hold/c/c_goal), visible variables '
        'that look like mangled names, declared-but-never-output hidden '
        'variables, deliberate collisions); the whole run (init + k steps) '
        'compared with the model run. mangling functions: random '
        'dictionaries/prefixes from an alphabet of overlapping fragments. '
        'non-trivial = steps that returned values or were disabled + '
        'assembly runs without error')
    ctx.cov['samples'] = [
        sample_stepper,
        dict(assembly=asm_cases[0][0],
             result=asm_cases[0][1] if asm_cases[0][1][0] == 'err'
             else asm_cases[0][1][1][:2])]
    ctx.extra['correspondence'] = dict(
        stepper_instances=n_made, stepper_calls=n_calls,
        returned_values=n_ok, disabled=n_dis, missing_or_badkey=n_other,
        assemblies=n_asm, assemblies_signalling_error=n_err,
        adversarial_assemblies=n_adv,
        mangle_cases=len(mc), comparisons=len(res), mismatches=len(mism),
        backends=['autoref', 'cudd'], max_steps=nsteps,
        rejected_out_of_range_states=REJECTED['out_of_range'])
    return dedupe(mism)


def dedupe(mism):
    seen, out = set(), []
    for m in mism:
        k = m.what[:60]
        if k in seen:
            continue
        seen.add(k)
        out.append(m)
    return out


def asm_case_json(case, k):
    desc = []
    for d in case['desc']:
        d = dict(d)
        if 'inst' in d:
            d['inst'] = inst_case(d['inst'])
        desc.append(d)
    return dict(names=case['names'], machines=desc, steps=k)


# ---------------------------------------------------------------- search
def rebuild_assembly(desc):
    """Real Assembly from a JSON description (hand-made machines only)."""
    steps = _steps()
    machines = {}
    for d in desc['machines']:
        if d['kind'] == 'Scheduler':
            m = steps.Scheduler(d['n'])
        elif d['kind'] == 'FunMachine':
            hid = [k for k in d['outputs'] if k.startswith('_')]
            m = S.FunMachine([], [], d['salt'], d['modulus'], d['extra'],
                             ranges=d.get('ranges'), refuse=d.get('refuse'))
            m.reads, m.outputs = list(d['reads']), list(d['outputs'])
            m.vars = {k: dict(type='int', dom=(0, d['modulus'] - 1))
                      for k in m.reads + m.outputs + list(d['extra'])}
        elif d['kind'] == 'AutomatonStepper' and isinstance(
                d.get('inst'), dict) and 'action_table' in d['inst']:
            # replay only: a stepper rebuilt from its recorded tables
            inst = rebuild_stepper(d['inst'])
            if inst is None:
                return None
            machines[d['name']] = S.Logged(
                steps.AutomatonStepper(inst['aut']), 'stepper')
            continue
        else:
            return None
        machines[d['name']] = S.Logged(m)
    return dict(names=list(machines), machines=machines, desc=desc['machines'],
                adversarial=True, hygiene=True)


F9_CASES = [
    dict(names=['ab', 'a'], steps=2, machines=[
        dict(name='ab', kind='FunMachine', reads=['_y'], outputs=['_y'],
             salt=1, modulus=3, extra=[]),
        dict(name='a', kind='FunMachine', reads=['b_y'], outputs=['u'],
             salt=2, modulus=3, extra=[])]),
    dict(names=['foo', 'bar'], steps=2, machines=[
        dict(name='foo', kind='FunMachine', reads=['foobar'],
             outputs=['foobar'], salt=1, modulus=3, extra=[]),
        dict(name='bar', kind='FunMachine', reads=['foobar'], outputs=['v'],
             salt=2, modulus=3, extra=[])]),
]


def rebuildable(case):
    return bool(case) and all(
        m.get('kind') in ('Scheduler', 'FunMachine')
        for m in case.get('machines', []) if isinstance(m, dict)) and all(
        isinstance(m, dict) for m in case.get('machines', []))


def check_desc(desc):
    case = rebuild_assembly(desc)
    if case is None:
        return []
    result, done = run_assembly(case, desc['steps'])
    return [(w, dict(desc, **c))
            for w, c in oracle_assembly(case, result, done)]


def search(ctx, broken, mismatches):
    out = []
    for m in mismatches:
        if m.property_fails:
            out.append(Failing(m.what, m.case,
                               expected=(m.case or {}).get('required'),
                               got=(m.case or {}).get('local_state')
                               or (m.case or {}).get('result'),
                               replay_cmd='./check C19 --replay <this file>'))
    if out:
        out.sort(key=lambda f: 0 if rebuildable(f.case) else 1)
        if not rebuildable(out[0].case):
            # look for the same kind of failure on an assembly of hand-made
            # machines only, which the replay command can rebuild
            for _ in range(400):
                case = make_assembly(ctx.rng, False)
                cj = asm_case_json(case, 0)
                if not rebuildable(cj):
                    continue
                k = ctx.rng.randint(1, 8)
                result, done = run_assembly(case, k)
                fs = oracle_assembly(case, result, done)
                if fs:
                    w, c = fs[0]
                    out.insert(0, Failing(
                        w, dict(asm_case_json(case, k), **c),
                        expected=c.get('required'), got=c.get('local_state'),
                        replay_cmd='./check C19 --replay <this file>'))
                    break
        return shrink_all(out)
    # fixed adversarial scenarios, then fresh random ones
    for desc in F9_CASES:
        for w, c in check_desc(desc):
            out.append(Failing(w, c, expected=c.get('required'),
                               got=c.get('local_state'),
                               replay_cmd='./check C19 --replay <this file>'))
            return out
    budget = 3000 if ctx.thorough else 600
    for _ in range(budget):
        case = make_assembly(ctx.rng, False)
        k = ctx.rng.randint(1, 6)
        result, done = run_assembly(case, k)
        for w, c in oracle_assembly(case, result, done):
            out.append(Failing(w, dict(asm_case_json(case, k), **c),
                               expected=c.get('required'),
                               got=c.get('local_state'),
                               replay_cmd='./check C19 --replay <this file>'))
            return shrink_all(out)
    for _ in range(60 if ctx.thorough else 15):
        for inst, il, sl in gen_steppers(ctx, 1, 12, 8):
            for w, c in oracle_stepper(inst, il, sl):
                out.append(Failing(w, dict(inst_case(inst), **c)))
                return out
    return out


def shrink_all(fs):
    return [shrink(f) for f in fs]


def shrink(f):
    """Greedy shrinking of an assembly scenario (hand-made machines)."""
    c = f.case
    if not isinstance(c, dict) or 'machines' not in c or any(
            d['kind'] == 'AutomatonStepper' for d in c['machines']):
        return f
    desc = dict(names=c['names'], machines=c['machines'], steps=c['steps'])

    def fails(d):
        try:
            return check_desc(d)
        except Exception:
            return []
    if not fails(desc):
        return f
    changed = True
    while changed:
        changed = False
        if desc['steps'] > 1:
            d2 = dict(desc, steps=desc['steps'] - 1)
            if fails(d2):
                desc, changed = d2, True
                continue
        for i in range(len(desc['machines'])):
            if len(desc['machines']) > 2:
                ms = desc['machines'][:i] + desc['machines'][i + 1:]
                d2 = dict(desc, machines=ms,
                          names=[m['name'] for m in ms])
                if fails(d2):
                    desc, changed = d2, True
                    break
            m = desc['machines'][i]
            if m['kind'] != 'FunMachine':
                continue
            for fld in ('reads', 'outputs', 'extra'):
                for j in range(len(m[fld])):
                    m2 = dict(m)
                    m2[fld] = m[fld][:j] + m[fld][j + 1:]
                    ms = list(desc['machines'])
                    ms[i] = m2
                    d2 = dict(desc, machines=ms)
                    if fails(d2):
                        desc, changed = d2, True
                        break
                if changed:
                    break
            if changed:
                break
    w, cc = fails(desc)[0]
    return Failing(w, cc, expected=cc.get('required'),
                   got=cc.get('local_state'),
                   replay_cmd='./check C19 --replay <this file>')


def bdd_of_table(aut, ds, flat):
    """BDD with the given flat truth table over the identifiers ds
    (row-major, as written by steps_sim.truth_table)."""
    bdd = aut.bdd
    per = [[S.bits_of_value(aut, n, v) for v in vals] for n, vals in ds]
    sizes = [len(vals) for _, vals in ds]
    total = 1
    for k in sizes:
        total *= k
    if total != len(flat):
        return None
    u = bdd.false
    for idx, t in enumerate(flat):
        if not t:
            continue
        digits, rem = [], idx
        for k in reversed(sizes):
            digits.append(rem % k)
            rem //= k
        digits.reverse()
        cube = {}
        for rows, j in zip(per, digits):
            cube.update(rows[j])
        u |= bdd.cube(cube)
    return u


def rebuild_stepper(case):
    """The instance behind `inst_case(inst)`, for replay: the variables are
    re-declared with the recorded ranges on a fresh Automaton of the
    recorded back end, action['impl'] / init['impl'] are rebuilt from the
    truth tables.  None if the ranges cannot be declared again or the
    rebuilt predicates do not have the recorded tables."""
    import omega.symbolic.temporal as trl
    try:
        names = {k: list(v) for k, v in case['names'].items()}
        ds = [(n, list(v)) for n, v in case['decls']]
        vals = dict(ds)

        def hint(n):
            # a type hint whose bit range is the recorded one (omega gives
            # a signed variable one bit more than two's complement needs)
            v = vals[n]
            if v and all(isinstance(x, bool) for x in v):
                return 'bool'
            for dom in ((min(v), max(v)), (min(v) + 1, max(v)),
                        (-1, max(v))):
                if dom[0] > dom[1]:
                    continue
                a = trl.Automaton()
                a.declare_variables(**{n: dom})
                if list(games.var_values(a.vars[n])) == list(v):
                    return dom
            raise ValueError(n)
        aut = trl.Automaton()
        games.set_backend(aut, case.get('backend') or 'autoref')
        const = {n: hint(n) for n in names.get('const', [])}
        flex = {n: hint(n) for n in names['env'] + names['impl']}
        if const:
            aut.declare_constants(**const)
        aut.declare_variables(**flex)
        aut.varlist['env'] = list(names['env'])
        aut.varlist['sys'] = list(names['impl'])
        aut.varlist['impl'] = list(names['impl'])
        aut.prime_varlists()
        for n, v in ds:
            if n not in aut.vars or \
                    list(games.var_values(aut.vars[n])) != list(v):
                return None
        mode = case.get('mode') or {}
        for k in ('moore', 'plus_one', 'qinit'):
            if k in mode:
                setattr(aut, k, mode[k])
        act = bdd_of_table(aut, ds, case['action_table'])
        ini = bdd_of_table(aut, ds, case['init_table'])
        if act is None or ini is None:
            return None
        aut.action['impl'] = act
        aut.init['impl'] = ini
        if S.truth_table(aut, act, ds) != list(case['action_table']) or \
                S.truth_table(aut, ini, ds) != list(case['init_table']):
            return None
    except (KeyError, TypeError, ValueError, AssertionError):
        return None
    return dict(aut=aut, names=names, kind=case.get('kind'),
                backend=case.get('backend'), mode=mode, ds=ds,
                action_tbl=list(case['action_table']),
                init_tbl=list(case['init_table']), win=None)


def replay_stepper(case):
    """Re-run the recorded call(s) of a single-stepper case on the rebuilt
    stepper and apply the oracle again."""
    inst = rebuild_stepper(case)
    if inst is None:
        print('the stepper of this case cannot be rebuilt from the file: '
              're-run ./check C19 with the same seed')
        return 2
    lg = S.Logged(_steps().AutomatonStepper(inst['aut']), 'stepper')
    try:
        lg.init()
    except Exception:
        pass
    states = []
    if isinstance(case.get('state'), dict):
        states.append(case['state'])
    call = case.get('call')
    if isinstance(call, (list, tuple)) and call and isinstance(call[0], dict):
        states.append(call[0])          # (state, logged result)
    for st in states:
        try:
            lg.step(dict(st))
        except Exception:
            pass
    init_log = lg.init_log if lg.init_log is not None else ('err', 'Disabled')
    fs = oracle_stepper(inst, init_log, lg.step_log)
    if fs:
        print('still fails:', fs[0][0])
        return 1
    print('passes')
    return 0


def replay(path):
    d = json.load(open(path))
    case = d.get('input') or d.get('case')
    if case and 'machines' in case:
        desc = dict(names=case['names'], machines=case['machines'],
                    steps=case['steps'])
        built = None
        try:
            built = rebuild_assembly(desc)
        except Exception:
            built = None
        if built is None:
            print('this assembly cannot be rebuilt from the file: re-run '
                  './check C19 with the same seed')
            return 2
        result, done = run_assembly(built, desc['steps'])
        r = oracle_assembly(built, result, done)
        if not r:
            # the stepper calls made inside the assembly
            for dsc in desc['machines']:
                if dsc.get('kind') == 'AutomatonStepper':
                    lg = built['machines'][dsc['name']]
                    if lg.init_log is None:
                        continue
                    inst = dict(aut=lg.machine.aut,
                                names=dsc['inst']['names'])
                    r = oracle_stepper(inst, lg.init_log, lg.step_log)
                    if r:
                        break
        if r:
            print('still fails:', r[0][0])
            return 1
        print('passes')
        return 0
    if case and 'action_table' in case and 'decls' in case:
        return replay_stepper(case)
    print('replay of this case: re-run ./check C19 with the same seed')
    return 2
