"""Regenerate coq/gen/BitvectorGen.v from omega/logic/bitvector.py (tie T
for C06; translator tools/py2coq_bitvector.py).

Translated on every run: the circuit generators (sign .. restoring_divider),
the dispatchers flatten_arithmetic / flatten_comparator, the leaf layer
(int_to_twos_complement, twos_complement_to_int, var_to_twos_complement,
_append_sign_bit, _is_bool_var, _assert_var_in_table) and the flatten
methods of Nodes.Arithmetic / Comparator / Operator (ite) / Unary / Binary
(connectives) / Var (names without a definition) / Num / Bool.
coq/GenProofs/Bitvector{Bridge,LeafBridge,FlatBridge,Correct,Formula}.v
prove the generated definitions equal to the models (theories/L1Circuits/
Deep.v, theories/L2Compile/{Emit,Thread,Leaf}.v) and are re-proved on every
run.
"""
import os
import sys

sys.path.insert(0, os.path.join(os.path.dirname(__file__), '..'))
import py2coq  # noqa: E402
import py2coq_bitvector  # noqa: E402
from vlib.core import Broken, REPO  # noqa: E402

SRC = py2coq_bitvector.SRC
FUNCTIONS = list(py2coq_bitvector.ORDER) + [
    f'Nodes.{c}.flatten' for c in py2coq_bitvector.Translator.METHODS]


def bitvector_text():
    """(text of gen/BitvectorGen.v, translator notes, templates used)."""
    return py2coq_bitvector.file_text(REPO)


def ensure_bitvector(ctx):
    try:
        t, notes, used = bitvector_text()
    except py2coq.Refuse as e:
        raise Broken('translator', f'{SRC}: the translator refuses the '
                     f'current source: {e}')
    except (SyntaxError, OSError) as e:
        raise Broken('translator', f'{SRC}: {e}')
    except Exception as e:      # fail closed on anything unforeseen
        raise Broken('translator', f'{SRC}: translator error {e!r}')
    ctx.write_gen('gen/BitvectorGen.v', t)
    return notes, used


if __name__ == '__main__':
    print(bitvector_text()[0])
